(** Lemmas shared by the proofs about the three handshake layers (pseudo-SSL, SOCKS5, HTTP):
    an established tunnel is transparent, and a call all of whose reads are strict cannot both be
    clean and contain a short read. *)
From Coq Require Import ZArith List Bool Lia.
From Nice Require Import Stream.StreamBase Stream.StreamProofs Stream.TcpQueueModel Stream.PsslModel.
Import ListNotations.
Local Open Scope Z_scope.

Inductive strict_only {S} : prog S -> Prop :=
| so_done s r : strict_only (PDone s r)
| so_read req k : (forall d, strict_only (k d)) -> strict_only (PRead true req k)
| so_up d z p : strict_only p -> strict_only (PUp d z p)
| so_dn d p : strict_only p -> strict_only (PDn d p)
| so_mark n p : strict_only p -> strict_only (PMark n p)
| so_hdr n p : strict_only p -> strict_only (PHdr n p)
| so_fault : strict_only PFault.

Lemma strict_clean_full {S} (p : prog S) : strict_only p ->
  forall kb o k e, exec p kb = (o, k, e) -> clean e = true -> all_full e = true.
Proof.
  induction 1; intros kb o k0 e0 E C; simpl in E;
    try (destruct (exec p kb) as [[o' k'] e'] eqn:E'; inversion E; subst; simpl in *;
         try discriminate; eauto; fail).
  - inversion E; subst; reflexivity.
  - destruct (exec (k (takeZ req kb)) (dropZ req kb)) as [[o' k'] e'] eqn:E'. inversion E; subst.
    simpl in *. apply andb_true_iff in C as [C1 C2]. rewrite C1. simpl. eauto.
  - inversion E; subst; reflexivity.
Qed.

Lemma flush_queue_strict {S} q (p : prog S) : strict_only p -> strict_only (flush_queue q p).
Proof. induction q; simpl; auto. intros. constructor. auto. Qed.

(** the pass-through read hands every byte upward *)
Lemma exec_passthrough {S} (s : S) kb : kb <> [] ->
  exec (passthrough s) kb =
  (Some (s, 1), dropZ UPCAP kb, [Rd false UPCAP (lenZ (takeZ UPCAP kb)); Up (takeZ UPCAP kb) (-1); Ret 1]).
Proof.
  intros N. unfold passthrough. simpl exec.
  assert (Ld : 0 < lenZ (takeZ UPCAP kb)).
  { rewrite lenZ_takeZ. pose proof (lenZ_pos kb N). unfold UPCAP. lia. }
  destruct (Z.eqb_spec (lenZ (takeZ UPCAP kb)) 0); [lia|]. reflexivity.
Qed.

Lemma passthrough_transparent {S} (body : S -> prog S) (s : S) :
  body s = passthrough s -> transparent body vis_str s.
Proof.
  intros B fu. induction fu as [|fu IH]; intros kb w e L D.
  - destruct kb; [|simpl in L; lia]. simpl in D. inversion D; subst. auto.
  - destruct kb as [|x kb]; [simpl in D; inversion D; subst; auto|].
    simpl drain in D. rewrite B in D. rewrite exec_passthrough in D by discriminate.
    change (1 <? 0) with false in D. cbv iota in D.
    set (rest := dropZ UPCAP (x :: kb)) in *.
    assert (Lr : lenZ rest < lenZ (x :: kb)).
    { unfold rest. rewrite lenZ_dropZ. lz. pose proof (lenZ_nonneg kb). unfold UPCAP. lia. }
    destruct (Z.eqb_spec (lenZ rest) (lenZ (x :: kb))); [lia|].
    destruct (drain body fu s rest) as [w' e'] eqn:D'. inversion D; subst.
    assert (L' : (length rest <= fu)%nat).
    { rewrite !lenZ_length in Lr. simpl length in *. lia. }
    destruct (IH _ _ _ L' D') as [-> V]. split; auto.
    unfold vis in *. cbn [flat_map vis_str app]. change (0 <=? -1) with false. cbv iota. rewrite app_nil_r. rewrite V. rewrite <- map_app. f_equal.
    change (x :: takeZ (UPCAP - 1) kb) with (takeZ UPCAP (x :: kb)). unfold rest. apply takeZ_dropZ.
Qed.

Lemma exec_flush_queue {S} q (p : prog S) kb :
  exec (flush_queue q p) kb = let '(o, k, e) := exec p kb in (o, k, map Dn q ++ e).
Proof.
  induction q as [|x q IH]; simpl.
  - destruct (exec p kb) as [[o k] e]. reflexivity.
  - rewrite IH. destruct (exec p kb) as [[o k] e]. reflexivity.
Qed.

(** an established tunnel stays one and hands every byte upward, whatever the chunking *)
Lemma transparent_run {S} (body : S -> prog S) f (s : S) : transparent body f s ->
  forall cs, fst (run body {| inner := s; dead := 0 |} cs) = {| inner := s; dead := 0 |} /\
             vis f (snd (run body {| inner := s; dead := 0 |} cs)) = map OByte (concat cs).
Proof.
  intros T. induction cs as [|c cs IH]; simpl; auto.
  assert (Fd : feed body {| inner := s; dead := 0 |} c = drain body (length c) s c) by reflexivity.
  rewrite Fd. destruct (drain body (length c) s c) as [w1 e1] eqn:D.
  destruct (T _ _ _ _ (le_n _) D) as [-> V1].
  destruct (run body {| inner := s; dead := 0 |} cs) as [w2 e2]. simpl in *. destruct IH as [-> V2].
  split; auto. rewrite vis_app, V1, V2, map_app. reflexivity.
Qed.

(** a property of every way a call can return *)
Inductive leaves {S} (P : S -> Z -> Prop) : prog S -> Prop :=
| lv_done s r : P s r -> leaves P (PDone s r)
| lv_read st req k : (forall d, leaves P (k d)) -> leaves P (PRead st req k)
| lv_up d z p : leaves P p -> leaves P (PUp d z p)
| lv_dn d p : leaves P p -> leaves P (PDn d p)
| lv_mark n p : leaves P p -> leaves P (PMark n p)
| lv_hdr n p : leaves P p -> leaves P (PHdr n p)
| lv_fault : leaves P PFault.

Lemma leaves_exec {S} (P : S -> Z -> Prop) (p : prog S) : leaves P p ->
  forall kb s1 r k e, exec p kb = (Some (s1, r), k, e) -> P s1 r.
Proof.
  induction 1; intros kb s1 r0 k0 e0 E; simpl in E;
    try (destruct (exec p kb) as [[o' k'] e'] eqn:E'; inversion E; subst; eauto; fail).
  - inversion E; subst; auto.
  - destruct (exec (k (takeZ req kb)) (dropZ req kb)) as [[o' k'] e'] eqn:E'. inversion E; subst. eauto.
  - inversion E.
Qed.
Lemma flush_queue_leaves {S} P q (p : prog S) : leaves P p -> leaves P (flush_queue q p).
Proof. induction q; simpl; auto. intros. constructor. auto. Qed.

(** a call that cannot Fault, given that a read of [req] bytes obtains at most [req] bytes *)
Inductive safe {S} : prog S -> Prop :=
| sf_done s r : safe (PDone s r)
| sf_read st req k : (forall d, lenZ d <= Z.max 0 req -> safe (k d)) -> safe (PRead st req k)
| sf_up d z p : safe p -> safe (PUp d z p)
| sf_dn d p : safe p -> safe (PDn d p)
| sf_mark n p : safe p -> safe (PMark n p)
| sf_hdr n p : safe p -> safe (PHdr n p).

Lemma safe_exec {S} (p : prog S) : safe p -> forall kb k e, exec p kb = (None, k, e) -> False.
Proof.
  induction 1; intros kb k0 e0 E; simpl in E;
    try (destruct (exec p kb) as [[o' k'] e'] eqn:E'; inversion E; subst; eauto; fail).
  - inversion E.
  - destruct (exec (k (takeZ req kb)) (dropZ req kb)) as [[o' k'] e'] eqn:E'. inversion E; subst.
    eapply H0; [|exact E']. rewrite lenZ_takeZ. pose proof (lenZ_nonneg kb). lia.
Qed.
Lemma flush_queue_safe {S} q (p : prog S) : safe p -> safe (flush_queue q p).
Proof. induction q; simpl; auto. intros. constructor. auto. Qed.

(** a call that starts with a read of at least one byte makes progress on a non-empty buffer *)
Lemma read_progress {S} st req (k : list Z -> prog S) kb o k1 e : 1 <= req -> kb <> [] ->
  exec (PRead st req k) kb = (o, k1, e) -> lenZ k1 < lenZ kb.
Proof.
  intros R N E. simpl in E. destruct (exec (k (takeZ req kb)) (dropZ req kb)) as [[o' k'] e'] eqn:E'. inversion E; subst.
  apply exec_suffix in E'. rewrite lenZ_dropZ in E'. pose proof (lenZ_pos kb N). lia.
Qed.

(** programs that only issue resumable reads and take no defective path are clean *)
Inductive lax {S} : prog S -> Prop :=
| lx_done s r : lax (PDone s r)
| lx_read req k : (forall d, lax (k d)) -> lax (PRead false req k)
| lx_up d z p : lax p -> lax (PUp d z p)
| lx_dn d p : lax p -> lax (PDn d p)
| lx_hdr n p : lax p -> lax (PHdr n p)
| lx_fault : lax PFault.
Lemma lax_clean {S} (p : prog S) : lax p -> forall kb o k e, exec p kb = (o, k, e) -> clean e = true.
Proof.
  induction 1; intros kb o k0 e0 E; simpl in E;
    try (destruct (exec p kb) as [[o' k'] e'] eqn:E'; inversion E; subst; simpl; eauto; fail).
  - inversion E; subst; reflexivity.
  - destruct (exec (k (takeZ req kb)) (dropZ req kb)) as [[o' k'] e'] eqn:E'. inversion E; subst. simpl. eauto.
  - inversion E; subst; reflexivity.
Qed.
Lemma flush_queue_lax {S} q (p : prog S) : lax p -> lax (flush_queue q p).
Proof. induction q; simpl; auto. intros. constructor. auto. Qed.
Lemma passthrough_lax {S} (s : S) : lax (passthrough s).
Proof. unfold passthrough. constructor. intros d. destruct (_ =? 0); repeat constructor. Qed.

(* programs without reads leave the kernel buffer alone *)
Inductive readfree {S} : prog S -> Prop :=
| rf_done s r : readfree (PDone s r)
| rf_up d z p : readfree p -> readfree (PUp d z p)
| rf_dn d p : readfree p -> readfree (PDn d p)
| rf_mark n p : readfree p -> readfree (PMark n p)
| rf_hdr n p : readfree p -> readfree (PHdr n p)
| rf_fault : readfree PFault.
Lemma readfree_exec {S} (p : prog S) : readfree p -> forall kb o k e, exec p kb = (o, k, e) -> k = kb.
Proof.
  induction 1; intros kb o k0 e0 E; simpl in E;
    try (destruct (exec p kb) as [[o' k'] e'] eqn:E'; inversion E; subst; eauto; fail);
    inversion E; auto.
Qed.
Lemma readfree_flush {S} q (p : prog S) : readfree p -> readfree (flush_queue q p).
Proof. induction q; simpl; auto. intros. constructor. auto. Qed.
Lemma readfree_full {S} (p : prog S) : readfree p -> forall kb o k e, exec p kb = (o, k, e) -> all_full e = true.
Proof.
  induction 1; intros kb o k0 e0 E; simpl in E;
    try (destruct (exec p kb) as [[o' k'] e'] eqn:E'; inversion E; subst; simpl; eauto; fail);
    inversion E; reflexivity.
Qed.

(** a property of every way a call can return, given that a read of [req] bytes obtains at most [req] *)
Inductive bleaves {S} (P : S -> Z -> Prop) : prog S -> Prop :=
| bl_done s r : P s r -> bleaves P (PDone s r)
| bl_read st req k : (forall d, lenZ d <= Z.max 0 req -> bleaves P (k d)) -> bleaves P (PRead st req k)
| bl_up d z p : bleaves P p -> bleaves P (PUp d z p)
| bl_dn d p : bleaves P p -> bleaves P (PDn d p)
| bl_mark n p : bleaves P p -> bleaves P (PMark n p)
| bl_hdr n p : bleaves P p -> bleaves P (PHdr n p)
| bl_fault : bleaves P PFault.
Lemma bleaves_exec {S} (P : S -> Z -> Prop) (p : prog S) : bleaves P p ->
  forall kb s1 r k e, exec p kb = (Some (s1, r), k, e) -> P s1 r.
Proof.
  induction 1; intros kb s1 r0 k0 e0 E; simpl in E;
    try (destruct (exec p kb) as [[o' k'] e'] eqn:E'; inversion E; subst; eauto; fail).
  - inversion E; subst; auto.
  - destruct (exec (k (takeZ req kb)) (dropZ req kb)) as [[o' k'] e'] eqn:E'. inversion E; subst.
    eapply H0; [|exact E']. rewrite lenZ_takeZ. pose proof (lenZ_nonneg kb). lia.
  - inversion E.
Qed.
Lemma leaves_bleaves {S} (P : S -> Z -> Prop) (p : prog S) : leaves P p -> bleaves P p.
Proof. induction 1; constructor; auto. Qed.
Lemma flush_queue_bleaves {S} P q (p : prog S) : bleaves P p -> bleaves P (flush_queue q p).
Proof. induction q; simpl; auto. intros. constructor. auto. Qed.

(** the same, and no Fault can be reached *)
Inductive bok {S} (P : S -> Z -> Prop) : prog S -> Prop :=
| bk_done s r : P s r -> bok P (PDone s r)
| bk_read st req k : (forall d, lenZ d <= Z.max 0 req -> bok P (k d)) -> bok P (PRead st req k)
| bk_up d z p : bok P p -> bok P (PUp d z p)
| bk_dn d p : bok P p -> bok P (PDn d p)
| bk_mark n p : bok P p -> bok P (PMark n p)
| bk_hdr n p : bok P p -> bok P (PHdr n p).
Lemma bok_exec {S} (P : S -> Z -> Prop) (p : prog S) : bok P p ->
  forall kb o k e, exec p kb = (o, k, e) -> exists s1 r, o = Some (s1, r) /\ P s1 r.
Proof.
  induction 1; intros kb o k0 e0 E; simpl in E;
    try (destruct (exec p kb) as [[o' k'] e'] eqn:E'; inversion E; subst; eauto; fail).
  - inversion E; subst; eauto.
  - destruct (exec (k (takeZ req kb)) (dropZ req kb)) as [[o' k'] e'] eqn:E'. inversion E; subst.
    eapply H0; [|exact E']. rewrite lenZ_takeZ. pose proof (lenZ_nonneg kb). lia.
Qed.
Lemma flush_queue_bok {S} P q (p : prog S) : bok P p -> bok P (flush_queue q p).
Proof. induction q; simpl; auto. intros. constructor. auto. Qed.
