(** Executable model of the receive and send paths of socket/udp-turn-over-tcp.c.
    [turn_body] is one call of socket_recv_messages with one message (what the agent passes);
    [recv_buf] is a 65556-byte checked array: the largest frame a header can announce (20 + 65535 bytes
    of STUN message, padded to a multiple of 4) fits.  No proofs in this file. *)
From Coq Require Import ZArith List Bool.
From Nice Require Import Stream.StreamBase.
Import ListNotations.
Local Open Scope Z_scope.

Definition DRAFT9 := 0. Definition GOOGLE := 1. Definition MSN := 2. Definition OC2007 := 3. Definition RFC5766 := 4.
Definition RECV_BUF_SIZE : Z := 65556.   (* 20 + 65535 bytes of STUN message + padding to a multiple of 4 *)

Record tst := { t_compat : Z; t_buf : list Z; t_len : Z; t_exp : Z }.

Definition turn_init (compat : Z) : tst :=
  {| t_compat := compat; t_buf := repZ 0 (Z.to_nat RECV_BUF_SIZE); t_len := 0; t_exp := 0 |}.

Definition is_rfc (c : Z) : bool := (c =? DRAFT9) || (c =? RFC5766).
Definition hdrlen (c : Z) : option Z :=
  if is_rfc c || (c =? OC2007) then Some 4 else if c =? GOOGLE then Some 2 else None.
Definition padlen (c exp : Z) : Z :=
  if is_rfc c then (if exp mod 4 =? 0 then 0 else 4 - exp mod 4) else 0.

(** second half of socket_recv_message: read the rest of the frame, deliver it when complete.
    [turn_payload_k s tot d]: what happens after the read obtained [d] *)
Definition turn_payload_k (s : tst) (tot : Z) (d : list Z) : prog tst :=
  match mwrite (t_buf s) (t_len s) d with
  | None => PFault
  | Some buf1 =>
    let len1 := t_len s + lenZ d in
    if len1 =? tot then
      match mreadn buf1 0 len1 with
      | None => PFault
      | Some m =>
          let m' := takeZ UPCAP m in
          let idle := {| t_compat := t_compat s; t_buf := buf1; t_len := 0; t_exp := 0 |} in
          if 0 <? lenZ m' then PUp m' (-1) (PDone idle 1) else PDone idle 0
      end
    else PDone {| t_compat := t_compat s; t_buf := buf1; t_len := len1; t_exp := t_exp s |} 0
  end.
Definition turn_tot (s : tst) : Z := w32 (t_exp s + padlen (t_compat s) (t_exp s)).
Definition turn_payload (s : tst) : prog tst :=
  PRead false (w64 (turn_tot s - t_len s)) (turn_payload_k s (turn_tot s)).
(* entered right after a header was decoded: note how much buffer the frame needs *)
Definition turn_frame_start (s : tst) : prog tst := PHdr (turn_tot s) (turn_payload s).

(** header just completed: decide how long the frame is *)
Definition turn_header (c : Z) (buf : list Z) (len : Z) : prog tst :=
  match mread buf 0, mread buf 1, mread buf 2, mread buf 3 with
  | Some b0, Some b1, Some b2, Some b3 =>
    if is_rfc c then
      let magic := be16 b0 b1 in
      let plen := be16 b2 b3 in
      turn_frame_start {| t_compat := c; t_buf := buf; t_len := len; t_exp := (if magic <? 16384 then 20 else 4) + plen |}
    else if c =? GOOGLE then
      turn_frame_start {| t_compat := c; t_buf := buf; t_len := 0; t_exp := be16 b0 b1 |}
    else (* OC2007 *)
      if negb (b0 =? 2) && negb (b0 =? 3) then PDone {| t_compat := c; t_buf := buf; t_len := len; t_exp := 0 |} (-1)
      else
        match mwrite buf 0 [b2; b3] with
        | None => PFault
        | Some buf' => turn_frame_start {| t_compat := c; t_buf := buf'; t_len := 2; t_exp := be16 b2 b3 + 2 |}
        end
  | _, _, _, _ => PFault
  end.

(** first half: what happens after the header read obtained [d] *)
Definition turn_hdr_k (s : tst) (hl : Z) (d : list Z) : prog tst :=
  match mwrite (t_buf s) (t_len s) d with
  | None => PFault
  | Some buf1 =>
    let len1 := t_len s + lenZ d in
    if len1 <? hl then PDone {| t_compat := t_compat s; t_buf := buf1; t_len := len1; t_exp := 0 |} 0
    else turn_header (t_compat s) buf1 len1
  end.

Definition turn_body (s : tst) : prog tst :=
  if t_exp s =? 0 then
    match hdrlen (t_compat s) with
    | None => PDone s (-1)
    | Some hl => PRead false (w64 (hl - t_len s)) (turn_hdr_k s hl)
    end
  else turn_payload s.

(** send path: the bytes handed to the base socket for one message given as a list of buffers *)
Definition TURN_MAGIC_COOKIE : list Z := [114; 198; 75; 198].   (* 0x72c64bc6 *)
Definition COOKIE_OFF : Z := 26.

Fixpoint oc_cookie (bufs : list (list Z)) (boff : Z) : list Z :=
  match bufs with
  | [] => [0; 0; 0; 0]
  | b :: t =>
      if COOKIE_OFF - boff <? lenZ b then
        (if 4 + COOKIE_OFF - boff <? lenZ b then takeZ 4 (dropZ (COOKIE_OFF - boff) b) else [0; 0; 0; 0])
      else oc_cookie t (w16 (boff + lenZ b))
  end.

Definition turn_frame (c : Z) (bufs : list (list Z)) : list Z :=
  let body := concat bufs in
  let n := lenZ body in
  if c =? GOOGLE then [w16 n / 256; w16 n mod 256] ++ body
  else if is_rfc c then body ++ repZ 0 (Z.to_nat (if n mod 4 =? 0 then 0 else 4 - n mod 4))
  else if c =? OC2007 then
    let len16 := w16 n in
    let cookie := if 4 + COOKIE_OFF <? len16 then oc_cookie bufs 0 else [0; 0; 0; 0] in
    [ (if list_eqb cookie TURN_MAGIC_COOKIE then 2 else 3); 0 ] ++ body
  else body.

(* the scripted base socket accepts every send; socket_send_messages reports a zero-length frame as
   "would block" (0), socket_send_messages_reliable reports the number of messages *)
Definition turn_send (s : tst) (reliable : bool) (bufs : list (list Z)) : list ev :=
  let f := turn_frame (t_compat s) bufs in
  [Dn f; Snd (if reliable then 1 else if lenZ f =? 0 then 0 else 1)].
