(** Executable model of socket/socks5.c: each reply is collected in recv_buf[22] / recv_len across reads
    (socks5_fill) before it is looked at.  No proofs here. *)
From Coq Require Import ZArith List Bool.
From Nice Require Import Stream.StreamBase Stream.TcpQueueModel Stream.PsslModel.
Import ListNotations.
Local Open Scope Z_scope.

Definition SK_INIT := 0. Definition SK_AUTH := 1. Definition SK_CONNECT := 2. Definition SK_CONNECTED := 3. Definition SK_ERROR := 4.

Record sst := { s_state : Z; s_base : bool; s_user : option (list Z); s_pass : option (list Z);
                s_addr : list Z; s_queue : list (list Z); s_rbuf : list Z; s_rlen : Z }.

Definition socks_init (user pass : option (list Z)) (addr : list Z) : sst :=
  {| s_state := SK_INIT; s_base := true; s_user := user; s_pass := pass; s_addr := addr; s_queue := [];
     s_rbuf := repZ 0 22; s_rlen := 0 |}.
Definition has_auth (s : sst) : bool := match s_user s, s_pass s with None, None => false | _, _ => true end.
Definition socks_greeting (s : sst) : list Z := if has_auth s then [5; 2; 0; 2] else [5; 1; 0].

Definition upd (s : sst) (st : Z) (q : list (list Z)) (rb : list Z) (rl : Z) : sst :=
  {| s_state := st; s_base := s_base s; s_user := s_user s; s_pass := s_pass s; s_addr := s_addr s; s_queue := q;
     s_rbuf := rb; s_rlen := rl |}.
Definition socks_error (s : sst) : prog sst :=
  PDone {| s_state := SK_ERROR; s_base := false; s_user := s_user s; s_pass := s_pass s; s_addr := s_addr s;
           s_queue := s_queue s; s_rbuf := s_rbuf s; s_rlen := s_rlen s |} (-1).

Definition socks_connect_msg (s : sst) : list Z :=
  [5; 1; 0] ++ (if lenZ (s_addr s) =? 6 then [1] else [4]) ++ s_addr s.
Definition send_connect (s : sst) : prog sst :=
  PDn (socks_connect_msg s) (PDone (upd s SK_CONNECT (s_queue s) (s_rbuf s) (s_rlen s)) 0).

Definition olen (o : option (list Z)) : Z := match o with Some l => lenZ l | None => 0 end.
Definition oget_l (o : option (list Z)) : list Z := match o with Some l => l | None => [] end.

(* socks5_fill: continuation after the read obtained [d] *)
Definition fill_k (s : sst) (want : Z) (kdone : sst -> prog sst) (d : list Z) : prog sst :=
  if lenZ d =? 0 then PDone s 0
  else match mwrite (s_rbuf s) (s_rlen s) d with
       | None => PFault
       | Some rb =>
         let s' := upd s (s_state s) (s_queue s) rb (s_rlen s + lenZ d) in
         if want <=? s_rlen s' then kdone s' else PDone s' 0
       end.
(* socks5_fill (priv, want): [kdone] when the bytes are there, [kneg] when there is no base socket;
   "need more" returns 0 from socket_recv_messages in every caller *)
Definition fill (s : sst) (want : Z) (kdone : sst -> prog sst) (kneg : prog sst) : prog sst :=
  if 22 <? want then PFault                       (* g_assert (want <= sizeof recv_buf) *)
  else if want <=? s_rlen s then kdone s
  else if s_base s then PRead false (w64 (want - s_rlen s)) (fill_k s want kdone)
  else kneg.

Definition at_ (data : list Z) (i : Z) (k : Z -> prog sst) : prog sst :=
  match mread data i with None => PFault | Some v => k v end.

Definition socks_init_done (s : sst) : prog sst :=
  let s0 := upd s (s_state s) (s_queue s) (s_rbuf s) 0 in      (* recv_len = 0 *)
  at_ (s_rbuf s) 0 (fun d0 => at_ (s_rbuf s) 1 (fun d1 =>
    if d0 =? 5 then
      if d1 =? 2 then
        if has_auth s0 then
          let ulen := olen (s_user s0) in let plen := olen (s_pass s0) in
          if 255 <? ulen then socks_error s0
          else if 255 <? plen then socks_error s0
          else PDn ([1; ulen] ++ oget_l (s_user s0) ++ [plen] ++ oget_l (s_pass s0))
                   (PDone (upd s0 SK_AUTH (s_queue s0) (s_rbuf s0) 0) 0)
        else socks_error s0
      else if d1 =? 0 then send_connect s0
      else socks_error s0
    else socks_error s0)).

Definition socks_auth_done (s : sst) : prog sst :=
  let s0 := upd s (s_state s) (s_queue s) (s_rbuf s) 0 in
  at_ (s_rbuf s) 0 (fun d0 => at_ (s_rbuf s) 1 (fun d1 =>
    if (d0 =? 1) && (d1 =? 0) then send_connect s0 else socks_error s0)).

Definition socks_tail_done (s : sst) : prog sst :=
  flush_queue (s_queue s) (PDone (upd s SK_CONNECTED [] (s_rbuf s) 0) 0).

(* the first four bytes of the connect reply: how long the whole reply is (None = refused / malformed) *)
Definition head_class (d0 d1 d2 d3 : Z) : option Z :=
  if d0 =? 5 then
    if d1 =? 0 then
      if d2 =? 0 then
        if d3 =? 1 then Some (4 + 6) else if d3 =? 4 then Some (4 + 18) else None
      else None
    else None
  else None.

Definition socks_head_done (s : sst) : prog sst :=
  at_ (s_rbuf s) 0 (fun d0 => at_ (s_rbuf s) 1 (fun d1 => at_ (s_rbuf s) 2 (fun d2 => at_ (s_rbuf s) 3 (fun d3 =>
    match head_class d0 d1 d2 d3 with
    | Some w => fill s w socks_tail_done (socks_error s)
    | None => socks_error s
    end)))).

Definition socks_body (s : sst) : prog sst :=
  let st := s_state s in
  if st =? SK_CONNECTED then (if s_base s then passthrough s else PDone s (-1))
  else if st =? SK_INIT then fill s 2 socks_init_done (PDone s (-1))
  else if st =? SK_AUTH then fill s 2 socks_auth_done (PDone s (-1))
  else if st =? SK_CONNECT then fill s 4 socks_head_done (PDone s (-1))
  else socks_error s.

Definition socks_send (s : sst) (reliable : bool) (bufs : list (list Z)) : sst * list ev :=
  if s_state s =? SK_CONNECTED then
    if s_base s then (s, [Dn (concat bufs); Snd 1]) else (s, [Snd (-1)])
  else if s_state s =? SK_ERROR then (s, [Snd (-1)])
  else if reliable then (upd s (s_state s) (queue_send (s_queue s) bufs) (s_rbuf s) (s_rlen s), [Snd 1])
  else (s, [Snd 0]).
