(** Executable model of socket/socks5.c.  The local arrays data[2] / data[22] are uninitialised
    (value G) before the read, and the code tests the buffer *size* instead of the received length,
    so a short read leaves G in the tail of the array.  No proofs here. *)
From Coq Require Import ZArith List Bool.
From Nice Require Import Stream.StreamBase Stream.TcpQueueModel Stream.PsslModel.
Import ListNotations.
Local Open Scope Z_scope.

Definition SK_INIT := 0. Definition SK_AUTH := 1. Definition SK_CONNECT := 2. Definition SK_CONNECTED := 3. Definition SK_ERROR := 4.

Record sst := { s_state : Z; s_base : bool; s_user : option (list Z); s_pass : option (list Z);
                s_addr : list Z; s_queue : list (list Z) }.

Definition socks_init (user pass : option (list Z)) (addr : list Z) : sst :=
  {| s_state := SK_INIT; s_base := true; s_user := user; s_pass := pass; s_addr := addr; s_queue := [] |}.
Definition has_auth (s : sst) : bool := match s_user s, s_pass s with None, None => false | _, _ => true end.
Definition socks_greeting (s : sst) : list Z := if has_auth s then [5; 2; 0; 2] else [5; 1; 0].

Definition set_state (s : sst) (st : Z) (q : list (list Z)) : sst :=
  {| s_state := st; s_base := s_base s; s_user := s_user s; s_pass := s_pass s; s_addr := s_addr s; s_queue := q |}.
Definition socks_error (s : sst) : prog sst :=
  PDone {| s_state := SK_ERROR; s_base := false; s_user := s_user s; s_pass := s_pass s; s_addr := s_addr s; s_queue := s_queue s |} (-1).

Definition socks_connect_msg (s : sst) : list Z :=
  [5; 1; 0] ++ (if lenZ (s_addr s) =? 6 then [1] else [4]) ++ s_addr s.
Definition send_connect (s : sst) : prog sst := PDn (socks_connect_msg s) (PDone (set_state s SK_CONNECT (s_queue s)) 0).

Definition olen (o : option (list Z)) : Z := match o with Some l => lenZ l | None => 0 end.
Definition oget_l (o : option (list Z)) : list Z := match o with Some l => l | None => [] end.

(** read [n] bytes into the local array [data] (cap bytes, all G before) at offset 0 *)
Definition read_into (G cap n : Z) (k : list Z -> list Z -> prog sst) : prog sst :=
  PRead true n (fun d => match mwrite (repZ G (Z.to_nat cap)) 0 d with None => PFault | Some data => k d data end).

Definition at_ (data : list Z) (i : Z) (k : Z -> prog sst) : prog sst :=
  match mread data i with None => PFault | Some v => k v end.

Definition socks_body (G : Z) (s : sst) : prog sst :=
  let st := s_state s in
  if st =? SK_CONNECTED then (if s_base s then passthrough s else PDone s (-1))
  else if st =? SK_INIT then
    if s_base s then
      read_into G 2 2 (fun d data =>
        if lenZ d =? 0 then PDone s 0 else
        at_ data 0 (fun d0 => at_ data 1 (fun d1 =>
          if d0 =? 5 then
            if d1 =? 2 then
              if has_auth s then
                let ulen := olen (s_user s) in let plen := olen (s_pass s) in
                if 255 <? ulen then socks_error s
                else if 255 <? plen then socks_error s
                else PDn ([1; ulen] ++ oget_l (s_user s) ++ [plen] ++ oget_l (s_pass s))
                         (PDone (set_state s SK_AUTH (s_queue s)) 0)
              else socks_error s
            else if d1 =? 0 then send_connect s
            else socks_error s
          else socks_error s)))
    else PDone s (-1)
  else if st =? SK_AUTH then
    if s_base s then
      read_into G 2 2 (fun d data =>
        if lenZ d =? 0 then PDone s 0 else
        at_ data 0 (fun d0 => at_ data 1 (fun d1 =>
          if (d0 =? 1) && (d1 =? 0) then send_connect s else socks_error s)))
    else PDone s (-1)
  else if st =? SK_CONNECT then
    if s_base s then
      read_into G 22 4 (fun d data =>
        if lenZ d =? 0 then PDone s 0 else
        at_ data 0 (fun d0 => at_ data 1 (fun d1 => at_ data 2 (fun d2 => at_ data 3 (fun d3 =>
          if d0 =? 5 then
            if d1 =? 0 then
              if d2 =? 0 then
                let tail (n : Z) :=
                  PRead true n (fun t =>
                    match mwrite data 0 t with
                    | None => PFault
                    | Some _ => if lenZ t =? 0 then socks_error s
                                else flush_queue (s_queue s) (PDone (set_state s SK_CONNECTED []) 0)
                    end) in
                if d3 =? 1 then tail 6 else if d3 =? 4 then tail 18 else socks_error s
              else socks_error s
            else socks_error s
          else socks_error s)))))
    else PDone s (-1)
  else socks_error s.

Definition socks_send (s : sst) (reliable : bool) (bufs : list (list Z)) : sst * list ev :=
  if s_state s =? SK_CONNECTED then
    if s_base s then (s, [Dn (concat bufs); Snd 1]) else (s, [Snd (-1)])
  else if s_state s =? SK_ERROR then (s, [Snd (-1)])
  else if reliable then (set_state s (s_state s) (queue_send (s_queue s) bufs), [Snd 1])
  else (s, [Snd 0]).
