(** Executable model of socket/http.c: the reply parser over its ring buffer ([h_buf], a checked
    array whose length is recv_buf_length), buffer growth (a fresh g_malloc'ed block, content linearised,
    the rest = G), the assertions of assert_ring_buffer_valid (a violated one is a Fault), body skipping,
    the hand-over of bytes that followed the reply (what does not fit the caller's buffer stays in the ring and
    is handed out by the next calls, before the base socket is read again), and the pass-through once connected.
    [cap] = size of the caller's receive buffer (one message, one buffer), a parameter of every call.
    Instrumentation (not part of the code's behaviour):
      - the Content-Length digit loop reports whether it evaluated GET_BYTE at or past recv_buf_fill
        ([PMark 1]); HttpProofs.v shows that this never happens;
    No proofs in this file. *)
From Coq Require Import ZArith List Bool.
From Nice Require Import Stream.StreamBase Stream.TcpQueueModel Stream.PsslModel.
Import ListNotations.
Local Open Scope Z_scope.

Definition HT_INIT := 0. Definition HT_HEADERS := 1. Definition HT_BODY := 2. Definition HT_CONNECTED := 3. Definition HT_ERROR := 4.
Definition MAXSIZE : Z := 18446744073709551615.

Record hst := { h_state : Z; h_base : bool; h_queue : list (list Z);
                h_buf : list Z; h_pos : Z; h_fill : Z; h_cl : Z }.

Definition http_init : hst :=
  {| h_state := HT_INIT; h_base := true; h_queue := []; h_buf := []; h_pos := 0; h_fill := 0; h_cl := 0 |}.

(** results of the pure parsing steps *)
Inductive pr (A : Type) := PrFault | PrNeed | PrErr | PrOk (a : A).
Arguments PrFault {A}. Arguments PrNeed {A}. Arguments PrErr {A}. Arguments PrOk {A}.

Section Ring.
Variables (buf : list Z) (L pos fill : Z).

(* GET_BYTE(p) = recv_buf[(p + recv_buf_pos) % recv_buf_length] *)
Definition gb (p : Z) : option Z := mread buf ((p + pos) mod L).

(* EAT_WHITESPACE *)
Fixpoint eat_ws (fuel : nat) (p : Z) : pr Z :=
  match fuel with
  | O => PrFault
  | S f => if p <? fill then
             match gb p with None => PrFault | Some c => if c =? 32 then eat_ws f (p + 1) else PrOk p end
           else PrNeed
  end.

(* while (pos + 1 < fill && GET_BYTE(pos) != '\r' && GET_BYTE(pos + 1) != '\n') pos++; *)
Fixpoint skip_line (fuel : nat) (p : Z) : pr Z :=
  match fuel with
  | O => PrFault
  | S f => if p + 1 <? fill then
             match gb p with
             | None => PrFault
             | Some c => if c =? 13 then PrOk p else
                 match gb (p + 1) with
                 | None => PrFault
                 | Some c' => if c' =? 10 then PrOk p else skip_line f (p + 1)
                 end
             end
           else PrOk p
  end.

(* bytes at p.. equal to [pat] (exact, left to right, stopping at the first difference) *)
Fixpoint match_exact (p : Z) (pat : list Z) : pr bool :=
  match pat with
  | [] => PrOk true
  | c :: t => match gb p with None => PrFault | Some x => if x =? c then match_exact (p + 1) t else PrOk false end
  end.
(* letters in either case *)
Fixpoint match_ci (p : Z) (pat : list Z) : pr bool :=
  match pat with
  | [] => PrOk true
  | c :: t => match gb p with
              | None => PrFault
              | Some x => if (x =? c) || ((97 <=? c) && (c <=? 122) && (x =? c - 32)) then match_ci (p + 1) t else PrOk false
              end
  end.

Definition is_digit (c : Z) : bool := (48 <=? c) && (c <=? 57).

Definition fuel_of : nat := Datatypes.S (Datatypes.S (Z.to_nat fill)).

(** HTTP_STATE_INIT: the status line; [PrOk n] = n bytes to consume *)
Definition parse_init : pr Z :=
  match eat_ws fuel_of 0 with
  | PrOk p0 =>
    if fill <? p0 + 7 then PrNeed else
    match match_exact p0 [72; 84; 84; 80; 47; 49; 46] with     (* "HTTP/1." *)
    | PrOk true =>
      let p1 := p0 + 7 in
      if fill <=? p1 then PrNeed else
      match gb p1 with
      | None => PrFault
      | Some v =>
        if negb (v =? 48) && negb (v =? 49) then PrErr else
        let p2 := p1 + 1 in
        if fill <=? p2 then PrNeed else
        match gb p2 with
        | None => PrFault
        | Some sp =>
          if negb (sp =? 32) then PrErr else
          match eat_ws fuel_of p2 with
          | PrOk p3 =>
            if fill <? p3 + 3 then PrNeed else
            match gb p3, gb (p3 + 1), gb (p3 + 2) with
            | Some a, Some b, Some c =>
              if negb (a =? 50) || negb (is_digit b) || negb (is_digit c) then PrErr else
              match skip_line fuel_of p3 with
              | PrOk p4 => if fill <=? p4 + 1 then PrNeed else PrOk (p4 + 2)
              | PrFault => PrFault | PrNeed => PrNeed | PrErr => PrErr
              end
            | _, _, _ => PrFault
            end
          | PrFault => PrFault | PrNeed => PrNeed | PrErr => PrErr
          end
        end
      end
    | PrOk false => PrErr
    | PrFault => PrFault | PrNeed => PrNeed | PrErr => PrErr
    end
  | PrFault => PrFault | PrNeed => PrNeed | PrErr => PrErr
  end.

(** the Content-Length digit loop; result: (how it ended, position, content_length, read a stale slot?) *)
Inductive dres := DBreak (p cl : Z) | DNeed (cl : Z) | DErr | DFault.
Fixpoint digits (fuel : nat) (p cl : Z) (stale : bool) : dres * bool :=
  match fuel with
  | O => (DFault, stale)
  | S f =>
    let stale' := stale || (fill <=? p) in
    match gb p with
    | None => (DFault, stale')
    | Some byte =>
      if byte =? 13 then (DBreak p cl, stale')
      else if negb (is_digit byte) then (DErr, stale')
      else
        let val := byte - 48 in
        if (MAXSIZE / 10 <? cl) || (MAXSIZE - val <? cl * 10) then (DBreak p 0, stale')
        else
          let cl' := cl * 10 + val in
          if fill <=? p + 1 then (DNeed cl', stale') else digits f (p + 1) cl' stale'
    end
  end.

(** HTTP_STATE_HEADERS, one header line.
    Result: ((outcome, content_length afterwards), stale); PrOk n = consume n bytes (n = 2: empty line) *)
Definition CONTENT_LENGTH : list Z := [99; 111; 110; 116; 101; 110; 116; 45; 108; 101; 110; 103; 116; 104; 58].
(* "Skip over the header": find the end of the line, consume it *)
Definition hdr_finish (p cl' : Z) (stale : bool) : pr Z * Z * bool :=
  match skip_line fuel_of p with
  | PrOk p4 => if fill <=? p4 + 1 then (PrNeed, cl', stale) else (PrOk (p4 + 2), cl', stale)
  | PrFault => (PrFault, cl', stale) | PrNeed => (PrNeed, cl', stale) | PrErr => (PrErr, cl', stale)
  end.
Definition parse_header (cl : Z) : pr Z * Z * bool :=
  let finish := hdr_finish in
  if 15 <? fill then
    match match_ci 0 CONTENT_LENGTH with
    | PrOk true =>
      match eat_ws fuel_of 15 with
      | PrOk p =>
        match digits fuel_of p 0 false with
        | (DBreak p' cl', st) => finish p' cl' st
        | (DNeed cl', st) => (PrNeed, cl', st)
        | (DErr, st) => (PrErr, 0, st)
        | (DFault, st) => (PrFault, 0, st)
        end
      | PrFault => (PrFault, cl, false) | PrNeed => (PrNeed, cl, false) | PrErr => (PrErr, cl, false)
      end
    | PrOk false => finish 0 cl false
    | PrFault => (PrFault, cl, false) | PrNeed => (PrNeed, cl, false) | PrErr => (PrErr, cl, false)
    end
  else finish 0 cl false.
End Ring.

Definition with_ring (s : hst) (st pos fill cl : Z) : hst :=
  {| h_state := st; h_base := h_base s; h_queue := h_queue s; h_buf := h_buf s; h_pos := pos; h_fill := fill; h_cl := cl |}.
Definition http_error (s : hst) : prog hst :=
  PDone {| h_state := HT_ERROR; h_base := false; h_queue := h_queue s; h_buf := h_buf s;
           h_pos := h_pos s; h_fill := h_fill s; h_cl := h_cl s |} (-1).
Definition mark_if {S} (b : bool) (n : Z) (p : prog S) : prog S := if b then PMark n p else p.

(** memcpy_ring_buffer_to_input_messages for one message with one buffer of [cap] bytes: pops up to [cap]
    bytes off the ring; result (bytes copied = message->length, recv_buf_pos, recv_buf_fill afterwards) *)
Definition ring_pop (cap : Z) (s : hst) : option (list Z * Z * Z) :=
  let L := lenZ (h_buf s) in
  if L <? h_pos s + h_fill s then
    let len1 := Z.min (L - h_pos s) cap in
    match mreadn (h_buf s) (h_pos s) len1 with
    | None => None
    | Some d1 =>
      let len2 := Z.min (h_fill s - len1) (cap - len1) in
      match mreadn (h_buf s) 0 len2 with
      | None => None
      | Some d2 => let c := len1 + len2 in Some (d1 ++ d2, (h_pos s + c) mod L, h_fill s - c)
      end
    end
  else
    let len := Z.min (h_fill s) cap in
    match mreadn (h_buf s) (h_pos s) len with
    | None => None
    | Some d1 => Some (d1, (h_pos s + len) mod L, h_fill s - len)
    end.

(** case HTTP_STATE_CONNECTED of the parser: hand over what followed the reply (as much as fits the caller's
    buffer; the rest stays in the ring and is handed out by the following calls) + flush of the send queue *)
Definition http_handover (cap : Z) (s : hst) : prog hst :=
  let conn (pos' fill' : Z) :=
    {| h_state := HT_CONNECTED; h_base := h_base s; h_queue := []; h_buf := h_buf s;
       h_pos := pos'; h_fill := fill'; h_cl := h_cl s |} in
  if 0 <? h_fill s then
    match ring_pop cap s with
    | None => PFault
    | Some (data, pos', fill') => flush_queue (h_queue s) (PUp data (-1) (PDone (conn pos' fill') 1))
    end
  else flush_queue (h_queue s) (PDone (conn (h_pos s) (h_fill s)) 0).

(** the `retry:` loop *)
Fixpoint http_parse (cap : Z) (fuel : nat) (s : hst) : prog hst :=
  match fuel with
  | O => PFault
  | Datatypes.S f =>
    let L := lenZ (h_buf s) in
    let st := h_state s in
    if st =? HT_INIT then
      match parse_init (h_buf s) L (h_pos s) (h_fill s) with
      | PrOk n => http_parse cap f (with_ring s HT_HEADERS ((h_pos s + n) mod L) (h_fill s - n) 0)
      | PrNeed => PDone s 0
      | PrErr => http_error s
      | PrFault => PFault
      end
    else if st =? HT_HEADERS then
      match parse_header (h_buf s) L (h_pos s) (h_fill s) (h_cl s) with
      | (r, cl', stale) =>
        mark_if stale 1
        match r with
        | PrOk n => http_parse cap f (with_ring s (if n =? 2 then HT_BODY else HT_HEADERS) ((h_pos s + n) mod L) (h_fill s - n) cl')
        | PrNeed => PDone (with_ring s HT_HEADERS (h_pos s) (h_fill s) cl') 0
        | PrErr => http_error (with_ring s HT_HEADERS (h_pos s) (h_fill s) cl')
        | PrFault => PFault
        end
      end
    else if st =? HT_BODY then
      if h_cl s =? 0 then http_parse cap f (with_ring s HT_CONNECTED (h_pos s) (h_fill s) (h_cl s))
      else if h_fill s =? 0 then PDone s 0
      else let c := Z.min (h_cl s) (h_fill s) in
           http_parse cap f (with_ring s HT_BODY ((h_pos s + c) mod L) (h_fill s - c) (h_cl s - c))
    else if st =? HT_CONNECTED then http_handover cap s
    else http_error s
  end.

(* assert_ring_buffer_valid *)
Definition ring_valid (L pos fill : Z) : bool := (fill <=? L) && ((pos =? 0) || (pos <? L)).

(* "Has the buffer filled up?": a new block of max(2*length, 1024) bytes (uninitialised = G), the content copied
   to its front (tail part first, then the wrapped part), recv_buf_pos = 0.  Result: buffer, pos. *)
Definition http_grow (G : Z) (s : hst) : option (list Z * Z) :=
  let L0 := lenZ (h_buf s) in
  if h_fill s =? L0 then
    let L := Z.max (L0 * 2) 1024 in
    if 0 <? h_fill s then
      let tail := Z.min (h_fill s) (L0 - h_pos s) in
      match mreadn (h_buf s) (h_pos s) tail, mreadn (h_buf s) 0 (h_fill s - tail) with
      | Some d1, Some d2 => Some (d1 ++ d2 ++ repZ G (Z.to_nat (L - h_fill s)), 0)
      | _, _ => None
      end
    else Some (repZ G (Z.to_nat L), 0)
  else Some (h_buf s, h_pos s).

(** pass-through read of the caller's message (one buffer of [cap] bytes) *)
Definition passthrough_cap {S} (cap : Z) (s : S) : prog S :=
  PRead false cap (fun d => if lenZ d =? 0 then PDone s 0 else PUp d (-1) (PDone s 1)).

(** one call of socket_recv_messages with one message of one [cap]-byte buffer *)
Definition http_body (cap G : Z) (s : hst) : prog hst :=
  if h_state s =? HT_CONNECTED then
    (if 0 <? h_fill s then
       (* what is left in the ring is handed out before the base socket is read again *)
       match ring_pop cap s with
       | None => PFault
       | Some (data, pos', fill') => PUp data (-1) (PDone (with_ring s HT_CONNECTED pos' fill' (h_cl s)) 1)
       end
     else if h_base s then passthrough_cap cap s else PDone s (-1))
  else
    match http_grow G s with
    | None => PFault
    | Some (buf, pos) =>
     let L := lenZ buf in
     if negb (ring_valid L pos (h_fill s)) then PFault else
     let wrapped := L <? pos + h_fill s in
     let off0 := if wrapped then (pos + h_fill s) mod L else pos + h_fill s in
     let size0 := if wrapped then L - h_fill s else L - (pos + h_fill s) in
     let size1 := if wrapped then 0 else pos in
     let s0 := {| h_state := h_state s; h_base := h_base s; h_queue := h_queue s; h_buf := buf;
                  h_pos := pos; h_fill := h_fill s; h_cl := h_cl s |} in
     if h_base s then
       PRead false (size0 + size1) (fun d =>
         if lenZ d =? 0 then PDone s0 0 else
         let d0 := takeZ size0 d in let d1 := dropZ size0 d in
         match mwrite buf off0 d0 with
         | None => PFault
         | Some b1 =>
           match mwrite b1 0 d1 with
           | None => PFault
           | Some b2 =>
             let fill' := h_fill s + lenZ d in
             if negb (ring_valid L pos fill') then PFault else
             http_parse cap (Datatypes.S (Datatypes.S (Datatypes.S (Datatypes.S (Datatypes.S (Z.to_nat fill'))))))
               {| h_state := h_state s; h_base := true; h_queue := h_queue s; h_buf := b2;
                  h_pos := pos; h_fill := fill'; h_cl := h_cl s |}
           end
         end)
     else PDone s0 (-1)
    end.

(** one readable event: the agent's read loop (component_io_cb) calls recv_messages until it would block.
    The fuel bounds the number of calls: every call but the last consumes a byte of the chunk or pops a byte
    off the ring, and a call that delivered may be followed by one that finds nothing. *)
Definition http_fuel (s : hst) (chunk : list Z) : nat :=
  Datatypes.S (Datatypes.S (4 * (Z.to_nat (h_fill s) + length chunk))).
Definition http_feed (cap G : Z) (w : wst hst) (chunk : list Z) : wst hst * list ev :=
  if dead w =? 0 then drainw (http_body cap G) (http_fuel (inner w) chunk) (inner w) chunk false else (w, []).
Fixpoint http_run (G : Z) (w : wst hst) (cs : list (Z * list Z)) : wst hst * list ev :=
  match cs with
  | [] => (w, [])
  | (cap, c) :: cs' => let '(w1, e1) := http_feed cap G w c in let '(w2, e2) := http_run G w1 cs' in (w2, e1 ++ e2)
  end.

Definition http_send (s : hst) (reliable : bool) (bufs : list (list Z)) : hst * list ev :=
  if h_state s =? HT_CONNECTED then
    if h_base s then (s, [Dn (concat bufs); Snd 1]) else (s, [Snd (-1)])
  else if h_state s =? HT_ERROR then (s, [Snd (-1)])
  else if reliable then
    ({| h_state := h_state s; h_base := h_base s; h_queue := queue_send (h_queue s) bufs; h_buf := h_buf s;
        h_pos := h_pos s; h_fill := h_fill s; h_cl := h_cl s |}, [Snd 1])
  else (s, [Snd 0]).
