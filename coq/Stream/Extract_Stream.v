From Coq Require Import ZArith List.
From Coq Require Extraction ExtrOcamlBasic.
From Nice Require Import Stream.StreamBase Stream.TurnTcpModel Stream.TcpQueueModel.
Extraction Language OCaml.
Extraction "../ocaml/gen/stream_model.ml" feed turn_init turn_body turn_send q_step.
