From Coq Require Import ZArith List.
From Coq Require Extraction ExtrOcamlBasic.
From Nice Require Import Stream.StreamBase Stream.TurnTcpModel Stream.TcpQueueModel Stream.PsslModel Stream.Socks5Model Stream.HttpModel.
Extraction Language OCaml.
Extraction "../ocaml/gen/stream_model.ml" feed turn_init turn_body turn_send q_step
  pssl_init pssl_hello pssl_body pssl_send socks_init socks_greeting socks_body socks_send http_init http_feed http_send.
