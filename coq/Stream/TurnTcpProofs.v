(** Proofs about the TURN-over-TCP model: invariant, resumption after short reads (hence
    segmentation independence), no Fault unless a header announces more than the buffer holds,
    no livelock, framing round trips. *)
From Coq Require Import ZArith List Bool Lia.
From Nice Require Import Stream.StreamBase Stream.StreamProofs Stream.TurnTcpModel.
Import ListNotations.
Local Open Scope Z_scope.

Lemma w32_small x : 0 <= x < 4294967296 -> w32 x = x.
Proof. intros; unfold w32; apply Z.mod_small; lia. Qed.
Lemma w64_small x : 0 <= x < W64 -> w64 x = x.
Proof. intros; unfold w64; apply Z.mod_small; lia. Qed.
Lemma be16_range a b : 0 <= be16 a b <= 65535.
Proof.
  unfold be16. pose proof (Z.mod_pos_bound a 256 ltac:(lia)). pose proof (Z.mod_pos_bound b 256 ltac:(lia)). lia.
Qed.

Lemma padlen_range c e : 0 <= padlen c e <= 3.
Proof.
  unfold padlen. destruct (is_rfc c); [|lia].
  pose proof (Z.mod_pos_bound e 4 ltac:(lia)). destruct (Z.eqb_spec (e mod 4) 0); lia.
Qed.
Lemma padlen_zero c : padlen c 0 = 0.
Proof. unfold padlen. destruct (is_rfc c); reflexivity. Qed.

Lemma hdrlen_cases c hl : hdrlen c = Some hl -> hl = 2 \/ hl = 4.
Proof.
  unfold hdrlen. destruct (is_rfc c || (c =? OC2007)); [intros E; inversion E; auto|].
  destruct (c =? GOOGLE); intros E; inversion E; auto.
Qed.

Definition twf (s : tst) : Prop :=
  0 <= t_len s /\ 0 <= t_exp s <= 65555 /\
  (t_exp s = 0 -> forall hl, hdrlen (t_compat s) = Some hl -> t_len s < hl) /\
  (t_exp s <> 0 -> t_len s < turn_tot s).

Lemma turn_tot_eq s : 0 <= t_exp s <= 65555 -> turn_tot s = t_exp s + padlen (t_compat s) (t_exp s).
Proof. intros. unfold turn_tot. pose proof (padlen_range (t_compat s) (t_exp s)). apply w32_small. lia. Qed.
Lemma turn_tot_zero s : t_exp s = 0 -> turn_tot s = 0.
Proof. intros. unfold turn_tot. rewrite H, padlen_zero. reflexivity. Qed.

(** ** the continuations absorb data piecewise *)
Lemma payload_k_app s tot a x :
  (t_len s + lenZ a =? tot) = false ->
  turn_payload_k s tot (a ++ x) =
  match mwrite (t_buf s) (t_len s) a with
  | None => PFault
  | Some buf1 => turn_payload_k {| t_compat := t_compat s; t_buf := buf1; t_len := t_len s + lenZ a; t_exp := t_exp s |} tot x
  end.
Proof.
  intros. unfold turn_payload_k. rewrite mwrite_app. destruct (mwrite (t_buf s) (t_len s) a); auto.
  simpl. rewrite lenZ_app, Z.add_assoc. reflexivity.
Qed.

Lemma hdr_k_app s hl a x :
  turn_hdr_k s hl (a ++ x) =
  match mwrite (t_buf s) (t_len s) a with
  | None => PFault
  | Some buf1 => turn_hdr_k {| t_compat := t_compat s; t_buf := buf1; t_len := t_len s + lenZ a; t_exp := 0 |} hl x
  end.
Proof.
  unfold turn_hdr_k. rewrite mwrite_app. destruct (mwrite (t_buf s) (t_len s) a); auto.
  simpl. rewrite lenZ_app, Z.add_assoc. reflexivity.
Qed.

(** ** one payload read *)
Definition pre_payload (s : tst) : Prop := 0 <= t_len s <= turn_tot s /\ 0 <= t_exp s <= 65555.

Lemma payload_req s : pre_payload s -> w64 (turn_tot s - t_len s) = turn_tot s - t_len s.
Proof.
  intros [H1 H2]. apply w64_small. rewrite turn_tot_eq in * by auto.
  pose proof (padlen_range (t_compat s) (t_exp s)). unfold W64. lia.
Qed.

Lemma payload_wf s kb s1 r k e : pre_payload s ->
  exec (turn_payload s) kb = (Some (s1, r), k, e) -> 0 <= r -> twf s1 /\ t_compat s1 = t_compat s.
Proof.
  intros P E R. pose proof P as [[L1 L2] X].
  unfold turn_payload in E. simpl in E. rewrite payload_req in E by auto.
  set (d := takeZ (turn_tot s - t_len s) kb) in *.
  assert (Ld : 0 <= lenZ d <= turn_tot s - t_len s).
  { unfold d. rewrite lenZ_takeZ. pose proof (lenZ_nonneg kb). lia. }
  unfold turn_payload_k in E.
  destruct (mwrite (t_buf s) (t_len s) d) as [buf1|]; [|simpl in E; inversion E].
  destruct (Z.eqb_spec (t_len s + lenZ d) (turn_tot s)).
  - destruct (mreadn buf1 0 (t_len s + lenZ d)); [|simpl in E; inversion E].
    destruct (0 <? lenZ (takeZ UPCAP l)); simpl in E; inversion E; subst; simpl;
      (split; [|reflexivity]); unfold twf; simpl; repeat split; try lia;
      intros _ hl Hh; destruct (hdrlen_cases _ _ Hh); lia.
  - simpl in E. inversion E; subst. split; [|reflexivity]. unfold twf; simpl. repeat split; try lia.
    + intros E0. exfalso. pose proof (turn_tot_zero s E0). lia.
    + intros _. unfold turn_tot in *. simpl. lia.
Qed.

(** resumption of a payload read that came up short *)
Lemma payload_resume s kb b o1 e1 : pre_payload s -> b <> [] ->
  exec (turn_payload s) kb = (o1, [], e1) -> all_full e1 = false ->
  exists o2 k2 e2, exec (turn_payload s) (kb ++ b) = (o2, k2, e2) /\
    match o1 with
    | None => o2 = None /\ vis vis_msg e2 = vis vis_msg e1
    | Some (s1, r1) => 0 <= r1 /\ t_exp s1 = t_exp s /\ t_compat s1 = t_compat s /\ t_exp s <> 0 /\
        exists e2', exec (turn_payload s1) b = (o2, k2, e2') /\
                    vis vis_msg (e1 ++ e2') = vis vis_msg e2 /\ lenZ k2 < lenZ b
    end.
Proof.
  intros P NB E F. pose proof P as [[L1 L2] X].
  unfold turn_payload in *. simpl exec in *. rewrite payload_req in * by auto.
  set (req := turn_tot s - t_len s) in *.
  destruct (exec (turn_payload_k s (turn_tot s) (takeZ req kb)) (dropZ req kb)) as [[o' k'] e'] eqn:E'.
  inversion E; subst o' k' e1. clear E.
  (* the read was short *)
  assert (SH : lenZ kb < req).
  { simpl in F. destruct (Z.leb_spec req (lenZ (takeZ req kb))) as [Q|Q]; simpl in F.
    - exfalso. unfold turn_payload_k in E'.
      destruct (mwrite (t_buf s) (t_len s) (takeZ req kb)); [|simpl in E'; inversion E'; subst; discriminate].
      destruct (t_len s + lenZ (takeZ req kb) =? turn_tot s).
      + destruct (mreadn l 0 (t_len s + lenZ (takeZ req kb))); [|simpl in E'; inversion E'; subst; discriminate].
        destruct (0 <? lenZ (takeZ UPCAP l0)); simpl in E'; inversion E'; subst; discriminate.
      + simpl in E'; inversion E'; subst; discriminate.
    - rewrite lenZ_takeZ in Q. pose proof (lenZ_nonneg kb). lia. }
  pose proof (lenZ_nonneg kb) as Lk.
  rewrite (takeZ_all req kb) in * by lia. rewrite (dropZ_all req kb) in * by lia.
  rewrite (takeZ_app_r req kb b) by lia. rewrite (dropZ_app_r req kb b) by lia.
  set (x := takeZ (req - lenZ kb) b). set (rest := dropZ (req - lenZ kb) b).
  assert (NEQ : (t_len s + lenZ kb =? turn_tot s) = false) by (apply Z.eqb_neq; unfold req in SH; lia).
  rewrite payload_k_app by auto.
  assert (Lx : 1 <= lenZ x).
  { unfold x. rewrite lenZ_takeZ. pose proof (lenZ_pos b NB). lia. }
  assert (Lrest : lenZ rest < lenZ b).
  { unfold rest. rewrite lenZ_dropZ. pose proof (lenZ_pos b NB). lia. }
  unfold turn_payload_k in E' at 1.
  destruct (mwrite (t_buf s) (t_len s) kb) as [buf1|] eqn:MW.
  - rewrite NEQ in E'. simpl in E'. inversion E'; subst o1 e'. clear E'.
    set (s1 := {| t_compat := t_compat s; t_buf := buf1; t_len := t_len s + lenZ kb; t_exp := t_exp s |}).
    destruct (exec (turn_payload_k s1 (turn_tot s) x) rest) as [[o2 k2] e2] eqn:E2.
    exists o2, k2, (Rd false req (lenZ (kb ++ x)) :: e2). split; [reflexivity|].
    split; [lia|]. split; [reflexivity|]. split; [reflexivity|].
    split. { intros E0. pose proof (turn_tot_zero s E0). unfold req in SH. lia. }
    assert (T1 : turn_tot s1 = turn_tot s) by reflexivity.
    rewrite T1. simpl t_len.
    assert (P1 : pre_payload s1). { split; simpl; [rewrite T1; unfold req in SH; lia | auto]. }
    rewrite <- T1. rewrite payload_req by auto. rewrite T1. simpl t_len.
    replace (turn_tot s - (t_len s + lenZ kb)) with (req - lenZ kb) by (unfold req; lia).
    fold x. fold rest. rewrite E2.
    eexists. split; [reflexivity|]. split; [reflexivity|].
    pose proof (exec_suffix _ _ _ _ _ E2). lia.
  - simpl in E'. inversion E'; subst. clear E'.
    eexists None, rest, _. split; [reflexivity|]. split; reflexivity.
Qed.

(** ** the header phase *)
Lemma header_shape c buf len hl : hdrlen c = Some hl -> len = hl ->
  turn_header c buf len = PFault \/ (exists s, turn_header c buf len = PDone s (-1)) \/
  (exists s2, turn_header c buf len = turn_frame_start s2 /\ t_compat s2 = c /\ pre_payload s2).
Proof.
  intros Hh ->. unfold turn_header.
  destruct (mread buf 0) as [b0|]; auto. destruct (mread buf 1) as [b1|]; auto.
  destruct (mread buf 2) as [b2|]; auto. destruct (mread buf 3) as [b3|]; auto.
  unfold hdrlen in Hh.
  pose proof (be16_range b0 b1). pose proof (be16_range b2 b3).
  destruct (is_rfc c) eqn:R.
  - simpl in Hh. inversion Hh; subst hl. right; right. eexists. split; [reflexivity|]. split; [reflexivity|].
    unfold pre_payload. simpl t_len. simpl t_exp.
    set (e := (if be16 b0 b1 <? 16384 then 20 else 4) + be16 b2 b3).
    assert (4 <= e <= 65555) by (unfold e; destruct (be16 b0 b1 <? 16384); lia).
    rewrite turn_tot_eq by (simpl; lia). simpl t_exp. simpl t_compat.
    pose proof (padlen_range c e). fold e. lia.
  - simpl in Hh. destruct (Z.eqb_spec c OC2007).
    + inversion Hh; subst hl. subst c. simpl.
      destruct (negb (b0 =? 2) && negb (b0 =? 3)); [right; left; eauto|].
      destruct (mwrite buf 0 [b2; b3]); auto. right; right. eexists. split; [reflexivity|]. split; [reflexivity|].
      unfold pre_payload. simpl t_len. simpl t_exp.
      rewrite turn_tot_eq by (simpl; lia). simpl t_exp. simpl t_compat.
      pose proof (padlen_range OC2007 (be16 b2 b3 + 2)). lia.
    + simpl in Hh. destruct (Z.eqb_spec c GOOGLE); [|discriminate]. inversion Hh; subst hl.
      right; right. eexists. split; [reflexivity|]. split; [reflexivity|].
      unfold pre_payload. simpl t_len. simpl t_exp.
      rewrite turn_tot_eq by (simpl; lia). simpl t_exp. simpl t_compat.
      pose proof (padlen_range c (be16 b0 b1)). lia.
Qed.

Lemma twf_pre s : twf s -> t_exp s <> 0 -> pre_payload s.
Proof. intros (A & B & C & D) N. split; auto. specialize (D N). lia. Qed.

Lemma frame_start_exec s2 kb :
  exec (turn_frame_start s2) kb =
  let '(o, k, e) := exec (turn_payload s2) kb in (o, k, Hdr (turn_tot s2) :: e).
Proof. reflexivity. Qed.

Lemma hdr_k_wf s hl d rest s1 r k e :
  hdrlen (t_compat s) = Some hl -> 0 <= t_len s -> t_len s + lenZ d <= hl ->
  exec (turn_hdr_k s hl d) rest = (Some (s1, r), k, e) -> 0 <= r -> twf s1.
Proof.
  intros Hh L0 L1 E R. pose proof (lenZ_nonneg d) as Ld.
  unfold turn_hdr_k in E. destruct (mwrite (t_buf s) (t_len s) d) as [buf1|]; [|simpl in E; inversion E].
  destruct (Z.ltb_spec (t_len s + lenZ d) hl) as [Q|Q].
  - simpl in E; inversion E; subst. unfold twf; simpl. repeat split; try lia.
    all: try (intros _ hl' Hh'; rewrite Hh in Hh'; inversion Hh'; subst; lia).
    all: try (intros; congruence).
  - assert (EQ : t_len s + lenZ d = hl) by lia.
    destruct (header_shape (t_compat s) buf1 (t_len s + lenZ d) hl Hh EQ) as [F|[[s' F]|(s2 & F & Cc & P2)]];
      rewrite F in E.
    + simpl in E; inversion E.
    + simpl in E; inversion E; subst; lia.
    + rewrite frame_start_exec in E.
      destruct (exec (turn_payload s2) rest) as [[o' k'] e'] eqn:E'. inversion E; subst.
      exact (proj1 (payload_wf _ _ _ _ _ _ P2 E' R)).
Qed.

Lemma turn_inv_step s kb s1 r k e : twf s -> exec (turn_body s) kb = (Some (s1, r), k, e) -> 0 <= r -> twf s1.
Proof.
  intros W E R. pose proof W as (A & B & C & D).
  unfold turn_body in E. destruct (Z.eqb_spec (t_exp s) 0) as [E0|E0].
  - destruct (hdrlen (t_compat s)) as [hl|] eqn:Hh.
    2:{ simpl in E. inversion E; subst. lia. }
    specialize (C E0 hl eq_refl).
    assert (HL : 0 <= hl <= 4) by (destruct (hdrlen_cases _ _ Hh); lia).
    simpl in E. rewrite w64_small in E by (unfold W64; lia).
    set (d := takeZ (hl - t_len s) kb) in *.
    assert (Ld : 0 <= lenZ d <= hl - t_len s) by (unfold d; rewrite lenZ_takeZ; pose proof (lenZ_nonneg kb); lia).
    destruct (exec (turn_hdr_k s hl d) (dropZ (hl - t_len s) kb)) as [[o' k'] e'] eqn:E'. inversion E; subst.
    eapply hdr_k_wf; eauto. lia.
  - exact (proj1 (payload_wf _ _ _ _ _ _ (twf_pre _ W E0) E R)).
Qed.

Lemma turn_body_payload s : t_exp s <> 0 -> turn_body s = turn_payload s.
Proof. intros. unfold turn_body. destruct (Z.eqb_spec (t_exp s) 0); [contradiction | reflexivity]. Qed.

(** ** the layer resumes after any short read *)
Lemma turn_resume : resume_ok turn_body vis_msg twf.
Proof.
  intros s a b o1 e1 W NA NB E F _. pose proof W as (A & B & C & D).
  destruct (Z.eq_dec (t_exp s) 0) as [E0|E0].
  2:{ rewrite turn_body_payload in * by auto.
      destruct (payload_resume s a b o1 e1 (twf_pre _ W E0) NB E F) as (o2 & k2 & e2 & E2 & R).
      right. exists o2, k2, e2. split; auto. destruct o1 as [[s1 r1]|]; auto.
      destruct R as (R1 & X1 & X2 & X3 & e2' & E3 & V & L). split; auto. exists e2'.
      rewrite turn_body_payload by congruence. auto. }
  right. unfold turn_body in E |- *. rewrite E0 in *. change (0 =? 0) with true in *. cbv iota in *.
  destruct (hdrlen (t_compat s)) as [hl|] eqn:Hh.
  2:{ simpl in E. inversion E; subst. contradiction. }
  specialize (C eq_refl hl eq_refl).
  assert (HL : 0 <= hl <= 4) by (destruct (hdrlen_cases _ _ Hh); lia).
  simpl exec in *. rewrite w64_small in * by (unfold W64; lia).
  set (req := hl - t_len s) in *.
  pose proof (lenZ_nonneg a) as La. pose proof (lenZ_pos b NB) as Lb.
  destruct (exec (turn_hdr_k s hl (takeZ req a)) (dropZ req a)) as [[o' k'] e'] eqn:E'.
  inversion E; subst o' k' e1. clear E.
  destruct (Z.ltb_spec (lenZ a) req) as [SH|FU].
  - (* the header read itself was short *)
    rewrite (takeZ_all req a) in * by lia. rewrite (dropZ_all req a) in * by lia.
    rewrite (takeZ_app_r req a b) by lia. rewrite (dropZ_app_r req a b) by lia.
    set (x := takeZ (req - lenZ a) b). set (rest := dropZ (req - lenZ a) b).
    rewrite hdr_k_app. unfold turn_hdr_k in E' at 1.
    assert (Lrest : lenZ rest < lenZ b) by (unfold rest; rewrite lenZ_dropZ; lia).
    destruct (mwrite (t_buf s) (t_len s) a) as [buf1|].
    + destruct (Z.ltb_spec (t_len s + lenZ a) hl); [|unfold req in SH; lia].
      simpl in E'. inversion E'; subst o1 e'. clear E'.
      set (s1 := {| t_compat := t_compat s; t_buf := buf1; t_len := t_len s + lenZ a; t_exp := 0 |}).
      destruct (exec (turn_hdr_k s1 hl x) rest) as [[o2 k2] e2] eqn:E2.
      exists o2, k2, (Rd false req (lenZ (a ++ x)) :: e2). split; [reflexivity|].
      split; [lia|].
      simpl t_exp. change (0 =? 0) with true. cbv iota. simpl t_compat. rewrite Hh.
      simpl exec. simpl t_len. rewrite w64_small by (unfold W64, req in *; lia).
      replace (hl - (t_len s + lenZ a)) with (req - lenZ a) by (unfold req; lia).
      fold x. fold rest. rewrite E2.
      eexists. split; [reflexivity|]. split; [reflexivity|].
      pose proof (exec_suffix _ _ _ _ _ E2). lia.
    + simpl in E'. inversion E'; subst. eexists None, rest, _. split; [reflexivity|]. split; reflexivity.
  - (* the header read was full; the short read is the payload read *)
    rewrite (takeZ_app_l req a b) by lia. rewrite (dropZ_app_l req a b) by lia.
    set (d := takeZ req a) in *. set (a' := dropZ req a) in *.
    assert (Ld : lenZ d = req) by (unfold d; rewrite lenZ_takeZ; lia).
    assert (F' : all_full e' = false).
    { simpl in F. rewrite Ld in F. rewrite Z.leb_refl in F. exact F. }
    unfold turn_hdr_k in *. destruct (mwrite (t_buf s) (t_len s) d) as [buf1|].
    2:{ simpl in E'. inversion E'; subst. discriminate. }
    destruct (Z.ltb_spec (t_len s + lenZ d) hl); [unfold req in Ld; lia|].
    destruct (header_shape (t_compat s) buf1 (t_len s + lenZ d) hl Hh ltac:(unfold req in Ld; lia))
      as [Fh|[[s' Fh]|(s2 & Fh & Cc & P2)]]; rewrite Fh in *.
    + simpl in E'. inversion E'; subst. discriminate.
    + simpl in E'. inversion E'; subst. discriminate.
    + rewrite frame_start_exec in *.
      destruct (exec (turn_payload s2) a') as [[o'' k''] e''] eqn:E''. inversion E'; subst o'' k'' e'. clear E'.
      simpl in F'.
      destruct (payload_resume s2 a' b o1 e'' P2 NB E'' F') as (o2 & k2 & e2 & E2 & R).
      rewrite E2. exists o2, k2, (Rd false req (lenZ d) :: Hdr (turn_tot s2) :: e2). split; [reflexivity|].
      destruct o1 as [[s1 r1]|].
      * destruct R as (R1 & X1 & X2 & X3 & e2' & E3 & V & L). split; auto. exists e2'.
        destruct (Z.eqb_spec (t_exp s1) 0) as [Z0|Z0]; [exfalso; congruence|]. repeat split; auto.
      * destruct R as [-> V]. split; auto.
Qed.

Lemma exec_turn_clean_payload s kb o k e : exec (turn_payload s) kb = (o, k, e) -> clean e = true.
Proof.
  unfold turn_payload, turn_payload_k. simpl. intros E.
  destruct (mwrite _ _ _); [|inversion E; reflexivity].
  destruct (_ =? _); [|inversion E; reflexivity].
  destruct (mreadn _ _ _); [|inversion E; reflexivity].
  destruct (0 <? _); inversion E; reflexivity.
Qed.

Lemma exec_turn_clean s kb o k e : exec (turn_body s) kb = (o, k, e) -> clean e = true.
Proof.
  unfold turn_body. destruct (t_exp s =? 0); [|apply exec_turn_clean_payload].
  destruct (hdrlen (t_compat s)); [|intros E; inversion E; reflexivity].
  simpl. unfold turn_hdr_k. destruct (mwrite _ _ _); [|intros E; inversion E; reflexivity].
  destruct (_ <? _); [intros E; inversion E; reflexivity|].
  unfold turn_header.
  repeat match goal with |- context [mread ?m ?i] => destruct (mread m i); [|intros E; inversion E; reflexivity] end.
  destruct (is_rfc _); [|destruct (_ =? GOOGLE)].
  1,2: rewrite frame_start_exec; intros E;
       match type of E with context [exec (turn_payload ?s2) ?kk] => destruct (exec (turn_payload s2) kk) as [[o' k'] e'] eqn:E' end;
       inversion E; subst; simpl; exact (exec_turn_clean_payload _ _ _ _ _ E').
  destruct (_ && _); [intros E; inversion E; reflexivity|].
  destruct (mwrite _ _ _); [|intros E; inversion E; reflexivity].
  rewrite frame_start_exec; intros E;
       match type of E with context [exec (turn_payload ?s2) ?kk] => destruct (exec (turn_payload s2) kk) as [[o' k'] e'] eqn:E' end;
       inversion E; subst; simpl; exact (exec_turn_clean_payload _ _ _ _ _ E').
Qed.

(** ** segmentation independence *)

Lemma twf_init c : twf (turn_init c).
Proof.
  unfold twf, turn_init; cbn [t_len t_exp t_compat]. repeat split; try lia.
  intros _ hl Hh. destruct (hdrlen_cases _ _ Hh); lia.
Qed.

Theorem turn_seg_independent : forall s cs, twf s ->
  weq (fst (run turn_body (alive s) cs)) (fst (feed turn_body (alive s) (concat cs))) /\
  vis vis_msg (snd (run turn_body (alive s) cs)) = vis vis_msg (snd (feed turn_body (alive s) (concat cs))).
Proof.
  intros s cs W.
  apply (run_seg_independent turn_body vis_msg twf turn_inv_step turn_resume cs (alive s) W).
  apply run_clean. intros. eapply exec_turn_clean; eauto.
Qed.

Theorem turn_feed_app : forall s a b, twf s ->
  vis vis_msg (snd (feed turn_body (alive s) a) ++ snd (feed turn_body (fst (feed turn_body (alive s) a)) b)) =
  vis vis_msg (snd (feed turn_body (alive s) (a ++ b))).
Proof.
  intros s a b W.
  apply (feed_app turn_body vis_msg twf turn_inv_step turn_resume (alive s) a b W).
  pose proof (run_clean turn_body (fun s kb o k e H => exec_turn_clean s kb o k e H) [a] (alive s)) as C.
  simpl in C. destruct (feed turn_body (alive s) a). simpl in *. rewrite app_nil_r in C. exact C.
Qed.

(** ** no Fault and no livelock: the largest frame a header can announce fits recv_buf *)
Lemma ceil4_bound e : 0 <= e <= 65555 -> e + (if e mod 4 =? 0 then 0 else 4 - e mod 4) <= 65556.
Proof.
  intros. pose proof (Z.div_mod e 4 ltac:(lia)). pose proof (Z.mod_pos_bound e 4 ltac:(lia)).
  destruct (Z.eqb_spec (e mod 4) 0); lia.
Qed.
Lemma tot_bound s : 0 <= t_exp s <= 65555 -> turn_tot s <= RECV_BUF_SIZE.
Proof.
  intros. rewrite turn_tot_eq by auto. unfold padlen, RECV_BUF_SIZE.
  destruct (is_rfc (t_compat s)); [apply ceil4_bound; auto | lia].
Qed.
Definition twf' (s : tst) : Prop := twf s /\ lenZ (t_buf s) = RECV_BUF_SIZE.

Lemma payload_ok s kb o k e : pre_payload s -> lenZ (t_buf s) = RECV_BUF_SIZE ->
  exec (turn_payload s) kb = (o, k, e) ->
  lenZ k = lenZ kb - lenZ (takeZ (turn_tot s - t_len s) kb) /\
  exists s1 r, o = Some (s1, r) /\ 0 <= r /\ twf' s1.
Proof.
  intros P LB E. pose proof P as [[L1 L2] X]. pose proof (tot_bound s X) as FT.
  assert (EW : exists s1 r, o = Some (s1, r)).
  { unfold turn_payload in E. simpl in E. rewrite payload_req in E by auto.
    set (d := takeZ (turn_tot s - t_len s) kb) in *.
    assert (Ld : 0 <= lenZ d <= turn_tot s - t_len s) by (unfold d; rewrite lenZ_takeZ; pose proof (lenZ_nonneg kb); lia).
    unfold turn_payload_k in E. rewrite (mwrite_some (t_buf s) (t_len s) d) in E by lia.
    match type of E with context [mreadn ?m 0 ?n] =>
      destruct (mreadn_some m n) as [dd MR];
      [ rewrite !lenZ_app, lenZ_takeZ, lenZ_dropZ; lia | rewrite MR in E ] end.
    destruct (_ =? _); [destruct (0 <? _)|]; simpl in E; inversion E; eauto. }
  destruct EW as (s1 & r & ->).
  assert (R : 0 <= r).
  { unfold turn_payload, turn_payload_k in E. simpl in E.
    destruct (mwrite _ _ _); [|inversion E]. destruct (_ =? _); [|inversion E; lia].
    destruct (mreadn _ _ _); [|inversion E]. destruct (0 <? _); inversion E; lia. }
  split.
  { unfold turn_payload in E. simpl in E. rewrite payload_req in E by auto.
    destruct (exec (turn_payload_k s (turn_tot s) (takeZ (turn_tot s - t_len s) kb)) (dropZ (turn_tot s - t_len s) kb)) as [[o' k'] e'] eqn:E'.
    inversion E; subst.
    assert (k = dropZ (turn_tot s - t_len s) kb).
    { unfold turn_payload_k in E'. destruct (mwrite _ _ _); [|inversion E'].
      destruct (_ =? _); [|inversion E'; auto]. destruct (mreadn _ _ _); [|inversion E'].
      destruct (0 <? _); inversion E'; auto. }
    subst k. rewrite lenZ_dropZ, lenZ_takeZ. reflexivity. }
  exists s1, r. split; auto. split; auto.
  destruct (payload_wf _ _ _ _ _ _ P E R) as [W Cc]. split; auto.
  unfold turn_payload, turn_payload_k in E. simpl in E.
  destruct (mwrite (t_buf s) (t_len s) _) as [buf1|] eqn:MW; [|inversion E].
  pose proof (mwrite_len _ _ _ _ MW) as LB1.
  destruct (_ =? _).
  - destruct (mreadn _ _ _); [|inversion E]. destruct (0 <? _); inversion E; subst; simpl; congruence.
  - inversion E; subst. simpl. congruence.
Qed.

Lemma turn_call_ok s kb o k e : twf' s -> kb <> [] -> exec (turn_body s) kb = (o, k, e) -> Forall (fun _ => True) e ->
  match o with None => False | Some (s1, r) => 0 <= r -> twf' s1 /\ lenZ k < lenZ kb end.
Proof.
  intros (W & LB) NK E _. pose proof W as (A & B & C & D).
  pose proof (lenZ_pos kb NK) as Lk.
  destruct (Z.eq_dec (t_exp s) 0) as [E0|E0].
  2:{ rewrite turn_body_payload in E by auto.
      destruct (payload_ok s kb o k e (twf_pre _ W E0) LB E) as (LK & s1 & r & -> & R & W1).
      intros _. split; auto. rewrite LK, lenZ_takeZ. specialize (D E0). lia. }
  unfold turn_body in E. rewrite E0 in E. change (0 =? 0) with true in E. cbv iota in E.
  destruct (hdrlen (t_compat s)) as [hl|] eqn:Hh.
  2:{ simpl in E. inversion E; subst. lia. }
  specialize (C E0 hl eq_refl).
  assert (HL : 0 <= hl <= 4) by (destruct (hdrlen_cases _ _ Hh); lia).
  simpl in E. rewrite w64_small in E by (unfold W64; lia).
  set (d := takeZ (hl - t_len s) kb) in *. set (rest := dropZ (hl - t_len s) kb) in *.
  assert (Ld : 1 <= lenZ d <= hl - t_len s) by (unfold d; rewrite lenZ_takeZ; lia).
  assert (Lr : lenZ rest < lenZ kb) by (unfold rest; rewrite lenZ_dropZ; lia).
  destruct (exec (turn_hdr_k s hl d) rest) as [[o' k'] e'] eqn:E'. inversion E; subst o' k' e. clear E.
  unfold turn_hdr_k in E'. unfold RECV_BUF_SIZE in *.
  rewrite (mwrite_some (t_buf s) (t_len s) d) in E' by lia.
  set (buf1 := takeZ (t_len s) (t_buf s) ++ d ++ dropZ (t_len s + lenZ d) (t_buf s)) in *.
  assert (LB1 : lenZ buf1 = 65556).
  { unfold buf1. rewrite !lenZ_app, lenZ_takeZ, lenZ_dropZ. lia. }
  destruct (Z.ltb_spec (t_len s + lenZ d) hl).
  { simpl in E'. inversion E'; subst. intros _. split; [|lia].
    split; [|simpl; exact LB1].
    unfold twf; simpl. repeat split; try lia.
    intros _ hl' Hh'. rewrite Hh in Hh'. inversion Hh'; subst. lia. }
  (* header complete *)
  unfold turn_header in E'.
  destruct (mread_some buf1 0 ltac:(lia)) as [b0 M0]. destruct (mread_some buf1 1 ltac:(lia)) as [b1 M1].
  destruct (mread_some buf1 2 ltac:(lia)) as [b2 M2]. destruct (mread_some buf1 3 ltac:(lia)) as [b3 M3].
  rewrite M0, M1, M2, M3 in E'.
  assert (FIN : forall s2, pre_payload s2 -> lenZ (t_buf s2) = 65556 ->
                exec (turn_frame_start s2) rest = (o, k, e') ->
                match o with None => False | Some (s1, r) => 0 <= r -> twf' s1 /\ lenZ k < lenZ kb end).
  { intros s2 P2 LB2 EX. rewrite frame_start_exec in EX.
    destruct (exec (turn_payload s2) rest) as [[o'' k''] e''] eqn:E''. inversion EX; subst o'' k'' e'. clear EX.
    destruct (payload_ok s2 rest o k e'' P2 LB2 E'') as (LK & s1 & r & -> & R & W1).
    intros _. split; auto. rewrite LK. pose proof (lenZ_nonneg (takeZ (turn_tot s2 - t_len s2) rest)). lia. }
  pose proof (be16_range b0 b1). pose proof (be16_range b2 b3).
  destruct (is_rfc (t_compat s)) eqn:R.
  - eapply FIN; [ | | exact E']; [|exact LB1].
    unfold pre_payload. simpl t_len. simpl t_exp.
    set (ee := (if be16 b0 b1 <? 16384 then 20 else 4) + be16 b2 b3).
    assert (4 <= ee <= 65555) by (unfold ee; destruct (be16 b0 b1 <? 16384); lia).
    rewrite turn_tot_eq by (simpl; lia). simpl t_exp. simpl t_compat.
    pose proof (padlen_range (t_compat s) ee). fold ee.
    assert (hl = 4) by (unfold hdrlen in Hh; rewrite R in Hh; simpl in Hh; congruence). lia.
  - destruct (Z.eqb_spec (t_compat s) GOOGLE).
    + eapply FIN; [ | | exact E']; [|exact LB1].
      unfold pre_payload. simpl t_len. simpl t_exp. rewrite turn_tot_eq by (simpl; lia). simpl t_exp. simpl t_compat.
      pose proof (padlen_range (t_compat s) (be16 b0 b1)). lia.
    + destruct (negb (b0 =? 2) && negb (b0 =? 3)).
      { simpl in E'. inversion E'; subst. lia. }
      rewrite (mwrite_some buf1 0 [b2; b3]) in E' by (lz; lia).
      eapply FIN; [ | | exact E'].
      * unfold pre_payload. simpl t_len. simpl t_exp. rewrite turn_tot_eq by (simpl; lia). simpl t_exp. simpl t_compat.
        pose proof (padlen_range (t_compat s) (be16 b2 b3 + 2)). lia.
      * cbn [t_buf]. rewrite !lenZ_app, lenZ_takeZ, lenZ_dropZ. lz. lia.
Qed.

Lemma twf'_init c : twf' (turn_init c).
Proof.
  split; [apply twf_init|]. unfold turn_init; cbn [t_buf]. rewrite lenZ_repZ. reflexivity.
Qed.

Theorem turn_no_fault : forall c cs,
  ~ In EFault (snd (run turn_body (alive (turn_init c)) cs)) /\
  ~ In ELive (snd (run turn_body (alive (turn_init c)) cs)).
Proof.
  intros c cs.
  destruct (run_ok turn_body twf' (fun _ => True) turn_call_ok cs (alive (turn_init c))
              (fun _ => twf'_init c) ltac:(discriminate) ltac:(discriminate)) as (A & B & _); auto.
  apply Forall_forall. auto.
Qed.

(** ** framing round trip (Google mode): what the send path emits for a message is delivered upward as exactly
       that message, however the bytes are cut *)
Lemma be16_split n : 0 <= n < 65536 -> be16 (w16 n / 256) (w16 n mod 256) = n.
Proof.
  intros. unfold be16, w16. rewrite (Z.mod_small n 65536) by lia.
  rewrite (Z.mod_small (n / 256) 256).
  2:{ split; [apply Z.div_pos; lia | apply Z.div_lt_upper_bound; lia]. }
  rewrite Z.mod_mod by lia. pose proof (Z.div_mod n 256 ltac:(lia)). lia.
Qed.

Lemma mread_head x t : mread (x :: t) 0 = Some x.
Proof. reflexivity. Qed.

Lemma google_frame_delivered m : 0 < lenZ m <= 65535 ->
  let h1 := w16 (lenZ m) / 256 in let h2 := w16 (lenZ m) mod 256 in
  exists e s1, exec (turn_body (turn_init GOOGLE)) ([h1; h2] ++ m) = (Some (s1, 1), [], e) /\
               vis vis_msg e = [OMsg m (-1)] /\ twf s1.
Proof.
  intros Lm h1 h2. set (n := lenZ m) in *.
  set (buf := repZ 0 (Z.to_nat RECV_BUF_SIZE)).
  assert (LB : lenZ buf = 65556) by (unfold buf; rewrite lenZ_repZ; reflexivity).
  unfold turn_body. cbn [t_exp t_compat t_len turn_init]. change (0 =? 0) with true. cbv iota.
  change (hdrlen GOOGLE) with (Some 2). cbv iota. change (w64 (2 - 0)) with 2.
  rewrite exec_read.
  assert (T2 : takeZ 2 ([h1; h2] ++ m) = [h1; h2]).
  { rewrite takeZ_app_r by (lz; lia). lz. replace (2 - (1 + (1 + 0))) with 0 by lia. rewrite takeZ_nonpos by lia. reflexivity. }
  assert (D2 : dropZ 2 ([h1; h2] ++ m) = m).
  { rewrite dropZ_app_r by (lz; lia). lz. replace (2 - (1 + (1 + 0))) with 0 by lia. apply dropZ_nonpos. lia. }
  rewrite T2, D2.
  unfold turn_hdr_k. cbn [t_buf t_len t_compat turn_init]. fold buf.
  change (repZ 0 (Z.to_nat RECV_BUF_SIZE)) with buf.
  rewrite (mwrite_some buf 0 [h1; h2]) by (lz; lia).
  rewrite (takeZ_nonpos 0 buf) by lia. lz. cbn [app].
  set (tl := dropZ (0 + (1 + (1 + 0))) buf).
  assert (Ltl : lenZ tl = 65554) by (unfold tl; rewrite lenZ_dropZ; lia).
  change (0 + (1 + (1 + 0)) <? 2) with false. cbv iota.
  unfold turn_header.
  rewrite mread_head.
  assert (M1 : mread (h1 :: h2 :: tl) 1 = Some h2) by reflexivity. rewrite M1.
  destruct (mread_some (h1 :: h2 :: tl) 2 ltac:(lz; lia)) as [b2 ->].
  destruct (mread_some (h1 :: h2 :: tl) 3 ltac:(lz; lia)) as [b3 ->].
  change (is_rfc GOOGLE) with false. cbv iota. change (GOOGLE =? GOOGLE) with true. cbv iota.
  rewrite frame_start_exec.
  replace (be16 h1 h2) with n by (symmetry; apply be16_split; unfold n; lia).
  set (s2 := {| t_compat := GOOGLE; t_buf := h1 :: h2 :: tl; t_len := 0; t_exp := n |}).
  assert (TOT : turn_tot s2 = n).
  { unfold turn_tot. cbn [t_exp t_compat s2]. change (padlen GOOGLE n) with 0. rewrite w32_small; lia. }
  unfold turn_payload. rewrite TOT. cbn [t_len s2]. rewrite w64_small by (unfold W64; lia).
  rewrite Z.sub_0_r. rewrite exec_read.
  rewrite (takeZ_all n m) by (unfold n; lia). rewrite (dropZ_all n m) by (unfold n; lia).
  unfold turn_payload_k. cbn [t_buf t_len t_compat t_exp s2].
  rewrite (mwrite_some (h1 :: h2 :: tl) 0 m) by (lz; fold n; lia).
  rewrite (takeZ_nonpos 0) by lia. cbn [app]. fold n. rewrite Z.add_0_l.
  rewrite Z.eqb_refl.
  set (rest := dropZ n (h1 :: h2 :: tl)).
  assert (MR : mreadn (m ++ rest) 0 n = Some m).
  { unfold mreadn. rewrite fits_spec, lenZ_app. fold n. pose proof (lenZ_nonneg rest).
    destruct (Z.leb_spec 0 n); [|lia]. simpl. destruct (Z.leb_spec (0 + n) (n + lenZ rest)); [|lia].
    rewrite (dropZ_nonpos 0) by lia. rewrite takeZ_app_l by (fold n; lia). rewrite takeZ_all by (fold n; lia). reflexivity. }
  rewrite MR. rewrite (takeZ_all UPCAP m) by (fold n; unfold UPCAP; lia). fold n.
  destruct (Z.ltb_spec 0 n); [|lia]. simpl exec.
  eexists _, _. split; [reflexivity|]. split; [reflexivity|].
  unfold twf; cbn [t_len t_exp t_compat]. repeat split; try lia.
  intros _ hl Hh. destruct (hdrlen_cases _ _ Hh); lia.
Qed.

Theorem turn_roundtrip_google bufs cs : 0 < lenZ (concat bufs) <= 65535 ->
  concat cs = turn_frame GOOGLE bufs ->
  vis vis_msg (snd (run turn_body (alive (turn_init GOOGLE)) cs)) = [OMsg (concat bufs) (-1)].
Proof.
  intros Lm Cc. set (m := concat bufs) in *.
  destruct (turn_seg_independent (turn_init GOOGLE) cs (twf_init GOOGLE)) as [_ V]. rewrite V, Cc.
  unfold turn_frame. change (GOOGLE =? GOOGLE) with true. cbv iota. fold m.
  destruct (google_frame_delivered m Lm) as (e & s1 & E & Ve & W).
  unfold feed, alive. cbn [dead inner]. change (0 =? 0) with true. cbv iota.
  set (fr := [w16 (lenZ m) / 256; w16 (lenZ m) mod 256] ++ m) in *.
  assert (NE : fr <> []) by (unfold fr; discriminate).
  assert (LF : (length fr = Datatypes.S (Datatypes.S (length m)))%nat) by reflexivity.
  rewrite LF. rewrite drain_step by exact NE. rewrite E.
  change (1 <? 0) with false. cbv iota.
  assert (NEQ : (lenZ [] =? lenZ fr) = false).
  { apply Z.eqb_neq. unfold fr. rewrite lenZ_app. lz. lia. }
  rewrite NEQ. rewrite drain_nil. cbn [snd]. rewrite app_nil_r. exact Ve.
Qed.

(** ** framing round trip (RFC 5766 / draft-9 modes): a STUN message or ChannelData frame whose own length field is
       consistent is delivered, with its padding, however the bytes are cut *)
Definition rfc_consistent (m : list Z) : Prop :=
  match m with
  | b0 :: b1 :: b2 :: b3 :: _ => lenZ m = (if be16 b0 b1 <? 16384 then 20 else 4) + be16 b2 b3
  | _ => False
  end.

Lemma rfc_frame_delivered c m : is_rfc c = true -> rfc_consistent m ->
  let fr := m ++ repZ 0 (Z.to_nat (if lenZ m mod 4 =? 0 then 0 else 4 - lenZ m mod 4)) in
  exists e s1, exec (turn_body (turn_init c)) fr = (Some (s1, 1), [], e) /\ vis vis_msg e = [OMsg fr (-1)] /\ twf s1.
Proof.
  intros RC CO fr.
  destruct m as [|b0 [|b1 [|b2 [|b3 m']]]]; try contradiction. simpl in CO.
  set (n := lenZ (b0 :: b1 :: b2 :: b3 :: m')) in *.
  set (padn := if n mod 4 =? 0 then 0 else 4 - n mod 4) in *.
  assert (PN : 0 <= padn <= 3) by (unfold padn; pose proof (Z.mod_pos_bound n 4 ltac:(lia)); destruct (Z.eqb_spec (n mod 4) 0); lia).
  set (pad := repZ 0 (Z.to_nat padn)) in *.
  assert (LP : lenZ pad = padn) by (unfold pad; rewrite lenZ_repZ; lia).
  set (rest := m' ++ pad).
  assert (FR : fr = [b0; b1; b2; b3] ++ rest) by reflexivity.
  assert (Ln : n = 4 + lenZ m') by (unfold n; lz; lia).
  pose proof (lenZ_nonneg m') as Lm'.
  assert (LR : lenZ rest = n - 4 + padn) by (unfold rest; rewrite lenZ_app; lia).
  assert (LFR : lenZ fr = n + padn) by (rewrite FR, lenZ_app, LR; lz; lia).
  assert (LF : lenZ fr <= 65556).
  { rewrite LFR. pose proof (be16_range b2 b3). unfold padn. apply ceil4_bound. rewrite CO. destruct (be16 b0 b1 <? 16384); lia. }
  set (buf := repZ 0 (Z.to_nat RECV_BUF_SIZE)).
  assert (LB : lenZ buf = 65556) by (unfold buf; rewrite lenZ_repZ; reflexivity).
  unfold turn_body. cbn [t_exp t_compat t_len turn_init]. change (0 =? 0) with true. cbv iota.
  assert (HL : hdrlen c = Some 4) by (unfold hdrlen; rewrite RC; reflexivity). rewrite HL.
  change (w64 (4 - 0)) with 4. rewrite exec_read.
  assert (T4 : takeZ 4 fr = [b0; b1; b2; b3]).
  { rewrite FR. rewrite takeZ_app_r by (lz; lia). lz. replace (4 - (1 + (1 + (1 + (1 + 0))))) with 0 by lia.
    rewrite takeZ_nonpos by lia. reflexivity. }
  assert (D4 : dropZ 4 fr = rest).
  { rewrite FR. rewrite dropZ_app_r by (lz; lia). lz. replace (4 - (1 + (1 + (1 + (1 + 0))))) with 0 by lia. apply dropZ_nonpos. lia. }
  rewrite T4, D4.
  unfold turn_hdr_k. cbn [t_buf t_len t_compat turn_init]. change (repZ 0 (Z.to_nat RECV_BUF_SIZE)) with buf.
  rewrite (mwrite_some buf 0 [b0; b1; b2; b3]) by (lz; lia).
  rewrite (takeZ_nonpos 0 buf) by lia. lz. cbn [app].
  set (tl := dropZ (0 + (1 + (1 + (1 + (1 + 0))))) buf).
  assert (Ltl : lenZ tl = 65552) by (unfold tl; rewrite lenZ_dropZ; lia).
  change (0 + (1 + (1 + (1 + (1 + 0)))) <? 4) with false. cbv iota.
  unfold turn_header.
  assert (M0 : mread (b0 :: b1 :: b2 :: b3 :: tl) 0 = Some b0) by reflexivity.
  assert (M1 : mread (b0 :: b1 :: b2 :: b3 :: tl) 1 = Some b1) by reflexivity.
  assert (M2 : mread (b0 :: b1 :: b2 :: b3 :: tl) 2 = Some b2) by reflexivity.
  assert (M3 : mread (b0 :: b1 :: b2 :: b3 :: tl) 3 = Some b3) by reflexivity.
  rewrite M0, M1, M2, M3. rewrite RC.
  rewrite frame_start_exec.
  set (E := (if be16 b0 b1 <? 16384 then 20 else 4) + be16 b2 b3) in *.
  assert (EN : E = n) by (symmetry; exact CO).
  replace (0 + (1 + (1 + (1 + (1 + 0))))) with 4 by lia.
  set (s2 := {| t_compat := c; t_buf := b0 :: b1 :: b2 :: b3 :: tl; t_len := 4; t_exp := E |}).
  assert (PD : padlen c E = padn) by (unfold padlen, padn; rewrite RC, EN; reflexivity).
  assert (TOT : turn_tot s2 = n + padn).
  { unfold turn_tot. cbn [t_exp t_compat s2]. rewrite PD, EN. rewrite w32_small; lia. }
  unfold turn_payload. rewrite TOT. cbn [t_len s2]. rewrite w64_small by (unfold W64; lia).
  rewrite exec_read.
  rewrite (takeZ_all (n + padn - 4) rest) by lia. rewrite (dropZ_all (n + padn - 4) rest) by lia.
  unfold turn_payload_k. cbn [t_buf t_len t_compat t_exp s2].
  rewrite (mwrite_some (b0 :: b1 :: b2 :: b3 :: tl) 4 rest) by (lz; lia).
  assert (TK : takeZ 4 (b0 :: b1 :: b2 :: b3 :: tl) = [b0; b1; b2; b3]).
  { change (b0 :: b1 :: b2 :: b3 :: tl) with ([b0; b1; b2; b3] ++ tl). rewrite takeZ_app_l by (lz; lia). apply takeZ_all. lz. lia. }
  rewrite TK. rewrite LR.
  replace (4 + (n - 4 + padn)) with (n + padn) by lia. rewrite Z.eqb_refl.
  set (after := dropZ (n + padn) (b0 :: b1 :: b2 :: b3 :: tl)).
  assert (BUF2 : [b0; b1; b2; b3] ++ rest ++ after = fr ++ after) by (rewrite FR, <- app_assoc; reflexivity).
  rewrite BUF2.
  assert (MR : mreadn (fr ++ after) 0 (n + padn) = Some fr).
  { unfold mreadn. rewrite fits_spec, lenZ_app, LFR. pose proof (lenZ_nonneg after).
    destruct (Z.leb_spec 0 0); [|lia]. destruct (Z.leb_spec 0 (n + padn)); [|lia].
    destruct (Z.leb_spec (0 + (n + padn)) (n + padn + lenZ after)); [|lia]. cbn [andb].
    rewrite (dropZ_nonpos 0) by lia. rewrite takeZ_app_l by lia. rewrite takeZ_all by lia. reflexivity. }
  rewrite MR. rewrite (takeZ_all UPCAP fr) by (unfold UPCAP; lia). rewrite LFR.
  destruct (Z.ltb_spec 0 (n + padn)); [|lia]. simpl exec.
  eexists _, _. split; [reflexivity|]. split; [reflexivity|].
  unfold twf; cbn [t_len t_exp t_compat]. repeat split; try lia.
  intros _ hl Hh. destruct (hdrlen_cases _ _ Hh); lia.
Qed.

Theorem turn_roundtrip_rfc c bufs cs : is_rfc c = true -> rfc_consistent (concat bufs) ->
  concat cs = turn_frame c bufs ->
  vis vis_msg (snd (run turn_body (alive (turn_init c)) cs)) = [OMsg (turn_frame c bufs) (-1)].
Proof.
  intros RC CO Cc. set (m := concat bufs) in *.
  destruct (turn_seg_independent (turn_init c) cs (twf_init c)) as [_ V]. rewrite V, Cc.
  assert (NG : (c =? GOOGLE) = false).
  { unfold is_rfc in RC. apply orb_true_iff in RC. destruct RC as [X|X]; apply Z.eqb_eq in X; subst c; reflexivity. }
  assert (TF : turn_frame c bufs = m ++ repZ 0 (Z.to_nat (if lenZ m mod 4 =? 0 then 0 else 4 - lenZ m mod 4))).
  { unfold turn_frame. rewrite NG, RC. reflexivity. }
  rewrite TF in *.
  destruct (rfc_frame_delivered c m RC CO) as (e & s1 & E & Ve & W).
  set (fr := m ++ repZ 0 (Z.to_nat (if lenZ m mod 4 =? 0 then 0 else 4 - lenZ m mod 4))) in *.
  unfold feed, alive. cbn [dead inner]. change (0 =? 0) with true. cbv iota.
  assert (NE : fr <> []).
  { unfold fr. destruct m as [|x t]; [contradiction|]. discriminate. }
  destruct fr as [|x t] eqn:FR; [congruence|]. simpl length. rewrite drain_step by discriminate. rewrite E.
  change (1 <? 0) with false. cbv iota.
  assert (NEQ : (lenZ [] =? lenZ (x :: t)) = false).
  { apply Z.eqb_neq. lz. pose proof (lenZ_nonneg t). lia. }
  rewrite NEQ. rewrite drain_nil. cbn [snd]. rewrite app_nil_r. exact Ve.
Qed.
