(** Proofs about the HTTP CONNECT model. *)
From Coq Require Import ZArith List Bool Lia.
From Nice Require Import Stream.StreamBase Stream.StreamProofs Stream.TcpQueueModel Stream.PsslModel Stream.HttpModel Stream.ProxyProofs.
Import ListNotations.
Local Open Scope Z_scope.

Lemma http_send_transparent s rel bufs : h_state s = HT_CONNECTED -> h_base s = true ->
  http_send s rel bufs = (s, [Dn (concat bufs); Snd 1]).
Proof. intros H B. unfold http_send. rewrite H, B. reflexivity. Qed.

(** * No Fault, no spinning: every index into the ring stays in range, the assertions of
      assert_ring_buffer_valid hold, every loop of the parser terminates within its fuel *)
Section RingFacts.
Variables (buf : list Z) (L pos fill : Z).
Hypothesis Lpos : 0 < L.
Hypothesis Lbuf : lenZ buf = L.

Lemma gb_some p : exists v, gb buf L pos p = Some v.
Proof.
  unfold gb. apply mread_some. rewrite Lbuf. apply Z.mod_pos_bound. lia.
Qed.

Lemma eat_ws_ok : forall fuel p, 0 <= p -> (Z.to_nat (fill - p) < fuel)%nat ->
  match eat_ws buf L pos fill fuel p with PrFault => False | PrOk p' => p <= p' < fill | _ => True end.
Proof.
  induction fuel as [|f IH]; intros p P F; [lia|]. simpl.
  destruct (Z.ltb_spec p fill); auto.
  destruct (gb_some p) as [v ->]. destruct (v =? 32); [|lia].
  specialize (IH (p + 1) ltac:(lia) ltac:(lia)).
  destruct (eat_ws buf L pos fill f (p + 1)); auto. lia.
Qed.

Lemma skip_line_ok : forall fuel p, 0 <= p -> (Z.to_nat (fill - p) < fuel)%nat ->
  match skip_line buf L pos fill fuel p with PrOk p' => p <= p' | _ => False end.
Proof.
  induction fuel as [|f IH]; intros p P F; [lia|]. simpl.
  destruct (Z.ltb_spec (p + 1) fill); [|lia].
  destruct (gb_some p) as [v ->]. destruct (v =? 13); [lia|].
  destruct (gb_some (p + 1)) as [v' ->]. destruct (v' =? 10); [lia|].
  specialize (IH (p + 1) ltac:(lia) ltac:(lia)).
  destruct (skip_line buf L pos fill f (p + 1)); auto. lia.
Qed.

Lemma match_exact_ok : forall pat p, match match_exact buf L pos p pat with PrOk _ => True | _ => False end.
Proof.
  induction pat as [|c t IH]; intros p; simpl; auto.
  destruct (gb_some p) as [v ->]. destruct (v =? c); auto. apply IH.
Qed.
Lemma match_ci_ok : forall pat p, match match_ci buf L pos p pat with PrOk _ => True | _ => False end.
Proof.
  induction pat as [|c t IH]; intros p; simpl; auto.
  destruct (gb_some p) as [v ->]. destruct ((v =? c) || ((97 <=? c) && (c <=? 122) && (v =? c - 32))); auto. apply IH.
Qed.

Lemma digits_ok : forall fuel p cl st, 0 <= p <= fill -> 0 <= cl -> (Z.to_nat (fill + 1 - p) < fuel)%nat ->
  match fst (digits buf L pos fill fuel p cl st) with
  | DFault => False | DBreak p' cl' => p <= p' /\ 0 <= cl' | DNeed cl' => 0 <= cl' | DErr => True
  end.
Proof.
  induction fuel as [|f IH]; intros p cl st P C F; [lia|]. simpl.
  destruct (gb_some p) as [v ->]. destruct (v =? 13); simpl; [lia|].
  unfold is_digit. destruct (Z.leb_spec 48 v); destruct (Z.leb_spec v 57); simpl; auto.
  destruct ((MAXSIZE / 10 <? cl) || (MAXSIZE - (v - 48) <? cl * 10)); simpl; [lia|].
  destruct (Z.leb_spec fill (p + 1)); simpl; [lia|].
  specialize (IH (p + 1) (cl * 10 + (v - 48)) (st || (fill <=? p)) ltac:(lia) ltac:(lia) ltac:(lia)).
  destruct (fst (digits buf L pos fill f (p + 1) (cl * 10 + (v - 48)) (st || (fill <=? p)))); auto. lia.
Qed.

(* since the loop stops one byte before recv_buf_fill it never evaluates a slot at or past it *)
Lemma digits_nostale : forall fuel p cl, 0 <= p < fill -> snd (digits buf L pos fill fuel p cl false) = false.
Proof.
  induction fuel as [|f IH]; intros p cl P; simpl; auto.
  destruct (Z.leb_spec fill p); [lia|]. simpl.
  destruct (gb buf L pos p) as [v|]; auto. destruct (v =? 13); auto. destruct (negb (is_digit v)); auto.
  destruct (_ || _); auto. destruct (Z.leb_spec fill (p + 1)); auto. apply IH. lia.
Qed.

Hypothesis Fill : 0 <= fill.

Lemma fuel_enough p : 0 <= p -> (Z.to_nat (fill - p) < fuel_of fill)%nat.
Proof. intros. unfold fuel_of. lia. Qed.

Lemma parse_init_ok :
  match parse_init buf L pos fill with PrFault => False | PrOk n => 2 <= n <= fill | _ => True end.
Proof.
  unfold parse_init.
  assert (Q0 : 0 <= 0) by lia.
  pose proof (eat_ws_ok (fuel_of fill) 0 Q0 (fuel_enough 0 Q0)) as E0.
  destruct (eat_ws buf L pos fill (fuel_of fill) 0) as [| | |p0]; auto.
  destruct (fill <? p0 + 7); auto.
  pose proof (match_exact_ok [72; 84; 84; 80; 47; 49; 46] p0) as M.
  destruct (match_exact buf L pos p0 [72; 84; 84; 80; 47; 49; 46]) as [| | |[|]]; auto.
  destruct (fill <=? p0 + 7); auto.
  destruct (gb_some (p0 + 7)) as [v ->]. destruct (negb (v =? 48) && negb (v =? 49)); auto.
  destruct (fill <=? p0 + 7 + 1); auto.
  destruct (gb_some (p0 + 7 + 1)) as [sp ->]. destruct (negb (sp =? 32)); auto.
  assert (Q1 : 0 <= p0 + 7 + 1) by lia.
  pose proof (eat_ws_ok (fuel_of fill) (p0 + 7 + 1) Q1 (fuel_enough _ Q1)) as E1.
  destruct (eat_ws buf L pos fill (fuel_of fill) (p0 + 7 + 1)) as [| | |p3]; auto.
  destruct (fill <? p3 + 3); auto.
  destruct (gb_some p3) as [a ->]. destruct (gb_some (p3 + 1)) as [b ->]. destruct (gb_some (p3 + 2)) as [c ->].
  destruct (negb (a =? 50) || negb (is_digit b) || negb (is_digit c)); auto.
  assert (Q3 : 0 <= p3) by lia.
  pose proof (skip_line_ok (fuel_of fill) p3 Q3 (fuel_enough _ Q3)) as S.
  destruct (skip_line buf L pos fill (fuel_of fill) p3) as [| | |p4]; try contradiction.
  destruct (Z.leb_spec fill (p4 + 1)); auto. lia.
Qed.

Lemma parse_header_ok cl : 0 <= cl ->
  match parse_header buf L pos fill cl with
  | (PrFault, _, _) => False
  | (PrOk n, cl', _) => 2 <= n <= fill /\ 0 <= cl'
  | (_, cl', _) => 0 <= cl'
  end.
Proof.
  intros C. unfold parse_header. cbv zeta.
  assert (FIN : forall p cl' st, 0 <= p -> 0 <= cl' ->
    match hdr_finish buf L pos fill p cl' st
    with (PrFault, _, _) => False | (PrOk n, cl'', _) => 2 <= n <= fill /\ 0 <= cl'' | (_, cl'', _) => 0 <= cl'' end).
  { intros p cl' st P C'. unfold hdr_finish.
    pose proof (skip_line_ok (fuel_of fill) p P (fuel_enough _ P)) as S.
    destruct (skip_line buf L pos fill (fuel_of fill) p) as [| | |p4]; try contradiction.
    destruct (Z.leb_spec fill (p4 + 1)); auto. lia. }
  destruct (15 <? fill); [|apply FIN; lia].
  pose proof (match_ci_ok CONTENT_LENGTH 0) as M.
  destruct (match_ci buf L pos 0 CONTENT_LENGTH) as [| | |[|]]; try contradiction; [|apply FIN; lia].
  assert (Q15 : 0 <= 15) by lia.
  pose proof (eat_ws_ok (fuel_of fill) 15 Q15 (fuel_enough _ Q15)) as E.
  destruct (eat_ws buf L pos fill (fuel_of fill) 15) as [| | |p]; auto; try contradiction.
  pose proof (digits_ok (fuel_of fill) p 0 false ltac:(lia) ltac:(lia) ltac:(unfold fuel_of; lia)) as D.
  destruct (digits buf L pos fill (fuel_of fill) p 0 false) as [[p' cl'|cl'| |] st]; simpl in D; auto; try lia.
  apply FIN; lia.
Qed.
Lemma parse_header_nostale cl : snd (parse_header buf L pos fill cl) = false.
Proof.
  unfold parse_header. cbv zeta.
  assert (FIN : forall p c, snd (hdr_finish buf L pos fill p c false) = false).
  { intros. unfold hdr_finish. destruct (skip_line _ _ _ _ _ _); auto. destruct (_ <=? _); auto. }
  destruct (15 <? fill); [|apply FIN].
  destruct (match_ci buf L pos 0 CONTENT_LENGTH) as [| | |[|]]; auto.
  assert (Q15 : 0 <= 15) by lia.
  pose proof (eat_ws_ok (fuel_of fill) 15 Q15 (fuel_enough _ Q15)) as E.
  destruct (eat_ws buf L pos fill (fuel_of fill) 15) as [| | |p]; auto.
  pose proof (digits_nostale (fuel_of fill) p 0 ltac:(lia)) as D.
  destruct (digits buf L pos fill (fuel_of fill) p 0 false) as [[p' cl'|cl'| |] st]; simpl in D; subst st; auto.
Qed.
End RingFacts.

Definition hinv (s : hst) : Prop :=
  0 <= h_pos s /\ 0 <= h_fill s <= lenZ (h_buf s) /\ (h_pos s = 0 \/ h_pos s < lenZ (h_buf s)) /\ 0 <= h_cl s /\
  (h_state s = HT_CONNECTED -> h_base s = true).
(* while the parser runs the ring exists and the base socket is there *)
Definition hring (s : hst) : Prop := hinv s /\ 0 < lenZ (h_buf s) /\ h_pos s < lenZ (h_buf s) /\ h_base s = true.
Definition hP (s1 : hst) (r : Z) : Prop := 0 <= r -> hinv s1.
Definition okp (p : prog hst) : Prop := safe p /\ leaves hP p.

Lemma okp_mark b n p : okp p -> okp (mark_if b n p).
Proof. intros [A B]. unfold mark_if. destruct b; [split; constructor; auto | split; auto]. Qed.
Lemma okp_flush q p : okp p -> okp (flush_queue q p).
Proof. intros [A B]. split; [apply flush_queue_safe | apply flush_queue_leaves]; auto. Qed.
Lemma okp_error s : okp (http_error s).
Proof. unfold http_error. split; constructor. intros H; lia. Qed.
Lemma okp_done s r : (0 <= r -> hinv s) -> okp (PDone s r).
Proof. intros. split; constructor. exact H. Qed.

Lemma mod_range a L : 0 < L -> 0 <= a mod L < L.
Proof. intros. apply Z.mod_pos_bound. lia. Qed.

Lemma hring_step s st n cl' : hring s -> 0 <= n <= h_fill s -> 0 <= cl' ->
  hring (with_ring s st ((h_pos s + n) mod lenZ (h_buf s)) (h_fill s - n) cl').
Proof.
  intros ((P & F & PL & C & CB) & L0 & PL' & B) N C'. pose proof (mod_range (h_pos s + n) _ L0).
  unfold hring, hinv, with_ring; simpl. repeat split; try lia; auto.
Qed.

Lemma mreadn_ok m off n : 0 <= off -> 0 <= n -> off + n <= lenZ m -> exists d, mreadn m off n = Some d.
Proof.
  intros. unfold mreadn. rewrite fits_spec.
  destruct (Z.leb_spec 0 off); [|lia]. destruct (Z.leb_spec 0 n); [|lia].
  destruct (Z.leb_spec (off + n) (lenZ m)); [|lia]. simpl. eauto.
Qed.

(** popping up to [cap] bytes off a non-empty ring *)
Lemma ring_pop_ok cap s : hinv s -> 0 < h_fill s -> 1 <= cap ->
  exists data pos', ring_pop cap s = Some (data, pos', h_fill s - Z.min cap (h_fill s)) /\
    0 <= pos' < lenZ (h_buf s) /\ pos' = (h_pos s + Z.min cap (h_fill s)) mod lenZ (h_buf s).
Proof.
  intros (P & F & PL & C & CB) F0 CP. unfold ring_pop. cbv zeta.
  assert (L0 : 0 < lenZ (h_buf s)) by lia.
  destruct (Z.ltb_spec (lenZ (h_buf s)) (h_pos s + h_fill s)).
  - set (len1 := Z.min (lenZ (h_buf s) - h_pos s) cap).
    destruct (mreadn_ok (h_buf s) (h_pos s) len1 ltac:(lia) ltac:(unfold len1; lia) ltac:(unfold len1; lia)) as [d1 ->].
    set (len2 := Z.min (h_fill s - len1) (cap - len1)).
    destruct (mreadn_ok (h_buf s) 0 len2 ltac:(lia) ltac:(unfold len2, len1; lia) ltac:(unfold len2, len1; lia)) as [d2 ->].
    assert (E : len1 + len2 = Z.min cap (h_fill s)) by (unfold len2, len1; lia).
    rewrite E. eexists _, _. split; [reflexivity|]. split; [apply mod_range; lia | reflexivity].
  - set (len := Z.min (h_fill s) cap).
    destruct (mreadn_ok (h_buf s) (h_pos s) len ltac:(lia) ltac:(unfold len; lia) ltac:(unfold len; lia)) as [d1 ->].
    assert (E : len = Z.min cap (h_fill s)) by (unfold len; lia).
    rewrite E. eexists _, _. split; [reflexivity|]. split; [apply mod_range; lia | reflexivity].
Qed.

Lemma handover_ok cap s : 1 <= cap -> hring s -> okp (http_handover cap s).
Proof.
  intros CP (HI & L0 & PL' & B). pose proof HI as (P & F & PL & C & CB). unfold http_handover. cbv zeta.
  destruct (Z.ltb_spec 0 (h_fill s)).
  2:{ apply okp_flush. apply okp_done. intros _. unfold hinv; simpl. repeat split; try lia; auto. }
  destruct (ring_pop_ok cap s HI ltac:(lia) CP) as (data & pos' & -> & PR & _).
  apply okp_flush. split; [repeat constructor | apply lv_up; apply lv_done; intros _].
  unfold hinv; simpl. repeat split; try lia; auto.
Qed.

Definition rank (st : Z) : nat :=
  if st =? HT_INIT then 4%nat else if st =? HT_HEADERS then 3%nat else if st =? HT_BODY then 2%nat else 1%nat.

Lemma parse_ok cap : 1 <= cap -> forall fuel s, hring s -> (Z.to_nat (h_fill s) + rank (h_state s) < fuel)%nat -> okp (http_parse cap fuel s).
Proof.
  intros CP. induction fuel as [|fuel IH]; intros s R F; [lia|].
  pose proof R as ((P & Fl & PL & C & CB) & L0 & PL' & B).
  simpl http_parse. cbv zeta.
  assert (F0 : 0 <= h_fill s) by lia.
  destruct (Z.eqb_spec (h_state s) HT_INIT) as [S0|S0].
  { pose proof (parse_init_ok (h_buf s) (lenZ (h_buf s)) (h_pos s) (h_fill s) L0 eq_refl) as PI.
    destruct (parse_init (h_buf s) (lenZ (h_buf s)) (h_pos s) (h_fill s)) as [| | |n]; try contradiction.
    - apply okp_done. intros _. exact (proj1 R).
    - apply okp_error.
    - apply IH. + apply hring_step; auto; lia.
      + unfold with_ring, rank in *; simpl. rewrite S0 in F. simpl in F. lia. }
  destruct (Z.eqb_spec (h_state s) HT_HEADERS) as [S1|S1].
  { pose proof (parse_header_ok (h_buf s) (lenZ (h_buf s)) (h_pos s) (h_fill s) L0 eq_refl (h_cl s) C) as PH.
    destruct (parse_header (h_buf s) (lenZ (h_buf s)) (h_pos s) (h_fill s) (h_cl s)) as [[r cl'] stale].
    apply okp_mark. destruct r as [| | |n]; try contradiction.
    - apply okp_done. intros _. unfold hinv, with_ring; simpl. repeat split; try lia; auto; try (intros X; discriminate X).
    - apply okp_error.
    - destruct PH as [N C']. apply IH.
      + apply hring_step; auto; lia.
      + unfold with_ring, rank in *; simpl. rewrite S1 in F. simpl in F.
        destruct (n =? 2); simpl; lia. }
  destruct (Z.eqb_spec (h_state s) HT_BODY) as [S2|S2].
  { destruct (Z.eqb_spec (h_cl s) 0).
    - apply IH.
      + unfold hring, hinv, with_ring in *; simpl. repeat split; try lia; auto.
      + unfold with_ring, rank in *; simpl. rewrite S2 in F. simpl in F. lia.
    - destruct (Z.eqb_spec (h_fill s) 0).
      + apply okp_done. intros _. exact (proj1 R).
      + apply IH.
        * apply hring_step; auto; lia.
        * unfold with_ring, rank in *; simpl. rewrite S2 in F. simpl in F. lia. }
  destruct (Z.eqb_spec (h_state s) HT_CONNECTED).
  - apply handover_ok; auto.
  - apply okp_error.
Qed.

Lemma lenZ_splice m o d : 0 <= o -> o + lenZ d <= lenZ m -> lenZ (takeZ o m ++ d ++ dropZ (o + lenZ d) m) = lenZ m.
Proof. intros. pose proof (lenZ_nonneg d). rewrite !lenZ_app, lenZ_takeZ, lenZ_dropZ. lia. Qed.

Lemma ring_valid_spec L pos fill : ring_valid L pos fill = true <-> fill <= L /\ (pos = 0 \/ pos < L).
Proof.
  unfold ring_valid. rewrite andb_true_iff, orb_true_iff, Z.leb_le, Z.eqb_eq, Z.ltb_lt. tauto.
Qed.

Lemma lenZ_mreadn m off n d : mreadn m off n = Some d -> lenZ d = n.
Proof.
  unfold mreadn. rewrite fits_spec. destruct (Z.leb_spec 0 off); simpl; [|discriminate].
  destruct (Z.leb_spec 0 n); simpl; [|discriminate]. destruct (Z.leb_spec (off + n) (lenZ m)); [|discriminate].
  intros E; inversion E; subst. rewrite lenZ_takeZ, lenZ_dropZ. lia.
Qed.

(** growing: the new block has the new length, recv_buf_pos = 0 *)
Lemma grow_ok G s : hinv s -> exists buf pos, http_grow G s = Some (buf, pos) /\
  h_fill s < lenZ buf /\ 0 <= pos /\ pos < lenZ buf /\ lenZ (h_buf s) <= lenZ buf.
Proof.
  intros (P & F & PL & C & CB). unfold http_grow. cbv zeta.
  destruct (Z.eqb_spec (h_fill s) (lenZ (h_buf s))) as [GR|NG].
  - destruct (Z.ltb_spec 0 (h_fill s)).
    + set (tail := Z.min (h_fill s) (lenZ (h_buf s) - h_pos s)).
      destruct (mreadn_ok (h_buf s) (h_pos s) tail ltac:(lia) ltac:(unfold tail; lia) ltac:(unfold tail; lia)) as [d1 M1].
      destruct (mreadn_ok (h_buf s) 0 (h_fill s - tail) ltac:(lia) ltac:(unfold tail; lia) ltac:(unfold tail; lia)) as [d2 M2].
      rewrite M1, M2. eexists _, _. split; [reflexivity|].
      rewrite !lenZ_app, lenZ_repZ, (lenZ_mreadn _ _ _ _ M1), (lenZ_mreadn _ _ _ _ M2). lia.
    + eexists _, _. split; [reflexivity|]. rewrite lenZ_repZ. lia.
  - eexists _, _. split; [reflexivity|]. lia.
Qed.

Lemma body_ok cap G s : 1 <= cap -> hinv s -> okp (http_body cap G s).
Proof.
  intros CP HI. pose proof HI as (P & F & PL & C & CB). unfold http_body.
  destruct (Z.eqb_spec (h_state s) HT_CONNECTED) as [SC|SC].
  { destruct (Z.ltb_spec 0 (h_fill s)).
    { destruct (ring_pop_ok cap s HI ltac:(lia) CP) as (data & pos' & -> & PR & _).
      split; [repeat constructor | apply lv_up; apply lv_done; intros _].
      unfold hinv, with_ring; simpl. repeat split; try lia; auto. }
    rewrite (CB SC). unfold passthrough_cap.
    split.
    - apply sf_read. intros d _. destruct (lenZ d =? 0); repeat constructor.
    - apply lv_read. intros d. destruct (lenZ d =? 0); repeat (apply lv_up || apply lv_done); intros _; exact HI. }
  destruct (grow_ok G s HI) as (buf & pos & GR & LL1 & LL2 & LL3 & LL4). rewrite GR. cbv zeta.
  set (L := lenZ buf) in *.
  assert (RV : ring_valid L pos (h_fill s) = true) by (apply ring_valid_spec; lia).
  rewrite RV. change (negb true) with false. cbv iota.
  set (wrapped := L <? pos + h_fill s).
  set (off0 := if wrapped then (pos + h_fill s) mod L else pos + h_fill s).
  set (size0 := if wrapped then L - h_fill s else L - (pos + h_fill s)).
  set (size1 := if wrapped then 0 else pos).
  assert (GEO : 0 <= off0 /\ 0 <= size0 /\ off0 + size0 <= L /\ 0 <= size1 <= L /\ size0 + size1 = L - h_fill s).
  { unfold off0, size0, size1, wrapped. destruct (Z.ltb_spec L (pos + h_fill s)).
    - assert (E : (pos + h_fill s) mod L = pos + h_fill s - L).
      { symmetry. apply Z.mod_unique with 1; lia. }
      rewrite E. lia.
    - lia. }
  set (s0 := {| h_state := h_state s; h_base := h_base s; h_queue := h_queue s; h_buf := buf;
                h_pos := pos; h_fill := h_fill s; h_cl := h_cl s |}).
  assert (HI0 : hinv s0) by (unfold hinv, s0; simpl; fold L; repeat split; try lia; auto).
  destruct (h_base s) eqn:B; [|apply okp_done; intros; lia].
  assert (K : forall d, (lenZ d <= size0 + size1 ->
      safe (if lenZ d =? 0 then PDone s0 0 else
            match mwrite buf off0 (takeZ size0 d) with
            | None => PFault
            | Some b1 => match mwrite b1 0 (dropZ size0 d) with
                         | None => PFault
                         | Some b2 => if negb (ring_valid L pos (h_fill s + lenZ d)) then PFault else
                             http_parse cap (Datatypes.S (Datatypes.S (Datatypes.S (Datatypes.S (Datatypes.S (Z.to_nat (h_fill s + lenZ d)))))))
                               {| h_state := h_state s; h_base := true; h_queue := h_queue s; h_buf := b2;
                                  h_pos := pos; h_fill := h_fill s + lenZ d; h_cl := h_cl s |}
                         end
            end)) /\
      leaves hP (if lenZ d =? 0 then PDone s0 0 else
            match mwrite buf off0 (takeZ size0 d) with
            | None => PFault
            | Some b1 => match mwrite b1 0 (dropZ size0 d) with
                         | None => PFault
                         | Some b2 => if negb (ring_valid L pos (h_fill s + lenZ d)) then PFault else
                             http_parse cap (Datatypes.S (Datatypes.S (Datatypes.S (Datatypes.S (Datatypes.S (Z.to_nat (h_fill s + lenZ d)))))))
                               {| h_state := h_state s; h_base := true; h_queue := h_queue s; h_buf := b2;
                                  h_pos := pos; h_fill := h_fill s + lenZ d; h_cl := h_cl s |}
                         end
            end)).
  { intros d. pose proof (lenZ_nonneg d) as Ld.
    destruct (Z.eqb_spec (lenZ d) 0).
    { split; [intros _|]; constructor. intros _; exact HI0. }
    assert (PARSE : forall b2, lenZ b2 = L -> h_fill s + lenZ d <= L ->
      okp (http_parse cap (Datatypes.S (Datatypes.S (Datatypes.S (Datatypes.S (Datatypes.S (Z.to_nat (h_fill s + lenZ d)))))))
             {| h_state := h_state s; h_base := true; h_queue := h_queue s; h_buf := b2;
                h_pos := pos; h_fill := h_fill s + lenZ d; h_cl := h_cl s |})).
    { intros b2 L2 FL. apply parse_ok; [exact CP| |].
      - unfold hring, hinv; simpl. rewrite L2. repeat split; try lia; auto.
      - cbn [h_fill h_state]. unfold rank.
        destruct (h_state s =? HT_INIT); [|destruct (h_state s =? HT_HEADERS); [|destruct (h_state s =? HT_BODY)]]; lia. }
    split.
    - intros LD.
      assert (T0 : lenZ (takeZ size0 d) <= size0) by (rewrite lenZ_takeZ; lia).
      assert (T1 : lenZ (dropZ size0 d) <= size1) by (rewrite lenZ_dropZ; lia).
      pose proof (lenZ_nonneg (takeZ size0 d)). pose proof (lenZ_nonneg (dropZ size0 d)).
      rewrite (mwrite_some buf off0) by (fold L; lia).
      set (b1 := takeZ off0 buf ++ takeZ size0 d ++ dropZ (off0 + lenZ (takeZ size0 d)) buf).
      assert (L1 : lenZ b1 = L) by (unfold b1; rewrite lenZ_splice; fold L; lia).
      rewrite (mwrite_some b1 0) by lia.
      assert (RV' : ring_valid L pos (h_fill s + lenZ d) = true) by (apply ring_valid_spec; lia).
      rewrite RV'. change (negb true) with false. cbv iota. apply PARSE; [|lia].
      rewrite lenZ_splice; lia.
    - destruct (mwrite buf off0 (takeZ size0 d)) as [b1|] eqn:M1; [|constructor].
      destruct (mwrite b1 0 (dropZ size0 d)) as [b2|] eqn:M2; [|constructor].
      destruct (ring_valid L pos (h_fill s + lenZ d)) eqn:RV'; [|constructor]. change (negb true) with false. cbv iota.
      apply ring_valid_spec in RV'. apply PARSE; [|lia].
      rewrite (mwrite_len _ _ _ _ M2), (mwrite_len _ _ _ _ M1). reflexivity. }
  split.
  - constructor. intros d Ld. apply (proj1 (K d)). lia.
  - constructor. intros d. apply (proj2 (K d)).
Qed.

Lemma http_inv_step cap G s kb s1 r k e : 1 <= cap -> hinv s -> exec (http_body cap G s) kb = (Some (s1, r), k, e) -> 0 <= r -> hinv s1.
Proof. intros CP I E R. exact (leaves_exec hP _ (proj2 (body_ok cap G s CP I)) _ _ _ _ _ E R). Qed.

Lemma exec_mark_inv {S} n (p : prog S) kb o k e : exec (PMark n p) kb = (o, k, e) -> exists e', exec p kb = (o, k, e').
Proof. simpl. destruct (exec p kb) as [[o' k'] e']. intros E; inversion E; subst. eauto. Qed.

(** the parser never puts bytes into the ring: whatever it leaves holds at most what it was given *)
Definition fillP (n : Z) (s1 : hst) (r : Z) : Prop := h_fill s1 <= n.
Lemma fill_flush n q p : leaves (fillP n) p -> leaves (fillP n) (flush_queue q p).
Proof. apply flush_queue_leaves. Qed.
Lemma handover_fill cap n s : 1 <= cap -> hring s -> h_fill s <= n -> leaves (fillP n) (http_handover cap s).
Proof.
  intros CP (HI & _) F. pose proof HI as (P & Fl & _). unfold http_handover. cbv zeta.
  destruct (Z.ltb_spec 0 (h_fill s)).
  2:{ apply fill_flush. constructor. unfold fillP; simpl. lia. }
  destruct (ring_pop_ok cap s HI ltac:(lia) CP) as (data & pos' & -> & _).
  apply fill_flush. apply lv_up, lv_done. unfold fillP; simpl. lia.
Qed.
Lemma parse_fill cap n : 1 <= cap -> forall fuel s, hring s -> h_fill s <= n -> leaves (fillP n) (http_parse cap fuel s).
Proof.
  intros CP. induction fuel as [|fuel IH]; intros s R F; [constructor|].
  pose proof R as ((P & Fl & PL & C & CB) & L0 & PL' & B).
  simpl http_parse. cbv zeta.
  destruct (Z.eqb_spec (h_state s) HT_INIT) as [S0|S0].
  { pose proof (parse_init_ok (h_buf s) (lenZ (h_buf s)) (h_pos s) (h_fill s) L0 eq_refl) as PI.
    destruct (parse_init (h_buf s) (lenZ (h_buf s)) (h_pos s) (h_fill s)) as [| | |m]; try contradiction.
    - constructor. exact F.
    - unfold http_error. constructor. unfold fillP; simpl. exact F.
    - apply IH. + apply hring_step; auto; lia. + unfold with_ring; simpl. lia. }
  destruct (Z.eqb_spec (h_state s) HT_HEADERS) as [S1|S1].
  { pose proof (parse_header_ok (h_buf s) (lenZ (h_buf s)) (h_pos s) (h_fill s) L0 eq_refl (h_cl s) C) as PH.
    destruct (parse_header (h_buf s) (lenZ (h_buf s)) (h_pos s) (h_fill s) (h_cl s)) as [[r cl'] stale].
    assert (X : leaves (fillP n) match r with
       | PrFault => PFault | PrNeed => PDone (with_ring s HT_HEADERS (h_pos s) (h_fill s) cl') 0
       | PrErr => http_error (with_ring s HT_HEADERS (h_pos s) (h_fill s) cl')
       | PrOk m => http_parse cap fuel (with_ring s (if m =? 2 then HT_BODY else HT_HEADERS) ((h_pos s + m) mod lenZ (h_buf s)) (h_fill s - m) cl') end).
    { destruct r as [| | |m]; try contradiction.
      - constructor. unfold fillP; simpl. exact F.
      - unfold http_error. constructor. unfold fillP; simpl. exact F.
      - destruct PH as [N C']. apply IH.
        + apply hring_step; auto; lia.
        + unfold with_ring; simpl. lia. }
    unfold mark_if. destruct stale; [constructor|]; exact X. }
  destruct (Z.eqb_spec (h_state s) HT_BODY) as [S2|S2].
  { destruct (Z.eqb_spec (h_cl s) 0).
    - apply IH.
      + unfold hring, hinv, with_ring in *; simpl. repeat split; try lia; auto.
      + unfold with_ring; simpl. lia.
    - destruct (Z.eqb_spec (h_fill s) 0).
      + constructor. exact F.
      + apply IH.
        * apply hring_step; auto; lia.
        * unfold with_ring; simpl. lia. }
  destruct (Z.eqb_spec (h_state s) HT_CONNECTED).
  - apply handover_fill; auto.
  - unfold http_error. constructor. unfold fillP; simpl. exact F.
Qed.

(** one call, not yet connected: the ring afterwards holds at most what it held plus what was read *)
Lemma call_fill cap G s kb s1 r k e : 1 <= cap -> hinv s -> h_state s <> HT_CONNECTED ->
  exec (http_body cap G s) kb = (Some (s1, r), k, e) -> 0 <= r ->
  h_fill s1 + lenZ k <= h_fill s + lenZ kb /\ (kb <> [] -> lenZ k < lenZ kb) /\ (kb = [] -> r = 0 /\ k = []).
Proof.
  intros CP I SC E R. pose proof I as (P & F & PL & C & CB). pose proof (lenZ_nonneg kb) as K0.
  unfold http_body in E. destruct (Z.eqb_spec (h_state s) HT_CONNECTED) as [X|_]; [contradiction|].
  destruct (grow_ok G s I) as (buf & pos & GR & LL1 & LL2 & LL3 & LL4). rewrite GR in E. cbv zeta in E.
  set (L := lenZ buf) in *.
  assert (RV : ring_valid L pos (h_fill s) = true) by (apply ring_valid_spec; lia).
  rewrite RV in E. change (negb true) with false in E. cbv iota in E.
  destruct (h_base s) eqn:Bs.
  2:{ simpl in E; inversion E; subst. lia. }
  rewrite exec_read in E.
  set (req := (if L <? pos + h_fill s then L - h_fill s else L - (pos + h_fill s)) + (if L <? pos + h_fill s then 0 else pos)) in *.
  assert (REQ : 1 <= req <= L - h_fill s) by (unfold req; destruct (L <? pos + h_fill s); lia).
  set (d := takeZ req kb) in *. set (rest := dropZ req kb) in *.
  assert (Ld : lenZ d + lenZ rest = lenZ kb).
  { unfold d, rest. rewrite lenZ_takeZ, lenZ_dropZ. lia. }
  pose proof (lenZ_nonneg d). pose proof (lenZ_nonneg rest).
  assert (Ld' : lenZ d = Z.min req (lenZ kb)) by (unfold d; rewrite lenZ_takeZ; lia).
  destruct (Z.eqb_spec (lenZ d) 0) as [D0|D0].
  { simpl in E. inversion E; subst. simpl. split; [lia|]. split.
    - intros N. pose proof (lenZ_pos kb N). lia.
    - intros ->. split; auto. }
  match type of E with context [exec ?p rest] => assert (LV : leaves (fillP (h_fill s + lenZ d)) p) end.
  { destruct (mwrite buf _ _) as [b1|] eqn:W1; [|constructor].
    destruct (mwrite b1 0 _) as [b2|] eqn:W2; [|constructor].
    destruct (negb _) eqn:RV'; [constructor|].
    apply negb_false_iff, ring_valid_spec in RV'.
    assert (L2 : lenZ b2 = L) by (rewrite (mwrite_len _ _ _ _ W2), (mwrite_len _ _ _ _ W1); reflexivity).
    apply parse_fill; [exact CP| |simpl; lia].
    unfold hring, hinv; simpl. rewrite L2. repeat split; try lia; auto. }
  destruct (exec _ rest) as [[o' k'] e'] eqn:EP. inversion E; subst o' k' e. clear E.
  pose proof (leaves_exec _ _ LV _ _ _ _ _ EP) as X. unfold fillP in X.
  apply exec_suffix in EP. split; [lia|]. split.
  - intros _. lia.
  - intros ->. rewrite lenZ_nil0 in *. lia.
Qed.

(** the measure that every call but the last of a readable event decreases *)
Definition hmeas (s : hst) (kb : list Z) : nat := Z.to_nat (2 * h_fill s + 4 * lenZ kb).

Lemma http_call_okw cap G : 1 <= cap -> forall s kb o k e, hinv s -> exec (http_body cap G s) kb = (o, k, e) ->
  match o with
  | None => False
  | Some (s1, r) => 0 <= r -> hinv s1 /\
      ((r = 0 /\ lenZ k = lenZ kb /\ kb = []) \/ ((r <> 0 \/ lenZ k <> lenZ kb) /\ (hmeas s1 k < hmeas s kb)%nat))
  end.
Proof.
  intros CP s kb o k e I E. destruct o as [[s1 r]|].
  2:{ exact (safe_exec _ (proj1 (body_ok cap G s CP I)) _ _ _ E). }
  intros R. split; [eapply http_inv_step; eauto|].
  pose proof I as (P & F & PL & C & CB). pose proof (lenZ_nonneg kb) as K0. unfold hmeas.
  destruct (Z.eq_dec (h_state s) HT_CONNECTED) as [SC|SC].
  - unfold http_body in E. rewrite SC in E. change (HT_CONNECTED =? HT_CONNECTED) with true in E. cbv iota in E.
    destruct (Z.ltb_spec 0 (h_fill s)).
    + destruct (ring_pop_ok cap s I ltac:(lia) CP) as (data & pos' & RP & _). rewrite RP in E.
      simpl in E. inversion E; subst. right. split; [left; lia|]. unfold with_ring; simpl. lia.
    + rewrite (CB SC) in E. unfold passthrough_cap in E. rewrite exec_read in E.
      pose proof (lenZ_takeZ cap kb) as LT. pose proof (lenZ_dropZ cap kb) as LD.
      destruct (Z.eqb_spec (lenZ (takeZ cap kb)) 0) as [D0|D0]; simpl in E; inversion E; subst.
      * left. assert (lenZ kb = 0) by lia. split; auto. split; [lia|]. apply lenZ_nil; auto.
      * right. split; [left; lia|]. lia.
  - destruct (call_fill cap G s kb s1 r k e CP I SC E R) as (A & B & D).
    destruct kb as [|x kb'].
    + destruct (D eq_refl) as [-> ->]. left. auto.
    + assert (N : x :: kb' <> []) by discriminate. specialize (B N). right. split; [right; lia|].
      pose proof (lenZ_nonneg k). pose proof (proj1 (proj2 (http_inv_step cap G s _ s1 r k e CP I E R))). lia.
Qed.

Lemma hinv_init : hinv http_init.
Proof. unfold hinv, http_init; simpl. rewrite lenZ_nil0. repeat split; try lia; auto; try discriminate. Qed.

Lemma http_fuel_ok s c : (hmeas s c < http_fuel s c)%nat.
Proof.
  unfold hmeas, http_fuel. pose proof (lenZ_nonneg c). rewrite lenZ_length in *.
  destruct (Z.le_gt_cases 0 (h_fill s)); lia.
Qed.

(** a run: readable events with the caller's buffer sizes [caps] (all >= 1) *)
Definition caps_ok (cs : list (Z * list Z)) : Prop := Forall (fun c => 1 <= fst c) cs.

Lemma http_feed_ok cap G w c w' e : 1 <= cap -> (dead w = 0 -> hinv (inner w)) -> dead w <> 2 -> dead w <> 3 ->
  http_feed cap G w c = (w', e) ->
  ~ In EFault e /\ ~ In ELive e /\ (dead w' = 0 -> hinv (inner w')) /\ dead w' <> 2 /\ dead w' <> 3.
Proof.
  intros CP I D2 D3 FD. unfold http_feed in FD. destruct (Z.eqb_spec (dead w) 0) as [D0|D0].
  - exact (drainw_ok (http_body cap G) hinv hmeas (http_call_okw cap G CP) _ _ _ _ _ _ (I D0) (http_fuel_ok _ _) FD).
  - inversion FD; subst. refine (conj _ (conj _ (conj I (conj D2 D3)))); intros [].
Qed.

Lemma http_run_ok G : forall cs w, caps_ok cs -> (dead w = 0 -> hinv (inner w)) -> dead w <> 2 -> dead w <> 3 ->
  ~ In EFault (snd (http_run G w cs)) /\ ~ In ELive (snd (http_run G w cs)) /\
  dead (fst (http_run G w cs)) <> 2 /\ dead (fst (http_run G w cs)) <> 3.
Proof.
  induction cs as [|[cap c] cs IH]; intros w CO I D2 D3; simpl.
  - repeat split; auto.
  - inversion CO as [|? ? C1 C2]; subst. simpl in C1.
    destruct (http_feed cap G w c) as [w1 e1] eqn:F1. destruct (http_run G w1 cs) as [w2 e2] eqn:R2. simpl.
    destruct (http_feed_ok cap G w c w1 e1 C1 I D2 D3 F1) as (A & B & C & E2 & E3).
    specialize (IH w1 C2 C E2 E3). rewrite R2 in IH. simpl in IH. destruct IH as (A' & B' & C' & D').
    repeat split; auto; rewrite in_app_iff; tauto.
Qed.

Theorem http_no_fault G cs : caps_ok cs ->
  ~ In EFault (snd (http_run G (alive http_init) cs)) /\ ~ In ELive (snd (http_run G (alive http_init) cs)).
Proof.
  intros CO. destruct (http_run_ok G cs (alive http_init) CO (fun _ => hinv_init) ltac:(discriminate) ltac:(discriminate)) as (A & B & _); auto.
Qed.
