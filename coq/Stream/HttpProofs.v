(** Proofs about the HTTP CONNECT model. *)
From Coq Require Import ZArith List Bool Lia.
From Nice Require Import Stream.StreamBase Stream.StreamProofs Stream.TcpQueueModel Stream.PsslModel Stream.HttpModel Stream.ProxyProofs.
Import ListNotations.
Local Open Scope Z_scope.

Theorem http_tunnel_transparent G s cs : h_state s = HT_CONNECTED -> h_base s = true ->
  fst (run (http_body G) (alive s) cs) = alive s /\
  vis vis_str (snd (run (http_body G) (alive s) cs)) = map OByte (concat cs).
Proof.
  intros H B. apply transparent_run. apply passthrough_transparent. unfold http_body. rewrite H, B. reflexivity.
Qed.

Lemma http_send_transparent s rel bufs : h_state s = HT_CONNECTED -> h_base s = true ->
  http_send s rel bufs = (s, [Dn (concat bufs); Snd 1]).
Proof. intros H B. unfold http_send. rewrite H, B. reflexivity. Qed.

(** * No Fault, no spinning: every index into the ring stays in range, the assertions of
      assert_ring_buffer_valid hold, every loop of the parser terminates within its fuel *)
Section RingFacts.
Variables (buf : list Z) (L pos fill : Z).
Hypothesis Lpos : 0 < L.
Hypothesis Lbuf : lenZ buf = L.

Lemma gb_some p : exists v, gb buf L pos p = Some v.
Proof.
  unfold gb. apply mread_some. rewrite Lbuf. apply Z.mod_pos_bound. lia.
Qed.

Lemma eat_ws_ok : forall fuel p, 0 <= p -> (Z.to_nat (fill - p) < fuel)%nat ->
  match eat_ws buf L pos fill fuel p with PrFault => False | PrOk p' => p <= p' < fill | _ => True end.
Proof.
  induction fuel as [|f IH]; intros p P F; [lia|]. simpl.
  destruct (Z.ltb_spec p fill); auto.
  destruct (gb_some p) as [v ->]. destruct (v =? 32); [|lia].
  specialize (IH (p + 1) ltac:(lia) ltac:(lia)).
  destruct (eat_ws buf L pos fill f (p + 1)); auto. lia.
Qed.

Lemma skip_line_ok : forall fuel p, 0 <= p -> (Z.to_nat (fill - p) < fuel)%nat ->
  match skip_line buf L pos fill fuel p with PrOk p' => p <= p' | _ => False end.
Proof.
  induction fuel as [|f IH]; intros p P F; [lia|]. simpl.
  destruct (Z.ltb_spec (p + 1) fill); [|lia].
  destruct (gb_some p) as [v ->]. destruct (v =? 13); [lia|].
  destruct (gb_some (p + 1)) as [v' ->]. destruct (v' =? 10); [lia|].
  specialize (IH (p + 1) ltac:(lia) ltac:(lia)).
  destruct (skip_line buf L pos fill f (p + 1)); auto. lia.
Qed.

Lemma match_exact_ok : forall pat p, match match_exact buf L pos p pat with PrOk _ => True | _ => False end.
Proof.
  induction pat as [|c t IH]; intros p; simpl; auto.
  destruct (gb_some p) as [v ->]. destruct (v =? c); auto. apply IH.
Qed.
Lemma match_ci_ok : forall pat p, match match_ci buf L pos p pat with PrOk _ => True | _ => False end.
Proof.
  induction pat as [|c t IH]; intros p; simpl; auto.
  destruct (gb_some p) as [v ->]. destruct ((v =? c) || ((97 <=? c) && (c <=? 122) && (v =? c - 32))); auto. apply IH.
Qed.

Lemma digits_ok : forall fuel p cl st, 0 <= p <= fill -> 0 <= cl -> (Z.to_nat (fill + 1 - p) < fuel)%nat ->
  match fst (digits buf L pos fill fuel p cl st) with
  | DFault => False | DBreak p' cl' => p <= p' /\ 0 <= cl' | DNeed cl' => 0 <= cl' | DErr => True
  end.
Proof.
  induction fuel as [|f IH]; intros p cl st P C F; [lia|]. simpl.
  destruct (gb_some p) as [v ->]. destruct (v =? 13); simpl; [lia|].
  unfold is_digit. destruct (Z.leb_spec 48 v); destruct (Z.leb_spec v 57); simpl; auto.
  destruct ((MAXSIZE / 10 <? cl) || (MAXSIZE - (v - 48) <? cl * 10)); simpl; [lia|].
  destruct (Z.leb_spec fill (p + 1)); simpl; [lia|].
  specialize (IH (p + 1) (cl * 10 + (v - 48)) (st || (fill <=? p)) ltac:(lia) ltac:(lia) ltac:(lia)).
  destruct (fst (digits buf L pos fill f (p + 1) (cl * 10 + (v - 48)) (st || (fill <=? p)))); auto. lia.
Qed.

(* since the loop stops one byte before recv_buf_fill it never evaluates a slot at or past it *)
Lemma digits_nostale : forall fuel p cl, 0 <= p < fill -> snd (digits buf L pos fill fuel p cl false) = false.
Proof.
  induction fuel as [|f IH]; intros p cl P; simpl; auto.
  destruct (Z.leb_spec fill p); [lia|]. simpl.
  destruct (gb buf L pos p) as [v|]; auto. destruct (v =? 13); auto. destruct (negb (is_digit v)); auto.
  destruct (_ || _); auto. destruct (Z.leb_spec fill (p + 1)); auto. apply IH. lia.
Qed.

Hypothesis Fill : 0 <= fill.

Lemma fuel_enough p : 0 <= p -> (Z.to_nat (fill - p) < fuel_of fill)%nat.
Proof. intros. unfold fuel_of. lia. Qed.

Lemma parse_init_ok :
  match parse_init buf L pos fill with PrFault => False | PrOk n => 2 <= n <= fill | _ => True end.
Proof.
  unfold parse_init.
  assert (Q0 : 0 <= 0) by lia.
  pose proof (eat_ws_ok (fuel_of fill) 0 Q0 (fuel_enough 0 Q0)) as E0.
  destruct (eat_ws buf L pos fill (fuel_of fill) 0) as [| | |p0]; auto.
  destruct (fill <? p0 + 7); auto.
  pose proof (match_exact_ok [72; 84; 84; 80; 47; 49; 46] p0) as M.
  destruct (match_exact buf L pos p0 [72; 84; 84; 80; 47; 49; 46]) as [| | |[|]]; auto.
  destruct (fill <=? p0 + 7); auto.
  destruct (gb_some (p0 + 7)) as [v ->]. destruct (negb (v =? 48) && negb (v =? 49)); auto.
  destruct (fill <=? p0 + 7 + 1); auto.
  destruct (gb_some (p0 + 7 + 1)) as [sp ->]. destruct (negb (sp =? 32)); auto.
  assert (Q1 : 0 <= p0 + 7 + 1) by lia.
  pose proof (eat_ws_ok (fuel_of fill) (p0 + 7 + 1) Q1 (fuel_enough _ Q1)) as E1.
  destruct (eat_ws buf L pos fill (fuel_of fill) (p0 + 7 + 1)) as [| | |p3]; auto.
  destruct (fill <? p3 + 3); auto.
  destruct (gb_some p3) as [a ->]. destruct (gb_some (p3 + 1)) as [b ->]. destruct (gb_some (p3 + 2)) as [c ->].
  destruct (negb (a =? 50) || negb (is_digit b) || negb (is_digit c)); auto.
  assert (Q3 : 0 <= p3) by lia.
  pose proof (skip_line_ok (fuel_of fill) p3 Q3 (fuel_enough _ Q3)) as S.
  destruct (skip_line buf L pos fill (fuel_of fill) p3) as [| | |p4]; try contradiction.
  destruct (Z.leb_spec fill (p4 + 1)); auto. lia.
Qed.

Lemma parse_header_ok cl : 0 <= cl ->
  match parse_header buf L pos fill cl with
  | (PrFault, _, _) => False
  | (PrOk n, cl', _) => 2 <= n <= fill /\ 0 <= cl'
  | (_, cl', _) => 0 <= cl'
  end.
Proof.
  intros C. unfold parse_header. cbv zeta.
  assert (FIN : forall p cl' st, 0 <= p -> 0 <= cl' ->
    match hdr_finish buf L pos fill p cl' st
    with (PrFault, _, _) => False | (PrOk n, cl'', _) => 2 <= n <= fill /\ 0 <= cl'' | (_, cl'', _) => 0 <= cl'' end).
  { intros p cl' st P C'. unfold hdr_finish.
    pose proof (skip_line_ok (fuel_of fill) p P (fuel_enough _ P)) as S.
    destruct (skip_line buf L pos fill (fuel_of fill) p) as [| | |p4]; try contradiction.
    destruct (Z.leb_spec fill (p4 + 1)); auto. lia. }
  destruct (15 <? fill); [|apply FIN; lia].
  pose proof (match_ci_ok CONTENT_LENGTH 0) as M.
  destruct (match_ci buf L pos 0 CONTENT_LENGTH) as [| | |[|]]; try contradiction; [|apply FIN; lia].
  assert (Q15 : 0 <= 15) by lia.
  pose proof (eat_ws_ok (fuel_of fill) 15 Q15 (fuel_enough _ Q15)) as E.
  destruct (eat_ws buf L pos fill (fuel_of fill) 15) as [| | |p]; auto; try contradiction.
  pose proof (digits_ok (fuel_of fill) p 0 false ltac:(lia) ltac:(lia) ltac:(unfold fuel_of; lia)) as D.
  destruct (digits buf L pos fill (fuel_of fill) p 0 false) as [[p' cl'|cl'| |] st]; simpl in D; auto; try lia.
  apply FIN; lia.
Qed.
Lemma parse_header_nostale cl : snd (parse_header buf L pos fill cl) = false.
Proof.
  unfold parse_header. cbv zeta.
  assert (FIN : forall p c, snd (hdr_finish buf L pos fill p c false) = false).
  { intros. unfold hdr_finish. destruct (skip_line _ _ _ _ _ _); auto. destruct (_ <=? _); auto. }
  destruct (15 <? fill); [|apply FIN].
  destruct (match_ci buf L pos 0 CONTENT_LENGTH) as [| | |[|]]; auto.
  assert (Q15 : 0 <= 15) by lia.
  pose proof (eat_ws_ok (fuel_of fill) 15 Q15 (fuel_enough _ Q15)) as E.
  destruct (eat_ws buf L pos fill (fuel_of fill) 15) as [| | |p]; auto.
  pose proof (digits_nostale (fuel_of fill) p 0 ltac:(lia)) as D.
  destruct (digits buf L pos fill (fuel_of fill) p 0 false) as [[p' cl'|cl'| |] st]; simpl in D; subst st; auto.
Qed.
End RingFacts.

Definition hinv (s : hst) : Prop :=
  0 <= h_pos s /\ 0 <= h_fill s <= lenZ (h_buf s) /\ (h_pos s = 0 \/ h_pos s < lenZ (h_buf s)) /\ 0 <= h_cl s /\
  (h_state s = HT_CONNECTED -> h_base s = true).
(* while the parser runs the ring exists and the base socket is there *)
Definition hring (s : hst) : Prop := hinv s /\ 0 < lenZ (h_buf s) /\ h_pos s < lenZ (h_buf s) /\ h_base s = true.
Definition hP (s1 : hst) (r : Z) : Prop := 0 <= r -> hinv s1.
Definition okp (p : prog hst) : Prop := safe p /\ leaves hP p.

Lemma okp_mark b n p : okp p -> okp (mark_if b n p).
Proof. intros [A B]. unfold mark_if. destruct b; [split; constructor; auto | split; auto]. Qed.
Lemma okp_flush q p : okp p -> okp (flush_queue q p).
Proof. intros [A B]. split; [apply flush_queue_safe | apply flush_queue_leaves]; auto. Qed.
Lemma okp_error s : okp (http_error s).
Proof. unfold http_error. split; constructor. intros H; lia. Qed.
Lemma okp_done s r : (0 <= r -> hinv s) -> okp (PDone s r).
Proof. intros. split; constructor. exact H. Qed.

Lemma mod_range a L : 0 < L -> 0 <= a mod L < L.
Proof. intros. apply Z.mod_pos_bound. lia. Qed.

Lemma hring_step s st n cl' : hring s -> 0 <= n <= h_fill s -> 0 <= cl' ->
  hring (with_ring s st ((h_pos s + n) mod lenZ (h_buf s)) (h_fill s - n) cl').
Proof.
  intros ((P & F & PL & C & CB) & L0 & PL' & B) N C'. pose proof (mod_range (h_pos s + n) _ L0).
  unfold hring, hinv, with_ring; simpl. repeat split; try lia; auto.
Qed.

Lemma mreadn_ok m off n : 0 <= off -> 0 <= n -> off + n <= lenZ m -> exists d, mreadn m off n = Some d.
Proof.
  intros. unfold mreadn. rewrite fits_spec.
  destruct (Z.leb_spec 0 off); [|lia]. destruct (Z.leb_spec 0 n); [|lia].
  destruct (Z.leb_spec (off + n) (lenZ m)); [|lia]. simpl. eauto.
Qed.

Lemma handover_ok s : hring s -> okp (http_handover s).
Proof.
  intros ((P & F & PL & C & CB) & L0 & PL' & B). unfold http_handover. cbv zeta.
  assert (HI : forall c, 0 <= c <= h_fill s ->
     hinv {| h_state := HT_CONNECTED; h_base := h_base s; h_queue := []; h_buf := h_buf s;
             h_pos := (h_pos s + c) mod lenZ (h_buf s); h_fill := h_fill s - c; h_cl := h_cl s |}).
  { intros c Cc. pose proof (mod_range (h_pos s + c) _ L0). unfold hinv; simpl. repeat split; try lia; auto. }
  assert (FIN : forall c data, 0 <= c <= h_fill s ->
     okp (mark_if (0 <? h_fill s - c) 3
            (flush_queue (h_queue s)
              (PUp data (-1) (PDone {| h_state := HT_CONNECTED; h_base := h_base s; h_queue := []; h_buf := h_buf s;
                                       h_pos := (h_pos s + c) mod lenZ (h_buf s); h_fill := h_fill s - c; h_cl := h_cl s |} 1))))).
  { intros c data Cc. apply okp_mark. apply okp_flush.
    split; [repeat constructor | apply lv_up; apply lv_done; intros _; apply HI; auto]. }
  destruct (Z.ltb_spec 0 (h_fill s)).
  2:{ apply okp_flush. apply okp_done. intros _. unfold hinv; simpl. repeat split; try lia; auto. }
  unfold UPCAP.
  destruct (Z.ltb_spec (lenZ (h_buf s)) (h_pos s + h_fill s)).
  - set (len1 := Z.min (lenZ (h_buf s) - h_pos s) 70000).
    destruct (mreadn_ok (h_buf s) (h_pos s) len1 ltac:(lia) ltac:(unfold len1; lia) ltac:(unfold len1; lia)) as [d1 ->].
    set (len2 := Z.min (h_fill s - len1) (70000 - len1)).
    destruct (mreadn_ok (h_buf s) 0 len2 ltac:(lia) ltac:(unfold len2, len1; lia) ltac:(unfold len2, len1; lia)) as [d2 ->].
    apply FIN. unfold len2, len1. lia.
  - set (len := Z.min (h_fill s) 70000).
    destruct (mreadn_ok (h_buf s) (h_pos s) len ltac:(lia) ltac:(unfold len; lia) ltac:(unfold len; lia)) as [d1 ->].
    apply FIN. unfold len. lia.
Qed.

Definition rank (st : Z) : nat :=
  if st =? HT_INIT then 4%nat else if st =? HT_HEADERS then 3%nat else if st =? HT_BODY then 2%nat else 1%nat.

Lemma parse_ok : forall fuel s, hring s -> (Z.to_nat (h_fill s) + rank (h_state s) < fuel)%nat -> okp (http_parse fuel s).
Proof.
  induction fuel as [|fuel IH]; intros s R F; [lia|].
  pose proof R as ((P & Fl & PL & C & CB) & L0 & PL' & B).
  simpl http_parse. cbv zeta.
  assert (F0 : 0 <= h_fill s) by lia.
  destruct (Z.eqb_spec (h_state s) HT_INIT) as [S0|S0].
  { pose proof (parse_init_ok (h_buf s) (lenZ (h_buf s)) (h_pos s) (h_fill s) L0 eq_refl) as PI.
    destruct (parse_init (h_buf s) (lenZ (h_buf s)) (h_pos s) (h_fill s)) as [| | |n]; try contradiction.
    - apply okp_done. intros _. exact (proj1 R).
    - apply okp_error.
    - apply IH. + apply hring_step; auto; lia.
      + unfold with_ring, rank in *; simpl. rewrite S0 in F. simpl in F. lia. }
  destruct (Z.eqb_spec (h_state s) HT_HEADERS) as [S1|S1].
  { pose proof (parse_header_ok (h_buf s) (lenZ (h_buf s)) (h_pos s) (h_fill s) L0 eq_refl (h_cl s) C) as PH.
    destruct (parse_header (h_buf s) (lenZ (h_buf s)) (h_pos s) (h_fill s) (h_cl s)) as [[r cl'] stale].
    apply okp_mark. destruct r as [| | |n]; try contradiction.
    - apply okp_done. intros _. unfold hinv, with_ring; simpl. repeat split; try lia; auto; try (intros X; discriminate X).
    - apply okp_error.
    - destruct PH as [N C']. apply IH.
      + apply hring_step; auto; lia.
      + unfold with_ring, rank in *; simpl. rewrite S1 in F. simpl in F.
        destruct (n =? 2); simpl; lia. }
  destruct (Z.eqb_spec (h_state s) HT_BODY) as [S2|S2].
  { destruct (Z.eqb_spec (h_cl s) 0).
    - apply IH.
      + unfold hring, hinv, with_ring in *; simpl. repeat split; try lia; auto.
      + unfold with_ring, rank in *; simpl. rewrite S2 in F. simpl in F. lia.
    - destruct (Z.eqb_spec (h_fill s) 0).
      + apply okp_done. intros _. exact (proj1 R).
      + apply IH.
        * apply hring_step; auto; lia.
        * unfold with_ring, rank in *; simpl. rewrite S2 in F. simpl in F. lia. }
  destruct (Z.eqb_spec (h_state s) HT_CONNECTED).
  - apply handover_ok; auto.
  - apply okp_error.
Qed.

Lemma lenZ_splice m o d : 0 <= o -> o + lenZ d <= lenZ m -> lenZ (takeZ o m ++ d ++ dropZ (o + lenZ d) m) = lenZ m.
Proof. intros. pose proof (lenZ_nonneg d). rewrite !lenZ_app, lenZ_takeZ, lenZ_dropZ. lia. Qed.

Lemma ring_valid_spec L pos fill : ring_valid L pos fill = true <-> fill <= L /\ (pos = 0 \/ pos < L).
Proof.
  unfold ring_valid. rewrite andb_true_iff, orb_true_iff, Z.leb_le, Z.eqb_eq, Z.ltb_lt. tauto.
Qed.

Lemma lenZ_mreadn m off n d : mreadn m off n = Some d -> lenZ d = n.
Proof.
  unfold mreadn. rewrite fits_spec. destruct (Z.leb_spec 0 off); simpl; [|discriminate].
  destruct (Z.leb_spec 0 n); simpl; [|discriminate]. destruct (Z.leb_spec (off + n) (lenZ m)); [|discriminate].
  intros E; inversion E; subst. rewrite lenZ_takeZ, lenZ_dropZ. lia.
Qed.

(** growing: the new block has the new length, recv_buf_pos = 0 *)
Lemma grow_ok G s : hinv s -> exists buf pos, http_grow G s = Some (buf, pos) /\
  h_fill s < lenZ buf /\ 0 <= pos /\ pos < lenZ buf /\ lenZ (h_buf s) <= lenZ buf.
Proof.
  intros (P & F & PL & C & CB). unfold http_grow. cbv zeta.
  destruct (Z.eqb_spec (h_fill s) (lenZ (h_buf s))) as [GR|NG].
  - destruct (Z.ltb_spec 0 (h_fill s)).
    + set (tail := Z.min (h_fill s) (lenZ (h_buf s) - h_pos s)).
      destruct (mreadn_ok (h_buf s) (h_pos s) tail ltac:(lia) ltac:(unfold tail; lia) ltac:(unfold tail; lia)) as [d1 M1].
      destruct (mreadn_ok (h_buf s) 0 (h_fill s - tail) ltac:(lia) ltac:(unfold tail; lia) ltac:(unfold tail; lia)) as [d2 M2].
      rewrite M1, M2. eexists _, _. split; [reflexivity|].
      rewrite !lenZ_app, lenZ_repZ, (lenZ_mreadn _ _ _ _ M1), (lenZ_mreadn _ _ _ _ M2). lia.
    + eexists _, _. split; [reflexivity|]. rewrite lenZ_repZ. lia.
  - eexists _, _. split; [reflexivity|]. lia.
Qed.

Lemma body_ok G s : hinv s -> okp (http_body G s).
Proof.
  intros HI. pose proof HI as (P & F & PL & C & CB). unfold http_body.
  destruct (Z.eqb_spec (h_state s) HT_CONNECTED) as [SC|SC].
  { rewrite (CB SC). unfold passthrough.
    split.
    - apply sf_read. intros d _. destruct (lenZ d =? 0); repeat constructor.
    - apply lv_read. intros d. destruct (lenZ d =? 0); repeat (apply lv_up || apply lv_done); intros _; exact HI. }
  destruct (grow_ok G s HI) as (buf & pos & GR & LL1 & LL2 & LL3 & LL4). rewrite GR. cbv zeta.
  set (L := lenZ buf) in *.
  assert (RV : ring_valid L pos (h_fill s) = true) by (apply ring_valid_spec; lia).
  rewrite RV. change (negb true) with false. cbv iota.
  set (wrapped := L <? pos + h_fill s).
  set (off0 := if wrapped then (pos + h_fill s) mod L else pos + h_fill s).
  set (size0 := if wrapped then L - h_fill s else L - (pos + h_fill s)).
  set (size1 := if wrapped then 0 else pos).
  assert (GEO : 0 <= off0 /\ 0 <= size0 /\ off0 + size0 <= L /\ 0 <= size1 <= L /\ size0 + size1 = L - h_fill s).
  { unfold off0, size0, size1, wrapped. destruct (Z.ltb_spec L (pos + h_fill s)).
    - assert (E : (pos + h_fill s) mod L = pos + h_fill s - L).
      { symmetry. apply Z.mod_unique with 1; lia. }
      rewrite E. lia.
    - lia. }
  set (s0 := {| h_state := h_state s; h_base := h_base s; h_queue := h_queue s; h_buf := buf;
                h_pos := pos; h_fill := h_fill s; h_cl := h_cl s |}).
  assert (HI0 : hinv s0) by (unfold hinv, s0; simpl; fold L; repeat split; try lia; auto).
  destruct (h_base s) eqn:B; [|apply okp_done; intros; lia].
  assert (K : forall d, (lenZ d <= size0 + size1 ->
      safe (if lenZ d =? 0 then PDone s0 0 else
            match mwrite buf off0 (takeZ size0 d) with
            | None => PFault
            | Some b1 => match mwrite b1 0 (dropZ size0 d) with
                         | None => PFault
                         | Some b2 => if negb (ring_valid L pos (h_fill s + lenZ d)) then PFault else
                             http_parse (Datatypes.S (Datatypes.S (Datatypes.S (Datatypes.S (Datatypes.S (Z.to_nat (h_fill s + lenZ d)))))))
                               {| h_state := h_state s; h_base := true; h_queue := h_queue s; h_buf := b2;
                                  h_pos := pos; h_fill := h_fill s + lenZ d; h_cl := h_cl s |}
                         end
            end)) /\
      leaves hP (if lenZ d =? 0 then PDone s0 0 else
            match mwrite buf off0 (takeZ size0 d) with
            | None => PFault
            | Some b1 => match mwrite b1 0 (dropZ size0 d) with
                         | None => PFault
                         | Some b2 => if negb (ring_valid L pos (h_fill s + lenZ d)) then PFault else
                             http_parse (Datatypes.S (Datatypes.S (Datatypes.S (Datatypes.S (Datatypes.S (Z.to_nat (h_fill s + lenZ d)))))))
                               {| h_state := h_state s; h_base := true; h_queue := h_queue s; h_buf := b2;
                                  h_pos := pos; h_fill := h_fill s + lenZ d; h_cl := h_cl s |}
                         end
            end)).
  { intros d. pose proof (lenZ_nonneg d) as Ld.
    destruct (Z.eqb_spec (lenZ d) 0).
    { split; [intros _|]; constructor. intros _; exact HI0. }
    assert (PARSE : forall b2, lenZ b2 = L -> h_fill s + lenZ d <= L ->
      okp (http_parse (Datatypes.S (Datatypes.S (Datatypes.S (Datatypes.S (Datatypes.S (Z.to_nat (h_fill s + lenZ d)))))))
             {| h_state := h_state s; h_base := true; h_queue := h_queue s; h_buf := b2;
                h_pos := pos; h_fill := h_fill s + lenZ d; h_cl := h_cl s |})).
    { intros b2 L2 FL. apply parse_ok.
      - unfold hring, hinv; simpl. rewrite L2. repeat split; try lia; auto.
      - cbn [h_fill h_state]. unfold rank.
        destruct (h_state s =? HT_INIT); [|destruct (h_state s =? HT_HEADERS); [|destruct (h_state s =? HT_BODY)]]; lia. }
    split.
    - intros LD.
      assert (T0 : lenZ (takeZ size0 d) <= size0) by (rewrite lenZ_takeZ; lia).
      assert (T1 : lenZ (dropZ size0 d) <= size1) by (rewrite lenZ_dropZ; lia).
      pose proof (lenZ_nonneg (takeZ size0 d)). pose proof (lenZ_nonneg (dropZ size0 d)).
      rewrite (mwrite_some buf off0) by (fold L; lia).
      set (b1 := takeZ off0 buf ++ takeZ size0 d ++ dropZ (off0 + lenZ (takeZ size0 d)) buf).
      assert (L1 : lenZ b1 = L) by (unfold b1; rewrite lenZ_splice; fold L; lia).
      rewrite (mwrite_some b1 0) by lia.
      assert (RV' : ring_valid L pos (h_fill s + lenZ d) = true) by (apply ring_valid_spec; lia).
      rewrite RV'. change (negb true) with false. cbv iota. apply PARSE; [|lia].
      rewrite lenZ_splice; lia.
    - destruct (mwrite buf off0 (takeZ size0 d)) as [b1|] eqn:M1; [|constructor].
      destruct (mwrite b1 0 (dropZ size0 d)) as [b2|] eqn:M2; [|constructor].
      destruct (ring_valid L pos (h_fill s + lenZ d)) eqn:RV'; [|constructor]. change (negb true) with false. cbv iota.
      apply ring_valid_spec in RV'. apply PARSE; [|lia].
      rewrite (mwrite_len _ _ _ _ M2), (mwrite_len _ _ _ _ M1). reflexivity. }
  split.
  - constructor. intros d Ld. apply (proj1 (K d)). lia.
  - constructor. intros d. apply (proj2 (K d)).
Qed.

Lemma http_inv_step G s kb s1 r k e : hinv s -> exec (http_body G s) kb = (Some (s1, r), k, e) -> 0 <= r -> hinv s1.
Proof. intros I E R. exact (leaves_exec hP _ (proj2 (body_ok G s I)) _ _ _ _ _ E R). Qed.

Lemma exec_mark_inv {S} n (p : prog S) kb o k e : exec (PMark n p) kb = (o, k, e) -> exists e', exec p kb = (o, k, e').
Proof. simpl. destruct (exec p kb) as [[o' k'] e']. intros E; inversion E; subst. eauto. Qed.

Lemma http_call_ok G s kb o k e : hinv s -> kb <> [] -> exec (http_body G s) kb = (o, k, e) -> Forall (fun _ => True) e ->
  match o with None => False | Some (s1, r) => 0 <= r -> hinv s1 /\ lenZ k < lenZ kb end.
Proof.
  intros I N E _. destruct o as [[s1 r]|].
  2:{ exact (safe_exec _ (proj1 (body_ok G s I)) _ _ _ E). }
  intros R. split; [eapply http_inv_step; eauto|].
  pose proof I as (P & F & PL & C & CB). pose proof (lenZ_pos kb N).
  unfold http_body in E.
  destruct (Z.eqb_spec (h_state s) HT_CONNECTED) as [SC|SC].
  { rewrite (CB SC) in E. rewrite exec_passthrough in E by auto. inversion E; subst. rewrite lenZ_dropZ. unfold UPCAP. lia. }
  destruct (grow_ok G s I) as (buf & pos & GR & LL1 & LL2 & LL3 & LL4). rewrite GR in E. cbv zeta in E.
  set (L := lenZ buf) in *.
  assert (RV : ring_valid L pos (h_fill s) = true) by (apply ring_valid_spec; lia).
  rewrite RV in E. change (negb true) with false in E. cbv iota in E.
  assert (REQ : 1 <= (if L <? pos + h_fill s then L - h_fill s else L - (pos + h_fill s)) +
                     (if L <? pos + h_fill s then 0 else pos)).
  { destruct (L <? pos + h_fill s); lia. }
  destruct (h_base s).
  2:{ simpl in E; inversion E; subst; lia. }
  eapply read_progress; [exact REQ | exact N | exact E].
Qed.

Lemma hinv_init : hinv http_init.
Proof. unfold hinv, http_init; simpl. rewrite lenZ_nil0. repeat split; try lia; auto; try discriminate. Qed.

Theorem http_no_fault G cs :
  ~ In EFault (snd (run (http_body G) (alive http_init) cs)) /\ ~ In ELive (snd (run (http_body G) (alive http_init) cs)).
Proof.
  destruct (run_ok (http_body G) hinv (fun _ => True) (http_call_ok G) cs (alive http_init)
              (fun _ => hinv_init) ltac:(discriminate) ltac:(discriminate)) as (A & B & _); auto.
  apply Forall_forall. auto.
Qed.
