From Coq Require Import ZArith List Bool Lia.
From Nice Require Import Stream.StreamBase Stream.StreamProofs Stream.TcpQueueModel Stream.PsslModel Stream.HttpModel
  Stream.ProxyProofs Stream.HttpProofs Stream.HttpSegProofs.
Import ListNotations.
Local Open Scope Z_scope.

(** * Streams that fit the caller's buffer: every delivery is clean (nothing can be left over in the ring) *)
Definition smallP (n : Z) (s1 : hst) (r : Z) : Prop := h_state s1 = HT_CONNECTED \/ h_fill s1 <= n.
Definition small (n : Z) (p : prog hst) : Prop := lax p /\ leaves (smallP n) p.

Lemma small_flush n q p : small n p -> small n (flush_queue q p).
Proof. intros [A B]. split; [apply flush_queue_lax | apply flush_queue_leaves]; auto. Qed.
Lemma small_fault n : small n PFault.
Proof. split; constructor. Qed.
Lemma small_error n s : h_fill s <= n -> small n (http_error s).
Proof. intros. unfold http_error. split; constructor. right. simpl. auto. Qed.

Lemma handover_small n s : h_fill s <= UPCAP -> 0 <= h_fill s -> small n (http_handover s).
Proof.
  intros F F0. unfold http_handover. cbv zeta.
  assert (FIN : forall pos' c data, c = h_fill s ->
     small n (mark_if (0 <? h_fill s - c) 3
            (flush_queue (h_queue s)
              (PUp data (-1) (PDone {| h_state := HT_CONNECTED; h_base := h_base s; h_queue := []; h_buf := h_buf s;
                                       h_pos := pos'; h_fill := h_fill s - c; h_cl := h_cl s |} 1))))).
  { intros pos' c data ->. replace (h_fill s - h_fill s) with 0 by lia. change (0 <? 0) with false. unfold mark_if.
    apply small_flush. split; [constructor; constructor | apply lv_up, lv_done; left; reflexivity]. }
  destruct (Z.ltb_spec 0 (h_fill s)).
  2:{ apply small_flush. split; constructor. left; reflexivity. }
  destruct (Z.ltb_spec (lenZ (h_buf s)) (h_pos s + h_fill s)).
  - destruct (mreadn _ _ _); [|apply small_fault]. destruct (mreadn _ _ _); [|apply small_fault].
    apply FIN. lia.
  - destruct (mreadn _ _ _); [|apply small_fault]. apply FIN. lia.
Qed.

Lemma parse_small n : n <= UPCAP -> forall fuel s, hring s -> h_fill s <= n -> small n (http_parse fuel s).
Proof.
  intros NU. induction fuel as [|fuel IH]; intros s R F; [apply small_fault|].
  pose proof R as ((P & Fl & PL & C & CB) & L0 & PL' & B).
  simpl http_parse. cbv zeta.
  destruct (Z.eqb_spec (h_state s) HT_INIT) as [S0|S0].
  { pose proof (parse_init_ok (h_buf s) (lenZ (h_buf s)) (h_pos s) (h_fill s) L0 eq_refl) as PI.
    destruct (parse_init (h_buf s) (lenZ (h_buf s)) (h_pos s) (h_fill s)) as [| | |m]; try contradiction.
    - split; constructor. right; auto.
    - apply small_error; auto.
    - apply IH. + apply hring_step; auto; lia. + unfold with_ring; simpl. lia. }
  destruct (Z.eqb_spec (h_state s) HT_HEADERS) as [S1|S1].
  { pose proof (parse_header_ok (h_buf s) (lenZ (h_buf s)) (h_pos s) (h_fill s) L0 eq_refl (h_cl s) C) as PH.
    pose proof (parse_header_nostale (h_buf s) (lenZ (h_buf s)) (h_pos s) (h_fill s) L0 eq_refl (h_cl s)) as NS.
    destruct (parse_header (h_buf s) (lenZ (h_buf s)) (h_pos s) (h_fill s) (h_cl s)) as [[r cl'] stale].
    simpl in NS. subst stale. unfold mark_if. destruct r as [| | |m]; try contradiction.
    - split; constructor. right. simpl. auto.
    - apply small_error. simpl. auto.
    - destruct PH as [N C']. apply IH.
      + apply hring_step; auto; lia.
      + unfold with_ring; simpl. lia. }
  destruct (Z.eqb_spec (h_state s) HT_BODY) as [S2|S2].
  { destruct (Z.eqb_spec (h_cl s) 0).
    - apply IH.
      + unfold hring, hinv, with_ring in *; simpl. repeat split; try lia; auto.
      + unfold with_ring; simpl. lia.
    - destruct (Z.eqb_spec (h_fill s) 0).
      + split; constructor. right; lia.
      + apply IH.
        * apply hring_step; auto; lia.
        * unfold with_ring; simpl. lia. }
  destruct (Z.eqb_spec (h_state s) HT_CONNECTED).
  - apply handover_small; lia.
  - apply small_error; auto.
Qed.

(** one call: clean, and the bytes held (ring + kernel buffer) stay within the bound *)
Definition Pot (b : Z) (s : hst) (kb : list Z) : Prop := h_state s = HT_CONNECTED \/ h_fill s + lenZ kb <= b.

Lemma call_small G b s kb o k e : b <= UPCAP -> hinv s -> exec (http_body G s) kb = (o, k, e) -> Pot b s kb ->
  clean e = true /\ forall s1 r, o = Some (s1, r) -> Pot b s1 k.
Proof.
  intros BU I E SM. pose proof I as (P & F & PL & C & CB). pose proof (lenZ_nonneg kb) as K0.
  unfold http_body in E. unfold Pot.
  destruct (Z.eqb_spec (h_state s) HT_CONNECTED) as [SC|SC].
  { assert (LX : lax (if h_base s then passthrough s else PDone s (-1))) by (destruct (h_base s); [apply passthrough_lax | constructor]).
    split; [exact (lax_clean _ LX _ _ _ _ E)|].
    intros s1 r ->. left.
    rewrite (CB SC) in E. unfold passthrough in E. simpl in E.
    destruct (lenZ (takeZ UPCAP kb) =? 0); simpl in E; inversion E; subst; auto. }
  destruct SM as [SM|SM]; [contradiction|].
  destruct (grow_ok G s I) as (buf & pos & GR & LL1 & LL2 & LL3 & LL4). rewrite GR in E. cbv zeta in E.
  set (L := lenZ buf) in *.
  assert (RV : ring_valid L pos (h_fill s) = true) by (apply ring_valid_spec; lia).
  rewrite RV in E. change (negb true) with false in E. cbv iota in E.
  destruct (h_base s) eqn:Bs.
  2:{ simpl in E; inversion E; subst. split; [reflexivity|]. intros s1 r X; inversion X; subst. simpl. right; lia. }
  rewrite exec_read in E.
  set (req := (if L <? pos + h_fill s then L - h_fill s else L - (pos + h_fill s)) + (if L <? pos + h_fill s then 0 else pos)) in *.
  assert (REQ : 1 <= req <= L - h_fill s) by (unfold req; destruct (L <? pos + h_fill s); lia).
  set (d := takeZ req kb) in *. set (rest := dropZ req kb) in *.
  assert (Ld : lenZ d + lenZ rest = lenZ kb).
  { unfold d, rest. rewrite lenZ_takeZ, lenZ_dropZ. lia. }
  pose proof (lenZ_nonneg d). pose proof (lenZ_nonneg rest).
  assert (Ld' : lenZ d <= req) by (unfold d; rewrite lenZ_takeZ; lia).
  destruct (Z.eqb_spec (lenZ d) 0).
  { simpl in E. inversion E; subst. split; [reflexivity|]. intros s1 r X; inversion X; subst. simpl. right. lia. }
  match type of E with context [exec ?p rest] => assert (SMALL : small (h_fill s + lenZ d) p) end.
  { destruct (mwrite buf _ _) as [b1|] eqn:W1; [|apply small_fault].
    destruct (mwrite b1 0 _) as [b2|] eqn:W2; [|apply small_fault].
    destruct (negb _) eqn:RV'; [apply small_fault|].
    apply negb_false_iff, ring_valid_spec in RV'.
    assert (L2 : lenZ b2 = L) by (rewrite (mwrite_len _ _ _ _ W2), (mwrite_len _ _ _ _ W1); reflexivity).
    apply parse_small; [lia| |simpl; lia].
    unfold hring, hinv; simpl. rewrite L2. repeat split; try lia; auto. }
  destruct (exec _ rest) as [[o' k'] e'] eqn:EP. inversion E; subst o' k' e. clear E.
  destruct SMALL as [LX LV]. split; [simpl; exact (lax_clean _ LX _ _ _ _ EP)|].
  intros s1 r ->. pose proof (leaves_exec _ _ LV _ _ _ _ _ EP) as [X|X]; [left; exact X|].
  right. apply exec_suffix in EP. lia.
Qed.

Lemma drain_small G b : b <= UPCAP -> forall fu s kb w e, hinv s -> Pot b s kb ->
  drain (http_body G) fu s kb = (w, e) ->
  clean e = true /\ (dead w = 0 -> hinv (inner w) /\ Pot b (inner w) []).
Proof.
  intros BU. induction fu as [|fu IH]; intros s kb w e I PT D.
  - destruct kb; simpl in D; inversion D; subst; simpl; split; auto; discriminate.
  - destruct kb as [|x kb]; [simpl in D; inversion D; subst; simpl; split; auto|].
    simpl drain in D. destruct (exec (http_body G s) (x :: kb)) as [[o k1] e1] eqn:E.
    destruct (call_small G b s (x :: kb) o k1 e1 BU I E PT) as [C1 P1].
    destruct o as [[s1 r]|]; [|inversion D; subst; simpl; split; auto; discriminate].
    destruct (Z.ltb_spec r 0); [inversion D; subst; simpl; split; auto; discriminate|].
    destruct (lenZ k1 =? lenZ (x :: kb)).
    { inversion D; subst. simpl. rewrite clean_app, C1. split; auto; discriminate. }
    destruct (drain (http_body G) fu s1 k1) as [w' e'] eqn:D'. inversion D; subst.
    assert (I1 : hinv s1) by (eapply http_inv_step; eauto).
    destruct (IH _ _ _ _ I1 (P1 _ _ eq_refl) D') as [C2 X]. rewrite clean_app, C1, C2. split; auto.
Qed.

Lemma run_small G : forall cs w b, b <= UPCAP ->
  (dead w = 0 -> hinv (inner w) /\ Pot b (inner w) (concat cs)) -> clean (snd (run (http_body G) w cs)) = true.
Proof.
  induction cs as [|c cs IH]; intros w b BU H; simpl; auto.
  destruct (feed (http_body G) w c) as [w1 e1] eqn:F1. destruct (run (http_body G) w1 cs) as [w2 e2] eqn:R2. simpl.
  pose proof (lenZ_nonneg (concat cs)) as N0.
  assert (X : clean e1 = true /\ (dead w1 = 0 -> hinv (inner w1) /\ Pot b (inner w1) (concat cs))).
  { unfold feed in F1. destruct (Z.eqb_spec (dead w) 0) as [D0|D0].
    - destruct (H D0) as [I PT].
      assert (PT' : Pot (b - lenZ (concat cs)) (inner w) c).
      { destruct PT as [PT|PT]; [left; auto|right]. simpl concat in PT. rewrite lenZ_app in PT. lia. }
      destruct (drain_small G (b - lenZ (concat cs)) ltac:(lia) _ _ _ _ _ I PT' F1) as [C1 Y]. split; auto.
      intros D1. destruct (Y D1) as [I1 [Q|Q]]; split; auto; [left; auto|right]. rewrite lenZ_nil0 in Q. lia.
    - inversion F1; subst. split; auto. intros; contradiction. }
  destruct X as [C1 Y]. specialize (IH w1 b BU Y). rewrite R2 in IH. simpl in IH. rewrite clean_app, C1, IH. reflexivity.
Qed.

(** every delivery of a stream of at most UPCAP bytes is clean *)
Theorem http_small_clean G q cs : lenZ (concat cs) <= UPCAP ->
  clean (snd (run (http_body G) (alive (http_start q)) cs)) = true.
Proof.
  intros H. apply (run_small G cs (alive (http_start q)) UPCAP (Z.le_refl _)). intros _. split.
  - unfold hinv, http_start; simpl. rewrite lenZ_nil0. repeat split; try lia; auto; try discriminate.
  - right. simpl. lia.
Qed.

(** hence: segmentation independence, unconditionally, for all such streams *)
Theorem http_seg_independent_small G q cs : lenZ (concat cs) <= UPCAP ->
  vis vis_str (snd (run (http_body G) (alive (http_start q)) cs)) = fst (http_spec q (concat cs)) /\
  dead (fst (run (http_body G) (alive (http_start q)) cs)) = snd (http_spec q (concat cs)).
Proof. intros H. apply http_seg_independent. apply http_small_clean. exact H. Qed.
