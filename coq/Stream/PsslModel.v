(** Executable model of socket/pseudossl.c (receive path, send path, queue flush).  No proofs here. *)
From Coq Require Import ZArith List Bool.
From Nice Require Import Stream.StreamBase Stream.TcpQueueModel.
Import ListNotations.
Local Open Scope Z_scope.

Definition PS_GOOGLE := 0. Definition PS_MSOC := 1.

Definition SSL_SERVER_GOOGLE : list Z :=
  [22;3;1;0;74;2;0;0;70;3;1;66;133;69;167;39;169;93;160;179;197;231;83;218;72;43;63;198;90;202;137;193;
   88;82;161;120;60;91;23;70;0;133;63;32;14;211;6;114;91;91;27;95;21;172;19;249;136;83;157;155;232;61;123;12;
   48;50;110;56;77;162;117;87;65;108;52;92;0;4;0].
Definition SSL_CLIENT_GOOGLE : list Z :=
  [128;70;1;3;1;0;45;0;0;0;16;1;0;128;3;0;128;7;0;192;6;0;64;2;0;128;4;0;128;0;0;4;
   0;254;255;0;0;10;0;254;254;0;0;9;0;0;100;0;0;98;0;0;3;0;0;6;31;23;12;166;47;0;120;252;
   70;85;46;177;131;57;241;234].
Definition SSL_SERVER_MSOC : list Z :=
  [22;3;1;0;78;2;0;0;70;3;1] ++ repZ 0 32 ++ [32] ++ repZ 0 32 ++ [0;24;0;14;0;0;0].
Definition SSL_CLIENT_MSOC : list Z :=
  [22;3;1;0;45;1;0;0;41;3;1;193;252;213;163;109;147;221;126;11;69;103;63;236;121;133;251;188;63;214;96;194;
   206;132;133;8;27;129;33;188;170;16;251;0;0;2;0;24;1;0].

(* hello_buf[83] (zeroed by g_slice_new0) and hello_len collect the server hello across reads *)
Record pst := { p_compat : Z; p_hs : bool; p_base : bool; p_queue : list (list Z); p_hbuf : list Z; p_hlen : Z }.

Definition pssl_init (c : Z) : pst :=
  {| p_compat := c; p_hs := false; p_base := true; p_queue := []; p_hbuf := repZ 0 83; p_hlen := 0 |}.
Definition pssl_hello (c : Z) : list Z := if c =? PS_MSOC then SSL_CLIENT_MSOC else SSL_CLIENT_GOOGLE.
Definition pssl_hello_len (c : Z) : Z := if c =? PS_MSOC then 83 else 79.

(** server_handshake_valid on hello_buf once hello_len bytes are there; returns the verdict and the buffer
    (the MSOC variant blanks the random and session-id fields in place before comparing) *)
Definition pssl_valid (c : Z) (hbuf : list Z) (len : Z) : option (bool * list Z) :=
  if c =? PS_MSOC then
    if len =? 83 then
      match mwrite hbuf 11 (repZ 0 32) with
      | None => None
      | Some d1 => match mwrite d1 44 (repZ 0 32) with
                   | None => None
                   | Some d2 => match mreadn d2 0 83 with Some x => Some (list_eqb x SSL_SERVER_MSOC, d2) | None => None end
                   end
      end
    else Some (false, hbuf)
  else if len =? 79 then
    match mreadn hbuf 0 79 with Some x => Some (list_eqb x SSL_SERVER_GOOGLE, hbuf) | None => None end
  else Some (false, hbuf).

(** nice_socket_flush_send_queue: every queued element is one reliable send on the base socket *)
Fixpoint flush_queue {S} (q : list (list Z)) (p : prog S) : prog S :=
  match q with [] => p | x :: t => PDn x (flush_queue t p) end.

(** pass-through read of the caller's message (one buffer of UPCAP bytes) *)
Definition passthrough {S} (s : S) : prog S :=
  PRead false UPCAP (fun d => if lenZ d =? 0 then PDone s 0 else PUp d (-1) (PDone s 1)).

(* what happens after the hello read obtained [d] *)
Definition pssl_hello_k (s : pst) (d : list Z) : prog pst :=
  if lenZ d =? 0 then PDone s 0
  else match mwrite (p_hbuf s) (p_hlen s) d with
       | None => PFault
       | Some hb =>
         let len1 := p_hlen s + lenZ d in
         if len1 <? pssl_hello_len (p_compat s) then
           PDone {| p_compat := p_compat s; p_hs := false; p_base := true; p_queue := p_queue s; p_hbuf := hb; p_hlen := len1 |} 0
         else match pssl_valid (p_compat s) hb len1 with
              | None => PFault
              | Some (true, hb') =>
                  flush_queue (p_queue s)
                    (PDone {| p_compat := p_compat s; p_hs := true; p_base := true; p_queue := []; p_hbuf := hb'; p_hlen := len1 |} 0)
              | Some (false, hb') =>
                  PDone {| p_compat := p_compat s; p_hs := false; p_base := false; p_queue := p_queue s; p_hbuf := hb'; p_hlen := len1 |} (-1)
              end
       end.

Definition pssl_body (s : pst) : prog pst :=
  if p_hs s then (if p_base s then passthrough s else PDone s 0)
  else if p_base s then PRead false (w64 (pssl_hello_len (p_compat s) - p_hlen s)) (pssl_hello_k s)
  else PDone s (-1).

Definition pssl_send (s : pst) (reliable : bool) (bufs : list (list Z)) : pst * list ev :=
  if p_hs s then
    if p_base s then (s, [Dn (concat bufs); Snd 1]) else (s, [Snd (-1)])
  else if reliable then
    ({| p_compat := p_compat s; p_hs := p_hs s; p_base := p_base s; p_queue := queue_send (p_queue s) bufs;
        p_hbuf := p_hbuf s; p_hlen := p_hlen s |}, [Snd 1])
  else (s, [Snd 0]).
