(** Proofs about the TCP send queue model: for every operation sequence and every script of kernel
    accept counts / EWOULDBLOCK, (bytes handed to the kernel) ++ (bytes still queued) is exactly the
    concatenation of the accepted frames. *)
From Coq Require Import ZArith List Bool Lia.
From Nice Require Import Stream.StreamBase Stream.StreamProofs Stream.TcpQueueModel.
Import ListNotations.
Local Open Scope Z_scope.

Definition soft (k : kres) : bool := match k with KAcc _ | KWould => true | _ => false end.
Definition softs (sc : list kres) : bool := forallb soft sc.

Definition kernel_of (evs : list qev) : list Z := flat_map (fun e => match e with QK d => d | _ => [] end) evs.
Definition took (evs : list qev) : bool := existsb (fun e => match e with QS r => r =? 1 | _ => false end) evs.
Definition accepted_of (r : qop * list qev) : list Z :=
  match r with (QSend _ bufs, evs) => if took evs then concat bufs else [] | _ => [] end.

Definition kernel_all (tr : list (qop * list qev)) : list Z := flat_map (fun r => kernel_of (snd r)) tr.
Definition accepted_all (tr : list (qop * list qev)) : list Z := flat_map accepted_of tr.

Lemma sumlen_concat bufs : sumlen bufs = lenZ (concat bufs).
Proof. induction bufs; simpl; [reflexivity|]. rewrite lenZ_app. lia. Qed.
Lemma sumlen_nonneg bufs : 0 <= sumlen bufs.
Proof. rewrite sumlen_concat. apply lenZ_nonneg. Qed.

Lemma takeZ_len l : takeZ (lenZ l) l = l.
Proof. apply takeZ_all. lia. Qed.

(** ** the copy loop *)
Lemma qcopy_zero t : qcopy t 0 (sumlen t) = concat t.
Proof.
  induction t as [|b t IH]; simpl; auto.
  pose proof (lenZ_nonneg b). pose proof (sumlen_nonneg t).
  destruct (Z.leb_spec (lenZ b) 0).
  - assert (b = []) by (apply lenZ_nil; lia). subst. simpl. rewrite lenZ_nil0.
    replace (0 - 0) with 0 by lia. replace (0 + sumlen t) with (sumlen t) by lia. exact IH.
  - rewrite Z.sub_0_r. rewrite Z.min_r by lia. rewrite dropZ_nonpos by lia. rewrite takeZ_len.
    replace (lenZ b + sumlen t - lenZ b) with (sumlen t) by lia. rewrite IH. reflexivity.
Qed.

Lemma qcopy_ok bufs off : 0 <= off ->
  qcopy bufs off (sumlen bufs - off) = dropZ off (concat bufs).
Proof.
  revert off. induction bufs as [|b t IH]; intros off O; simpl in *.
  - reflexivity.
  - pose proof (lenZ_nonneg b). pose proof (sumlen_nonneg t).
    destruct (Z.leb_spec (lenZ b) off).
    + rewrite dropZ_app_r by lia.
      replace (lenZ b + sumlen t - off) with (sumlen t - (off - lenZ b)) by lia. apply IH; lia.
    + rewrite dropZ_app_l by lia.
      rewrite Z.min_r by lia.
      assert (T : takeZ (lenZ b - off) (dropZ off b) = dropZ off b).
      { apply takeZ_all. rewrite lenZ_dropZ. lia. }
      rewrite T. f_equal.
      replace (lenZ b + sumlen t - off - (lenZ b - off)) with (sumlen t) by lia.
      apply qcopy_zero.
Qed.

Lemma qelem_ok G bufs off : 0 <= off -> off < sumlen bufs ->
  qelem G bufs off (sumlen bufs) = Some (dropZ off (concat bufs)).
Proof.
  intros O L. unfold qelem. destruct (Z.leb_spec (sumlen bufs) off); [lia|].
  rewrite qcopy_ok by auto. rewrite lenZ_dropZ, <- sumlen_concat.
  replace (sumlen bufs - off - (sumlen bufs - Z.max 0 (Z.min off (sumlen bufs)))) with 0 by lia.
  simpl. rewrite app_nil_r. reflexivity.
Qed.

(** what pushing a (possibly absent) element does to the queued byte stream *)
Lemma concat_push_tail q o : concat (push_tail q o) = concat q ++ match o with Some x => x | None => [] end.
Proof. destruct o; simpl; [rewrite concat_app; simpl; rewrite app_nil_r|rewrite app_nil_r]; reflexivity. Qed.

Lemma qelem_whole G bufs : match qelem G bufs 0 (sumlen bufs) with Some x => x | None => [] end = concat bufs.
Proof.
  pose proof (sumlen_nonneg bufs).
  destruct (Z.eq_dec (sumlen bufs) 0) as [E|E].
  - unfold qelem. rewrite E. simpl. symmetry. apply lenZ_nil. rewrite <- sumlen_concat. exact E.
  - rewrite qelem_ok by lia. rewrite dropZ_nonpos by lia. reflexivity.
Qed.

Lemma sumlen_single d : sumlen [d] = lenZ d.
Proof. simpl. lia. Qed.

(** ** flushing *)
Lemma flush_inv G : forall fuel q sc q' sc' e, (length q <= fuel)%nat -> softs sc = true ->
  q_flush G fuel q sc = (q', sc', e) ->
  kernel_of e ++ concat q' = concat q /\ softs sc' = true.
Proof.
  induction fuel as [|fuel IH]; intros q sc q' sc' e L S E.
  - destruct q; [|simpl in L; lia]. simpl in E. inversion E; subst. auto.
  - destruct q as [|tbs rest]; [simpl in E; inversion E; subst; auto|].
    simpl in E. destruct (next_k sc) as [k sc1] eqn:NK.
    assert (S1 : softs sc1 = true /\ soft k = true).
    { unfold next_k in NK. destruct sc as [|k0 t]; inversion NK; subst; auto.
      simpl in S. apply andb_true_iff in S. tauto. }
    destruct S1 as [S1 Sk]. pose proof (lenZ_nonneg tbs).
    destruct k as [n| | |]; try discriminate.
    + set (n' := Z.max 0 (Z.min n (lenZ tbs))) in *.
      destruct (Z.ltb_spec n' (lenZ tbs)).
      * inversion E; subst. split; auto. simpl. rewrite app_nil_r.
        pose proof (qelem_whole G [dropZ n' tbs]) as W. rewrite sumlen_single, lenZ_dropZ in W.
        replace (lenZ tbs - Z.max 0 (Z.min n' (lenZ tbs))) with (lenZ tbs - n') in W by lia.
        destruct (qelem G [dropZ n' tbs] 0 (lenZ tbs - n')); simpl in *; rewrite ?app_nil_r in W.
        -- rewrite W. rewrite app_assoc, takeZ_dropZ. reflexivity.
        -- rewrite <- (takeZ_dropZ n' tbs) at 2. rewrite <- W, app_nil_r. reflexivity.
      * destruct (q_flush G fuel rest sc1) as [[q1 sc2] e1] eqn:F. inversion E; subst.
        assert (L' : (length rest <= fuel)%nat) by (simpl in L; lia).
        destruct (IH _ _ _ _ _ L' S1 F) as [K S2]. split; auto.
        simpl. rewrite <- K. rewrite (takeZ_all n' tbs) by lia. rewrite app_assoc. reflexivity.
    + inversion E; subst. split; auto. simpl.
      pose proof (qelem_whole G [tbs]) as W. rewrite sumlen_single in W. simpl in W. rewrite app_nil_r in W.
      destruct (qelem G [tbs] 0 (lenZ tbs)); simpl; rewrite <- W; reflexivity.
Qed.

(** ** one operation *)
Lemma step_inv G s o s1 e : softs (script s) = true -> q_step G s o = (s1, e) ->
  kernel_of e ++ concat (queue s1) = concat (queue s) ++ accepted_of (o, e) /\ softs (script s1) = true.
Proof.
  intros S E. destruct o as [rel bufs| | |]; simpl in E.
  - (* send *)
    unfold q_send in E. pose proof (sumlen_nonneg bufs) as SN.
    destruct (queue s) as [|x q0] eqn:Q.
    + destruct (next_k (script s)) as [k sc1] eqn:NK.
      assert (S1 : softs sc1 = true /\ soft k = true).
      { unfold next_k in NK. destruct (script s) as [|k0 t]; inversion NK; subst; auto.
        simpl in S. apply andb_true_iff in S. tauto. }
      destruct S1 as [S1 Sk].
      destruct k as [n| | |]; try discriminate.
      * set (n' := Z.max 0 (Z.min n (sumlen bufs))) in *.
        destruct (Z.ltb_spec n' (sumlen bufs)).
        -- inversion E; subst. simpl. split; auto.
           rewrite qelem_ok by lia. simpl. rewrite !app_nil_r.
           rewrite takeZ_dropZ.
           destruct rel; destruct (Z.ltb_spec (sumlen bufs) 0); try lia;
             destruct (Z.eqb_spec (sumlen bufs) 0); try lia; reflexivity.
        -- inversion E; subst. simpl. split; auto. rewrite !app_nil_r.
           assert (n' = sumlen bufs) by lia.
           rewrite (takeZ_all n' (concat bufs)) by (rewrite <- sumlen_concat; lia).
           unfold took. simpl. rewrite H0.
           destruct rel; destruct (Z.ltb_spec (sumlen bufs) 0); try lia.
           ++ reflexivity.
           ++ destruct (Z.eqb_spec (sumlen bufs) 0); simpl; auto.
              apply lenZ_nil. rewrite <- sumlen_concat. auto.
      * inversion E; subst. simpl. split; auto.
        change (push_tail [] (qelem G bufs 0 (sumlen bufs))) with (push_tail [] (qelem G bufs 0 (sumlen bufs))).
        rewrite concat_push_tail, qelem_whole. simpl.
        unfold took. simpl.
        destruct rel; destruct (Z.ltb_spec (sumlen bufs) 0); try lia; simpl; auto.
        destruct (Z.eqb_spec (sumlen bufs) 0); simpl; auto.
        apply lenZ_nil. rewrite <- sumlen_concat. auto.
    + destruct rel.
      * inversion E; subst. simpl. split; auto. rewrite concat_push_tail, qelem_whole.
        unfold took. simpl. destruct (Z.ltb_spec (sumlen bufs) 0); try lia. reflexivity.
      * inversion E; subst. simpl. split; auto. rewrite ?Q. simpl. rewrite app_nil_r. reflexivity.
  - (* writable *)
    destruct (queue s) as [|x q0] eqn:Q.
    + inversion E; subst. simpl. rewrite Q. auto.
    + destruct (q_flush G (length (x :: q0)) (x :: q0) (script s)) as [[q1 sc1] e1] eqn:F. inversion E; subst.
      destruct (flush_inv G _ _ _ _ _ _ (le_n _) S F) as [K S1]. simpl. rewrite app_nil_r. split; auto.
  - inversion E; subst. simpl. rewrite app_nil_r. auto.
  - destruct (q_flush G (length (queue s)) (queue s) []) as [[q1 sc1] e1] eqn:F. inversion E; subst.
    assert (S0 : softs [] = true) by reflexivity.
    destruct (flush_inv G _ _ _ _ _ _ (le_n _) S0 F) as [K S1]. simpl. rewrite app_nil_r. split; auto.
Qed.

(** ** any sequence of operations *)
Theorem run_inv G : forall ops s s' tr, softs (script s) = true -> q_run G s ops = (s', tr) ->
  kernel_all tr ++ concat (queue s') = concat (queue s) ++ accepted_all tr.
Proof.
  induction ops as [|o ops IH]; intros s s' tr S E; simpl in E.
  - inversion E; subst. simpl. rewrite app_nil_r. reflexivity.
  - destruct (q_step G s o) as [s1 e] eqn:ST. destruct (q_run G s1 ops) as [s2 r] eqn:R. inversion E; subst.
    destruct (step_inv G s o s1 e S ST) as [K S1].
    specialize (IH s1 s' r S1 R).
    unfold kernel_all, accepted_all in *. simpl.
    rewrite <- app_assoc, IH, app_assoc, K, <- app_assoc. reflexivity.
Qed.

(** a refused frame (return 0 or -1) changes neither the queue nor the kernel stream *)
Lemma refused_untouched G s rel bufs s1 e : q_step G s (QSend rel bufs) = (s1, e) -> softs (script s) = true ->
  took e = false -> queue s1 = queue s /\ kernel_of e = [] \/ concat bufs = [].
Proof.
  intros E S T. simpl in E. unfold q_send in E. pose proof (sumlen_nonneg bufs) as SN.
  destruct (queue s) as [|x q0] eqn:Q.
  - destruct (next_k (script s)) as [k sc1] eqn:NK.
    assert (Sk : soft k = true).
    { unfold next_k in NK. destruct (script s) as [|k0 t]; inversion NK; subst; auto.
      simpl in S. apply andb_true_iff in S. tauto. }
    destruct k as [n| | |]; try discriminate.
    + set (n' := Z.max 0 (Z.min n (sumlen bufs))) in *.
      destruct (Z.ltb_spec n' (sumlen bufs)); inversion E; subst; unfold took in T; simpl in T.
      * destruct rel; destruct (Z.ltb_spec (sumlen bufs) 0); try lia; destruct (Z.eqb_spec (sumlen bufs) 0); try lia; discriminate.
      * right. destruct rel; destruct (Z.ltb_spec n' 0); try lia; try discriminate.
        destruct (Z.eqb_spec n' 0); try discriminate. apply lenZ_nil. rewrite <- sumlen_concat. lia.
    + inversion E; subst. unfold took in T; simpl in T. right.
      destruct rel; destruct (Z.ltb_spec (sumlen bufs) 0); try lia; try discriminate.
      destruct (Z.eqb_spec (sumlen bufs) 0); try discriminate. apply lenZ_nil. rewrite <- sumlen_concat. lia.
  - destruct rel; inversion E; subst.
    + unfold took in T; simpl in T. destruct (Z.ltb_spec (sumlen bufs) 0); try lia; discriminate.
    + left. auto.
Qed.
