(** Shared definitions of the stream-layer models (C17).  No proofs in this file.

    A byte is a [Z] in 0..255.  Uninitialised memory (fresh [g_malloc]/[g_realloc] heap bytes, stack
    arrays) has the value [G], a parameter of every case: the harness paints such memory with the
    same byte, so behaviour that depends on it is deterministic and comparable.

    One call of a layer's [recv_messages] is a *program* [prog S]: a tree of base-socket reads
    ([PRead req k]: ask the base socket for [req] bytes, continue with what was obtained, which is
    [min req available]), emitted events and a final return.  [exec] runs such a program against the
    bytes pending in the base socket ("kernel buffer").  A readable event ([feed]) appends a chunk
    to the kernel buffer and calls the layer while bytes are pending (level-triggered poll, as the
    agent does for TCP sockets); it stops for good after an error return, a Fault (out-of-range
    buffer access or failed assertion in the model) or a call that consumed nothing (livelock). *)
From Coq Require Import ZArith List Bool.
Import ListNotations.
Local Open Scope Z_scope.

Definition UPCAP : Z := 70000.          (* capacity of the caller's receive buffer (harness: UPCAP) *)
Definition W64 : Z := 18446744073709551616.
Definition w64 (x : Z) : Z := x mod W64.
Definition w32 (x : Z) : Z := x mod 4294967296.
Definition w16 (x : Z) : Z := x mod 65536.

(** first [n] elements / the rest, [n : Z] (never builds a unary number) *)
Fixpoint takeZ (n : Z) (l : list Z) : list Z :=
  match l with
  | [] => []
  | x :: t => if n <=? 0 then [] else x :: takeZ (n - 1) t
  end.
Fixpoint dropZ (n : Z) (l : list Z) : list Z :=
  match l with
  | [] => []
  | x :: t => if n <=? 0 then l else dropZ (n - 1) t
  end.
Fixpoint lenZ (l : list Z) : Z := match l with [] => 0 | _ :: t => 1 + lenZ t end.
Definition list_eqb (a b : list Z) : bool :=
  (lenZ a =? lenZ b) && forallb (fun p => fst p =? snd p) (combine a b).
Fixpoint repZ (x : Z) (n : nat) : list Z := match n with O => [] | S k => x :: repZ x k end.

(** checked memory: a fixed-size array; every access outside it is [None] (= Fault) *)
Definition mread (m : list Z) (i : Z) : option Z :=
  if 0 <=? i then match dropZ i m with x :: _ => Some x | [] => None end else None.
(* [fits m n]: n <= length m, computed without walking the whole array *)
Definition fits (m : list Z) (n : Z) : bool := lenZ (takeZ n m) =? Z.max 0 n.
Definition mreadn (m : list Z) (off n : Z) : option (list Z) :=
  if (0 <=? off) && (0 <=? n) && fits m (off + n) then Some (takeZ n (dropZ off m)) else None.
Definition mwrite (m : list Z) (off : Z) (d : list Z) : option (list Z) :=
  if (0 <=? off) && fits m (off + lenZ d) then Some (takeZ off m ++ d ++ dropZ (off + lenZ d) m) else None.

(** events, printed by the driver in the harness's token format *)
Inductive ev :=
| Rd (strict : bool) (req got : Z)   (* q<req>/<got>; [strict]: a read of a fixed-size handshake unit *)
| Up (data : list Z) (zsize : Z)     (* message handed upward (ret = 1): data, and the value the caller's
                                        buffer-size field was changed to (-1 = untouched) *)
| Ret (r : Z)                        (* R<ret> *)
| Dn (d : list Z)                    (* D<hex>: one send on the base socket *)
| Snd (r : Z)                        (* S<ret>: return of a send through the layer *)
| Mark (n : Z)                       (* not printed: the call went through a known-defective path *)
| Hdr (n : Z)                        (* not printed: a frame header was decoded that announces n bytes of buffer *)
| EFault                             (* FAULT *)
| ELive.                             (* the call consumed nothing although bytes were pending *)

Inductive prog (S : Type) : Type :=
| PDone (s : S) (r : Z)
| PRead (strict : bool) (req : Z) (k : list Z -> prog S)
| PUp (d : list Z) (z : Z) (p : prog S)
| PDn (d : list Z) (p : prog S)
| PMark (n : Z) (p : prog S)
| PHdr (n : Z) (p : prog S)
| PFault.
Arguments PDone {S}. Arguments PRead {S}. Arguments PUp {S}. Arguments PDn {S}. Arguments PMark {S}. Arguments PHdr {S}. Arguments PFault {S}.

Fixpoint exec {S} (p : prog S) (kb : list Z) : option (S * Z) * list Z * list ev :=
  match p with
  | PDone s r => (Some (s, r), kb, [Ret r])
  | PRead st req k =>
      let d := takeZ req kb in
      let '(o, kb2, e) := exec (k d) (dropZ req kb) in (o, kb2, Rd st req (lenZ d) :: e)
  | PUp d z p => let '(o, kb2, es) := exec p kb in (o, kb2, Up d z :: es)
  | PDn d p => let '(o, kb2, es) := exec p kb in (o, kb2, Dn d :: es)
  | PMark n p => let '(o, kb2, es) := exec p kb in (o, kb2, Mark n :: es)
  | PHdr n p => let '(o, kb2, es) := exec p kb in (o, kb2, Hdr n :: es)
  | PFault => (None, kb, [EFault])
  end.

(** layer state + liveness: 0 alive, 1 error returned, 2 Fault, 3 livelock *)
Record wst (S : Type) := { inner : S; dead : Z }.
Arguments inner {S}. Arguments dead {S}.
Definition alive {S} (s : S) : wst S := {| inner := s; dead := 0 |}.

Fixpoint drain {S} (body : S -> prog S) (fuel : nat) (s : S) (kb : list Z) : wst S * list ev :=
  match kb with
  | [] => ({| inner := s; dead := 0 |}, [])
  | _ :: _ =>
    match fuel with
    | O => ({| inner := s; dead := 3 |}, [ELive])
    | Datatypes.S f =>
      let '(o, kb1, e1) := exec (body s) kb in
      match o with
      | None => ({| inner := s; dead := 2 |}, e1)
      | Some (s1, r) =>
          if r <? 0 then ({| inner := s1; dead := 1 |}, e1)
          else if lenZ kb1 =? lenZ kb then ({| inner := s1; dead := 3 |}, e1 ++ [ELive])
          else let '(w, e2) := drain body f s1 kb1 in (w, e1 ++ e2)
      end
    end
  end.

(** the same loop for a layer that can hold deliverable bytes of its own (HTTP): the caller reads until it
    would block, i.e. it also calls again after a call that delivered something, even if the kernel buffer is
    empty by then ([more]); a call that returns 0 and consumed nothing ends the event — normally when the
    kernel buffer is empty, as a livelock otherwise *)
Fixpoint drainw {S} (body : S -> prog S) (fuel : nat) (s : S) (kb : list Z) (more : bool) : wst S * list ev :=
  if match kb with [] => negb more | _ => false end then ({| inner := s; dead := 0 |}, [])
  else
    match fuel with
    | O => ({| inner := s; dead := 3 |}, [ELive])
    | Datatypes.S f =>
      let '(o, kb1, e1) := exec (body s) kb in
      match o with
      | None => ({| inner := s; dead := 2 |}, e1)
      | Some (s1, r) =>
          if r <? 0 then ({| inner := s1; dead := 1 |}, e1)
          else if (r =? 0) && (lenZ kb1 =? lenZ kb) then
            match kb with
            | [] => ({| inner := s1; dead := 0 |}, e1)
            | _ => ({| inner := s1; dead := 3 |}, e1 ++ [ELive])
            end
          else let '(w, e2) := drainw body f s1 kb1 (0 <? r) in (w, e1 ++ e2)
      end
    end.

Definition feed {S} (body : S -> prog S) (w : wst S) (chunk : list Z) : wst S * list ev :=
  if dead w =? 0 then drain body (length chunk) (inner w) chunk else (w, []).

Fixpoint run {S} (body : S -> prog S) (w : wst S) (cs : list (list Z)) : wst S * list ev :=
  match cs with
  | [] => (w, [])
  | c :: cs' => let '(w1, e1) := feed body w c in let '(w2, e2) := run body w1 cs' in (w2, e1 ++ e2)
  end.

(** what the layer above / the base socket below can observe *)
Inductive obs :=
| OMsg (m : list Z) (z : Z)          (* a whole message (datagram layers) *)
| OByte (b : Z)                      (* one byte of the upward stream (stream layers) *)
| ODn (d : list Z)
| ODead (k : Z).

Definition vis_msg (e : ev) : list obs :=
  match e with Up d z => [OMsg d z] | Dn d => [ODn d] | EFault => [ODead 2] | ELive => [ODead 3] | _ => [] end.
(* stream layers: the upward byte stream; a clobbered buffer-size field of the caller is visible too *)
Definition vis_str (e : ev) : list obs :=
  match e with
  | Up d z => map OByte d ++ (if 0 <=? z then [OMsg [] z] else [])
  | Dn d => [ODn d] | EFault => [ODead 2] | ELive => [ODead 3] | _ => []
  end.
Definition vis (f : ev -> list obs) (es : list ev) : list obs := flat_map f es.

(** a call is clean when every strict read was satisfied in full and no defective path was taken *)
Definition ev_clean (e : ev) : bool :=
  match e with Rd true req got => req <=? got | Mark _ => false | _ => true end.
Definition clean (es : list ev) : bool := forallb ev_clean es.
Definition ev_full (e : ev) : bool := match e with Rd _ req got => req <=? got | _ => true end.
Definition all_full (es : list ev) : bool := forallb ev_full es.

(* big-endian 16-bit value of two bytes (reduced mod 256, so that it is in range for any Z) *)
Definition be16 (a b : Z) : Z := (a mod 256) * 256 + b mod 256.
