(** Generic lemmas about the stream-layer machinery of StreamBase.v:
    list arithmetic on Z indices, checked memory, locality of [exec] (a call whose reads were all
    satisfied in full does not notice bytes appended to the kernel buffer), and the main theorem
    [run_seg_independent]: if a layer's calls resume correctly after a short read
    ([resume_ok]) then the observable behaviour of any clean chunked delivery equals that of the
    one-chunk delivery. *)
From Coq Require Import ZArith List Bool Lia.
From Nice Require Import Stream.StreamBase.
Import ListNotations.
Local Open Scope Z_scope.

(** * lists with Z indices *)
Lemma lenZ_cons x l : lenZ (x :: l) = 1 + lenZ l.
Proof. reflexivity. Qed.
Lemma lenZ_nil0 : lenZ [] = 0.
Proof. reflexivity. Qed.
Global Arguments lenZ : simpl never.
Global Arguments Z.add : simpl never.
Global Arguments Z.sub : simpl never.
Global Arguments Z.mul : simpl never.
Global Arguments Z.modulo : simpl never.
Global Arguments Z.div : simpl never.
Ltac lz := repeat rewrite lenZ_cons in *; repeat rewrite lenZ_nil0 in *.
Ltac sz := simpl; lz.
Ltac szs := simpl in *; lz.
Lemma lenZ_nonneg l : 0 <= lenZ l.
Proof. induction l; lz; lia. Qed.
Lemma lenZ_app a b : lenZ (a ++ b) = lenZ a + lenZ b.
Proof. induction a; sz; lz; lia. Qed.
Lemma lenZ_length l : lenZ l = Z.of_nat (length l).
Proof. induction l; simpl length; lz; lia. Qed.
Lemma lenZ_nil l : lenZ l = 0 -> l = [].
Proof. destruct l; lz; auto. pose proof (lenZ_nonneg l). lia. Qed.
Lemma lenZ_pos l : l <> [] -> 0 < lenZ l.
Proof. destruct l; lz; [congruence|]. pose proof (lenZ_nonneg l). lia. Qed.
Lemma lenZ_repZ x n : lenZ (repZ x n) = Z.of_nat n.
Proof. induction n; simpl repZ; lz; lia. Qed.

Lemma takeZ_nonpos n l : n <= 0 -> takeZ n l = [].
Proof. destruct l; sz; auto. intros. destruct (Z.leb_spec n 0); auto; lia. Qed.
Lemma dropZ_nonpos n l : n <= 0 -> dropZ n l = l.
Proof. destruct l; sz; auto. intros. destruct (Z.leb_spec n 0); auto; lia. Qed.
Lemma takeZ_dropZ n l : takeZ n l ++ dropZ n l = l.
Proof.
  revert n; induction l; intros; sz; auto.
  destruct (Z.leb_spec n 0); sz; auto. now rewrite IHl.
Qed.
Lemma lenZ_takeZ n l : lenZ (takeZ n l) = Z.max 0 (Z.min n (lenZ l)).
Proof.
  revert n; induction l; intros; sz.
  - pose proof (Z.min_spec n 0). lia.
  - pose proof (lenZ_nonneg l). destruct (Z.leb_spec n 0); sz.
    + lia.
    + rewrite IHl. lia.
Qed.
Lemma lenZ_dropZ n l : lenZ (dropZ n l) = lenZ l - Z.max 0 (Z.min n (lenZ l)).
Proof.
  pose proof (takeZ_dropZ n l) as H. apply (f_equal lenZ) in H.
  rewrite lenZ_app, lenZ_takeZ in H. lia.
Qed.
Lemma takeZ_all n l : lenZ l <= n -> takeZ n l = l.
Proof.
  revert n; induction l; intros; szs; auto.
  pose proof (lenZ_nonneg l). destruct (Z.leb_spec n 0); [lia|]. rewrite IHl; auto; lia.
Qed.
Lemma dropZ_all n l : lenZ l <= n -> dropZ n l = [].
Proof.
  revert n; induction l; intros; szs; auto.
  pose proof (lenZ_nonneg l). destruct (Z.leb_spec n 0); [lia|]. apply IHl; lia.
Qed.
Lemma takeZ_app_l n a b : n <= lenZ a -> takeZ n (a ++ b) = takeZ n a.
Proof.
  revert n; induction a; intros; szs.
  - rewrite takeZ_nonpos; auto.
  - destruct (Z.leb_spec n 0); auto. rewrite IHa; auto; lia.
Qed.
Lemma dropZ_app_l n a b : n <= lenZ a -> dropZ n (a ++ b) = dropZ n a ++ b.
Proof.
  revert n; induction a; intros; szs.
  - rewrite dropZ_nonpos; auto.
  - destruct (Z.leb_spec n 0); auto. rewrite IHa; auto; lia.
Qed.
Lemma takeZ_app_r n a b : lenZ a <= n -> takeZ n (a ++ b) = a ++ takeZ (n - lenZ a) b.
Proof.
  revert n; induction a; intros; szs.
  - f_equal; lia.
  - pose proof (lenZ_nonneg a0). destruct (Z.leb_spec n 0); [lia|]. rewrite IHa; [|lia]. do 3 f_equal. lia.
Qed.
Lemma dropZ_app_r n a b : lenZ a <= n -> dropZ n (a ++ b) = dropZ (n - lenZ a) b.
Proof.
  revert n; induction a; intros; szs.
  - f_equal; lia.
  - pose proof (lenZ_nonneg a0). destruct (Z.leb_spec n 0); [lia|]. rewrite IHa; [|lia]. f_equal. lia.
Qed.
Lemma dropZ_dropZ n m l : 0 <= n -> 0 <= m -> dropZ m (dropZ n l) = dropZ (n + m) l.
Proof.
  revert n m; induction l; intros; sz.
  - destruct (dropZ n []) eqn:E; sz; auto.
  - destruct (Z.leb_spec n 0).
    + assert (n = 0) by lia; subst. sz. reflexivity.
    + destruct (Z.leb_spec (n + m) 0); [lia|]. rewrite IHl; try lia. f_equal; lia.
Qed.
Lemma takeZ_dropZ_split n m l : 0 <= n -> 0 <= m -> takeZ (n + m) l = takeZ n l ++ takeZ m (dropZ n l).
Proof.
  revert n m; induction l; intros; sz; auto.
  destruct (Z.leb_spec n 0).
  - assert (n = 0) by lia; subst. sz. reflexivity.
  - destruct (Z.leb_spec (n + m) 0); [lia|]. sz. f_equal.
    replace (n + m - 1) with ((n - 1) + m) by lia. apply IHl; lia.
Qed.

(** * checked memory *)
Lemma fits_spec m n : fits m n = (n <=? lenZ m).
Proof.
  unfold fits. rewrite lenZ_takeZ. pose proof (lenZ_nonneg m).
  destruct (Z.leb_spec n (lenZ m)); destruct (Z.eqb_spec (Z.max 0 (Z.min n (lenZ m))) (Z.max 0 n)); auto; lia.
Qed.

Lemma mwrite_some m off d : 0 <= off -> off + lenZ d <= lenZ m ->
  mwrite m off d = Some (takeZ off m ++ d ++ dropZ (off + lenZ d) m).
Proof.
  intros. unfold mwrite. rewrite fits_spec.
  destruct (Z.leb_spec 0 off); [|lia]. destruct (Z.leb_spec (off + lenZ d) (lenZ m)); [|lia]. reflexivity.
Qed.
Lemma mwrite_none m off d : lenZ m < off + lenZ d -> mwrite m off d = None.
Proof.
  intros. unfold mwrite. rewrite fits_spec.
  destruct (Z.leb_spec (off + lenZ d) (lenZ m)); [lia|]. now rewrite andb_false_r.
Qed.
Lemma mwrite_len m off d m' : mwrite m off d = Some m' -> lenZ m' = lenZ m.
Proof.
  unfold mwrite. rewrite fits_spec.
  destruct (Z.leb_spec 0 off); sz; [|discriminate].
  destruct (Z.leb_spec (off + lenZ d) (lenZ m)); [|discriminate].
  intros E; inversion E; subst. rewrite !lenZ_app, lenZ_takeZ, lenZ_dropZ.
  pose proof (lenZ_nonneg d). lia.
Qed.
Lemma mwrite_inv m off d m' : mwrite m off d = Some m' -> 0 <= off /\ off + lenZ d <= lenZ m.
Proof.
  unfold mwrite. rewrite fits_spec.
  destruct (Z.leb_spec 0 off); sz; [|discriminate].
  destruct (Z.leb_spec (off + lenZ d) (lenZ m)); [|discriminate]. auto.
Qed.

(** writing [a] and then [b] right behind it is writing [a ++ b] *)
Lemma mwrite_app m off a b :
  mwrite m off (a ++ b) =
  match mwrite m off a with Some m1 => mwrite m1 (off + lenZ a) b | None => None end.
Proof.
  pose proof (lenZ_nonneg a) as Ha. pose proof (lenZ_nonneg b) as Hb. pose proof (lenZ_nonneg m) as Hm.
  destruct (Z.leb_spec 0 off) as [Ho|Ho].
  2:{ unfold mwrite. destruct (Z.leb_spec 0 off); [lia|]. reflexivity. }
  destruct (Z.leb_spec (off + lenZ a) (lenZ m)) as [H1|H1].
  2:{ rewrite (mwrite_none m off a) by lia. apply mwrite_none. rewrite lenZ_app. lia. }
  rewrite (mwrite_some m off a) by lia.
  set (m1 := takeZ off m ++ a ++ dropZ (off + lenZ a) m).
  assert (L1 : lenZ m1 = lenZ m).
  { unfold m1. rewrite !lenZ_app, lenZ_takeZ, lenZ_dropZ. lia. }
  destruct (Z.leb_spec (off + lenZ a + lenZ b) (lenZ m)) as [H2|H2].
  2:{ rewrite mwrite_none by (rewrite lenZ_app; lia). symmetry. apply mwrite_none. lia. }
  rewrite mwrite_some by (rewrite ?lenZ_app; lia).
  rewrite mwrite_some by lia. f_equal.
  assert (T1 : lenZ (takeZ off m) = off) by (rewrite lenZ_takeZ; lia).
  unfold m1.
  (* takeZ (off + |a|) m1 = takeZ off m ++ a *)
  rewrite (takeZ_app_r (off + lenZ a)) by lia. rewrite T1.
  replace (off + lenZ a - off) with (lenZ a) by lia.
  rewrite (takeZ_app_l (lenZ a) a) by lia. rewrite (takeZ_all (lenZ a) a) by lia.
  rewrite (dropZ_app_r (off + lenZ a + lenZ b)) by lia. rewrite T1.
  rewrite (dropZ_app_r (off + lenZ a + lenZ b - off)) by lia.
  rewrite dropZ_dropZ by lia.
  rewrite lenZ_app. rewrite <- !app_assoc.
  replace (off + lenZ a + (off + lenZ a + lenZ b - off - lenZ a)) with (off + (lenZ a + lenZ b)) by lia.
  reflexivity.
Qed.

Lemma mwrite_nil m off : 0 <= off -> off <= lenZ m -> mwrite m off [] = Some m.
Proof.
  intros. rewrite mwrite_some by (sz; lia). sz. rewrite Z.add_0_r. now rewrite takeZ_dropZ.
Qed.

Lemma mread_some m i : 0 <= i < lenZ m -> exists v, mread m i = Some v.
Proof.
  intros. unfold mread. destruct (Z.leb_spec 0 i); [|lia].
  destruct (dropZ i m) eqn:D; eauto.
  pose proof (lenZ_dropZ i m). rewrite D in H1. rewrite lenZ_nil0 in H1. lia.
Qed.
Lemma mreadn_some m n : 0 <= n <= lenZ m -> exists d, mreadn m 0 n = Some d.
Proof.
  intros. unfold mreadn. rewrite fits_spec. simpl.
  destruct (Z.leb_spec 0 n); [|lia]. simpl. rewrite Z.add_0_l. destruct (Z.leb_spec n (lenZ m)); [|lia]. eauto.
Qed.


(** * more about checked memory *)
Lemma mread_app_l a b i : 0 <= i < lenZ a -> mread (a ++ b) i = mread a i.
Proof.
  intros. unfold mread. destruct (Z.leb_spec 0 i); [|lia]. rewrite dropZ_app_l by lia.
  destruct (dropZ i a) eqn:D; [|reflexivity].
  pose proof (lenZ_dropZ i a). rewrite D, lenZ_nil0 in H1. lia.
Qed.
Lemma mread_app_r a b i : lenZ a <= i -> mread (a ++ b) i = mread b (i - lenZ a).
Proof.
  intros. pose proof (lenZ_nonneg a). unfold mread.
  destruct (Z.leb_spec 0 i); [|lia]. destruct (Z.leb_spec 0 (i - lenZ a)); [|lia].
  rewrite dropZ_app_r by lia. reflexivity.
Qed.
Lemma mread_dropZ k m i : 0 <= k -> 0 <= i -> mread (dropZ k m) i = mread m (k + i).
Proof.
  intros. unfold mread. destruct (Z.leb_spec 0 i); [|lia]. destruct (Z.leb_spec 0 (k + i)); [|lia].
  rewrite dropZ_dropZ by lia. reflexivity.
Qed.
Lemma takeZ_cons n x t : 0 < n -> takeZ n (x :: t) = x :: takeZ (n - 1) t.
Proof. intros. simpl. destruct (Z.leb_spec n 0); [lia | reflexivity]. Qed.
Lemma dropZ_cons n x t : 0 < n -> dropZ n (x :: t) = dropZ (n - 1) t.
Proof. intros. simpl. destruct (Z.leb_spec n 0); [lia | reflexivity]. Qed.
Lemma takeZ_takeZ a b (l : list Z) : takeZ a (takeZ b l) = takeZ (Z.min a b) l.
Proof.
  revert a b. induction l as [|x t IH]; intros a b; simpl.
  - destruct (b <=? 0); reflexivity.
  - destruct (Z.leb_spec b 0).
    + simpl. destruct (Z.leb_spec (Z.min a b) 0); [reflexivity|lia].
    + simpl. destruct (Z.leb_spec a 0); destruct (Z.leb_spec (Z.min a b) 0); try lia; try reflexivity.
      f_equal. rewrite IH. f_equal. lia.
Qed.
Lemma takeZ_nil n : takeZ n [] = [].
Proof. reflexivity. Qed.
Lemma dropZ_nil n : dropZ n [] = [].
Proof. reflexivity. Qed.
Lemma dropZ_takeZ i n m : 0 <= i -> dropZ i (takeZ n m) = takeZ (n - i) (dropZ i m).
Proof.
  revert i n. induction m as [|x t IH]; intros i n I.
  - reflexivity.
  - destruct (Z.leb_spec n 0).
    + rewrite (takeZ_nonpos n) by lia. rewrite dropZ_nil. rewrite takeZ_nonpos by lia. reflexivity.
    + rewrite takeZ_cons by lia. destruct (Z.leb_spec i 0).
      * rewrite !dropZ_nonpos by lia. replace (n - i) with n by lia. rewrite takeZ_cons by lia. reflexivity.
      * rewrite !dropZ_cons by lia. rewrite IH by lia. f_equal. lia.
Qed.
Lemma mread_takeZ n m i : 0 <= i < n -> mread (takeZ n m) i = mread m i.
Proof.
  intros. unfold mread. destruct (Z.leb_spec 0 i); [|lia]. rewrite dropZ_takeZ by lia.
  destruct (dropZ i m) as [|x t]; [reflexivity|]. rewrite takeZ_cons by lia. reflexivity.
Qed.


Lemma list_ext_mread (a b : list Z) : lenZ a = lenZ b -> (forall i, 0 <= i < lenZ a -> mread a i = mread b i) -> a = b.
Proof.
  revert b. induction a as [|x t IH]; intros b Lab H.
  - symmetry. apply lenZ_nil. rewrite <- Lab. reflexivity.
  - destruct b as [|y u]; [rewrite lenZ_cons, lenZ_nil0 in Lab; pose proof (lenZ_nonneg t); lia|].
    rewrite !lenZ_cons in Lab. pose proof (lenZ_nonneg t).
    assert (Hz := H 0 ltac:(rewrite lenZ_cons; lia)). unfold mread in Hz. simpl in Hz. inversion Hz; subst y. f_equal.
    apply IH; [lia|]. intros i Hi.
    assert (Hs := H (i + 1) ltac:(rewrite lenZ_cons; lia)).
    unfold mread in *. destruct (Z.leb_spec 0 (i + 1)); [|lia]. destruct (Z.leb_spec 0 i); [|lia].
    rewrite !dropZ_cons in Hs by lia. replace (i + 1 - 1) with i in Hs by lia. exact Hs.
Qed.

Lemma mread_mwrite m off d m' j : mwrite m off d = Some m' -> 0 <= j < lenZ m ->
  mread m' j = if (off <=? j) && (j <? off + lenZ d) then mread d (j - off) else mread m j.
Proof.
  intros W J. destruct (mwrite_inv _ _ _ _ W) as [O B]. rewrite mwrite_some in W by lia. inversion W; subst m'. clear W.
  pose proof (lenZ_nonneg d). assert (LT : lenZ (takeZ off m) = off) by (rewrite lenZ_takeZ; lia).
  destruct (Z.leb_spec off j); simpl.
  - rewrite mread_app_r by lia. rewrite LT.
    destruct (Z.ltb_spec j (off + lenZ d)).
    + apply mread_app_l. lia.
    + rewrite mread_app_r by lia. rewrite mread_dropZ by lia. f_equal. lia.
  - rewrite mread_app_l by lia. apply mread_takeZ. lia.
Qed.


(** * exec *)
Lemma all_full_app a b : all_full (a ++ b) = all_full a && all_full b.
Proof. apply forallb_app. Qed.
Lemma clean_app a b : clean (a ++ b) = clean a && clean b.
Proof. apply forallb_app. Qed.
Lemma vis_app f a b : vis f (a ++ b) = vis f a ++ vis f b.
Proof. apply flat_map_app. Qed.

Lemma exec_read {S} st req (k : list Z -> prog S) kb :
  exec (PRead st req k) kb =
  let '(o, kb2, e) := exec (k (takeZ req kb)) (dropZ req kb) in (o, kb2, Rd st req (lenZ (takeZ req kb)) :: e).
Proof. reflexivity. Qed.

Lemma exec_suffix {S} (p : prog S) : forall kb o k e, exec p kb = (o, k, e) -> lenZ k <= lenZ kb.
Proof.
  induction p as [s r|st req c IH|d z p IH|d p IH|n p IH|n p IH|]; intros kb o k0 e0 E; simpl in E;
    try (destruct (exec p kb) as [[o' k'] e'] eqn:E'; inversion E; subst; eauto; fail).
  - inversion E; subst; lia.
  - destruct (exec (c (takeZ req kb)) (dropZ req kb)) as [[o' k'] e'] eqn:E'. inversion E; subst.
    apply IH in E'. rewrite lenZ_dropZ in E'. pose proof (lenZ_nonneg kb). lia.
  - inversion E; subst; lia.
Qed.

Lemma exec_nil {S} (p : prog S) : forall o k e, exec p [] = (o, k, e) -> k = [].
Proof.
  intros. apply exec_suffix in H. rewrite lenZ_nil0 in H. apply lenZ_nil. pose proof (lenZ_nonneg k). lia.
Qed.

(** locality: all reads full => appended bytes are not seen *)
Lemma exec_full_app {S} (p : prog S) : forall kb b o k e,
  exec p kb = (o, k, e) -> all_full e = true -> exec p (kb ++ b) = (o, k ++ b, e).
Proof.
  induction p as [s r|st req c IH|d z p IH|d p IH|n p IH|n p IH|]; intros kb b o k0 e0 E F; simpl in *;
    try (destruct (exec p kb) as [[o' k'] e'] eqn:E'; inversion E; subst;
         simpl in F; erewrite IH; eauto; fail).
  - inversion E; subst; reflexivity.
  - destruct (exec (c (takeZ req kb)) (dropZ req kb)) as [[o' k'] e'] eqn:E'. inversion E; subst.
    simpl in F. apply andb_true_iff in F as [F1 F2]. apply Z.leb_le in F1.
    rewrite lenZ_takeZ in F1. pose proof (lenZ_nonneg kb).
    assert (req <= lenZ kb) by lia.
    rewrite takeZ_app_l, dropZ_app_l by lia.
    erewrite IH; eauto.
  - inversion E; subst; reflexivity.
Qed.

(** a short read means the kernel buffer was emptied *)
Lemma exec_short_empty {S} (p : prog S) : forall kb o k e,
  exec p kb = (o, k, e) -> all_full e = false -> k = [].
Proof.
  induction p as [s r|st req c IH|d z p IH|d p IH|n p IH|n p IH|]; intros kb o k0 e0 E F; simpl in *;
    try (destruct (exec p kb) as [[o' k'] e'] eqn:E'; inversion E; subst; simpl in F; eauto; fail).
  - inversion E; subst; discriminate.
  - destruct (exec (c (takeZ req kb)) (dropZ req kb)) as [[o' k'] e'] eqn:E'. inversion E; subst.
    simpl in F. destruct (Z.leb_spec req (lenZ (takeZ req kb))) as [F1|F1]; simpl in F.
    + eauto.
    + rewrite lenZ_takeZ in F1. pose proof (lenZ_nonneg kb).
      assert (D : dropZ req kb = []) by (apply dropZ_all; lia).
      rewrite D in E'. eapply exec_nil; eauto.
  - inversion E; subst; discriminate.
Qed.

(** * the drain loop *)
Section Generic.
Context {S : Type} (body : S -> prog S) (f : ev -> list obs) (inv : S -> Prop).
Hypothesis f_rd : forall st a b, f (Rd st a b) = [].
Hypothesis f_ret : forall r, f (Ret r) = [].
Hypothesis inv_step : forall s kb s1 r k e,
  inv s -> exec (body s) kb = (Some (s1, r), k, e) -> 0 <= r -> inv s1.

(** final states are compared up to the (meaningless) layer state of a Faulted instance *)
Definition weq (w w' : wst S) : Prop := dead w = dead w' /\ (dead w <> 2 -> inner w = inner w').
Lemma weq_refl w : weq w w. Proof. split; auto. Qed.
Lemma weq_trans a b c : weq a b -> weq b c -> weq a c.
Proof. intros [H1 H2] [H3 H4]. split; [congruence|]. intros. rewrite H2, H4; auto; congruence. Qed.

(** a state in which the layer just hands every byte upward and stays as it is (an established tunnel) *)
Definition transparent (s : S) : Prop := forall fu kb w e, (length kb <= fu)%nat ->
  drain body fu s kb = (w, e) -> w = {| inner := s; dead := 0 |} /\ vis f e = map OByte kb.

(** the layer resumes correctly after a call that ran out of bytes in the middle of a read *)
Definition resume_ok : Prop := forall s a b o1 e1,
  inv s -> a <> [] -> b <> [] ->
  exec (body s) a = (o1, [], e1) -> all_full e1 = false -> clean e1 = true ->
  transparent s \/
  exists o2 k2 e2, exec (body s) (a ++ b) = (o2, k2, e2) /\
    match o1 with
    | None => o2 = None /\ vis f e2 = vis f e1
    | Some (s1, r1) => 0 <= r1 /\ exists e2', exec (body s1) b = (o2, k2, e2') /\
                       vis f (e1 ++ e2') = vis f e2 /\ lenZ k2 < lenZ b
    end.

Lemma lenZ_lt_length (a b : list Z) : lenZ a <= lenZ b -> lenZ a <> lenZ b -> (length a < length b)%nat.
Proof. rewrite !lenZ_length. lia. Qed.

Lemma drain_nil fu s : drain body fu s [] = ({| inner := s; dead := 0 |}, []).
Proof. destruct fu; reflexivity. Qed.

Lemma drain_fuel : forall f1 f2 s kb, (length kb <= f1)%nat -> (length kb <= f2)%nat ->
  drain body f1 s kb = drain body f2 s kb.
Proof.
  induction f1 as [|f1 IH]; intros f2 s kb H1 H2.
  - destruct kb; simpl in *; [destruct f2; reflexivity | lia].
  - destruct kb as [|x kb]; [destruct f2; reflexivity|].
    destruct f2 as [|f2]; [simpl in H2; lia|].
    simpl drain. destruct (exec (body s) (x :: kb)) as [[o k1] e1] eqn:E.
    destruct o as [[s1 r]|]; auto. destruct (r <? 0); auto.
    destruct (Z.eqb_spec (lenZ k1) (lenZ (x :: kb))); auto.
    pose proof (exec_suffix _ _ _ _ _ E).
    assert (length k1 < length (x :: kb))%nat by (apply lenZ_lt_length; auto).
    rewrite (IH f2 s1 k1); auto; simpl in *; lia.
Qed.

Lemma drain_inv : forall fu s kb w e, inv s -> drain body fu s kb = (w, e) -> dead w = 0 -> inv (inner w).
Proof.
  induction fu as [|fu IH]; intros s kb w e I D A.
  - destruct kb; simpl in D; inversion D; subst; simpl in *; auto; discriminate.
  - destruct kb as [|x kb]; [simpl in D; inversion D; subst; auto|].
    simpl drain in D. destruct (exec (body s) (x :: kb)) as [[o k1] e1] eqn:E.
    destruct o as [[s1 r]|]; [|inversion D; subst; simpl in A; discriminate].
    destruct (Z.ltb_spec r 0); [inversion D; subst; simpl in A; discriminate|].
    destruct (Z.eqb_spec (lenZ k1) (lenZ (x :: kb))); [inversion D; subst; simpl in A; discriminate|].
    destruct (drain body fu s1 k1) as [w' e'] eqn:D'. inversion D; subst.
    eapply (IH s1 k1); eauto.
Qed.

Lemma drain_app : resume_ok -> forall n a, (length a <= n)%nat -> forall s b f1 f2 f3,
  inv s -> (length a <= f1)%nat -> (length (a ++ b) <= f2)%nat -> (length b <= f3)%nat ->
  forall w1 e1, drain body f1 s a = (w1, e1) -> clean e1 = true ->
  forall w e, drain body f2 s (a ++ b) = (w, e) ->
  if dead w1 =? 0
  then forall w2 e2, drain body f3 (inner w1) b = (w2, e2) -> weq w w2 /\ vis f e = vis f (e1 ++ e2)
  else weq w w1 /\ vis f e = vis f e1.
Proof.
  intros RES. induction n as [|n IH]; intros a Hn s b f1 f2 f3 I F1 F2 F3 w1 e1 D1 C1 w e D.
  - destruct a; [|simpl in Hn; lia]. destruct f1; simpl in D1; inversion D1; subst; simpl.
    + intros w2 e2 D2. simpl in D. rewrite (drain_fuel f2 f3) in D by (simpl in *; auto). rewrite D in D2.
      inversion D2; subst. split; [apply weq_refl | reflexivity].
    + intros w2 e2 D2. simpl in D. rewrite (drain_fuel f2 f3) in D by (simpl in *; auto). rewrite D in D2.
      inversion D2; subst. split; [apply weq_refl | reflexivity].
  - destruct a as [|x a].
    { destruct f1; simpl in D1; inversion D1; subst; simpl;
      intros w2 e2 D2; simpl in D; rewrite (drain_fuel f2 f3) in D by (simpl in *; auto); rewrite D in D2;
      inversion D2; subst; (split; [apply weq_refl | reflexivity]). }
    destruct f1 as [|f1]; [simpl in F1; lia|].
    destruct f2 as [|f2]; [simpl in F2; lia|].
    simpl drain in D1. destruct (exec (body s) (x :: a)) as [[o1 k1] e1'] eqn:E1.
    pose proof (exec_suffix _ _ _ _ _ E1) as SUF.
    destruct (all_full e1') eqn:FULL.
    + (* every read satisfied: the call does not see b *)
      pose proof (exec_full_app _ _ b _ _ _ E1 FULL) as E2.
      change ((x :: a) ++ b) with (x :: a ++ b) in *. simpl drain in D. rewrite E2 in D.
      destruct o1 as [[s1 r]|].
      2:{ inversion D1; inversion D; subst. simpl. split; [apply weq_refl | reflexivity]. }
      destruct (Z.ltb_spec r 0).
      { inversion D1; inversion D; subst. simpl. split; [apply weq_refl | reflexivity]. }
      assert (EQ : (lenZ (k1 ++ b) =? lenZ (x :: a ++ b)) = (lenZ k1 =? lenZ (x :: a))).
      { change (x :: a ++ b) with ((x :: a) ++ b). rewrite !lenZ_app.
        destruct (Z.eqb_spec (lenZ k1) (lenZ (x :: a))); destruct (Z.eqb_spec (lenZ k1 + lenZ b) (lenZ (x :: a) + lenZ b)); auto; lia. }
      rewrite EQ in D. destruct (Z.eqb_spec (lenZ k1) (lenZ (x :: a))).
      { inversion D1; inversion D; subst. simpl. split; [apply weq_refl | reflexivity]. }
      destruct (drain body f1 s1 k1) as [w1' e1''] eqn:D1'.
      destruct (drain body f2 s1 (k1 ++ b)) as [w' e''] eqn:D'.
      inversion D1; inversion D; subst.
      rewrite clean_app in C1. apply andb_true_iff in C1 as [C1a C1b].
      assert (LT : (length k1 < length (x :: a))%nat) by (apply lenZ_lt_length; auto).
      assert (I1 : inv s1) by (eapply inv_step; eauto).
      assert (G1 : (length k1 <= n)%nat) by (simpl length in *; lia).
      assert (G2 : (length k1 <= f1)%nat) by (simpl length in *; lia).
      assert (G3 : (length (k1 ++ b) <= f2)%nat).
      { change (x :: a ++ b) with ((x :: a) ++ b) in F2. rewrite app_length in *. lia. }
      specialize (IH k1 G1 s1 b f1 f2 f3 I1 G2 G3 F3 _ _ D1' C1b _ _ D').
      destruct (dead w1 =? 0).
      * intros w2 e2 D2. destruct (IH _ _ D2) as [W V]. split; auto.
        rewrite <- app_assoc, !vis_app, V, vis_app. reflexivity.
      * destruct IH as [W V]. split; auto. rewrite !vis_app, V. reflexivity.
    + (* a read came up short: the buffer is exhausted, the layer must resume *)
      assert (k1 = []) by (eapply exec_short_empty; eauto). subst k1.
      destruct b as [|y b].
      { rewrite app_nil_r in D. rewrite (drain_fuel (Datatypes.S f2) (Datatypes.S f1)) in D by (rewrite ?app_nil_r in F2; simpl in *; lia).
        simpl drain in D. rewrite E1 in D. rewrite D1 in D. inversion D; subst.
        destruct (Z.eqb_spec (dead w) 0) as [A|A].
        - intros w2 e2 D2. destruct f3; simpl in D2; inversion D2; subst;
          (split; [split; simpl; auto | rewrite app_nil_r; reflexivity]).
        - split; [apply weq_refl | reflexivity]. }
      assert (Ce : clean e1' = true).
      { destruct o1 as [[s1 r]|]; [|inversion D1; subst; auto].
        destruct (r <? 0); [inversion D1; subst; auto|].
        destruct (lenZ [] =? lenZ (x :: a)); [inversion D1; subst; rewrite clean_app in C1; apply andb_true_iff in C1; tauto|].
        destruct (drain body f1 s1 []) as [w1' e1''] eqn:D1'. inversion D1; subst.
        rewrite clean_app in C1; apply andb_true_iff in C1; tauto. }
      destruct (RES s (x :: a) (y :: b) o1 e1' I ltac:(discriminate) ltac:(discriminate) E1 FULL Ce) as [TR|(o2 & k2 & e2 & E2 & R)].
      { (* an established tunnel: both deliveries hand all bytes upward *)
        assert (D1' : drain body (Datatypes.S f1) s (x :: a) = (w1, e1)) by (simpl drain; rewrite E1; exact D1).
        destruct (TR _ _ _ _ F1 D1') as [-> V1]. destruct (TR _ _ _ _ F2 D) as [-> V]. simpl dead.
        change (0 =? 0) with true. cbv iota. intros w2 e2 D2. simpl inner in D2.
        destruct (TR _ _ _ _ F3 D2) as [-> V2]. split; [apply weq_refl|].
        rewrite vis_app, V, V1, V2, map_app. reflexivity. }
      change ((x :: a) ++ y :: b) with (x :: a ++ y :: b) in *. simpl drain in D. rewrite E2 in D.
      destruct o1 as [[s1 r1]|].
      2:{ destruct R as [-> V]. inversion D1; inversion D; subst. simpl. split; [apply weq_refl | auto]. }
      destruct R as (R1 & e2' & E3 & V & LT).
      destruct (Z.ltb_spec r1 0); [lia|].
      assert (NE : (lenZ [] =? lenZ (x :: a)) = false).
      { apply Z.eqb_neq. lz. pose proof (lenZ_nonneg a). lia. }
      rewrite NE in D1. rewrite drain_nil in D1. inversion D1; subst. simpl dead. simpl inner.
      change (0 =? 0) with true. cbv iota.
      intros w2 e2x D2.
      destruct f3 as [|f3]; [simpl in F3; lia|].
      simpl drain in D2. rewrite E3 in D2.
      destruct o2 as [[s2 r2]|].
      2:{ inversion D; inversion D2; subst. split; [split; simpl; [auto | congruence] | rewrite app_nil_r; auto]. }
      destruct (r2 <? 0).
      { inversion D; inversion D2; subst. split; [apply weq_refl | rewrite app_nil_r; auto]. }
      pose proof (exec_suffix _ _ _ _ _ E3) as SUF2.
      assert (N1 : (lenZ k2 =? lenZ (y :: b)) = false) by (apply Z.eqb_neq; lia).
      assert (N2 : (lenZ k2 =? lenZ (x :: a ++ y :: b)) = false).
      { apply Z.eqb_neq. change (x :: a ++ y :: b) with ((x :: a) ++ y :: b). rewrite lenZ_app.
        pose proof (lenZ_nonneg (x :: a)). lia. }
      rewrite N1 in D2. rewrite N2 in D.
      assert (LL : (length k2 < length (y :: b))%nat) by (apply lenZ_lt_length; lia).
      assert (G2 : (length k2 <= f2)%nat).
      { change (x :: a ++ y :: b) with ((x :: a) ++ y :: b) in F2. rewrite app_length in F2. simpl length in *. lia. }
      assert (G3 : (length k2 <= f3)%nat) by (simpl length in *; lia).
      rewrite (drain_fuel f2 f3) in D by auto.
      destruct (drain body f3 s2 k2) as [w' e''].
      inversion D; inversion D2; subst. split; [apply weq_refl |].
      rewrite app_nil_r, !vis_app. rewrite vis_app in V. rewrite <- V. rewrite app_assoc. reflexivity.
Qed.

Lemma feed_dead w c : dead w <> 0 -> feed body w c = (w, []).
Proof. intros. unfold feed. destruct (Z.eqb_spec (dead w) 0); [contradiction | reflexivity]. Qed.
Lemma run_dead : forall cs w, dead w <> 0 -> run body w cs = (w, []).
Proof. induction cs; intros; simpl; auto. rewrite feed_dead by auto. rewrite IHcs by auto. reflexivity. Qed.
Lemma feed_alive w c : dead w = 0 -> feed body w c = drain body (length c) (inner w) c.
Proof. intros. unfold feed. rewrite H. reflexivity. Qed.

(** one-step lemma: feeding a then b is feeding a ++ b *)
Lemma feed_app : resume_ok -> forall w a b, inv (inner w) ->
  clean (snd (feed body w a)) = true ->
  weq (fst (feed body (fst (feed body w a)) b)) (fst (feed body w (a ++ b))) /\
  vis f (snd (feed body w a) ++ snd (feed body (fst (feed body w a)) b)) = vis f (snd (feed body w (a ++ b))).
Proof.
  intros RES w a b I C.
  destruct (Z.eq_dec (dead w) 0) as [A|A].
  2:{ rewrite (feed_dead w a) by auto. rewrite (feed_dead w (a ++ b)) by auto. simpl. rewrite feed_dead by auto.
      split; [apply weq_refl | reflexivity]. }
  rewrite (feed_alive w a A) in *. rewrite (feed_alive w (a ++ b) A).
  destruct (drain body (length a) (inner w) a) as [w1 e1] eqn:D1.
  destruct (drain body (length (a ++ b)) (inner w) (a ++ b)) as [wc ec] eqn:Dc.
  simpl fst in *. simpl snd in *.
  pose proof (drain_app RES (length a) a (le_n _) (inner w) b (length a) (length (a ++ b)) (length b) I
                (le_n _) (le_n _) (le_n _) w1 e1 D1 C wc ec Dc) as H.
  destruct (Z.eqb_spec (dead w1) 0) as [A1|A1].
  - rewrite (feed_alive w1 b A1). destruct (drain body (length b) (inner w1) b) as [w2 e2] eqn:D2.
    destruct (H _ _ eq_refl) as [W V]. simpl. split; auto.
    destruct W as [W1 W2]. split; [congruence|]. intros. symmetry. apply W2. congruence.
  - rewrite feed_dead by auto. simpl. rewrite app_nil_r. destruct H as [W V]. split; auto.
    destruct W as [W1 W2]. split; [congruence|]. intros. symmetry. apply W2. congruence.
Qed.

(** however the stream is cut into readable events, the observable behaviour is that of one event *)
Theorem run_seg_independent : resume_ok -> forall cs w, inv (inner w) ->
  clean (snd (run body w cs)) = true ->
  weq (fst (run body w cs)) (fst (feed body w (concat cs))) /\
  vis f (snd (run body w cs)) = vis f (snd (feed body w (concat cs))).
Proof.
  intros RES. induction cs as [|c cs IH]; intros w I C.
  - simpl. unfold feed. destruct (Z.eqb_spec (dead w) 0); simpl.
    + split; [|reflexivity]. destruct w; simpl in *; subst. apply weq_refl.
    + split; [apply weq_refl | reflexivity].
  - simpl run in *. simpl concat.
    destruct (feed body w c) as [w1 e1] eqn:F1.
    destruct (run body w1 cs) as [w2 e2] eqn:R2. simpl fst in *. simpl snd in *.
    rewrite clean_app in C. apply andb_true_iff in C as [C1 C2].
    pose proof (feed_app RES w c (concat cs) I) as FA. rewrite F1 in FA. simpl in FA.
    destruct (FA C1) as [W V].
    destruct (Z.eq_dec (dead w1) 0) as [A1|A1].
    + assert (I1 : inv (inner w1)).
      { destruct (Z.eq_dec (dead w) 0) as [A|A].
        - rewrite (feed_alive w c A) in F1. eapply drain_inv; eauto.
        - rewrite feed_dead in F1 by auto. inversion F1; subst. contradiction. }
      specialize (IH w1 I1). rewrite R2 in IH. simpl in IH. destruct (IH C2) as [W' V'].
      split; [eapply weq_trans; eauto|].
      rewrite vis_app, V', <- vis_app. exact V.
    + rewrite run_dead in R2 by auto. inversion R2; subst.
      rewrite feed_dead in W, V by auto. simpl in *. split; auto.
Qed.
End Generic.

(** Faults and livelocks only arise where [exec] / [drain] say so *)
Lemma exec_some_quiet {S} (p : prog S) : forall kb x k e,
  exec p kb = (Some x, k, e) -> ~ In EFault e /\ ~ In ELive e.
Proof.
  induction p as [s r|st req c IH|d z p IH|d p IH|n p IH|n p IH|]; intros kb x k0 e0 E; simpl in E;
    try (destruct (exec p kb) as [[o' k'] e'] eqn:E'; inversion E; subst;
         destruct (IH _ _ _ _ E') as [A B]; split; intros [X|X]; try discriminate X; auto; fail).
  - inversion E; subst. split; intros [X|[]]; discriminate X.
  - destruct (exec (c (takeZ req kb)) (dropZ req kb)) as [[o' k'] e'] eqn:E'. inversion E; subst.
    destruct (IH _ _ _ _ _ E') as [A B]. split; intros [X|X]; try discriminate X; auto.
  - discriminate.
Qed.

Section NoFault.
Context {S : Type} (body : S -> prog S) (inv : S -> Prop) (good : ev -> Prop).
(** every call made in a good state on a non-empty buffer, whose events are all good, neither
    Faults nor spins, and leaves a good state *)
Hypothesis call_ok : forall s kb o k e, inv s -> kb <> [] -> exec (body s) kb = (o, k, e) -> Forall good e ->
  match o with
  | None => False
  | Some (s1, r) => 0 <= r -> inv s1 /\ lenZ k < lenZ kb
  end.

Lemma drain_ok : forall fu s kb w e, inv s -> (length kb <= fu)%nat -> drain body fu s kb = (w, e) -> Forall good e ->
  ~ In EFault e /\ ~ In ELive e /\ (dead w = 0 -> inv (inner w)) /\ dead w <> 2 /\ dead w <> 3.
Proof.
  induction fu as [|fu IH]; intros s kb w e I L D G.
  - destruct kb; [|simpl in L; lia]. simpl in D. inversion D; subst. simpl. repeat split; auto; discriminate.
  - destruct kb as [|x kb]; [simpl in D; inversion D; subst; simpl; repeat split; auto; discriminate|].
    simpl drain in D. destruct (exec (body s) (x :: kb)) as [[o k1] e1] eqn:E.
    destruct o as [[s1 r]|].
    2:{ inversion D; subst. exfalso. assert (NE : x :: kb <> []) by discriminate. exact (call_ok _ _ _ _ _ I NE E G). }
    destruct (exec_some_quiet _ _ _ _ _ E) as [Q1 Q2].
    destruct (Z.ltb_spec r 0).
    { inversion D; subst. simpl. repeat split; auto; discriminate. }
    assert (G1 : Forall good e1).
    { destruct (lenZ k1 =? lenZ (x :: kb)); [inversion D; subst; apply Forall_app in G; tauto|].
      destruct (drain body fu s1 k1); inversion D; subst. apply Forall_app in G; tauto. }
    assert (NE : x :: kb <> []) by discriminate. pose proof (call_ok _ _ _ _ _ I NE E G1 H) as [I1 LT].
    destruct (Z.eqb_spec (lenZ k1) (lenZ (x :: kb))); [lia|].
    destruct (drain body fu s1 k1) as [w' e'] eqn:D'. inversion D; subst.
    apply Forall_app in G as [_ G2].
    assert (L1 : (length k1 <= fu)%nat).
    { rewrite !lenZ_length in LT. simpl length in *. lia. }
    destruct (IH _ _ _ _ I1 L1 D' G2) as (A & B & C & D2 & D3).
    repeat split; auto; rewrite in_app_iff; tauto.
Qed.

Lemma run_ok : forall cs w, (dead w = 0 -> inv (inner w)) -> dead w <> 2 -> dead w <> 3 ->
  Forall good (snd (run body w cs)) ->
  ~ In EFault (snd (run body w cs)) /\ ~ In ELive (snd (run body w cs)) /\
  dead (fst (run body w cs)) <> 2 /\ dead (fst (run body w cs)) <> 3.
Proof.
  induction cs as [|c cs IH]; intros w I D2 D3 G; simpl in *.
  - repeat split; auto.
  - destruct (feed body w c) as [w1 e1] eqn:F1. destruct (run body w1 cs) as [w2 e2] eqn:R2. simpl in *.
    apply Forall_app in G as [G1 G2].
    assert (X : ~ In EFault e1 /\ ~ In ELive e1 /\ (dead w1 = 0 -> inv (inner w1)) /\ dead w1 <> 2 /\ dead w1 <> 3).
    { unfold feed in F1. destruct (Z.eqb_spec (dead w) 0).
      - eapply drain_ok; eauto.
      - inversion F1; subst. repeat split; auto. }
    destruct X as (A & B & C & E2 & E3).
    specialize (IH w1 C E2 E3). rewrite R2 in IH. simpl in IH. destruct (IH G2) as (A' & B' & C' & D').
    repeat split; auto; rewrite in_app_iff; tauto.
Qed.
End NoFault.

(** the same for the read-until-would-block loop [drainw]: every call either is the final one (returned 0,
    consumed nothing, kernel buffer empty) or decreases a measure *)
Section NoFaultW.
Context {S : Type} (body : S -> prog S) (inv : S -> Prop) (m : S -> list Z -> nat).
Hypothesis call_okw : forall s kb o k e, inv s -> exec (body s) kb = (o, k, e) ->
  match o with
  | None => False
  | Some (s1, r) => 0 <= r -> inv s1 /\
      ((r = 0 /\ lenZ k = lenZ kb /\ kb = []) \/ ((r <> 0 \/ lenZ k <> lenZ kb) /\ (m s1 k < m s kb)%nat))
  end.

Lemma drainw_ok : forall fu s kb more w e, inv s -> (m s kb < fu)%nat -> drainw body fu s kb more = (w, e) ->
  ~ In EFault e /\ ~ In ELive e /\ (dead w = 0 -> inv (inner w)) /\ dead w <> 2 /\ dead w <> 3.
Proof.
  induction fu as [|fu IH]; intros s kb more w e I L D; [lia|].
  simpl drainw in D.
  destruct (match kb with [] => negb more | _ :: _ => false end).
  { inversion D; subst. simpl. repeat split; auto; discriminate. }
  destruct (exec (body s) kb) as [[o k1] e1] eqn:E.
  pose proof (call_okw _ _ _ _ _ I E) as CK.
  destruct o as [[s1 r]|]; [|contradiction].
  destruct (exec_some_quiet _ _ _ _ _ E) as [Q1 Q2].
  destruct (Z.ltb_spec r 0).
  { inversion D; subst. simpl. repeat split; auto; discriminate. }
  assert (R0' : 0 <= r) by lia.
  destruct (CK R0') as [I1 [(R0 & LK & KN)|(NP & LT)]].
  - subst r kb. rewrite LK in D. rewrite Z.eqb_refl in D. simpl in D. inversion D; subst. simpl.
    repeat split; auto; discriminate.
  - assert (C : (r =? 0) && (lenZ k1 =? lenZ kb) = false).
    { apply andb_false_iff. destruct NP as [NP|NP]; [left|right]; apply Z.eqb_neq; exact NP. }
    rewrite C in D. destruct (drainw body fu s1 k1 (0 <? r)) as [w' e'] eqn:D'. inversion D; subst.
    assert (LT' : (m s1 k1 < fu)%nat) by lia.
    destruct (IH _ _ _ _ _ I1 LT' D') as (A & B & C' & D2 & D3).
    repeat split; auto; rewrite in_app_iff; tauto.
Qed.
End NoFaultW.

Lemma drain_step {S} (body : S -> prog S) fu s kb : kb <> [] ->
  drain body (Datatypes.S fu) s kb =
  let '(o, kb1, e1) := exec (body s) kb in
  match o with
  | None => ({| inner := s; dead := 2 |}, e1)
  | Some (s1, r) =>
      if r <? 0 then ({| inner := s1; dead := 1 |}, e1)
      else if lenZ kb1 =? lenZ kb then ({| inner := s1; dead := 3 |}, e1 ++ [ELive])
      else let '(w, e2) := drain body fu s1 kb1 in (w, e1 ++ e2)
  end.
Proof. destruct kb; [congruence | reflexivity]. Qed.

(** cleanliness / absence of defect markers lifts from calls to runs *)
Section Lift.
Context {S : Type} (body : S -> prog S).
Hypothesis call_clean : forall s kb o k e, exec (body s) kb = (o, k, e) -> clean e = true.
Lemma drain_clean : forall fu s kb, clean (snd (drain body fu s kb)) = true.
Proof.
  induction fu as [|fu IH]; intros s kb; destruct kb as [|x kb]; simpl; auto.
  destruct (exec (body s) (x :: kb)) as [[o k1] e1] eqn:E. pose proof (call_clean _ _ _ _ _ E) as C.
  destruct o as [[s1 r]|]; auto. destruct (r <? 0); auto.
  destruct (lenZ k1 =? lenZ (x :: kb)); simpl.
  - rewrite clean_app, C. reflexivity.
  - specialize (IH s1 k1). destruct (drain body fu s1 k1). simpl in *. rewrite clean_app, C, IH. reflexivity.
Qed.
Lemma run_clean : forall cs w, clean (snd (run body w cs)) = true.
Proof.
  induction cs as [|c cs IH]; intros w; simpl; auto.
  destruct (feed body w c) as [w1 e1] eqn:F. specialize (IH w1). destruct (run body w1 cs). simpl in *.
  rewrite clean_app, IH, andb_true_r. unfold feed in F. destruct (dead w =? 0).
  - pose proof (drain_clean (length c) (inner w) c) as D. rewrite F in D. exact D.
  - inversion F; reflexivity.
Qed.
End Lift.
