(** C16_no_fault: every offset the model of nice_udp_turn_socket_parse_recv reads lies inside the received
    packet, for every byte string and every source address. *)
From Coq Require Import ZArith List Bool Lia.
From Nice Require Import Turn.TurnModel Turn.TurnBytes.
Import ListNotations.
Local Open Scope Z_scope.

Definition bytes_ok (b : bytes) : Prop := Forall (fun x => 0 <= x < 256) b.

(** * Checked reads *)
Lemma rd_ok b i : 0 <= i < blen b -> rd b i = Ok (nth (Z.to_nat i) b 0).
Proof.
  intros H. unfold rd.
  assert (E : (0 <=? i) && (i <? blen b) = true) by (apply andb_true_iff; split; [apply Z.leb_le | apply Z.ltb_lt]; lia).
  rewrite E. reflexivity.
Qed.
Lemma rd_fault b i : rd b i = Fault -> ~ (0 <= i < blen b).
Proof. intros H Hi. rewrite rd_ok in H by exact Hi. discriminate H. Qed.
Lemma nth_byte b i : bytes_ok b -> 0 <= nth i b 0 < 256.
Proof.
  intros Hb. destruct (Nat.lt_ge_cases i (length b)) as [Hi | Hi].
  - unfold bytes_ok in Hb. rewrite Forall_forall in Hb. apply Hb. apply nth_In. exact Hi.
  - rewrite nth_overflow by exact Hi. lia.
Qed.
Lemma rdw_ok b i : bytes_ok b -> 0 <= i -> i + 1 < blen b -> exists v, rdw b i = Ok v /\ 0 <= v < 65536.
Proof.
  intros Hb H0 H1. unfold rdw. rewrite !rd_ok by lia. cbn [bind].
  eexists; split; [reflexivity|].
  pose proof (nth_byte b (Z.to_nat i) Hb). pose proof (nth_byte b (Z.to_nat (i + 1)) Hb). lia.
Qed.
Lemma rd_range_ok b i n : n <= 0 \/ (0 <= i /\ i + n <= blen b) -> exists v, rd_range b i n = Ok v.
Proof.
  intros H. unfold rd_range. destruct (n <=? 0) eqn:E; [eauto|].
  apply Z.leb_gt in E. destruct H as [H | [H1 H2]]; [lia|].
  assert (E2 : (0 <=? i) && (i + n <=? blen b) = true) by (apply andb_true_iff; split; apply Z.leb_le; lia).
  rewrite E2. eauto.
Qed.
Lemma align_ge a : 0 <= a -> a <= align a.
Proof. intros. unfold align. pose proof (padding_range a). lia. Qed.

(** * The attribute walk of stun_message_validate_buffer_length and what it guarantees *)
Inductive walked (b : bytes) (na : bool) : Z -> Z -> Prop :=
| walked_end off : walked b na off off
| walked_step off e a :
    off + 4 <= e -> rdw b (off + 2) = Ok a -> 0 <= a ->
    off + 4 + (if na then a else align a) <= e ->
    walked b na (off + 4 + (if na then a else align a)) e ->
    walked b na off e.

Lemma vbl_walk_spec b hp : bytes_ok b -> forall fuel off rem, 0 <= off -> 0 <= rem -> off + rem <= blen b ->
  exists r, vbl_walk fuel b hp off rem = Ok r /\ (r = true -> walked b (negb hp) off (off + rem)).
Proof.
  intros Hb. induction fuel as [|f IH]; intros off rem H0 Hr Hl.
  - exists false. split; [reflexivity | discriminate].
  - cbn [vbl_walk]. destruct (rem <=? 0) eqn:E0.
    + apply Z.leb_le in E0. assert (rem = 0) by lia. subst. exists true. split; [reflexivity|]. intros _. rewrite Z.add_0_r. constructor.
    + apply Z.leb_gt in E0. destruct (rem <? 4) eqn:E4; [exists false; split; [reflexivity | discriminate]|].
      apply Z.ltb_ge in E4.
      destruct (rdw_ok b (off + 2) Hb ltac:(lia) ltac:(lia)) as (a & Ha & Har). rewrite Ha. cbn [bind].
      set (alen := if hp then align a else a).
      assert (Hal : 0 <= alen) by (unfold alen; destruct hp; [pose proof (align_ge a); lia | lia]).
      destruct (rem - 4 <? alen) eqn:E5; [exists false; split; [reflexivity | discriminate]|].
      apply Z.ltb_ge in E5.
      destruct (IH (off + 4 + alen) (rem - 4 - alen) ltac:(lia) ltac:(lia) ltac:(lia)) as (r & Hr1 & Hr2).
      exists r. split; [exact Hr1|]. intros ->. specialize (Hr2 eq_refl).
      replace (off + 4 + alen + (rem - 4 - alen)) with (off + rem) in Hr2 by lia.
      assert (Ealen : alen = if negb hp then a else align a) by (unfold alen; destruct hp; reflexivity).
      apply (walked_step b (negb hp) off (off + rem) a); [lia | exact Ha | lia | rewrite <- Ealen; lia | rewrite <- Ealen; exact Hr2].
Qed.

Lemma validate_buffer_length_spec b hp : bytes_ok b ->
  exists r, validate_buffer_length b hp = Ok r /\
            (forall mlen, r = VL_ok mlen -> 20 <= mlen <= blen b /\ walked b (negb hp) 20 mlen /\ rdw b 2 = Ok (mlen - 20)).
Proof.
  intros Hb. unfold validate_buffer_length.
  destruct (blen b <? 1) eqn:E1; [eexists; split; [reflexivity | intros ? H; discriminate H]|].
  apply Z.ltb_ge in E1. rewrite rd_ok by lia. cbn [bind].
  destruct (0 <? _ / 64); [eexists; split; [reflexivity | intros ? H; discriminate H]|].
  destruct (blen b <? 4) eqn:E4; [eexists; split; [reflexivity | intros ? H; discriminate H]|].
  apply Z.ltb_ge in E4.
  destruct (rdw_ok b 2 Hb ltac:(lia) ltac:(lia)) as (l & Hl & Hlr). rewrite Hl. cbn [bind].
  destruct (hp && negb (padding (l + 20) =? 0)); [eexists; split; [reflexivity | intros ? H; discriminate H]|].
  destruct (blen b <? l + 20) eqn:E5; [eexists; split; [reflexivity | intros ? H; discriminate H]|].
  apply Z.ltb_ge in E5.
  destruct (vbl_walk_spec b hp Hb (S (length b)) 20 (l + 20 - 20) ltac:(lia) ltac:(lia) ltac:(lia)) as (r & Hr1 & Hr2).
  rewrite Hr1. cbn [bind]. destruct r.
  - eexists; split; [reflexivity|]. intros mlen H. inversion H; subst.
    specialize (Hr2 eq_refl). replace (20 + (l + 20 - 20)) with (l + 20) in Hr2 by lia.
    repeat split; try lia; [exact Hr2 | rewrite ?Hl; f_equal; lia].
  - eexists; split; [reflexivity | intros ? H; discriminate H].
Qed.

(* attribute lookups stay inside a walked message *)
Lemma find_loop_spec b na e : bytes_ok b -> e <= blen b -> forall fuel off l16 ty, walked b na off e -> 0 <= off -> l16 <= e ->
  exists r, find_loop fuel na b l16 ty off = Ok r /\
            (forall o al, r = Some (o, al) -> off + 4 <= o /\ 0 <= al /\ o + al <= e).
Proof.
  intros Hb He. induction fuel as [|f IH]; intros off l16 ty Hw H0 Hl.
  - exists None. split; [reflexivity | intros ? ? H; discriminate H].
  - cbn [find_loop]. destruct (off <? l16) eqn:E; [|exists None; split; [reflexivity | intros ? ? H; discriminate H]].
    apply Z.ltb_lt in E.
    inversion Hw as [|? ? a H4 Ha Ha0 Hfit Hw']; subst; [lia|].
    destruct (rdw_ok b off Hb H0 ltac:(lia)) as (t & Ht & _). rewrite Ht, Ha. cbn [bind].
    assert (Hale : a <= (if na then a else align a)) by (destruct na; [lia | apply align_ge; lia]).
    destruct (t =? ty); [eexists; split; [reflexivity|]; intros o al H; inversion H; subst; lia|].
    destruct ((t =? A_MI) && negb (ty =? A_FPR)); [exists None; split; [reflexivity | intros ? ? H; discriminate H]|].
    destruct (t =? A_FPR); [exists None; split; [reflexivity | intros ? ? H; discriminate H]|].
    destruct (IH (off + 4 + (if na then a else align a)) l16 ty Hw' ltac:(lia) Hl) as (r & Hr1 & Hr2).
    exists r. split; [exact Hr1|]. intros o al H. specialize (Hr2 o al H). lia.
Qed.
Lemma unknowns_loop_spec b na e : bytes_ok b -> e <= blen b -> forall fuel off l16, walked b na off e -> 0 <= off -> l16 <= e ->
  exists r, unknowns_loop fuel na b l16 off = Ok r.
Proof.
  intros Hb He. induction fuel as [|f IH]; intros off l16 Hw H0 Hl.
  - exists false. reflexivity.
  - cbn [unknowns_loop]. destruct (off <? l16) eqn:E; [|exists false; reflexivity].
    apply Z.ltb_lt in E.
    inversion Hw as [|? ? a H4 Ha Ha0 Hfit Hw']; subst; [lia|].
    destruct (rdw_ok b off Hb H0 ltac:(lia)) as (t & Ht & _). rewrite Ht, Ha. cbn [bind].
    destruct ((t <? 32768) && negb (known_attr t)); [eexists; reflexivity|].
    assert (Hale : a <= (if na then a else align a)) by (destruct na; [lia | apply align_ge; lia]).
    apply IH; [exact Hw' | lia | exact Hl].
Qed.

(** a packet that passed the length validation: all further lookups are in range *)
Record valid_msg (c : compat) (b : bytes) : Prop := {
  vm_len : 20 <= blen b;
  vm_walk : walked b (no_aligned c) 20 (blen b);
  vm_lenfield : rdw b 2 = Ok (blen b - 20)
}.

Section Valid.
Variable c : compat.
Variable b : bytes.
Hypothesis Hb : bytes_ok b.
Hypothesis Hv : valid_msg c b.

Lemma rx_len16_ok : exists l, rx_len16 b = Ok l /\ l <= blen b.
Proof.
  unfold rx_len16. rewrite (vm_lenfield _ _ Hv). cbn [bind]. eexists; split; [reflexivity|].
  pose proof (vm_len _ _ Hv). replace (blen b - 20 + 20) with (blen b) by lia.
  apply Z.mod_le; lia.
Qed.
Lemma find_attr_ok ty : exists r, find_attr c b ty = Ok r /\ (forall o al, r = Some (o, al) -> 24 <= o /\ 0 <= al /\ o + al <= blen b).
Proof.
  unfold find_attr. destruct rx_len16_ok as (l & Hl & Hle). rewrite Hl. cbn [bind].
  destruct (find_loop_spec b (no_aligned c) (blen b) Hb ltac:(lia) (S (length b)) 20 l (swap_realm_nonce c ty) (vm_walk _ _ Hv) ltac:(lia) Hle) as (r & H1 & H2).
  exists r. split; [exact H1|]. intros o al H. specialize (H2 o al H). lia.
Qed.
Lemma has_attr_ok ty : exists r, has_attr c b ty = Ok r.
Proof. unfold has_attr. destruct (find_attr_ok ty) as (r & H & _). rewrite H. cbn [bind]. eauto. Qed.
Lemma find32_ok ty : exists r, find32 c b ty = Ok r.
Proof.
  unfold find32. destruct (find_attr_ok ty) as (r & H & Hr). rewrite H. cbn [bind].
  destruct r as [[o al]|]; [|eauto].
  destruct (Hr o al eq_refl) as (H1 & H2 & H3).
  destruct al as [|p|p]; eauto. repeat (destruct p; eauto).
  destruct (rd_range_ok b o 4 ltac:(lia)) as (v & Hv4). rewrite Hv4. cbn [bind]. eauto.
Qed.
Lemma find_error_ok : exists r, find_error c b = Ok r.
Proof.
  unfold find_error. destruct (find_attr_ok A_ERROR) as (r & H & Hr). rewrite H. cbn [bind].
  destruct r as [[o al]|]; [|eauto].
  destruct (Hr o al eq_refl) as (H1 & H2 & H3).
  destruct (al <? 4) eqn:E; [eauto|]. apply Z.ltb_ge in E.
  rewrite !rd_ok by lia. cbn [bind]. destruct (_ || _); eauto.
Qed.
Lemma find_addr_ok ty : exists r, find_addr c b ty = Ok r.
Proof.
  unfold find_addr. destruct (find_attr_ok ty) as (r & H & Hr). rewrite H. cbn [bind].
  destruct r as [[o al]|]; [|eauto].
  destruct (Hr o al eq_refl) as (H1 & H2 & H3).
  destruct (al <? 4) eqn:E; [eauto|]. apply Z.ltb_ge in E.
  rewrite rd_ok by lia. cbn [bind].
  destruct (_ =? 1).
  - destruct (al =? 8) eqn:E8; [|eauto]. apply Z.eqb_eq in E8.
    destruct (rd_range_ok b (o + 2) 2 ltac:(lia)) as (v1 & Hv1). destruct (rd_range_ok b (o + 4) 4 ltac:(lia)) as (v2 & Hv2).
    rewrite Hv1, Hv2. cbn [bind]. eauto.
  - destruct (_ =? 2); [|eauto].
    destruct (al =? 20) eqn:E8; [|eauto]. apply Z.eqb_eq in E8.
    destruct (rd_range_ok b (o + 2) 2 ltac:(lia)) as (v1 & Hv1). destruct (rd_range_ok b (o + 4) 16 ltac:(lia)) as (v2 & Hv2).
    rewrite Hv1, Hv2. cbn [bind]. eauto.
Qed.
Lemma id_ok : exists v, rd_range b 4 16 = Ok v.
Proof. apply rd_range_ok. pose proof (vm_len _ _ Hv). lia. Qed.
Lemma type_ok : exists v, rdw b 0 = Ok v.
Proof. pose proof (vm_len _ _ Hv) as Hlen. destruct (rdw_ok b 0 Hb ltac:(lia) ltac:(lia)) as (v & Hw0 & _). eauto. Qed.
Lemma find_xor_addr_ok ty : exists r, find_xor_addr c b ty = Ok r.
Proof.
  unfold find_xor_addr. destruct (find_addr_ok ty) as (r & H). rewrite H. cbn [bind].
  destruct r; [|eauto]. destruct id_ok as (v & Hv'). rewrite Hv'. cbn [bind]. eauto.
Qed.
Lemma attr_value_ok ty : forall o al, find_attr c b ty = Ok (Some (o, al)) -> exists v, rd_range b o al = Ok v.
Proof.
  intros o al Hf. destruct (find_attr_ok ty) as (r & H' & Hr). rewrite Hf in H'. inversion H'; subst.
  destruct (Hr o al eq_refl) as (H1 & H2 & H3). apply rd_range_ok. lia.
Qed.
Lemma reauth_ok sr : exists r, reauth c b sr = Ok r.
Proof.
  unfold reauth. destruct find_error_ok as (e & He). rewrite He. cbn [bind].
  destruct (find_attr_ok A_REALM) as (r & H & Hr). rewrite H. cbn [bind].
  destruct r as [[o al]|].
  - destruct (attr_value_ok A_REALM o al H) as (v & Hv'). rewrite Hv'. cbn [bind]. eauto.
  - cbn [bind]. eauto.
Qed.
Lemma cache_realm_nonce_ok s : c_compat (cf s) = c -> exists s', cache_realm_nonce s b = Ok s' /\
  cf s' = cf s /\ queues s' = queues s /\ permissions s' = permissions s /\ sent_permissions s' = sent_permissions s /\
  pending_permissions s' = pending_permissions s.
Proof.
  intros Hc. unfold cache_realm_nonce. rewrite Hc.
  destruct (find_attr_ok A_REALM) as (r & H & Hr). rewrite H. cbn [bind].
  assert (E1 : exists x, match r with
                         | Some (off, l) => if (0 <? l) && (l <? 764) then v <- rd_range b off l;; Ok (Some v) else Ok None
                         | None => Ok None end = Ok x).
  { destruct r as [[o al]|]; [|eauto]. destruct ((0 <? al) && (al <? 764)); [|eauto].
    destruct (attr_value_ok A_REALM o al H) as (v & Hv'). rewrite Hv'. cbn [bind]. eauto. }
  destruct E1 as (x & Hx). rewrite Hx. cbn [bind].
  destruct (find_attr_ok A_NONCE) as (r2 & H2 & Hr2). rewrite H2. cbn [bind].
  assert (E2 : exists x, match r2 with
                         | Some (off, l) => if (0 <? l) && (l <? 764) then v <- rd_range b off l;; Ok (Some v) else Ok None
                         | None => Ok None end = Ok x).
  { destruct r2 as [[o al]|]; [|eauto]. destruct ((0 <? al) && (al <? 764)); [|eauto].
    destruct (attr_value_ok A_NONCE o al H2) as (v & Hv'). rewrite Hv'. cbn [bind]. eauto. }
  destruct E2 as (y & Hy). rewrite Hy. cbn [bind]. eexists. split; [reflexivity|]. repeat split.
Qed.
End Valid.

(** * stun_agent_validate never reads outside the packet *)
Lemma validate_spec cf0 ids0 b : bytes_ok b ->
  exists st ids', validate cf0 ids0 b = Ok (st, ids') /\ (st = V_SUCCESS -> valid_msg (c_compat cf0) b).
Proof.
  intros Hb. unfold validate.
  destruct (validate_buffer_length_spec b (negb (no_aligned (c_compat cf0))) Hb) as (vl & Hvl & Hspec).
  rewrite Hvl. cbn [bind].
  destruct vl as [| | mlen]; try (eexists _, _; split; [reflexivity | intros H; discriminate H]).
  destruct (Hspec mlen eq_refl) as (Hlen & Hwalk & Hlf). rewrite negb_involutive in Hwalk.
  destruct (mlen =? blen b) eqn:Em; cbn [negb]; [|eexists _, _; split; [reflexivity | intros H; discriminate H]].
  apply Z.eqb_eq in Em. subst mlen.
  assert (Hv : valid_msg (c_compat cf0) b) by (constructor; [lia | exact Hwalk | exact Hlf]).
  destruct (id_ok _ b Hv) as (id & Hid). rewrite Hid. cbn [bind].
  destruct (rfc5389 (c_compat cf0) && negb (bytes_eqb (firstn 4 id) cookie_bytes)); [eexists _, _; split; [reflexivity | intros H; discriminate H]|].
  destruct (type_ok _ b Hb Hv) as (t & Ht). rewrite Ht. cbn [bind].
  set (cl := class_of t). set (me := method_of t).
  set (is_resp := (cl =? C_RESPONSE) || (cl =? C_ERROR)).
  set (matched := if is_resp then find _ ids0 else None).
  destruct (is_resp && negb (is_some matched)); [eexists _, _; split; [reflexivity | intros H; discriminate H]|].
  assert (Herr : exists e, (if cl =? C_ERROR then find_error (c_compat cf0) b else Ok None) = Ok e)
    by (destruct (cl =? C_ERROR); [apply find_error_ok; assumption | eauto]).
  destruct Herr as (err & Herr). rewrite Herr. cbn [bind].
  destruct (has_attr_ok _ b Hb Hv A_USERNAME) as (hu & Hhu). rewrite Hhu. cbn [bind].
  destruct (has_attr_ok _ b Hb Hv A_MI) as (hm & Hhm). rewrite Hhm. cbn [bind].
  destruct (has_attr_ok _ b Hb Hv A_NONCE) as (hn & Hhn). rewrite Hhn. cbn [bind].
  destruct (has_attr_ok _ b Hb Hv A_REALM) as (hr & Hhr). rewrite Hhr. cbn [bind].
  match goal with |- context [if ?cnd then Ok (V_UNAUTH_BAD_REQUEST, ids0) else _] => destruct cnd end;
    [eexists _, _; split; [reflexivity | intros H; discriminate H]|].
  match goal with |- context [if ?cnd then Ok (V_UNAUTHORIZED, ids0) else _] => destruct cnd end;
    [eexists _, _; split; [reflexivity | intros H; discriminate H]|].
  match goal with |- context [bind ?e _] =>
    assert (Hmi : exists r, e = Ok r) end.
  { match goal with |- context [if ?cnd then _ else Ok false] => destruct cnd end; [|eauto].
    destruct (find_attr_ok _ b Hb Hv A_MI) as (r & Hr1 & Hr2). rewrite Hr1. cbn [bind].
    destruct r as [[o hl]|]; [|eauto].
    destruct (hl =? 20) eqn:E20; cbn [negb]; [|eauto]. apply Z.eqb_eq in E20. subst hl.
    match goal with |- context [if ?cnd then Ok true else _] => destruct cnd end; [eauto|].
    destruct (Hr2 o 20 eq_refl) as (H1 & H2 & H3).
    destruct (rd_range_ok b o 20 ltac:(lia)) as (v & Hv20). rewrite Hv20. cbn [bind]. eauto. }
  destruct Hmi as (mib & Hmi). rewrite Hmi. cbn [bind].
  destruct mib; [eexists _, _; split; [reflexivity | intros H; discriminate H]|].
  destruct (rx_len16_ok _ b Hv) as (l16 & Hl16 & Hl16le). rewrite Hl16. cbn [bind].
  destruct (unknowns_loop_spec b (no_aligned (c_compat cf0)) (blen b) Hb ltac:(lia) (S (length b)) 20 l16 (vm_walk _ _ Hv) ltac:(lia) Hl16le) as (unk & Hunk).
  rewrite Hunk. cbn [bind].
  destruct unk; eexists _, _; (split; [reflexivity|]); [destruct (cl =? C_REQUEST); intros H; discriminate H | intros _; exact Hv].
Qed.

(** * The [recv:] tail: ChannelData is only taken for what it is after its header has been checked *)
Lemma rd_range_all b : exists v, rd_range b 0 (blen b) = Ok v.
Proof. apply rd_range_ok. right. lia. Qed.
Lemma raw_up_nofault s from b bd : exists r, raw_up s from b bd = Ok r.
Proof. unfold raw_up. destruct (rd_range_all b) as (v & Hv). rewrite Hv. cbn [bind]. eauto. Qed.
Lemma chan_scan_nofault s from b : bytes_ok b -> forall l, exists r, chan_scan s from b l = Ok r.
Proof.
  intros Hb. induction l as [|bd l IH]; cbn [chan_scan]; [apply raw_up_nofault|].
  destruct (4 <=? blen b) eqn:E4; [|exact IH]. apply Z.leb_le in E4.
  destruct (rdw_ok b 0 Hb ltac:(lia) ltac:(lia)) as (ch & Hch & _). rewrite Hch. cbn [bind].
  destruct (b_chan bd =? ch); [|exact IH].
  destruct (rdw_ok b 2 Hb ltac:(lia) ltac:(lia)) as (rl & Hrl & Hrlr). rewrite Hrl. cbn [bind].
  destruct (rl <=? blen b - 4) eqn:El; [|exact IH]. apply Z.leb_le in El.
  destruct (rd_range_ok b 4 (Z.min (blen b) rl) ltac:(lia)) as (d & Hd). rewrite Hd. cbn [bind]. eauto.
Qed.
Lemma recv_tail_nofault s from b : bytes_ok b -> recv_tail s from b <> Fault.
Proof.
  intros Hb. unfold recv_tail. destruct (is_rfc _).
  - destruct (chan_scan_nofault s from b Hb (channels s)) as (r & Hr). rewrite Hr. discriminate.
  - destruct (raw_up_nofault s from b (match channels s with bd :: _ => Some bd | [] => None end)) as (r & Hr). rewrite Hr. discriminate.
Qed.

(** * The branches after a successful validation *)
Section Branches.
Variable s : state.
Variable from : addr.
Variable b : bytes.
Hypothesis Hb : bytes_ok b.
Hypothesis Hv : valid_msg (c_compat (cf s)) b.

Lemma recv_send_nofault cl id : recv_send s b cl id <> Fault.
Proof.
  unfold recv_send. destruct (cl =? C_RESPONSE); [|discriminate].
  destruct (remove_sreq _ _) as [rq found].
  destruct (compat_eqb _ GOOGLE); [|discriminate].
  destruct (find32_ok _ b Hb Hv A_OPTIONS) as (o & Ho). rewrite Ho. cbn [bind].
  destruct o as [v|]; [|discriminate]. destruct (Z.odd v); [|discriminate]. destruct (lock _); discriminate.
Qed.
Lemma recv_set_active_nofault cl id : recv_set_active s cl id <> Fault.
Proof.
  unfold recv_set_active. destruct (current_binding s), (current_binding_msg s); try discriminate.
  destruct (bytes_eqb _ _); [|discriminate]. destruct (_ && _); [destruct (lock _)|]; discriminate.
Qed.
Lemma recv_channelbind_nofault cl id : recv_channelbind s b cl id <> Fault.
Proof.
  unfold recv_channelbind. destruct (current_binding_msg s) as [bm|]; [|discriminate].
  destruct (bytes_eqb _ _); [|discriminate].
  destruct (cl =? C_ERROR).
  - destruct (reauth_ok _ b Hb Hv (bm_realm bm)) as (ra & Hra). rewrite Hra. cbn [bind].
    destruct ra.
    + destruct (cache_realm_nonce_ok _ b Hb Hv (set_cbm s None) eq_refl) as (s1 & Hs1 & _). rewrite Hs1. cbn [bind].
      destruct (match current_binding s with Some x => Some x | None => _ end); [destruct (send_channel_bind _ _ _) as [[? ?] ?]|]; discriminate.
    + destruct (process_pending_bindings _ _); discriminate.
  - destruct (cl =? C_RESPONSE); [|discriminate]. destruct (process_pending_bindings _ _); discriminate.
Qed.
Lemma recv_createperm_nofault cl id : recv_createperm s b cl id <> Fault.
Proof.
  unfold recv_createperm. destruct (split_pp _ _ _) as [[[before pm] after]|]; [|discriminate].
  assert (Hra : exists ra, (if cl =? C_ERROR then reauth (c_compat (cf s)) b (pm_realm pm) else Ok false) = Ok ra)
    by (destruct (cl =? C_ERROR); [apply reauth_ok; assumption | eauto]).
  destruct Hra as (ra & Hra). rewrite Hra. cbn [bind]. destruct ra.
  - destruct (cache_realm_nonce_ok _ b Hb Hv (set_pp s (before ++ after)) eq_refl) as (s1 & Hs1 & _). rewrite Hs1. cbn [bind].
    destruct (send_create_permission _ _) as [[? ?] ?]. discriminate.
  - destruct (cp_done _ _ _ _ _). discriminate.
Qed.
Lemma recv_data_ind_fault : recv_data_ind s from b = Fault -> recv_tail s from b = Fault.
Proof.
  unfold recv_data_ind.
  assert (Ha : exists a, (if is_rfc (c_compat (cf s)) then find_xor_addr (c_compat (cf s)) b A_PEER else find_addr (c_compat (cf s)) b A_PEER) = Ok a)
    by (destruct (is_rfc _); [apply find_xor_addr_ok | apply find_addr_ok]; assumption).
  destruct Ha as (a & Ha). rewrite Ha. cbn [bind].
  destruct a as [peer|]; [|auto].
  destruct (find_attr_ok _ b Hb Hv A_DATA) as (d & Hd & Hdr). rewrite Hd. cbn [bind].
  destruct d as [[off dl]|]; [|auto].
  destruct (Hdr off dl eq_refl) as (H1 & H2 & H3).
  destruct (rd_range_ok b off (Z.min (blen b) dl) ltac:(lia)) as (v & Hv'). rewrite Hv'. cbn [bind].
  destruct (_ && _); [destruct (send_create_permission _ _) as [[? ?] ?]|]; discriminate.
Qed.
Lemma recv_valid_fault : recv_valid s from b = Fault -> recv_tail s from b = Fault.
Proof.
  unfold recv_valid.
  assert (Hck : exists ck, (if is_rfc (c_compat (cf s)) then Ok true
                            else x <- find32 (c_compat (cf s)) b A_MAGIC_COOKIE;; Ok match x with Some 1925598150 => true | _ => false end) = Ok ck).
  { destruct (is_rfc _); [eauto|]. destruct (find32_ok _ b Hb Hv A_MAGIC_COOKIE) as (x & Hx). rewrite Hx. cbn [bind]. eauto. }
  destruct Hck as (ck & Hck). rewrite Hck. cbn [bind].
  destruct ck; cbn [negb]; [|auto].
  destruct (type_ok _ b Hb Hv) as (t & Ht). rewrite Ht. cbn [bind].
  destruct (id_ok _ b Hv) as (id & Hid). rewrite Hid. cbn [bind].
  destruct (_ =? M_SEND); [intros H; exfalso; revert H; apply recv_send_nofault|].
  destruct (_ =? M_SET_ACTIVE); [intros H; exfalso; revert H; apply recv_set_active_nofault|].
  destruct (_ =? M_CHANNELBIND); [intros H; exfalso; revert H; apply recv_channelbind_nofault|].
  destruct (_ =? M_CREATEPERM); [intros H; exfalso; revert H; apply recv_createperm_nofault|].
  destruct (_ && _); [apply recv_data_ind_fault | auto].
Qed.
End Branches.

(** * C16_no_fault *)
Theorem recv_never_faults s from b : bytes_ok b -> exists r, recv s from b = Ok r.
Proof.
  intros Hb. destruct (recv s from b) as [r|] eqn:E; [eauto|]. exfalso. revert E. unfold recv.
  destruct (negb (addr_eqb _ from)); [apply recv_tail_nofault; exact Hb|].
  destruct (validate_spec (cf s) (ids s) b Hb) as (st & ids' & Hval & Hvm). rewrite Hval. cbn [bind].
  assert (Htail : recv_tail (set_ids s ids') from b <> Fault) by (apply recv_tail_nofault; exact Hb).
  destruct st; auto.
  intros H. apply Htail. apply (recv_valid_fault (set_ids s ids') from b Hb (Hvm eq_refl) H).
Qed.

(** examples on a state with channel 0x4000 bound: the packets that made the code before commit 7dada38 read
    beyond them are now passed through untouched; a well-formed ChannelData packet is unwrapped *)
Definition ex_server : addr := {| a6 := false; aip := [192; 0; 2; 1]; aport := [13; 150] |}.
Definition ex_peer : addr := {| a6 := false; aip := [192; 168; 0; 1]; aport := [4; 0] |}.
Definition ex_state : state :=
  set_channels (init_state {| c_compat := RFC5766; c_server := ex_server; c_user := [117]; c_pwlen := 0 |}) [ {| b_peer := ex_peer; b_chan := 16384 |} ].
Lemma no_fault_examples :
  recv ex_state ex_server [64; 0; 0; 2; 7; 8] = Ok (ex_state, [], RxData {| h_data := [7; 8]; h_from := ex_peer; h_sock := true |}) /\
  recv ex_state ex_server [64; 0; 0; 100; 170; 187; 204; 221]
    = Ok (ex_state, [], RxData {| h_data := [64; 0; 0; 100; 170; 187; 204; 221]; h_from := ex_server; h_sock := false |}) /\
  recv ex_state ex_peer [64; 0] = Ok (ex_state, [], RxData {| h_data := [64; 0]; h_from := ex_peer; h_sock := false |}) /\
  recv ex_state ex_server [64] = Ok (ex_state, [], RxData {| h_data := [64]; h_from := ex_server; h_sock := false |}).
Proof. repeat split; vm_compute; reflexivity. Qed.
