(** Executable model of the data path of socket/udp-turn.c over an unreliable (UDP) base socket:
    outgoing wrap (Send indication / Send request / ChannelData / raw after a Google-MSN lock),
    incoming unwrap (nice_udp_turn_socket_parse_recv: stun_agent_validate, the TURN control
    messages, Data indication, the [recv:] ChannelData / pass-through path), the permission and
    per-peer send-queue machinery (CreatePermission, 401/438 re-authentication, retransmission
    timer, time-out), channel-bind bookkeeping as far as the data path depends on it, and the
    GLib timeout sources involved (retransmission tick, 8 s SendRequest forget, 240 s permission
    refresh).  Every read of a received packet goes through [rd], which yields [Fault] when the
    offset is outside the packet.  Bytes are [Z] in 0..255, byte strings are lists.

    What is NOT modelled (the model answers [Unmodelled] when a run gets there): retransmission /
    time-out of ChannelBind and Set-Active-Destination requests, the 540 s channel refresh,
    reliable (TCP) base sockets with RFC 4571 framing, base-socket send failures.
    MESSAGE-INTEGRITY is an opaque trailer: [mi_value] stands for the 20 bytes the implementation
    computes (the correspondence harness substitutes a constant for HMAC-SHA1).
    No proofs in this file. *)
From Coq Require Import ZArith List Bool.
From Nice Require Timer.TimerModel.
Import ListNotations.
Local Open Scope Z_scope.
Local Open Scope bool_scope.



Definition bytes := list Z.
Definition blen (b : bytes) : Z := Z.of_nat (length b).

(** * Results of reading a received packet *)
Inductive R (A : Type) : Type := Ok (a : A) | Fault.
Arguments Ok {A} a.
Arguments Fault {A}.
Definition bind {A B} (r : R A) (f : A -> R B) : R B := match r with Ok a => f a | Fault => Fault end.
Notation "x <- e ;; k" := (bind e (fun x => k)) (at level 61, e at next level, right associativity).

Definition rd (b : bytes) (i : Z) : R Z :=
  if (0 <=? i) && (i <? blen b) then Ok (nth (Z.to_nat i) b 0) else Fault.
Definition rdw (b : bytes) (i : Z) : R Z := h <- rd b i ;; l <- rd b (i + 1) ;; Ok (h * 256 + l).
Fixpoint rd_range_n (b : bytes) (i : Z) (n : nat) : R bytes :=
  match n with O => Ok [] | S n' => x <- rd b i ;; r <- rd_range_n b (i + 1) n' ;; Ok (x :: r) end.
(* memmove/memcpy/memcmp of [n] bytes starting at [i]: faults when any byte is outside; an empty range reads nothing *)
Definition rd_range (b : bytes) (i n : Z) : R bytes :=
  if n <=? 0 then Ok []
  else if (0 <=? i) && (i + n <=? blen b) then Ok (firstn (Z.to_nat n) (skipn (Z.to_nat i) b)) else Fault.

(** * Bytes, addresses *)
Definition be16 (v : Z) : bytes := [ (v / 256) mod 256; v mod 256 ].
Definition be32 (v : Z) : bytes := [ (v / 16777216) mod 256; (v / 65536) mod 256; (v / 256) mod 256; v mod 256 ].
Definition zeros (n : Z) : bytes := repeat 0 (Z.to_nat n).
Definition padding (l : Z) : Z := (4 - l mod 4) mod 4.       (* stun_padding *)
Definition align (l : Z) : Z := l + padding l.               (* stun_align *)
Fixpoint bytes_eqb (a b : bytes) : bool :=
  match a, b with
  | [], [] => true
  | x :: a', y :: b' => (x =? y) && bytes_eqb a' b'
  | _, _ => false
  end.
(* x[i] ^= k[i] over the common prefix *)
Fixpoint xorb (a k : bytes) : bytes :=
  match a, k with x :: a', y :: k' => Z.lxor x y :: xorb a' k' | _, _ => a end.

(* NiceAddress: family, address bytes (4 or 16), port (2 bytes, network order) *)
Record addr := { a6 : bool; aip : bytes; aport : bytes }.
Definition addr_eqb (a b : addr) : bool :=          (* nice_address_equal, scope id 0 *)
  Bool.eqb (a6 a) (a6 b) && bytes_eqb (aip a) (aip b) && bytes_eqb (aport a) (aport b).
Definition cookie_bytes : bytes := [33; 18; 164; 66].          (* 0x2112A442 *)
Definition turn_cookie_bytes : bytes := [114; 198; 75; 198].   (* TURN_MAGIC_COOKIE 0x72c64bc6 *)
(* attribute value of stun_message_append_addr *)
Definition enc_addr (a : addr) : bytes := [0; if a6 a then 2 else 1] ++ aport a ++ aip a.
(* stun_xor_address: port ^ cookie>>16, v4 ^ cookie, v6 ^ bytes 4..19 of the message *)
Definition xor_addr (id16 : bytes) (a : addr) : addr :=
  {| a6 := a6 a; aip := xorb (aip a) (if a6 a then id16 else cookie_bytes); aport := xorb (aport a) [33; 18] |}.

(** * Configuration *)
Inductive compat := DRAFT9 | GOOGLE | MSN | OC2007 | RFC5766.
Definition compat_eqb (a b : compat) : bool :=
  match a, b with DRAFT9, DRAFT9 | GOOGLE, GOOGLE | MSN, MSN | OC2007, OC2007 | RFC5766, RFC5766 => true | _, _ => false end.
Definition is_rfc (c : compat) : bool := match c with DRAFT9 | RFC5766 => true | _ => false end.
(* StunAgent set-up of nice_udp_turn_socket_new *)
Definition rfc5389 (c : compat) : bool := is_rfc c.                                         (* STUN_COMPATIBILITY_RFC5389 *)
Definition long_term (c : compat) : bool := match c with DRAFT9 | RFC5766 | OC2007 => true | _ => false end.
Definition short_term (c : compat) : bool := match c with GOOGLE | MSN => true | _ => false end.
Definition no_ind_auth (c : compat) : bool := match c with MSN => true | _ => false end.
Definition ignore_creds (c : compat) : bool := match c with GOOGLE => true | _ => false end.
Definition no_aligned (c : compat) : bool := match c with OC2007 => true | _ => false end.
Definition oc2007 (c : compat) : bool := match c with OC2007 => true | _ => false end.

Record cfg := { c_compat : compat; c_server : addr; c_user : bytes; c_pwlen : Z }.
Definition key_null (cf : cfg) : bool := match c_compat cf with GOOGLE => true | _ => false end.  (* priv->password == NULL *)
Definition key_pos (cf : cfg) : bool := negb (key_null cf) && (0 <? c_pwlen cf).             (* key != NULL && key_len > 0 *)

Definition STUN_MAX_MESSAGE_SIZE : Z := 65552.
Definition MAX_SAVED_IDS : nat := 200%nat.
(* the 20 bytes stun_sha1 yields: opaque *)
Definition mi_value : bytes := repeat 90 20.

(* attribute and method numbers *)
Definition A_USERNAME := 6.   Definition A_MI := 8.          Definition A_ERROR := 9.
Definition A_CHANNEL := 12.   Definition A_MAGIC_COOKIE := 15. Definition A_DEST := 17.
Definition A_PEER := 18.      Definition A_DATA := 19.       Definition A_REALM := 20.
Definition A_NONCE := 21.     Definition A_OPTIONS := 32769. Definition A_MS_VERSION := 32776.
Definition A_MS_SEQ := 32848. Definition A_FPR := 32808.
Definition M_SEND := 4.  Definition M_SET_ACTIVE := 6.  Definition M_IND_DATA := 7.
Definition M_CREATEPERM := 8.  Definition M_CHANNELBIND := 9.
Definition C_REQUEST := 0. Definition C_INDICATION := 1. Definition C_RESPONSE := 2. Definition C_ERROR := 3.

(** * Building messages (stun_message_init / stun_message_append / stun_agent_finish_message) *)
(* a message under construction: type word, bytes 4..19 of the header, attributes already encoded *)
Record smsg := { s_type : Z; s_id : bytes; s_attrs : bytes }.
(* stun_set_type *)
Definition stun_type (class method : Z) : Z :=
  Z.lor (Z.shiftr class 1) (Z.land (Z.shiftr method 6) 62) * 256
  + Z.lor (Z.lor (Z.land (Z.shiftl class 4) 16) (Z.land (Z.shiftl method 1) 224)) (Z.land method 15).
Definition serialize (m : smsg) : bytes := be16 (s_type m) ++ be16 (blen (s_attrs m)) ++ s_id m ++ s_attrs m.
Definition msg_len16 (m : smsg) : Z := (blen (s_attrs m) + 20) mod 65536.     (* stun_message_length, uint16_t *)
Definition has_cookie (m : smsg) : bool := bytes_eqb (firstn 4 (s_id m)) cookie_bytes.
Definition swap_realm_nonce (c : compat) (ty : Z) : Z :=
  if oc2007 c then (if ty =? A_REALM then A_NONCE else if ty =? A_NONCE then A_REALM else ty) else ty.
(* stun_message_append + memcpy of the value; [None] = NOT_ENOUGH_SPACE *)
Definition append (c : compat) (cap : Z) (m : smsg) (ty : Z) (v : bytes) : option smsg :=
  let mlen := msg_len16 m in
  let len := blen v in
  let pad := if no_aligned c then 0 else padding len in
  if mlen + 4 + len + pad >? cap then None else
  let lenfield := if no_aligned c then len else if has_cookie m then len else align len in
  Some {| s_type := s_type m; s_id := s_id m;
          s_attrs := s_attrs m ++ be16 (swap_realm_nonce c ty) ++ be16 lenfield ++ v ++ zeros pad |}.

(* a run of appends; the flag marks appends whose failure the C code ignores *)
Definition aspec := (Z * bytes * bool)%type.
Fixpoint append_all (c : compat) (cap : Z) (m : smsg) (l : list aspec) : option smsg :=
  match l with
  | [] => Some m
  | (ty, v, ign) :: l' =>
      match append c cap m ty v with
      | Some m' => append_all c cap m' l'
      | None => if ign then append_all c cap m l' else None
      end
  end.
Definition opt (cond : bool) (ty : Z) (v : bytes) : list aspec := if cond then [(ty, v, false)] else [].

(* first attribute of type [ty] in a message we built ourselves (stun_message_find on it) *)
Fixpoint own_find_loop (fuel : nat) (na : bool) (a : bytes) (ty : Z) : option bytes :=
  match fuel with O => None | S f =>
  match a with
  | t0 :: t1 :: l0 :: l1 :: rest =>
      let atype := t0 * 256 + t1 in let alen := l0 * 256 + l1 in
      if atype =? ty then Some (firstn (Z.to_nat alen) rest)
      else if (atype =? A_MI) && negb (ty =? A_FPR) then None
      else if atype =? A_FPR then None
      else own_find_loop f na (skipn (Z.to_nat (if na then alen else align alen)) rest) ty
  | _ => None
  end end.
Definition own_find (c : compat) (m : smsg) (ty : Z) : option bytes :=
  own_find_loop (S (length (s_attrs m))) (no_aligned c) (s_attrs m) (swap_realm_nonce c ty).

(* transaction ids: the n-th call of the random source *)
Definition mk_tid (n : Z) : bytes := [160; 161; 162; 163; 164; 165; 166; 167; 168; 169; 170; 171] ++ be32 n.
Definition init_msg (c : compat) (class method : Z) (n : Z) : smsg :=
  let id := mk_tid n in
  {| s_type := stun_type class method; s_id := if rfc5389 c then cookie_bytes ++ skipn 4 id else id; s_attrs := [] |}.

Record sent_id := { si_tid : bytes; si_method : Z; si_lt : bool }.
(* stun_agent_finish_message: [None] = returned 0.  Returns the finished message and the agent's saved ids. *)
Definition finish (cf : cfg) (ids : list sent_id) (class method : Z) (m : smsg) : option (smsg * list sent_id) :=
  let c := c_compat cf in
  let remember := (class =? C_REQUEST) && negb (oc2007 c && (method =? M_SEND)) in
  if remember && (Nat.leb MAX_SAVED_IDS (length ids)) then None else
  let with_mi : option (smsg * bool) :=      (* message, long_term_valid *)
    if key_null cf then Some (m, false) else
    if long_term c then
      match own_find c m A_REALM, own_find c m A_USERNAME with
      | Some _, Some _ => match append c STUN_MAX_MESSAGE_SIZE m A_MI mi_value with Some m' => Some (m', true) | None => None end
      | _, _ => Some (m, false)
      end
    else match append c STUN_MAX_MESSAGE_SIZE m A_MI mi_value with Some m' => Some (m', false) | None => None end in
  match with_mi with
  | None => None
  | Some (m', lt) =>
      Some (m', if remember then ids ++ [ {| si_tid := s_id m'; si_method := method; si_lt := lt |} ] else ids)
  end.

(** * Socket state *)
Record pmsg := { pm_tid : bytes; pm_peer : addr; pm_bytes : bytes; pm_realm : option bytes; pm_timer : TimerModel.timer }.
Record binding := { b_peer : addr; b_chan : Z }.
Record bindmsg := { bm_tid : bytes; bm_peer : addr; bm_realm : option bytes; bm_deadline : Z }.
Record src := { src_id : Z; src_at : Z }.     (* GLib timeout source: attach order, ready time (ms) *)
Record sreq := { sr_tid : bytes; sr_src : src }.

Record state := {
  cf : cfg;
  now : Z;                                  (* virtual clock, ms *)
  next_tid : Z;                             (* calls of the random source so far *)
  next_src : Z;
  ids : list sent_id;                       (* agent.sent_ids (valid entries) *)
  channels : list binding;
  pending_bindings : list addr;
  current_binding : option binding;
  current_binding_msg : option bindmsg;
  pending_permissions : list pmsg;
  permissions : list addr;
  sent_permissions : list addr;
  queues : list (addr * list bytes);        (* send_data_queues *)
  send_requests : list sreq;
  tick_cp : option src;                     (* tick_source_create_permission *)
  perm_src : option src;                    (* permission_timeout_source *)
  cached_realm : option bytes;
  cached_nonce : option bytes;
  ms_realm : bytes;
  ms_conn : option bytes;                   (* ms_connection_id when valid *)
  ms_seq : Z;
  first_bind_ok : option Z                  (* time of the first successful ChannelBind (540 s refresh not modelled) *)
}.

Definition init_state (c : cfg) : state :=
  {| cf := c; now := 1000000; next_tid := 0; next_src := 0; ids := []; channels := []; pending_bindings := [];
     current_binding := None; current_binding_msg := None; pending_permissions := []; permissions := [];
     sent_permissions := []; queues := []; send_requests := []; tick_cp := None; perm_src := None;
     cached_realm := None; cached_nonce := None; ms_realm := []; ms_conn := None; ms_seq := 0; first_bind_ok := None |}.

(* record updates *)
Definition set_tid s v := {| cf := cf s; now := now s; next_tid := v; next_src := next_src s; ids := ids s; channels := channels s; pending_bindings := pending_bindings s; current_binding := current_binding s; current_binding_msg := current_binding_msg s; pending_permissions := pending_permissions s; permissions := permissions s; sent_permissions := sent_permissions s; queues := queues s; send_requests := send_requests s; tick_cp := tick_cp s; perm_src := perm_src s; cached_realm := cached_realm s; cached_nonce := cached_nonce s; ms_realm := ms_realm s; ms_conn := ms_conn s; ms_seq := ms_seq s; first_bind_ok := first_bind_ok s |}.
Definition set_now s v := {| cf := cf s; now := v; next_tid := next_tid s; next_src := next_src s; ids := ids s; channels := channels s; pending_bindings := pending_bindings s; current_binding := current_binding s; current_binding_msg := current_binding_msg s; pending_permissions := pending_permissions s; permissions := permissions s; sent_permissions := sent_permissions s; queues := queues s; send_requests := send_requests s; tick_cp := tick_cp s; perm_src := perm_src s; cached_realm := cached_realm s; cached_nonce := cached_nonce s; ms_realm := ms_realm s; ms_conn := ms_conn s; ms_seq := ms_seq s; first_bind_ok := first_bind_ok s |}.
Definition set_src s v := {| cf := cf s; now := now s; next_tid := next_tid s; next_src := v; ids := ids s; channels := channels s; pending_bindings := pending_bindings s; current_binding := current_binding s; current_binding_msg := current_binding_msg s; pending_permissions := pending_permissions s; permissions := permissions s; sent_permissions := sent_permissions s; queues := queues s; send_requests := send_requests s; tick_cp := tick_cp s; perm_src := perm_src s; cached_realm := cached_realm s; cached_nonce := cached_nonce s; ms_realm := ms_realm s; ms_conn := ms_conn s; ms_seq := ms_seq s; first_bind_ok := first_bind_ok s |}.
Definition set_ids s v := {| cf := cf s; now := now s; next_tid := next_tid s; next_src := next_src s; ids := v; channels := channels s; pending_bindings := pending_bindings s; current_binding := current_binding s; current_binding_msg := current_binding_msg s; pending_permissions := pending_permissions s; permissions := permissions s; sent_permissions := sent_permissions s; queues := queues s; send_requests := send_requests s; tick_cp := tick_cp s; perm_src := perm_src s; cached_realm := cached_realm s; cached_nonce := cached_nonce s; ms_realm := ms_realm s; ms_conn := ms_conn s; ms_seq := ms_seq s; first_bind_ok := first_bind_ok s |}.
Definition set_channels s v := {| cf := cf s; now := now s; next_tid := next_tid s; next_src := next_src s; ids := ids s; channels := v; pending_bindings := pending_bindings s; current_binding := current_binding s; current_binding_msg := current_binding_msg s; pending_permissions := pending_permissions s; permissions := permissions s; sent_permissions := sent_permissions s; queues := queues s; send_requests := send_requests s; tick_cp := tick_cp s; perm_src := perm_src s; cached_realm := cached_realm s; cached_nonce := cached_nonce s; ms_realm := ms_realm s; ms_conn := ms_conn s; ms_seq := ms_seq s; first_bind_ok := first_bind_ok s |}.
Definition set_pbind s v := {| cf := cf s; now := now s; next_tid := next_tid s; next_src := next_src s; ids := ids s; channels := channels s; pending_bindings := v; current_binding := current_binding s; current_binding_msg := current_binding_msg s; pending_permissions := pending_permissions s; permissions := permissions s; sent_permissions := sent_permissions s; queues := queues s; send_requests := send_requests s; tick_cp := tick_cp s; perm_src := perm_src s; cached_realm := cached_realm s; cached_nonce := cached_nonce s; ms_realm := ms_realm s; ms_conn := ms_conn s; ms_seq := ms_seq s; first_bind_ok := first_bind_ok s |}.
Definition set_cb s v := {| cf := cf s; now := now s; next_tid := next_tid s; next_src := next_src s; ids := ids s; channels := channels s; pending_bindings := pending_bindings s; current_binding := v; current_binding_msg := current_binding_msg s; pending_permissions := pending_permissions s; permissions := permissions s; sent_permissions := sent_permissions s; queues := queues s; send_requests := send_requests s; tick_cp := tick_cp s; perm_src := perm_src s; cached_realm := cached_realm s; cached_nonce := cached_nonce s; ms_realm := ms_realm s; ms_conn := ms_conn s; ms_seq := ms_seq s; first_bind_ok := first_bind_ok s |}.
Definition set_cbm s v := {| cf := cf s; now := now s; next_tid := next_tid s; next_src := next_src s; ids := ids s; channels := channels s; pending_bindings := pending_bindings s; current_binding := current_binding s; current_binding_msg := v; pending_permissions := pending_permissions s; permissions := permissions s; sent_permissions := sent_permissions s; queues := queues s; send_requests := send_requests s; tick_cp := tick_cp s; perm_src := perm_src s; cached_realm := cached_realm s; cached_nonce := cached_nonce s; ms_realm := ms_realm s; ms_conn := ms_conn s; ms_seq := ms_seq s; first_bind_ok := first_bind_ok s |}.
Definition set_pp s v := {| cf := cf s; now := now s; next_tid := next_tid s; next_src := next_src s; ids := ids s; channels := channels s; pending_bindings := pending_bindings s; current_binding := current_binding s; current_binding_msg := current_binding_msg s; pending_permissions := v; permissions := permissions s; sent_permissions := sent_permissions s; queues := queues s; send_requests := send_requests s; tick_cp := tick_cp s; perm_src := perm_src s; cached_realm := cached_realm s; cached_nonce := cached_nonce s; ms_realm := ms_realm s; ms_conn := ms_conn s; ms_seq := ms_seq s; first_bind_ok := first_bind_ok s |}.
Definition set_perms s v := {| cf := cf s; now := now s; next_tid := next_tid s; next_src := next_src s; ids := ids s; channels := channels s; pending_bindings := pending_bindings s; current_binding := current_binding s; current_binding_msg := current_binding_msg s; pending_permissions := pending_permissions s; permissions := v; sent_permissions := sent_permissions s; queues := queues s; send_requests := send_requests s; tick_cp := tick_cp s; perm_src := perm_src s; cached_realm := cached_realm s; cached_nonce := cached_nonce s; ms_realm := ms_realm s; ms_conn := ms_conn s; ms_seq := ms_seq s; first_bind_ok := first_bind_ok s |}.
Definition set_sperms s v := {| cf := cf s; now := now s; next_tid := next_tid s; next_src := next_src s; ids := ids s; channels := channels s; pending_bindings := pending_bindings s; current_binding := current_binding s; current_binding_msg := current_binding_msg s; pending_permissions := pending_permissions s; permissions := permissions s; sent_permissions := v; queues := queues s; send_requests := send_requests s; tick_cp := tick_cp s; perm_src := perm_src s; cached_realm := cached_realm s; cached_nonce := cached_nonce s; ms_realm := ms_realm s; ms_conn := ms_conn s; ms_seq := ms_seq s; first_bind_ok := first_bind_ok s |}.
Definition set_queues s v := {| cf := cf s; now := now s; next_tid := next_tid s; next_src := next_src s; ids := ids s; channels := channels s; pending_bindings := pending_bindings s; current_binding := current_binding s; current_binding_msg := current_binding_msg s; pending_permissions := pending_permissions s; permissions := permissions s; sent_permissions := sent_permissions s; queues := v; send_requests := send_requests s; tick_cp := tick_cp s; perm_src := perm_src s; cached_realm := cached_realm s; cached_nonce := cached_nonce s; ms_realm := ms_realm s; ms_conn := ms_conn s; ms_seq := ms_seq s; first_bind_ok := first_bind_ok s |}.
Definition set_sreqs s v := {| cf := cf s; now := now s; next_tid := next_tid s; next_src := next_src s; ids := ids s; channels := channels s; pending_bindings := pending_bindings s; current_binding := current_binding s; current_binding_msg := current_binding_msg s; pending_permissions := pending_permissions s; permissions := permissions s; sent_permissions := sent_permissions s; queues := queues s; send_requests := v; tick_cp := tick_cp s; perm_src := perm_src s; cached_realm := cached_realm s; cached_nonce := cached_nonce s; ms_realm := ms_realm s; ms_conn := ms_conn s; ms_seq := ms_seq s; first_bind_ok := first_bind_ok s |}.
Definition set_tick s v := {| cf := cf s; now := now s; next_tid := next_tid s; next_src := next_src s; ids := ids s; channels := channels s; pending_bindings := pending_bindings s; current_binding := current_binding s; current_binding_msg := current_binding_msg s; pending_permissions := pending_permissions s; permissions := permissions s; sent_permissions := sent_permissions s; queues := queues s; send_requests := send_requests s; tick_cp := v; perm_src := perm_src s; cached_realm := cached_realm s; cached_nonce := cached_nonce s; ms_realm := ms_realm s; ms_conn := ms_conn s; ms_seq := ms_seq s; first_bind_ok := first_bind_ok s |}.
Definition set_psrc s v := {| cf := cf s; now := now s; next_tid := next_tid s; next_src := next_src s; ids := ids s; channels := channels s; pending_bindings := pending_bindings s; current_binding := current_binding s; current_binding_msg := current_binding_msg s; pending_permissions := pending_permissions s; permissions := permissions s; sent_permissions := sent_permissions s; queues := queues s; send_requests := send_requests s; tick_cp := tick_cp s; perm_src := v; cached_realm := cached_realm s; cached_nonce := cached_nonce s; ms_realm := ms_realm s; ms_conn := ms_conn s; ms_seq := ms_seq s; first_bind_ok := first_bind_ok s |}.
Definition set_cache s r n := {| cf := cf s; now := now s; next_tid := next_tid s; next_src := next_src s; ids := ids s; channels := channels s; pending_bindings := pending_bindings s; current_binding := current_binding s; current_binding_msg := current_binding_msg s; pending_permissions := pending_permissions s; permissions := permissions s; sent_permissions := sent_permissions s; queues := queues s; send_requests := send_requests s; tick_cp := tick_cp s; perm_src := perm_src s; cached_realm := r; cached_nonce := n; ms_realm := ms_realm s; ms_conn := ms_conn s; ms_seq := ms_seq s; first_bind_ok := first_bind_ok s |}.
Definition set_ms s r c q := {| cf := cf s; now := now s; next_tid := next_tid s; next_src := next_src s; ids := ids s; channels := channels s; pending_bindings := pending_bindings s; current_binding := current_binding s; current_binding_msg := current_binding_msg s; pending_permissions := pending_permissions s; permissions := permissions s; sent_permissions := sent_permissions s; queues := queues s; send_requests := send_requests s; tick_cp := tick_cp s; perm_src := perm_src s; cached_realm := cached_realm s; cached_nonce := cached_nonce s; ms_realm := r; ms_conn := c; ms_seq := q; first_bind_ok := first_bind_ok s |}.
Definition set_fbo s v := {| cf := cf s; now := now s; next_tid := next_tid s; next_src := next_src s; ids := ids s; channels := channels s; pending_bindings := pending_bindings s; current_binding := current_binding s; current_binding_msg := current_binding_msg s; pending_permissions := pending_permissions s; permissions := permissions s; sent_permissions := sent_permissions s; queues := queues s; send_requests := send_requests s; tick_cp := tick_cp s; perm_src := perm_src s; cached_realm := cached_realm s; cached_nonce := cached_nonce s; ms_realm := ms_realm s; ms_conn := ms_conn s; ms_seq := ms_seq s; first_bind_ok := v |}.

(** * What is handed to the base socket *)
Inductive otag := TData (peer : addr) | TCtl.     (* ghost: a wrapped application datagram for [peer] / a control message *)
Record out := { o_to : addr; o_bytes : bytes; o_tag : otag }.
Definition to_server (s : state) (b : bytes) (t : otag) : out := {| o_to := c_server (cf s); o_bytes := b; o_tag := t |}.

Definition in_list (l : list addr) (a : addr) : bool := existsb (addr_eqb a) l.
Definition find_binding (l : list binding) (a : addr) : option binding := find (fun b => addr_eqb (b_peer b) a) l.
Definition tv_of (ms : Z) : TimerModel.tv := {| TimerModel.sec := ms / 1000; TimerModel.usec := (ms mod 1000) * 1000 |}.
(* g_timeout_source_new_seconds: expiration rounded to a whole second (timer_perturb = 0) *)
Definition seconds_expiry (now_ms secs : Z) : Z :=
  let e := now_ms + secs * 1000 in if 250 <=? e mod 1000 then e + 1000 - e mod 1000 else e - e mod 1000.

(** * Send queue (socket_enqueue_data / socket_dequeue_all_data) *)
Fixpoint q_push (q : list (addr * list bytes)) (a : addr) (d : bytes) : list (addr * list bytes) :=
  match q with
  | [] => [(a, [d])]
  | (a', l) :: q' => if addr_eqb a' a then (a', l ++ [d]) :: q' else (a', l) :: q_push q' a d
  end.
Fixpoint q_get (q : list (addr * list bytes)) (a : addr) : list bytes :=
  match q with [] => [] | (a', l) :: q' => if addr_eqb a' a then l else q_get q' a end.
Fixpoint q_del (q : list (addr * list bytes)) (a : addr) : list (addr * list bytes) :=
  match q with [] => [] | (a', l) :: q' => if addr_eqb a' a then q' else (a', l) :: q_del q' a end.
Definition dequeue_all (s : state) (a : addr) : state * list out :=
  (set_queues s (q_del (queues s) a), map (fun d => to_server s d (TData a)) (q_get (queues s) a)).

(** * Control requests *)
Definition opt_append (c : compat) (m : option smsg) (ty : Z) (v : bytes) : option smsg :=
  match m with Some m' => append c STUN_MAX_MESSAGE_SIZE m' ty v | None => None end.
Definition opt_append_if (cond : bool) (c : compat) (m : option smsg) (ty : Z) (v : bytes) : option smsg :=
  if cond then opt_append c m ty v else m.
Definition opt_bytes (o : option bytes) : bytes := match o with Some b => b | None => [] end.
Definition is_some {A} (o : option A) : bool := match o with Some _ => true | None => false end.
Definition nonempty (o : option bytes) : bool := match o with Some (_ :: _) => true | _ => false end.

(* forget a transaction: first valid entry with that id *)
Fixpoint forget (l : list sent_id) (id : bytes) : list sent_id :=
  match l with [] => [] | i :: l' => if bytes_eqb (si_tid i) id then l' else i :: forget l' id end.

(* remainder of a pending permission's retransmission timer *)
Definition pm_remainder (s : state) (p : pmsg) : Z := TimerModel.remainder (pm_timer p) (tv_of (now s)).

(* priv_retransmissions_create_permission_tick_unlocked on one list element that is due *)
Definition cp_tick_one (s : state) (before after : list pmsg) (p : pmsg) : state * list out :=
  match TimerModel.refresh (pm_timer p) (tv_of (now s)) with
  | (_, TimerModel.TIMEOUT) =>
      let s1 := set_ids s (forget (ids s) (pm_tid p)) in
      let s2 := set_sperms s1 (filter (fun a => negb (addr_eqb a (pm_peer p))) (sent_permissions s1)) in
      let s3 := set_pp s2 (before ++ after) in
      let s4 := set_perms s3 (permissions s3 ++ [pm_peer p]) in
      dequeue_all s4 (pm_peer p)
  | (t', TimerModel.RETRANSMIT) =>
      (set_pp s (before ++ {| pm_tid := pm_tid p; pm_peer := pm_peer p; pm_bytes := pm_bytes p; pm_realm := pm_realm p; pm_timer := t' |} :: after),
       [to_server s (pm_bytes p) TCtl])
  | (_, TimerModel.SUCCESS) => (s, [])
  end.
(* the loop of priv_schedule_tick over pending_permissions: [i] = index of the element to look at *)
Fixpoint cp_loop (fuel : nat) (s : state) (i : nat) (minr : option Z) : state * list out * option Z :=
  match fuel with O => (s, [], minr) | S f =>
  match nth_error (pending_permissions s) i with
  | None => (s, [], minr)
  | Some p =>
      let r := pm_remainder s p in
      if 0 <? r then cp_loop f s (S i) (Some (match minr with Some m => Z.min m r | None => r end))
      else
        let '(s1, o1) := cp_tick_one s (firstn i (pending_permissions s)) (skipn (S i) (pending_permissions s)) p in
        let '(s2, o2, m2) := cp_loop f s1 i minr in (s2, o1 ++ o2, m2)
  end end.
Definition new_src (s : state) (at_ms : Z) : state * src :=
  (set_src s (next_src s + 1), {| src_id := next_src s; src_at := at_ms |}).
(* priv_schedule_tick (the channel-bind half is outside the model, see [advance]) *)
Definition schedule_tick (s : state) : state * list out :=
  let s0 := set_tick s None in
  let '(s1, o, m) := cp_loop (S (2 * length (pending_permissions s0))) s0 0 None in
  match m with
  | Some r => let '(s2, sr) := new_src s1 (now s1 + r) in (set_tick s2 (Some sr), o)
  | None => (s1, o)
  end.
(* a ChannelBind / Set-Active-Destination request is in flight: priv_schedule_tick also creates (and numbers)
   the channel-bind tick source *)
Definition schedule_tick_cb (s : state) : state * list out :=
  let s0 := match current_binding_msg s with Some _ => set_src s (next_src s + 1) | None => s end in
  schedule_tick s0.

(* the attributes of stun_usage_turn_create_permission *)
Definition create_permission_attrs (s : state) (id : bytes) (peer : addr) : list aspec :=
  let c := c_compat (cf s) in
  [(A_PEER, enc_addr (xor_addr id peer), false)]
  ++ opt (is_some (cached_nonce s)) A_NONCE (opt_bytes (cached_nonce s))
  ++ opt (is_some (cached_realm s)) A_REALM (opt_bytes (cached_realm s))
  ++ opt (short_term c || (is_some (cached_nonce s) && is_some (cached_realm s))) A_USERNAME (c_user (cf s)).

(* priv_send_create_permission; [false] = returned FALSE *)
Definition send_create_permission (s : state) (peer : addr) : state * list out * bool :=
  let c := c_compat (cf s) in
  let s1 := if in_list (sent_permissions s) peer then s else set_sperms s (sent_permissions s ++ [peer]) in
  let n := next_tid s1 + 1 in
  let s2 := set_tid s1 n in
  let m0 := init_msg c C_REQUEST M_CREATEPERM n in
  match append_all c STUN_MAX_MESSAGE_SIZE m0 (create_permission_attrs s2 (s_id m0) peer) with
  | None => (s2, [], false)
  | Some m =>
    match finish (cf s2) (ids s2) C_REQUEST M_CREATEPERM m with
    | None => (s2, [], false)
    | Some (m', ids') =>
        let b := serialize m' in
        let pm := {| pm_tid := s_id m'; pm_peer := peer; pm_bytes := b; pm_realm := cached_realm s2;
                     pm_timer := TimerModel.timer_start (tv_of (now s2)) 500 3 |} in
        let s3 := set_pp (set_ids s2 ids') (pending_permissions s2 ++ [pm]) in
        let '(s4, o) := schedule_tick_cb s3 in
        (s4, to_server s2 b TCtl :: o, true)
    end
  end.

(* priv_send_channel_bind (+ priv_send_turn_message); [false] = returned FALSE *)
Definition send_channel_bind (s : state) (chan : Z) (peer : addr) : state * list out * bool :=
  let c := c_compat (cf s) in
  let n := next_tid s + 1 in
  let s1 := set_tid s n in
  let m0 := init_msg c C_REQUEST M_CHANNELBIND n in
  let auth := (0 <? blen (c_user (cf s))) && nonempty (cached_realm s) && nonempty (cached_nonce s) in
  let attrs := [(A_CHANNEL, be32 (chan * 65536), false); (A_PEER, enc_addr (xor_addr (s_id m0) peer), false)]
               ++ opt auth A_USERNAME (c_user (cf s)) ++ opt auth A_REALM (opt_bytes (cached_realm s))
               ++ opt auth A_NONCE (opt_bytes (cached_nonce s)) in
  match append_all c STUN_MAX_MESSAGE_SIZE m0 attrs with
  | None => (s1, [], false)
  | Some m =>
    match finish (cf s1) (ids s1) C_REQUEST M_CHANNELBIND m with
    | None => (s1, [], false)
    | Some (m', ids') =>
        let bm := {| bm_tid := s_id m'; bm_peer := peer; bm_realm := if auth then cached_realm s else None; bm_deadline := now s1 + 500 |} in
        let s2 := set_cbm (set_ids s1 ids') (Some bm) in
        let '(s3, o) := schedule_tick_cb s2 in
        (s3, to_server s (serialize m') TCtl :: o, true)
    end
  end.

Definition c_strlen (b : bytes) : bytes :=      (* bytes up to the first NUL *)
  (fix go (l : bytes) : bytes := match l with [] => [] | x :: l' => if x =? 0 then [] else x :: go l' end) b.

(* the free channel number search of priv_add_channel_binding *)
Fixpoint chan_search (fuel : nat) (all : list binding) (rest : list binding) (ch : Z) : Z :=
  match fuel with O => ch | S f =>
  match rest with
  | [] => ch
  | b :: rest' => if ch =? b_chan b then chan_search f all (match all with [] => [] | _ :: t => t end) ((ch + 1) mod 65536)
                  else chan_search f all rest' ch
  end end.

(* priv_add_channel_binding; the bool is its return value *)
Definition add_channel_binding (s : state) (peer : addr) : state * list out * bool :=
  let c := c_compat (cf s) in
  match current_binding s with
  | Some _ => (set_pbind s (pending_bindings s ++ [peer]), [], false)
  | None =>
    if is_rfc c then
      (* NB the C loop restarts at channels->next after a hit (the for-increment follows [i = priv->channels]) *)
      let ch := chan_search (S (length (channels s) * S (length (channels s)))) (channels s) (channels s) 16384 in
      if (16384 <=? ch) && (ch <? 65535) then
        let '(s1, o, ok) := send_channel_bind s ch peer in
        if ok then (set_cb s1 (Some {| b_peer := peer; b_chan := ch |}), o, true) else (s1, o, false)
      else (s, [], false)
    else match c with
    | GOOGLE => (set_cb s (Some {| b_peer := peer; b_chan := 0 |}), [], true)
    | _ =>   (* MSN / OC2007: Set Active Destination request *)
      let n := next_tid s + 1 in
      let s1 := set_tid s n in
      let m0 := init_msg c C_REQUEST M_SET_ACTIVE n in
      match append_all c STUN_MAX_MESSAGE_SIZE m0 ([(A_MAGIC_COOKIE, turn_cookie_bytes, false)] ++ opt (0 <? blen (c_user (cf s))) A_USERNAME (c_user (cf s))) with
      | None => (s1, [], false)
      | Some m2 =>
        (* the OC2007 appends are not checked for failure *)
        let seq' := (ms_seq s1 + 1) mod 4294967296 in
        let useseq := oc2007 c && is_some (ms_conn s1) in
        let s2 := if useseq then set_ms s1 (ms_realm s1) (ms_conn s1) seq' else s1 in
        let rest := (if useseq then [(A_MS_SEQ, opt_bytes (ms_conn s1) ++ be32 seq', true)] else [])
                    ++ (if oc2007 c then [(A_REALM, c_strlen (ms_realm s1), true)] else [])
                    ++ [(A_DEST, enc_addr peer, false)] in
        match append_all c STUN_MAX_MESSAGE_SIZE m2 rest with
        | None => (s2, [], false)
        | Some m4 =>
          match finish (cf s2) (ids s2) C_REQUEST M_SET_ACTIVE m4 with
          | None => (s2, [], false)
          | Some (m', ids') =>
              let bm := {| bm_tid := s_id m'; bm_peer := peer; bm_realm := None; bm_deadline := now s2 + 500 |} in
              let s3 := set_cbm (set_cb (set_ids s2 ids') (Some {| b_peer := peer; b_chan := 0 |})) (Some bm) in
              let '(s4, o) := schedule_tick_cb s3 in
              (s4, to_server s (serialize m') TCtl :: o, true)
          end
        end
      end
    end
  end.

(* priv_process_pending_bindings (the renewal half never fires inside the modelled time range) *)
Fixpoint process_pending_bindings (fuel : nat) (s : state) : state * list out :=
  match fuel with O => (s, []) | S f =>
  match pending_bindings s with
  | [] => (s, [])
  | peer :: rest =>
      let '(s1, o, ok) := add_channel_binding s peer in
      (* g_list_remove (pending_bindings, peer): the first element, also when add_channel_binding appended a copy *)
      let s2 := set_pbind s1 (match pending_bindings s1 with [] => [] | _ :: t => t end) in
      if ok then (s2, o) else let '(s3, o3) := process_pending_bindings f s2 in (s3, o ++ o3)
  end end.

(** * Outgoing data: socket_send_message *)
Inductive wrapped :=
| WErr                       (* goto error: -1 *)
| WMsg (b : bytes)           (* msg_len > 0: a TURN-framed datagram for the server *)
| WRaw (b : bytes)           (* locked Google/MSN/OC2007 channel: the payload itself goes to the server *)
| WPass (b : bytes).         (* "error condition pass through": the payload goes to the peer address un-relayed *)

(* attributes of the Send request of the old dialects up to and including MS-VERSION, and after it *)
Definition send_request_pre (s : state) (to : addr) : list aspec :=
  let c := c_compat (cf s) in
  let lockopt := match c, current_binding s with GOOGLE, Some cb => addr_eqb (b_peer cb) to | _, _ => false end in
  [(A_MAGIC_COOKIE, turn_cookie_bytes, false)]
  ++ opt (0 <? blen (c_user (cf s))) A_USERNAME (c_user (cf s))
  ++ [(A_DEST, enc_addr to, false)]
  ++ opt lockopt A_OPTIONS (be32 1)
  ++ opt (oc2007 c) A_MS_VERSION (be32 1).
Definition send_request_post (s : state) (seq' : Z) (p : bytes) : list aspec :=
  let c := c_compat (cf s) in
  opt (oc2007 c && is_some (ms_conn s)) A_MS_SEQ (opt_bytes (ms_conn s) ++ be32 seq')
  ++ (if oc2007 c then [(A_REALM, c_strlen (ms_realm s), true)] else [])      (* stun_message_ensure_ms_realm: result ignored *)
  ++ [(A_DATA, p, false)].

(* the framing decision and the bytes; also returns the state (transaction id, OC2007 sequence number,
   agent ids, SendRequest) *)
Definition wrap (s : state) (to : addr) (p : bytes) : state * wrapped :=
  let c := c_compat (cf s) in
  match find_binding (channels s) to with
  | Some b =>
      if is_rfc c then
        if blen p + 4 <=? STUN_MAX_MESSAGE_SIZE
        then (s, WMsg (be16 (b_chan b) ++ be16 (blen p mod 65536) ++ p)) else (s, WErr)
      else (s, WRaw p)
  | None =>
      let n := next_tid s + 1 in
      let s1 := set_tid s n in
      if is_rfc c then
        let m0 := init_msg c C_INDICATION M_SET_ACTIVE n in      (* STUN_IND_SEND = 6 *)
        match append_all c STUN_MAX_MESSAGE_SIZE m0 [(A_PEER, enc_addr (xor_addr (s_id m0) to), false); (A_DATA, p, false)] with
        | None => (s1, WErr)
        | Some m =>
            match finish (cf s1) (ids s1) C_INDICATION M_SET_ACTIVE m with
            | None => (s1, WPass p)
            | Some (m', _) => (s1, WMsg (serialize m'))
            end
        end
      else
        let m0 := init_msg c C_REQUEST M_SEND n in
        match append_all c STUN_MAX_MESSAGE_SIZE m0 (send_request_pre s to) with
        | None => (s1, WErr)
        | Some m5 =>
          (* ++ms_sequence_num is evaluated as soon as MS-VERSION was appended *)
          let seq' := (ms_seq s1 + 1) mod 4294967296 in
          let s2 := if oc2007 c && is_some (ms_conn s1) then set_ms s1 (ms_realm s1) (ms_conn s1) seq' else s1 in
          match append_all c STUN_MAX_MESSAGE_SIZE m5 (send_request_post s seq' p) with
          | None => (s2, WErr)
          | Some m =>
            match finish (cf s2) (ids s2) C_REQUEST M_SEND m with
            | None => (s2, WPass p)
            | Some (m', ids') =>
                let s3 := set_ids s2 ids' in
                let s4 := if oc2007 c then s3 else
                            let '(s', sr) := new_src s3 (now s3 + 8000) in
                            set_sreqs s' (send_requests s' ++ [ {| sr_tid := s_id m'; sr_src := sr |} ]) in
                (s4, WMsg (serialize m'))
            end
          end
        end
  end.

(* nice_socket_send_messages (turn, to, one message): new state, what reached the base socket, return value *)
Definition send (s : state) (to : addr) (p : bytes) : state * list out * Z :=
  let c := c_compat (cf s) in
  let '(s1, w) := wrap s to p in
  match w with
  | WErr => (s1, [], -1)
  | WRaw b => (s1, [to_server s1 b (TData to)], if blen p =? 0 then 0 else 1)
  | WPass b => (s1, [ {| o_to := to; o_bytes := b; o_tag := TData to |} ], if blen p =? 0 then 0 else 1)
  | WMsg b =>
      if compat_eqb c RFC5766 && negb (in_list (permissions s1) to) then
        let '(s2, o, ok) := if in_list (sent_permissions s1) to then (s1, [], true) else send_create_permission s1 to in
        if ok then (set_queues s2 (q_push (queues s2) to b), o, 1) else (s2, o, -1)
      else (s1, [to_server s1 b (TData to)], 1)
  end.

(** * Incoming packets *)
Inductive vstatus := V_SUCCESS | V_NOT_STUN | V_INCOMPLETE | V_BAD_REQUEST | V_UNAUTH_BAD_REQUEST
                   | V_UNAUTHORIZED | V_UNMATCHED | V_UNKNOWN_REQ_ATTR | V_UNKNOWN_ATTR.
Inductive vlen := VL_invalid | VL_incomplete | VL_ok (mlen : Z).

(* stun_message_validate_buffer_length *)
Fixpoint vbl_walk (fuel : nat) (b : bytes) (has_padding : bool) (off rem : Z) : R bool :=
  match fuel with O => Ok false | S f =>
  if rem <=? 0 then Ok true
  else if rem <? 4 then Ok false
  else
    a <- rdw b (off + 2) ;;
    let alen := if has_padding then align a else a in
    if rem - 4 <? alen then Ok false
    else vbl_walk f b has_padding (off + 4 + alen) (rem - 4 - alen)
  end.
Definition validate_buffer_length (b : bytes) (has_padding : bool) : R vlen :=
  let len := blen b in
  if len <? 1 then Ok VL_invalid else
  c0 <- rd b 0 ;;
  if 0 <? c0 / 64 then Ok VL_invalid else
  if len <? 4 then Ok VL_incomplete else
  l <- rdw b 2 ;;
  let mlen := l + 20 in
  if has_padding && negb (padding mlen =? 0) then Ok VL_invalid else
  if len <? mlen then Ok VL_incomplete else
  ok <- vbl_walk (S (length b)) b has_padding 20 (mlen - 20) ;;
  Ok (if ok then VL_ok mlen else VL_invalid).

(* stun_message_find on a received message: offset and length of the value *)
Fixpoint find_loop (fuel : nat) (na : bool) (b : bytes) (length16 ty off : Z) : R (option (Z * Z)) :=
  match fuel with O => Ok None | S f =>
  if off <? length16 then
    atype <- rdw b off ;;
    alen <- rdw b (off + 2) ;;
    if atype =? ty then Ok (Some (off + 4, alen))
    else if (atype =? A_MI) && negb (ty =? A_FPR) then Ok None
    else if atype =? A_FPR then Ok None
    else find_loop f na b length16 ty (off + 4 + (if na then alen else align alen))
  else Ok None
  end.
Definition rx_len16 (b : bytes) : R Z := l <- rdw b 2 ;; Ok ((l + 20) mod 65536).
Definition find_attr (c : compat) (b : bytes) (ty : Z) : R (option (Z * Z)) :=
  l <- rx_len16 b ;; find_loop (S (length b)) (no_aligned c) b l (swap_realm_nonce c ty) 20.
Definition has_attr (c : compat) (b : bytes) (ty : Z) : R bool := r <- find_attr c b ty ;; Ok (is_some r).
(* stun_message_find32: None = not SUCCESS *)
Definition find32 (c : compat) (b : bytes) (ty : Z) : R (option Z) :=
  r <- find_attr c b ty ;;
  match r with
  | Some (off, 4) => v <- rd_range b off 4 ;; Ok (Some (fold_left (fun acc x => acc * 256 + x) v 0))
  | _ => Ok None
  end.
(* stun_message_find_error *)
Definition find_error (c : compat) (b : bytes) : R (option Z) :=
  r <- find_attr c b A_ERROR ;;
  match r with
  | None => Ok None
  | Some (off, alen) =>
      if alen <? 4 then Ok None else
      cl <- rd b (off + 2) ;; nu <- rd b (off + 3) ;;
      let cl := cl mod 8 in
      if (cl <? 3) || (6 <? cl) || (99 <? nu) then Ok None else Ok (Some (cl * 100 + nu))
  end.
(* stun_message_find_addr; None = not SUCCESS *)
Definition find_addr (c : compat) (b : bytes) (ty : Z) : R (option addr) :=
  r <- find_attr c b ty ;;
  match r with
  | None => Ok None
  | Some (off, alen) =>
      if alen <? 4 then Ok None else
      fam <- rd b (off + 1) ;;
      if fam =? 1 then
        if alen =? 8 then pt <- rd_range b (off + 2) 2 ;; ip <- rd_range b (off + 4) 4 ;; Ok (Some {| a6 := false; aip := ip; aport := pt |})
        else Ok None
      else if fam =? 2 then
        if alen =? 20 then pt <- rd_range b (off + 2) 2 ;; ip <- rd_range b (off + 4) 16 ;; Ok (Some {| a6 := true; aip := ip; aport := pt |})
        else Ok None
      else Ok None
  end.
Definition find_xor_addr (c : compat) (b : bytes) (ty : Z) : R (option addr) :=
  r <- find_addr c b ty ;;
  match r with
  | None => Ok None
  | Some a => id <- rd_range b 4 16 ;; Ok (Some (xor_addr id a))
  end.

Definition known_attr (t : Z) : bool :=
  ((1 <=? t) && (t <=? 13)) || ((15 <=? t) && (t <=? 26)) || ((32 <=? t) && (t <=? 37)).
(* stun_agent_find_unknowns (..., max = 1) > 0 *)
Fixpoint unknowns_loop (fuel : nat) (na : bool) (b : bytes) (len16 off : Z) : R bool :=
  match fuel with O => Ok false | S f =>
  if off <? len16 then
    alen <- rdw b (off + 2) ;;
    atype <- rdw b off ;;
    if (atype <? 32768) && negb (known_attr atype) then Ok true
    else unknowns_loop f na b len16 (off + 4 + (if na then alen else align alen))
  else Ok false
  end.

(* message type word -> method / class, with the 0x0115 hack *)
Definition hack_type (t : Z) : Z := if t =? 277 then 23 else t.
Definition method_of (t : Z) : Z :=
  let t := hack_type t in ((t / 512) mod 32) * 128 + ((t / 32) mod 8) * 16 + t mod 16.
Definition class_of (t : Z) : Z := let t := hack_type t in ((t / 256) mod 2) * 2 + (t / 16) mod 2.

(* stun_agent_validate (validater = NULL); also yields the agent's saved ids afterwards *)
Definition validate (cf : cfg) (ids : list sent_id) (b : bytes) : R (vstatus * list sent_id) :=
  let c := c_compat cf in
  vl <- validate_buffer_length b (negb (no_aligned c)) ;;
  match vl with
  | VL_invalid => Ok (V_NOT_STUN, ids)
  | VL_incomplete => Ok (V_INCOMPLETE, ids)
  | VL_ok mlen =>
    if negb (mlen =? blen b) then Ok (V_NOT_STUN, ids) else
    id <- rd_range b 4 16 ;;
    if rfc5389 c && negb (bytes_eqb (firstn 4 id) cookie_bytes) then Ok (V_BAD_REQUEST, ids) else
    t <- rdw b 0 ;;
    let cl := class_of t in let me := method_of t in
    let is_resp := (cl =? C_RESPONSE) || (cl =? C_ERROR) in
    let matched := if is_resp then find (fun i => (si_method i =? me) && bytes_eqb (si_tid i) id) ids else None in
    if is_resp && negb (is_some matched) then Ok (V_UNMATCHED, ids) else
    let key_nul := if is_some matched then key_null cf else true in
    let lt_valid := match matched with Some i => si_lt i | None => false end in
    err <- (if cl =? C_ERROR then find_error c b else Ok None) ;;
    let ign := ignore_creds c
               || match err with Some e => (e =? 400) || (e =? 401) || (e =? 438) || (e =? 300) | None => false end
               || ((cl =? C_INDICATION) && (long_term c || no_ind_auth c)) in
    hu <- has_attr c b A_USERNAME ;;
    hm <- has_attr c b A_MI ;;
    hn <- has_attr c b A_NONCE ;;
    hr <- has_attr c b A_REALM ;;
    if key_nul && negb ign && ((cl =? C_REQUEST) || (cl =? C_INDICATION)) &&
       ((short_term c && (negb hu || negb hm))
        || (long_term c && (cl =? C_REQUEST) && (negb hu || negb hm || negb hn || negb hr))
        || (negb (ignore_creds c) && hu && negb hm))
    then Ok (V_UNAUTH_BAD_REQUEST, ids) else
    if hm && key_nul && negb ign then Ok (V_UNAUTHORIZED, ids) else
    mi_bad <- (if negb ign && negb key_nul && key_pos cf && is_some matched then
                 h <- find_attr c b A_MI ;;
                 match h with
                 | Some (off, hlen) =>
                     if negb (hlen =? 20) then Ok true else
                     if long_term c && negb lt_valid && negb (hr && hu) then Ok true else
                     v <- rd_range b off 20 ;; Ok (negb (bytes_eqb v mi_value))
                 | None => Ok (negb (match err with Some e => (e =? 400) || (e =? 401) | None => false end))
                 end
               else Ok false) ;;
    if mi_bad then Ok (V_UNAUTHORIZED, ids) else
    let ids' := match matched with
                | Some _ => (fix rm (l : list sent_id) : list sent_id :=
                               match l with [] => [] | i :: l' => if (si_method i =? me) && bytes_eqb (si_tid i) id then l' else i :: rm l' end) ids
                | None => ids end in
    l16 <- rx_len16 b ;;
    unk <- unknowns_loop (S (length b)) (no_aligned c) b l16 20 ;;
    if unk then Ok (if cl =? C_REQUEST then V_UNKNOWN_REQ_ATTR else V_UNKNOWN_ATTR, ids')
    else Ok (V_SUCCESS, ids')
  end.

(* what nice_udp_turn_socket_parse_recv hands up *)
Record handed := { h_data : bytes; h_from : addr; h_sock : bool }.
Inductive rx := RxData (h : handed) | RxNone.

Fixpoint remove_sreq (l : list sreq) (id : bytes) : list sreq * bool :=
  match l with [] => ([], false) | r :: l' => if bytes_eqb (sr_tid r) id then (l', true) else let '(x, f) := remove_sreq l' id in (r :: x, f) end.

(* msn_google_lock *)
Definition lock (s : state) : state * list out :=
  match current_binding s with
  | Some cb =>
      let s1 := set_cb (set_channels s [cb]) None in
      process_pending_bindings (S (length (pending_bindings s1))) s1
  | None => (s, [])
  end.

(* the re-authentication test shared by ChannelBind and CreatePermission error responses *)
Definition reauth (c : compat) (b : bytes) (sent_realm : option bytes) : R bool :=
  code <- find_error c b ;;
  rr <- find_attr c b A_REALM ;;
  recv_realm <- (match rr with Some (off, l) => v <- rd_range b off l ;; Ok (Some v) | None => Ok None end) ;;
  Ok (match code with
      | Some 438 => true
      | Some 401 => negb (match recv_realm, sent_realm with
                          | Some r, Some sr => (0 <? blen r) && bytes_eqb r sr
                          | _, _ => false end)
      | _ => false
      end).

(* nice_udp_turn_socket_cache_realm_nonce_locked on a received message *)
Definition cache_realm_nonce (s : state) (b : bytes) : R state :=
  let c := c_compat (cf s) in
  rr <- find_attr c b A_REALM ;;
  r <- (match rr with Some (off, l) => if (0 <? l) && (l <? 764) then v <- rd_range b off l ;; Ok (Some v) else Ok None | None => Ok None end) ;;
  nn <- find_attr c b A_NONCE ;;
  n <- (match nn with Some (off, l) => if (0 <? l) && (l <? 764) then v <- rd_range b off l ;; Ok (Some v) else Ok None | None => Ok None end) ;;
  Ok (set_cache s r n).

Fixpoint split_pp (l : list pmsg) (id : bytes) (acc : list pmsg) : option (list pmsg * pmsg * list pmsg) :=
  match l with
  | [] => None
  | p :: l' => if bytes_eqb (pm_tid p) id then Some (rev acc, p, l') else split_pp l' id (p :: acc)
  end.

Definition rx_result := R (state * list out * rx).

(* the [recv:] tail: hand the packet up as it is ... *)
Definition raw_up (s : state) (from : addr) (b : bytes) (bd : option binding) : rx_result :=
  d <- rd_range b 0 (blen b) ;;
  Ok (s, [], RxData {| h_data := d; h_from := match bd with Some x => b_peer x | None => from end; h_sock := is_some bd |}).
(* ... unless (RFC 5766 / draft 9) it is a ChannelData message of a bound channel: at least the 4-byte header,
   the channel number of the binding, and a length field that does not exceed what was received *)
Fixpoint chan_scan (s : state) (from : addr) (b : bytes) (l : list binding) : rx_result :=
  match l with
  | [] => raw_up s from b None
  | bd :: l' =>
      if 4 <=? blen b then
        ch <- rdw b 0 ;;
        if b_chan bd =? ch then
          rl <- rdw b 2 ;;
          if rl <=? blen b - 4 then
            d <- rd_range b 4 (Z.min (blen b) rl) ;;
            Ok (s, [], RxData {| h_data := d; h_from := b_peer bd; h_sock := true |})
          else chan_scan s from b l'
        else chan_scan s from b l'
      else chan_scan s from b l'
  end.
Definition recv_tail (s : state) (from : addr) (b : bytes) : rx_result :=
  if is_rfc (c_compat (cf s)) then chan_scan s from b (channels s)
  else raw_up s from b (match channels s with bd :: _ => Some bd | [] => None end).

(* the branches of nice_udp_turn_socket_parse_recv after a successful validation *)

(* STUN_SEND *)
Definition recv_send (s : state) (b : bytes) (cl : Z) (id : bytes) : rx_result :=
  let c := c_compat (cf s) in
  if cl =? C_RESPONSE then
    let '(rq, found) := remove_sreq (send_requests s) id in
    let s1 := if found then set_ids (set_sreqs s rq) (forget (ids s) id) else s in
    if compat_eqb c GOOGLE then
      o <- find32 c b A_OPTIONS ;;
      match o with
      | Some v => if Z.odd v then let '(s2, out) := lock s1 in Ok (s2, out, RxNone) else Ok (s1, [], RxNone)
      | None => Ok (s1, [], RxNone)
      end
    else Ok (s1, [], RxNone)
  else Ok (s, [], RxNone).

(* STUN_OLD_SET_ACTIVE_DST *)
Definition recv_set_active (s : state) (cl : Z) (id : bytes) : rx_result :=
  let c := c_compat (cf s) in
  match current_binding s, current_binding_msg s with
  | Some _, Some bm =>
      if bytes_eqb (bm_tid bm) id then
        let s1 := set_cbm s None in
        if (cl =? C_RESPONSE) && (compat_eqb c OC2007 || compat_eqb c MSN)
        then let '(s2, out) := lock s1 in Ok (s2, out, RxNone)
        else Ok (set_cb s1 None, [], RxNone)
      else Ok (s, [], RxNone)
  | _, _ => Ok (s, [], RxNone)
  end.

(* STUN_CHANNELBIND *)
Definition recv_channelbind (s : state) (b : bytes) (cl : Z) (id : bytes) : rx_result :=
  let c := c_compat (cf s) in
  match current_binding_msg s with
  | Some bm =>
      if bytes_eqb (bm_tid bm) id then
        let bd := match current_binding s with Some x => Some x | None => find_binding (channels s) (bm_peer bm) end in
        if cl =? C_ERROR then
          ra <- reauth c b (bm_realm bm) ;;
          if ra then
            s1 <- cache_realm_nonce (set_cbm s None) b ;;
            match bd with
            | Some x => let '(s2, out, _) := send_channel_bind s1 (b_chan x) (b_peer x) in Ok (s2, out, RxNone)
            | None => Ok (s1, [], RxNone)
            end
          else
            let s1 := set_cbm (set_cb s None) None in
            let '(s2, out) := process_pending_bindings (S (length (pending_bindings s1))) s1 in Ok (s2, out, RxNone)
        else if cl =? C_RESPONSE then
          let s1 := set_cbm s None in
          let s2 := match current_binding s1 with Some x => set_channels s1 (channels s1 ++ [x]) | None => s1 end in
          let s3 := set_cb s2 None in
          (* the 540 s refresh source takes a source number *)
          let s4 := match bd with Some _ => set_fbo (set_src s3 (next_src s3 + 1)) (match first_bind_ok s3 with Some x => Some x | None => Some (now s3) end) | None => s3 end in
          let '(s5, out) := process_pending_bindings (S (length (pending_bindings s4))) s4 in Ok (s5, out, RxNone)
        else Ok (s, [], RxNone)
      else Ok (s, [], RxNone)
  | None => Ok (s, [], RxNone)
  end.

(* a CreatePermission transaction is over (success, or an error that is not a re-authentication request):
   the permission is assumed, the refresh timer armed on success, the peer's queue flushed *)
Definition cp_done (s : state) (before after : list pmsg) (p : pmsg) (is_response : bool) : state * list out :=
  let s1 := set_sperms s (filter (fun a => negb (addr_eqb a (pm_peer p))) (sent_permissions s)) in
  let s2 := set_perms s1 (permissions s1 ++ [pm_peer p]) in
  let s3 := if is_response && negb (is_some (perm_src s2))
            then let '(s', sr) := new_src s2 (seconds_expiry (now s2) 240) in set_psrc s' (Some sr) else s2 in
  let '(s4, out) := dequeue_all s3 (pm_peer p) in
  (set_pp s4 (before ++ after), out).

(* STUN_CREATEPERMISSION *)
Definition recv_createperm (s : state) (b : bytes) (cl : Z) (id : bytes) : rx_result :=
  let c := c_compat (cf s) in
  match split_pp (pending_permissions s) id [] with
  | None => Ok (s, [], RxNone)
  | Some (before, pm, after) =>
      ra <- (if cl =? C_ERROR then reauth c b (pm_realm pm) else Ok false) ;;
      if ra then
        s1 <- cache_realm_nonce (set_pp s (before ++ after)) b ;;
        let '(s2, out, _) := send_create_permission s1 (pm_peer pm) in Ok (s2, out, RxNone)
      else let '(s1, out) := cp_done s before after pm (cl =? C_RESPONSE) in Ok (s1, out, RxNone)
  end.

(* Data indication *)
Definition recv_data_ind (s : state) (from : addr) (b : bytes) : rx_result :=
  let c := c_compat (cf s) in
  a <- (if is_rfc c then find_xor_addr c b A_PEER else find_addr c b A_PEER) ;;
  match a with
  | None => recv_tail s from b
  | Some peer =>
      d <- find_attr c b A_DATA ;;
      match d with
      | None => recv_tail s from b
      | Some (off, dl) =>
          data <- rd_range b off (Z.min (blen b) dl) ;;
          let '(s1, out) :=
            if compat_eqb c RFC5766 && negb (in_list (permissions s) peer) && negb (in_list (sent_permissions s) peer)
            then let '(s', o, _) := send_create_permission s peer in (s', o) else (s, []) in
          Ok (s1, out, RxData {| h_data := data; h_from := peer; h_sock := true |})
      end
  end.

(* dispatch on a validated message from the server *)
Definition recv_valid (s : state) (from : addr) (b : bytes) : rx_result :=
  let c := c_compat (cf s) in
  ck <- (if is_rfc c then Ok true else x <- find32 c b A_MAGIC_COOKIE ;; Ok (match x with Some 1925598150 => true | _ => false end)) ;;
  if negb ck then recv_tail s from b else
  t <- rdw b 0 ;;
  id <- rd_range b 4 16 ;;
  let cl := class_of t in let me := method_of t in
  if me =? M_SEND then recv_send s b cl id
  else if me =? M_SET_ACTIVE then recv_set_active s cl id
  else if me =? M_CHANNELBIND then recv_channelbind s b cl id
  else if me =? M_CREATEPERM then recv_createperm s b cl id
  else if (cl =? C_INDICATION) && (me =? M_IND_DATA) then recv_data_ind s from b
  else recv_tail s from b.

(* nice_udp_turn_socket_parse_recv (len = recv_len = packet length, buf = recv_buf) *)
Definition recv (s : state) (from : addr) (b : bytes) : rx_result :=
  if negb (addr_eqb (c_server (cf s)) from) then recv_tail s from b else
  v <- validate (cf s) (ids s) b ;;
  let '(st, ids') := v in
  let s := set_ids s ids' in
  match st with
  | V_SUCCESS => recv_valid s from b
  | _ => recv_tail s from b
  end.

(** * Time *)
Inductive timed := Advanced (s : state) (o : list out) | Unmodelled.

Definition due (s : state) (x : src) : bool := src_at x <=? now s.
(* sources that are ready in one main-loop iteration, in attach order *)
Inductive ev := EvTick | EvPerm | EvReq (id : bytes).
Definition ready_sources (s : state) : list (Z * ev) :=
  (match tick_cp s with Some x => if due s x then [(src_id x, EvTick)] else [] | None => [] end)
  ++ (match perm_src s with Some x => if due s x then [(src_id x, EvPerm)] else [] | None => [] end)
  ++ flat_map (fun r => if due s (sr_src r) then [(src_id (sr_src r), EvReq (sr_tid r))] else []) (send_requests s).
Fixpoint insert_ev (x : Z * ev) (l : list (Z * ev)) : list (Z * ev) :=
  match l with [] => [x] | y :: l' => if fst x <=? fst y then x :: l else y :: insert_ev x l' end.
Definition sort_ev (l : list (Z * ev)) : list (Z * ev) := fold_right insert_ev [] l.

Definition dispatch (s : state) (sid : Z) (e : ev) : state * list out :=
  match e with
  | EvTick => match tick_cp s with
              | Some x => if src_id x =? sid then schedule_tick_cb s else (s, [])      (* destroyed meanwhile *)
              | None => (s, []) end
  | EvPerm => match perm_src s with
              | Some x => (set_psrc (set_perms s []) (Some {| src_id := src_id x; src_at := seconds_expiry (now s) 240 |}), [])
              | None => (s, []) end
  | EvReq id => let '(rq, found) := remove_sreq (send_requests s) id in
                if found then (set_ids (set_sreqs s rq) (forget (ids s) id), []) else (s, [])
  end.
Fixpoint iterate (fuel : nat) (s : state) : state * list out :=
  match fuel with O => (s, []) | S f =>
  match sort_ev (ready_sources s) with
  | [] => (s, [])
  | evs =>
      let '(s1, o1) := fold_left (fun acc x => let '(st, o) := acc in let '(st', o') := dispatch st (fst x) (snd x) in (st', o ++ o')) evs (s, []) in
      let '(s2, o2) := iterate f s1 in (s2, o1 ++ o2)
  end end.
(* advance the clock by [ms] and run the main loop until nothing is ready *)
Definition advance (s : state) (ms : Z) : timed :=
  let s1 := set_now s (now s + ms) in
  let bind_due := match current_binding_msg s1 with Some bm => bm_deadline bm <=? now s1 | None => false end in
  let refresh_due := match first_bind_ok s1 with Some t0 => t0 + 539000 <=? now s1 | None => false end in
  if bind_due || refresh_due then Unmodelled
  else let '(s2, o) := iterate (S (S (length (send_requests s1) + 4 * length (pending_permissions s1)))) s1 in Advanced s2 o.

(** * The remaining entry points *)
(* nice_udp_turn_socket_cache_realm_nonce with a message holding the given attributes *)
Definition cache_op (s : state) (realm nonce : option bytes) : state :=
  let f := fun o => match o with Some (x :: l) => if blen (x :: l) <? 764 then Some (x :: l) else None | _ => None end in
  set_cache s (f realm) (f nonce).
(* nice_udp_turn_socket_set_ms_realm *)
Definition ms_realm_op (s : state) (realm : bytes) : state :=
  if blen realm <=? 128 then set_ms s realm (ms_conn s) (ms_seq s) else s.
(* nice_udp_turn_socket_set_ms_connection_id: ntohl ((uint32_t) *(p + 20)) *)
Definition ms_conn_op (s : state) (v : bytes) : state :=
  if blen v =? 24 then set_ms s (ms_realm s) (Some (firstn 20 v)) (nth 20 v 0 * 16777216) else s.
Definition set_peer (s : state) (peer : addr) : state * list out * bool := add_channel_binding s peer.
