(** Basic facts about byte strings, big-endian numbers, xor-ed addresses, shared by the C16 proofs. *)
From Coq Require Import ZArith List Bool Lia.
From Nice Require Import Turn.TurnModel Turn.Relay.
Import ListNotations.
Local Open Scope Z_scope.

Lemma blen_nil : blen [] = 0. Proof. reflexivity. Qed.
Lemma blen_cons x (l : bytes) : blen (x :: l) = 1 + blen l.
Proof. unfold blen; simpl length; lia. Qed.
Lemma blen_app (a b : bytes) : blen (a ++ b) = blen a + blen b.
Proof. unfold blen; rewrite app_length; lia. Qed.
Lemma blen_nonneg (b : bytes) : 0 <= blen b. Proof. unfold blen; lia. Qed.
Lemma blen_repeat x n : blen (repeat x n) = Z.of_nat n.
Proof. unfold blen; rewrite repeat_length; reflexivity. Qed.
Lemma blen_zeros n : 0 <= n -> blen (zeros n) = n.
Proof. intros; unfold zeros; rewrite blen_repeat; lia. Qed.
Lemma blen_be16 v : blen (be16 v) = 2. Proof. reflexivity. Qed.
Lemma blen_be32 v : blen (be32 v) = 4. Proof. reflexivity. Qed.
Lemma blen_length (b : bytes) : Z.to_nat (blen b) = length b.
Proof. unfold blen; lia. Qed.
#[export] Hint Rewrite blen_nil blen_cons blen_app blen_be16 blen_be32 : blen.

Lemma padding_range l : 0 <= padding l < 4.
Proof. unfold padding; apply Z.mod_pos_bound; lia. Qed.
Lemma padding_pad4 l : padding l = pad4 l.
Proof.
  unfold padding, pad4.
  assert (H := Z.mod_pos_bound l 4 ltac:(lia)).
  rewrite (Z.div_mod l 4) at 2 by lia.
  replace (- (4 * (l / 4) + l mod 4)) with (- (l mod 4) + (- (l / 4)) * 4) by lia.
  rewrite Z_mod_plus_full.
  assert (l mod 4 = 0 \/ l mod 4 = 1 \/ l mod 4 = 2 \/ l mod 4 = 3) as [E|[E|[E|E]]] by lia; rewrite E; reflexivity.
Qed.
Lemma padding_div4 l : l mod 4 = 0 -> padding l = 0.
Proof. intros E; unfold padding; rewrite E; reflexivity. Qed.
Lemma align_mod4 l : (align l) mod 4 = 0.
Proof.
  unfold align, padding.
  assert (H := Z.mod_pos_bound l 4 ltac:(lia)).
  rewrite (Z.div_mod l 4) at 1 by lia.
  assert (l mod 4 = 0 \/ l mod 4 = 1 \/ l mod 4 = 2 \/ l mod 4 = 3) as [E|[E|[E|E]]] by lia; rewrite E; simpl;
  rewrite Z.add_mod by lia; rewrite Z.add_mod with (a := 4 * (l / 4)) by lia; rewrite Z.mul_comm, Z_mod_mult; reflexivity.
Qed.

Lemma u16_be16 v : 0 <= v < 65536 -> forall h l, be16 v = [h; l] -> u16 h l = v.
Proof.
  intros Hv h l E; unfold be16 in E; inversion E; subst; unfold u16.
  rewrite (Z.mod_small (v / 256)) by (split; [apply Z.div_pos; lia | apply Z.div_lt_upper_bound; lia]).
  pose proof (Z.div_mod v 256 ltac:(lia)); lia.
Qed.
Lemma be16_u16 v : 0 <= v < 65536 -> ((v / 256) mod 256) * 256 + v mod 256 = v.
Proof.
  intros Hv.
  rewrite (Z.mod_small (v / 256)) by (split; [apply Z.div_pos; lia | apply Z.div_lt_upper_bound; lia]).
  pose proof (Z.div_mod v 256 ltac:(lia)); lia.
Qed.

(** xor *)
Lemma lxor_invol x y : Z.lxor (Z.lxor x y) y = x.
Proof. rewrite Z.lxor_assoc, Z.lxor_nilpotent, Z.lxor_0_r; reflexivity. Qed.
Lemma xorb_invol a : forall k, xorb (xorb a k) k = a.
Proof. induction a as [|x a IH]; intros [|y k]; simpl; auto. rewrite lxor_invol, IH; reflexivity. Qed.
Lemma xorb_length a : forall k, length (xorb a k) = length a.
Proof. induction a as [|x a IH]; intros [|y k]; simpl; auto. Qed.
Lemma zipxor_xorb a : forall k, zipxor a k = xorb a k.
Proof. induction a as [|x a IH]; intros [|y k]; simpl; auto. rewrite IH; reflexivity. Qed.

(** equality tests *)
Lemma bytes_eqb_eq a : forall b, bytes_eqb a b = true <-> a = b.
Proof.
  induction a as [|x a IH]; intros [|y b]; simpl; split; intros H; try discriminate; auto.
  - apply andb_true_iff in H as [H1 H2]. apply Z.eqb_eq in H1. apply IH in H2. subst; reflexivity.
  - inversion H; subst. rewrite Z.eqb_refl. simpl. apply IH; reflexivity.
Qed.
Lemma bytes_eqb_refl a : bytes_eqb a a = true.
Proof. apply bytes_eqb_eq; reflexivity. Qed.
Lemma same_eq a : forall b, same a b = true <-> a = b.
Proof.
  induction a as [|x a IH]; intros [|y b]; simpl; split; intros H; try discriminate; auto.
  - apply andb_true_iff in H as [H1 H2]. apply Z.eqb_eq in H1. apply IH in H2. subst; reflexivity.
  - inversion H; subst. rewrite Z.eqb_refl. simpl. apply IH; reflexivity.
Qed.
Lemma addr_eqb_eq a b : addr_eqb a b = true <-> a = b.
Proof.
  unfold addr_eqb; destruct a as [f i p], b as [f' i' p']; simpl; split; intros H.
  - apply andb_true_iff in H as [H H3]; apply andb_true_iff in H as [H1 H2].
    apply eqb_prop in H1; apply bytes_eqb_eq in H2; apply bytes_eqb_eq in H3; subst; reflexivity.
  - inversion H; subst. rewrite eqb_reflx, !bytes_eqb_refl; reflexivity.
Qed.
Lemma addr_eqb_refl a : addr_eqb a a = true.
Proof. apply addr_eqb_eq; reflexivity. Qed.
Lemma addr_eqb_sym a b : addr_eqb a b = addr_eqb b a.
Proof.
  destruct (addr_eqb a b) eqn:E; destruct (addr_eqb b a) eqn:E'; auto.
  - apply addr_eqb_eq in E; subst; rewrite addr_eqb_refl in E'; discriminate.
  - apply addr_eqb_eq in E'; subst; rewrite addr_eqb_refl in E; discriminate.
Qed.
Lemma addr_eqb_neq a b : addr_eqb a b = false <-> a <> b.
Proof.
  split; intros H.
  - intros ->; rewrite addr_eqb_refl in H; discriminate.
  - destruct (addr_eqb a b) eqn:E; auto. apply addr_eqb_eq in E; contradiction.
Qed.
Lemma same_addr_eq a b : same_addr a b = true <-> a = b.
Proof.
  unfold same_addr; destruct a as [f i p], b as [f' i' p']; simpl; split; intros H.
  - apply andb_true_iff in H as [H H3]; apply andb_true_iff in H as [H1 H2].
    apply eqb_prop in H1; apply same_eq in H2; apply same_eq in H3; subst; reflexivity.
  - inversion H; subst. rewrite eqb_reflx. simpl. assert (same i' i' = true) as -> by (apply same_eq; reflexivity).
    apply same_eq; reflexivity.
Qed.

(** well-formed addresses *)
Definition wf_addr (a : addr) : Prop := length (aip a) = (if a6 a then 16 else 4)%nat /\ length (aport a) = 2%nat.

Lemma firstn_app_exact {A} (a b : list A) n : n = length a -> firstn n (a ++ b) = a.
Proof. intros ->. rewrite firstn_app, Nat.sub_diag, firstn_all; simpl; apply app_nil_r. Qed.
Lemma skipn_app_exact {A} (a b : list A) n : n = length a -> skipn n (a ++ b) = b.
Proof. intros ->. rewrite skipn_app, Nat.sub_diag, skipn_all; reflexivity. Qed.
