(** Specification of the relay side, written from the documents — NOT from udp-turn.c:
      RFC 5766  section 10 (Send and Data indications), section 11.4-11.5 (ChannelData),
      RFC 5389  section 6 (header), section 15 (TLV attributes, padding), 15.2 (XOR-ed address),
      draft-rosenberg-midcom-turn-08 (Send Request 0x0004, Data Indication 0x0115, MAGIC-COOKIE as
      attribute, DESTINATION-ADDRESS / REMOTE-ADDRESS / DATA, Set Active Destination),
      [MS-TURN] (same messages, attributes not padded).
    [relay_decode r b]: what a relay in state [r] forwards, and to whom, when it receives datagram [b]
    from the client.  [relay_encode r ... peer p]: what it sends to the client for a datagram [p]
    that arrived from [peer].  Only the types [bytes], [addr], [compat] are shared with the model.
    No proofs in this file. *)
From Coq Require Import ZArith List Bool.
From Nice Require Import Turn.TurnModel.
Import ListNotations.
Local Open Scope Z_scope.
Local Open Scope bool_scope.

(** * Numbers and TLVs *)
Definition u16 (h l : Z) : Z := 256 * h + l.
Definition put16 (v : Z) : bytes := [v / 256; v mod 256].
Definition pad4 (n : Z) : Z := (- n) mod 4.
Definition take (n : Z) (b : bytes) : bytes := firstn (Z.to_nat n) b.
Definition drop (n : Z) (b : bytes) : bytes := skipn (Z.to_nat n) b.
Fixpoint zipxor (a k : bytes) : bytes :=
  match a with [] => [] | x :: a' => match k with [] => a | y :: k' => Z.lxor x y :: zipxor a' k' end end.
Fixpoint same (a b : bytes) : bool :=
  match a, b with [] , [] => true | x :: a', y :: b' => Z.eqb x y && same a' b' | _, _ => false end.
Definition same_addr (a b : addr) : bool := Bool.eqb (a6 a) (a6 b) && same (aip a) (aip b) && same (aport a) (aport b).

Definition attribute := (Z * bytes)%type.
(* RFC 5389 section 15: type, length of the value, value, padding to a multiple of 4 (not in [MS-TURN]) *)
Definition put_attr (padded : bool) (a : attribute) : bytes :=
  put16 (fst a) ++ put16 (blen (snd a)) ++ snd a ++ (if padded then repeat 0 (Z.to_nat (pad4 (blen (snd a)))) else []).
Fixpoint get_attrs (fuel : nat) (padded : bool) (b : bytes) : option (list attribute) :=
  match fuel with O => None | S f =>
  match b with
  | [] => Some []
  | t0 :: t1 :: l0 :: l1 :: rest =>
      let len := u16 l0 l1 in
      let whole := if padded then len + pad4 len else len in
      if whole <=? blen rest then
        match get_attrs f padded (drop whole rest) with
        | Some l => Some ((u16 t0 t1, take len rest) :: l)
        | None => None
        end
      else None
  | _ => None
  end end.
Fixpoint lookup_attr (ty : Z) (l : list attribute) : option bytes :=
  match l with [] => None | (t, v) :: l' => if t =? ty then Some v else lookup_attr ty l' end.

Definition magic : bytes := [33; 18; 164; 66].           (* 0x2112A442 *)
Definition turn_magic : bytes := [114; 198; 75; 198].    (* 0x72C64BC6, the MAGIC-COOKIE attribute of draft 08 *)

(* header: type, length, 16 further bytes (cookie + transaction id, or a 128-bit transaction id) *)
Definition put_msg (padded : bool) (mtype : Z) (id16 : bytes) (attrs : list attribute) : bytes :=
  let body := flat_map (put_attr padded) attrs in
  put16 mtype ++ put16 (blen body) ++ id16 ++ body.
Definition get_msg (padded : bool) (b : bytes) : option (Z * bytes * list attribute) :=
  match b with
  | t0 :: t1 :: l0 :: l1 :: rest =>
      if (blen rest =? 16 + u16 l0 l1) && (t0 <? 64) then
        match get_attrs (S (length rest)) padded (drop 16 rest) with
        | Some l => Some (u16 t0 t1, take 16 rest, l)
        | None => None
        end
      else None
  | _ => None
  end.

(* address attributes: 0, family, port, address; RFC 5389 15.2: port xor the top half of the cookie,
   IPv4 xor cookie, IPv6 xor cookie ++ transaction id *)
Definition put_address (xor_key : option bytes) (a : addr) : bytes :=
  match xor_key with
  | None => [0; if a6 a then 2 else 1] ++ aport a ++ aip a
  | Some id16 => [0; if a6 a then 2 else 1] ++ zipxor (aport a) [33; 18] ++ zipxor (aip a) (if a6 a then id16 else magic)
  end.
Definition get_address (xor_key : option bytes) (v : bytes) : option addr :=
  match v with
  | _ :: fam :: p0 :: p1 :: ip =>
      let v6 := fam =? 2 in
      if ((fam =? 1) && (blen ip =? 4)) || (v6 && (blen ip =? 16)) then
        match xor_key with
        | None => Some {| a6 := v6; aip := ip; aport := [p0; p1] |}
        | Some id16 => Some {| a6 := v6; aip := zipxor ip (if v6 then id16 else magic); aport := zipxor [p0; p1] [33; 18] |}
        end
      else None
  | _ => None
  end.

(** * The relay *)
Record relay := {
  r_compat : compat;
  r_chans : list (Z * addr);      (* RFC 5766 channel bindings *)
  r_active : option addr          (* draft 08 / MS-TURN active destination *)
}.
Definition r_rfc (r : relay) : bool := match r_compat r with DRAFT9 | RFC5766 => true | _ => false end.
Definition r_padded (r : relay) : bool := match r_compat r with OC2007 => false | _ => true end.
Fixpoint chan_peer (l : list (Z * addr)) (ch : Z) : option addr :=
  match l with [] => None | (c, a) :: l' => if c =? ch then Some a else chan_peer l' ch end.
Fixpoint peer_chan (l : list (Z * addr)) (p : addr) : option Z :=
  match l with [] => None | (c, a) :: l' => if same_addr a p then Some c else peer_chan l' p end.

(* a TURN message of the old dialects carries the MAGIC-COOKIE attribute *)
Definition old_turn_message (padded : bool) (b : bytes) : option (Z * list attribute) :=
  match get_msg padded b with
  | Some (ty, _, attrs) => match lookup_attr 15 attrs with
                           | Some v => if same v turn_magic then Some (ty, attrs) else None
                           | None => None end
  | None => None
  end.

(* client -> relay: the peer the relay sends to and the application data it sends *)
Definition relay_decode (r : relay) (b : bytes) : option (addr * bytes) :=
  if r_rfc r then
    match b with
    | c0 :: c1 :: l0 :: l1 :: rest =>
        if (64 <=? c0) && (c0 <? 128) then
          (* RFC 5766 11.4 ChannelData: channel number, length, data (padding, if any, is dropped) *)
          if u16 l0 l1 <=? blen rest then
            match chan_peer (r_chans r) (u16 c0 c1) with Some peer => Some (peer, take (u16 l0 l1) rest) | None => None end
          else None
        else
          (* RFC 5766 10.2 Send indication 0x0016: XOR-PEER-ADDRESS 0x0012, DATA 0x0013 *)
          match get_msg true b with
          | Some (22, id16, attrs) =>
              if same (take 4 id16) magic then
                match lookup_attr 18 attrs, lookup_attr 19 attrs with
                | Some pa, Some d => match get_address (Some id16) pa with Some peer => Some (peer, d) | None => None end
                | _, _ => None
                end
              else None
          | _ => None
          end
    | _ => None
    end
  else
    match old_turn_message (r_padded r) b with
    | Some (ty, attrs) =>
        (* Send Request 0x0004: DESTINATION-ADDRESS 0x0011, DATA 0x0013 *)
        if ty =? 4 then
          match lookup_attr 17 attrs, lookup_attr 19 attrs with
          | Some da, Some d => match get_address None da with Some peer => Some (peer, d) | None => None end
          | _, _ => None
          end
        else None
    | None =>
        (* anything that is not a TURN message goes to the active destination *)
        match r_active r with Some peer => Some (peer, b) | None => None end
    end.

(* relay -> client for a datagram [p] from [peer]; [id16]: the 16 bytes after the length field the relay
   chooses (cookie ++ 96-bit id for RFC 5766, 128-bit id for the old dialects) *)
Definition relay_encode (r : relay) (id16 : bytes) (peer : addr) (p : bytes) : bytes :=
  if r_rfc r then
    match peer_chan (r_chans r) peer with
    | Some ch => put16 ch ++ put16 (blen p) ++ p                               (* ChannelData, UDP: no padding needed *)
    | None => put_msg true 23 id16 [(18, put_address (Some id16) peer); (19, p)]  (* Data indication 0x0017 *)
    end
  else
    match r_active r with
    | Some a => if same_addr a peer then p
                else put_msg (r_padded r) 277 id16 [(15, turn_magic); (18, put_address None peer); (19, p)]
    | None => put_msg (r_padded r) 277 id16 [(15, turn_magic); (18, put_address None peer); (19, p)]   (* Data Indication 0x0115 *)
    end.
