(** C16_unwrap: what the relay specification (Relay.v) sends for a datagram from a peer is handed up by the
    model of nice_udp_turn_socket_parse_recv as exactly that payload with that peer as source. *)
From Coq Require Import ZArith List Bool Lia.
From Nice Require Import Turn.TurnModel Turn.Relay Turn.TurnBytes Turn.WrapProofs Turn.FaultProofs.
Import ListNotations.
Local Open Scope Z_scope.

(** * Reading from concatenations *)
Lemma rd_app_r (pre x : bytes) i : 0 <= i -> rd (pre ++ x) (blen pre + i) = rd x i.
Proof.
  intros Hi. unfold rd. rewrite blen_app.
  pose proof (blen_nonneg pre).
  replace (0 <=? blen pre + i) with true by (symmetry; apply Z.leb_le; lia).
  replace (0 <=? i) with true by (symmetry; apply Z.leb_le; lia).
  replace (blen pre + i <? blen pre + blen x) with (i <? blen x)
    by (destruct (i <? blen x) eqn:E; symmetry; [apply Z.ltb_lt; apply Z.ltb_lt in E | apply Z.ltb_ge; apply Z.ltb_ge in E]; lia).
  cbn [andb]. destruct (i <? blen x); [|reflexivity].
  f_equal. rewrite app_nth2 by (unfold blen in *; lia). f_equal. unfold blen. lia.
Qed.
Lemma rd_app_l (x post : bytes) i : 0 <= i < blen x -> rd (x ++ post) i = rd x i.
Proof.
  intros Hi. rewrite !rd_ok by (rewrite ?blen_app; pose proof (blen_nonneg post); lia).
  f_equal. apply app_nth1. unfold blen in *. lia.
Qed.
Lemma rdw_at (pre rest : bytes) h l : rdw (pre ++ h :: l :: rest) (blen pre) = Ok (h * 256 + l).
Proof.
  unfold rdw. rewrite <- (Z.add_0_r (blen pre)) at 1. rewrite !rd_app_r by lia.
  unfold rd; rewrite !blen_cons. pose proof (blen_nonneg rest).
  replace (0 <? 1 + (1 + blen rest)) with true by (symmetry; apply Z.ltb_lt; lia).
  replace (1 <? 1 + (1 + blen rest)) with true by (symmetry; apply Z.ltb_lt; lia). reflexivity.
Qed.
Lemma rdw_at' (pre rest : bytes) h l off : off = blen pre -> rdw (pre ++ h :: l :: rest) off = Ok (h * 256 + l).
Proof. intros ->. apply rdw_at. Qed.
Lemma rd_range_at (pre v rest : bytes) : rd_range (pre ++ v ++ rest) (blen pre) (blen v) = Ok v.
Proof.
  unfold rd_range. destruct (blen v <=? 0) eqn:E.
  - apply Z.leb_le in E. destruct v; [reflexivity | rewrite blen_cons in E; pose proof (blen_nonneg v); lia].
  - rewrite !blen_app. pose proof (blen_nonneg pre). pose proof (blen_nonneg rest).
    replace (0 <=? blen pre) with true by (symmetry; apply Z.leb_le; lia).
    replace (blen pre + blen v <=? blen pre + (blen v + blen rest)) with true by (symmetry; apply Z.leb_le; lia).
    cbn [andb]. f_equal. rewrite skipn_app_exact by (unfold blen; lia). apply firstn_app_exact. unfold blen; lia.
Qed.
Lemma put16_val v : (v / 256) * 256 + v mod 256 = v.
Proof. pose proof (Z.div_mod v 256 ltac:(lia)). lia. Qed.

(** sub-ranges of a range that was read *)
Lemma skipn_skipn' {A} i : forall j (l : list A), skipn i (skipn j l) = skipn (j + i) l.
Proof. induction j as [|j IH]; intros l; [reflexivity|]. destruct l; [rewrite !skipn_nil; reflexivity | simpl; apply IH]. Qed.
Lemma nth_skipn' {A} (d : A) i : forall j l, nth i (skipn j l) d = nth (j + i) l d.
Proof. induction j as [|j IH]; intros l; [reflexivity|]. destruct l; [destruct i; reflexivity | simpl; apply IH]. Qed.
Lemma nth_firstn' {A} (d : A) : forall n i l, (i < n)%nat -> nth i (firstn n l) d = nth i l d.
Proof. induction n as [|n IH]; intros i l Hi; [lia|]. destruct l; [destruct i; reflexivity|]. destruct i; [reflexivity|]. simpl. apply IH. lia. Qed.
Lemma rd_range_inv b o n v : 0 < n -> rd_range b o n = Ok v ->
  0 <= o /\ o + n <= blen b /\ v = firstn (Z.to_nat n) (skipn (Z.to_nat o) b).
Proof.
  intros Hn. unfold rd_range. replace (n <=? 0) with false by (symmetry; apply Z.leb_gt; lia).
  destruct ((0 <=? o) && (o + n <=? blen b)) eqn:E; [|discriminate].
  apply andb_true_iff in E as [E1 E2]. apply Z.leb_le in E1. apply Z.leb_le in E2.
  intros H; inversion H. auto.
Qed.
Lemma rd_sub b o n v i : rd_range b o n = Ok v -> 0 <= i < n -> rd b (o + i) = Ok (nth (Z.to_nat i) v 0).
Proof.
  intros Hr Hi. destruct (rd_range_inv b o n v ltac:(lia) Hr) as (H1 & H2 & ->).
  rewrite rd_ok by lia. f_equal.
  rewrite nth_firstn' by lia. rewrite nth_skipn'. f_equal. lia.
Qed.
Lemma rd_range_sub b o n v i k : rd_range b o n = Ok v -> 0 <= i -> 0 < k -> i + k <= n ->
  rd_range b (o + i) k = Ok (firstn (Z.to_nat k) (skipn (Z.to_nat i) v)).
Proof.
  intros Hr Hi Hk Hik. destruct (rd_range_inv b o n v ltac:(lia) Hr) as (H1 & H2 & ->).
  unfold rd_range. replace (k <=? 0) with false by (symmetry; apply Z.leb_gt; lia).
  replace ((0 <=? o + i) && (o + i + k <=? blen b)) with true
    by (symmetry; apply andb_true_iff; split; apply Z.leb_le; lia).
  f_equal. rewrite skipn_firstn_comm, firstn_firstn, skipn_skipn'.
  rewrite Nat.min_l by lia. f_equal. f_equal. lia.
Qed.

(** * The model's parser on a relay-encoded attribute list *)
Definition whole (na : bool) (v : bytes) : Z := if na then blen v else align (blen v).
Definition rattr_ok (a : attribute) : Prop := 0 <= fst a < 65536 /\ blen (snd a) < 65536.
Lemma blen_put_attr na a : blen (put_attr (negb na) a) = 4 + whole na (snd a).
Proof.
  unfold put_attr, whole. rewrite !blen_app. change (blen (put16 (fst a))) with 2. change (blen (put16 (blen (snd a)))) with 2.
  destruct na; cbn [negb]; [rewrite blen_nil; lia|].
  rewrite blen_repeat, <- padding_pad4. pose proof (padding_range (blen (snd a))). unfold align. lia.
Qed.
Definition body (na : bool) (ra : list attribute) : bytes := flat_map (put_attr (negb na)) ra.
Lemma blen_body_cons na a ra : blen (body na (a :: ra)) = 4 + whole na (snd a) + blen (body na ra).
Proof. unfold body; cbn [flat_map]. rewrite blen_app, blen_put_attr. reflexivity. Qed.
Lemma whole_nonneg na v : 0 <= whole na v.
Proof. unfold whole. pose proof (blen_nonneg v). pose proof (padding_range (blen v)). destruct na; unfold align; lia. Qed.

(* the bytes of one attribute at offset [blen pre] *)
Lemma attr_reads na pre a rest :
  let b := pre ++ put_attr (negb na) a ++ rest in
  rdw b (blen pre) = Ok (fst a) /\ rdw b (blen pre + 2) = Ok (blen (snd a)) /\
  rd_range b (blen pre + 4) (blen (snd a)) = Ok (snd a).
Proof.
  cbv zeta. unfold put_attr, put16. cbn [app]. rewrite <- !app_assoc. cbn [app].
  split; [rewrite rdw_at, put16_val; reflexivity|].
  split.
  - replace (pre ++ fst a / 256 :: fst a mod 256 :: blen (snd a) / 256 :: blen (snd a) mod 256 :: snd a ++ _)
      with ((pre ++ [fst a / 256; fst a mod 256]) ++ blen (snd a) / 256 :: blen (snd a) mod 256 :: snd a ++
            (if negb na then repeat 0 (Z.to_nat (pad4 (blen (snd a)))) else []) ++ rest) by (rewrite <- app_assoc; reflexivity).
    rewrite rdw_at' by (rewrite blen_app, !blen_cons, blen_nil; lia). rewrite put16_val. reflexivity.
  - replace (pre ++ fst a / 256 :: fst a mod 256 :: blen (snd a) / 256 :: blen (snd a) mod 256 :: snd a ++ _)
      with ((pre ++ [fst a / 256; fst a mod 256; blen (snd a) / 256; blen (snd a) mod 256]) ++ snd a ++
            (if negb na then repeat 0 (Z.to_nat (pad4 (blen (snd a)))) else []) ++ rest) by (rewrite <- app_assoc; reflexivity).
    replace (blen pre + 4) with (blen (pre ++ [fst a / 256; fst a mod 256; blen (snd a) / 256; blen (snd a) mod 256]))
      by (rewrite blen_app, !blen_cons, blen_nil; lia).
    apply rd_range_at.
Qed.

(* stun_message_find *)
Fixpoint rfind (na : bool) (ty : Z) (ra : list attribute) (off : Z) : option (Z * Z) :=
  match ra with
  | [] => None
  | a :: ra' => if fst a =? ty then Some (off + 4, blen (snd a))
                else if (fst a =? A_MI) && negb (ty =? A_FPR) then None
                else if fst a =? A_FPR then None
                else rfind na ty ra' (off + 4 + whole na (snd a))
  end.
Lemma find_loop_body na ty : forall ra pre fuel l16,
  (length ra < fuel)%nat -> l16 = blen pre + blen (body na ra) ->
  find_loop fuel na (pre ++ body na ra) l16 ty (blen pre) = Ok (rfind na ty ra (blen pre)).
Proof.
  induction ra as [|a ra IH]; intros pre fuel l16 Hf Hl.
  - destruct fuel; [simpl in Hf; lia|]. cbn [find_loop rfind]. unfold body in Hl; cbn [flat_map] in Hl. rewrite blen_nil in Hl.
    replace (blen pre <? l16) with false by (symmetry; apply Z.ltb_ge; lia). reflexivity.
  - destruct fuel as [|fuel]; [simpl in Hf; lia|]. cbn [length] in Hf.
    rewrite blen_body_cons in Hl. pose proof (whole_nonneg na (snd a)). pose proof (blen_nonneg (body na ra)).
    cbn [find_loop rfind].
    replace (blen pre <? l16) with true by (symmetry; apply Z.ltb_lt; lia).
    change (body na (a :: ra)) with (put_attr (negb na) a ++ body na ra).
    destruct (attr_reads na pre a (body na ra)) as (H1 & H2 & _). cbv zeta in H1, H2.
    rewrite H1, H2. cbn [bind].
    destruct (fst a =? ty); [reflexivity|].
    destruct ((fst a =? A_MI) && negb (ty =? A_FPR)); [reflexivity|].
    destruct (fst a =? A_FPR); [reflexivity|].
    fold (whole na (snd a)).
    rewrite app_assoc.
    replace (blen pre + 4 + whole na (snd a)) with (blen (pre ++ put_attr (negb na) a)) by (rewrite blen_app, blen_put_attr; lia).
    apply IH; [lia | rewrite blen_app, blen_put_attr; lia].
Qed.

(* stun_message_validate_buffer_length's walk *)
Lemma vbl_walk_body na : forall ra pre fuel,
  (length ra < fuel)%nat -> Forall rattr_ok ra ->
  vbl_walk fuel (pre ++ body na ra) (negb na) (blen pre) (blen (body na ra)) = Ok true.
Proof.
  induction ra as [|a ra IH]; intros pre fuel Hf Hok.
  - destruct fuel; [simpl in Hf; lia|]. reflexivity.
  - destruct fuel as [|fuel]; [simpl in Hf; lia|]. cbn [length] in Hf. pose proof (Forall_inv_tail Hok) as Hok'.
    pose proof (whole_nonneg na (snd a)). pose proof (blen_nonneg (body na ra)).
    cbn [vbl_walk]. rewrite blen_body_cons.
    replace (4 + whole na (snd a) + blen (body na ra) <=? 0) with false by (symmetry; apply Z.leb_gt; lia).
    replace (4 + whole na (snd a) + blen (body na ra) <? 4) with false by (symmetry; apply Z.ltb_ge; lia).
    change (body na (a :: ra)) with (put_attr (negb na) a ++ body na ra).
    destruct (attr_reads na pre a (body na ra)) as (_ & H2 & _). cbv zeta in H2. rewrite H2. cbn [bind].
    assert (Ew : (if negb na then align (blen (snd a)) else blen (snd a)) = whole na (snd a)) by (unfold whole; destruct na; reflexivity).
    rewrite Ew.
    replace (4 + whole na (snd a) + blen (body na ra) - 4 <? whole na (snd a)) with false by (symmetry; apply Z.ltb_ge; lia).
    rewrite app_assoc.
    replace (blen pre + 4 + whole na (snd a)) with (blen (pre ++ put_attr (negb na) a)) by (rewrite blen_app, blen_put_attr; lia).
    replace (4 + whole na (snd a) + blen (body na ra) - 4 - whole na (snd a)) with (blen (body na ra)) by lia.
    apply IH; [lia | exact Hok'].
Qed.

(* stun_agent_find_unknowns *)
Lemma unknowns_loop_body na : forall ra pre fuel l16,
  (length ra < fuel)%nat -> l16 = blen pre + blen (body na ra) ->
  Forall (fun a => (fst a <? 32768) && negb (known_attr (fst a)) = false) ra ->
  unknowns_loop fuel na (pre ++ body na ra) l16 (blen pre) = Ok false.
Proof.
  induction ra as [|a ra IH]; intros pre fuel l16 Hf Hl Hk.
  - destruct fuel; [simpl in Hf; lia|]. cbn [unknowns_loop]. unfold body in Hl; cbn [flat_map] in Hl. rewrite blen_nil in Hl.
    replace (blen pre <? l16) with false by (symmetry; apply Z.ltb_ge; lia). reflexivity.
  - destruct fuel as [|fuel]; [simpl in Hf; lia|]. cbn [length] in Hf. pose proof (Forall_inv Hk) as Ha. pose proof (Forall_inv_tail Hk) as Hk'. cbv beta in Ha.
    rewrite blen_body_cons in Hl. pose proof (whole_nonneg na (snd a)). pose proof (blen_nonneg (body na ra)).
    cbn [unknowns_loop].
    replace (blen pre <? l16) with true by (symmetry; apply Z.ltb_lt; lia).
    change (body na (a :: ra)) with (put_attr (negb na) a ++ body na ra).
    destruct (attr_reads na pre a (body na ra)) as (H1 & H2 & _). cbv zeta in H1, H2.
    rewrite H1, H2. cbn [bind]. rewrite Ha.
    fold (whole na (snd a)).
    rewrite app_assoc.
    replace (blen pre + 4 + whole na (snd a)) with (blen (pre ++ put_attr (negb na) a)) by (rewrite blen_app, blen_put_attr; lia).
    apply IH; [lia | rewrite blen_app, blen_put_attr; lia | exact Hk'].
Qed.

Lemma length_body_ge na ra : (length ra <= length (body na ra))%nat.
Proof.
  induction ra as [|a l IH]; [simpl; lia|]. unfold body in *; cbn [flat_map length]. rewrite app_length.
  pose proof (blen_put_attr na a) as H. pose proof (whole_nonneg na (snd a)). unfold blen in H. lia.
Qed.

(** * A relay-encoded message as the model reads it *)
Section Encoded.
Variable c : compat.
Variable mtype : Z.
Variable id16 : bytes.
Variable ra : list attribute.
Let na := no_aligned c.
Let hdr := put16 mtype ++ put16 (blen (body na ra)) ++ id16.
Let b := hdr ++ body na ra.
Hypothesis Hid : length id16 = 16%nat.
Hypothesis Hsmall : blen (body na ra) + 20 < 65536.

Lemma enc_put_msg : put_msg (negb na) mtype id16 ra = b.
Proof. unfold put_msg, b, hdr, body. rewrite <- !app_assoc. reflexivity. Qed.
Lemma enc_hdr_len : blen hdr = 20.
Proof.
  unfold hdr. rewrite !blen_app. assert (blen id16 = 16) by (unfold blen; rewrite Hid; reflexivity).
  change (blen (put16 mtype)) with 2. change (blen (put16 (blen (body na ra)))) with 2. lia.
Qed.
Lemma enc_len : blen b = 20 + blen (body na ra).
Proof. unfold b. rewrite blen_app, enc_hdr_len. reflexivity. Qed.
Lemma enc_rd0 : rd b 0 = Ok (mtype / 256).
Proof.
  unfold b, hdr, put16. cbn [app]. unfold rd. rewrite !blen_cons. pose proof (blen_nonneg ((id16 ++ []) ++ body na ra)).
  pose proof (blen_nonneg (id16 ++ body na ra)).
  match goal with |- context [0 <? ?x] => replace (0 <? x) with true by (symmetry; apply Z.ltb_lt; rewrite ?blen_app in *; lia) end.
  reflexivity.
Qed.
Lemma enc_rdw0 : rdw b 0 = Ok mtype.
Proof.
  unfold b, hdr, put16. rewrite <- !app_assoc. cbn [app].
  change (mtype / 256 :: mtype mod 256 :: ?x) with ([] ++ mtype / 256 :: mtype mod 256 :: x).
  rewrite (rdw_at' [] _ _ _ 0) by reflexivity. rewrite put16_val. reflexivity.
Qed.
Lemma enc_rdw2 : rdw b 2 = Ok (blen (body na ra)).
Proof.
  unfold b, hdr, put16. rewrite <- !app_assoc. cbn [app].
  match goal with |- rdw (?x0 :: ?x1 :: ?r) 2 = _ => change (x0 :: x1 :: r) with ([x0; x1] ++ r) end.
  rewrite (rdw_at' _ _ _ _ 2) by reflexivity. rewrite put16_val. reflexivity.
Qed.
Lemma enc_id : rd_range b 4 16 = Ok id16.
Proof.
  unfold b, hdr. rewrite <- !app_assoc.
  rewrite (app_assoc (put16 mtype)).
  replace 4 with (blen (put16 mtype ++ put16 (blen (body na ra)))) by reflexivity.
  replace 16 with (blen id16) by (unfold blen; rewrite Hid; reflexivity).
  apply rd_range_at.
Qed.
Lemma enc_len16 : rx_len16 b = Ok (blen b).
Proof.
  unfold rx_len16. rewrite enc_rdw2. cbn [bind]. rewrite enc_len. f_equal.
  pose proof (blen_nonneg (body na ra)). rewrite Z.mod_small by lia. lia.
Qed.
Lemma enc_find ty : find_attr c b ty = Ok (rfind na (swap_realm_nonce c ty) ra 20).
Proof.
  unfold find_attr. rewrite enc_len16. cbn [bind]. fold na. unfold b. rewrite <- enc_hdr_len.
  apply find_loop_body.
  - rewrite app_length. pose proof (f_equal Z.to_nat enc_hdr_len) as H. rewrite blen_length in H.
    pose proof (length_body_ge na ra). lia.
  - rewrite blen_app. reflexivity.
Qed.
Lemma enc_has ty : has_attr c b ty = Ok (is_some (rfind na (swap_realm_nonce c ty) ra 20)).
Proof. unfold has_attr. rewrite enc_find. reflexivity. Qed.

Lemma enc_value ra1 a ra2 : ra = ra1 ++ a :: ra2 ->
  rd_range b (20 + blen (body na ra1) + 4) (blen (snd a)) = Ok (snd a).
Proof.
  intros E. unfold b.
  replace (body na ra) with (body na ra1 ++ put_attr (negb na) a ++ body na ra2)
    by (rewrite E; unfold body; rewrite flat_map_app; reflexivity).
  rewrite app_assoc.
  replace (20 + blen (body na ra1) + 4) with (blen (hdr ++ body na ra1) + 4) by (rewrite blen_app, enc_hdr_len; lia).
  destruct (attr_reads na (hdr ++ body na ra1) a (body na ra2)) as (_ & _ & H3). exact H3.
Qed.

Hypothesis Hty0 : 0 <= mtype < 16384.
Hypothesis Hclass : class_of mtype = C_INDICATION.
Hypothesis Hcookie : rfc5389 c = true -> firstn 4 id16 = cookie_bytes.
Hypothesis Hok : Forall rattr_ok ra.
Hypothesis Hknown : Forall (fun a => (fst a <? 32768) && negb (known_attr (fst a)) = false) ra.
Hypothesis Hpadded : na = false -> padding (blen (body na ra) + 20) = 0.

Lemma enc_fuel : (length ra < S (length b))%nat.
Proof.
  pose proof (length_body_ge na ra). unfold b. rewrite app_length. lia.
Qed.

Lemma enc_validate cf0 ids0 : c_compat cf0 = c -> validate cf0 ids0 b = Ok (V_SUCCESS, ids0).
Proof.
  intros Hc. unfold validate. rewrite Hc. fold na.
  pose proof (blen_nonneg (body na ra)) as Hb0.
  (* length validation *)
  assert (Hvbl : validate_buffer_length b (negb na) = Ok (VL_ok (blen b))).
  { unfold validate_buffer_length. rewrite enc_len.
    replace (20 + blen (body na ra) <? 1) with false by (symmetry; apply Z.ltb_ge; lia).
    rewrite enc_rd0. cbn [bind].
    replace (0 <? mtype / 256 / 64) with false.
    2:{ symmetry. apply Z.ltb_ge. rewrite Z.div_div by lia. rewrite Z.div_small by lia. lia. }
    replace (20 + blen (body na ra) <? 4) with false by (symmetry; apply Z.ltb_ge; lia).
    rewrite enc_rdw2. cbn [bind].
    replace (negb na && negb (padding (blen (body na ra) + 20) =? 0)) with false.
    2:{ destruct na eqn:E; [reflexivity|]. cbn [negb andb]. rewrite Hpadded by reflexivity. reflexivity. }
    replace (20 + blen (body na ra) <? blen (body na ra) + 20) with false by (symmetry; apply Z.ltb_ge; lia).
    replace (blen (body na ra) + 20 - 20) with (blen (body na ra)) by lia.
    pose proof (vbl_walk_body na ra hdr (S (length b)) enc_fuel Hok) as Hw. rewrite enc_hdr_len in Hw.
    change (hdr ++ body na ra) with b in Hw. rewrite Hw. cbn [bind]. f_equal. f_equal. lia. }
  rewrite Hvbl. cbn [bind]. rewrite Z.eqb_refl. cbn [negb].
  rewrite enc_id. cbn [bind].
  replace (rfc5389 c && negb (bytes_eqb (firstn 4 id16) cookie_bytes)) with false.
  2:{ destruct (rfc5389 c) eqn:E; [|reflexivity]. rewrite Hcookie by reflexivity. reflexivity. }
  rewrite enc_rdw0. cbn [bind]. rewrite Hclass.
  change (C_INDICATION =? C_RESPONSE) with false. change (C_INDICATION =? C_ERROR) with false. cbn [orb andb is_some negb].
  cbn [bind]. rewrite !enc_has. cbn [bind].
  change (C_INDICATION =? C_INDICATION) with true.
  assert (Hign : ignore_creds c || false || true && (long_term c || no_ind_auth c) = true) by (destruct c; reflexivity).
  rewrite Hign. cbn [negb andb]. rewrite !andb_false_r. cbn [andb].
  cbn [bind]. rewrite enc_len16. cbn [bind]. fold na.
  pose proof (unknowns_loop_body na ra hdr (S (length b)) (blen b) enc_fuel ltac:(rewrite enc_len, enc_hdr_len; reflexivity) Hknown) as Hu.
  rewrite enc_hdr_len in Hu. change (hdr ++ body na ra) with b in Hu. rewrite Hu. reflexivity.
Qed.
End Encoded.

(** * Address attributes written by the relay *)
Lemma blen_put_address k a : wf_addr a -> blen (put_address k a) = if a6 a then 20 else 8.
Proof.
  intros [H1 H2]. unfold put_address. destruct k; rewrite !blen_app; unfold blen; cbn [length];
    rewrite ?zipxor_xorb, ?xorb_length, H1, H2; destruct (a6 a); reflexivity.
Qed.
Lemma put_address_parts k a : wf_addr a ->
  let v := put_address k a in
  nth 1 v 0 = (if a6 a then 2 else 1) /\
  firstn 2 (skipn 2 v) = match k with Some _ => xorb (aport a) [33; 18] | None => aport a end /\
  firstn (if a6 a then 16 else 4) (skipn 4 v) = match k with Some id => xorb (aip a) (if a6 a then id else magic) | None => aip a end.
Proof.
  intros [H1 H2]. cbv zeta. unfold put_address.
  destruct k as [id|]; cbn [app nth]; (split; [reflexivity|]); rewrite ?zipxor_xorb.
  - split.
    + cbn [skipn]. apply firstn_app_exact. rewrite xorb_length, H2. reflexivity.
    + change (0 :: (if a6 a then 2 else 1) :: xorb (aport a) [33; 18] ++ xorb (aip a) (if a6 a then id else magic))
        with (([0; if a6 a then 2 else 1] ++ xorb (aport a) [33; 18]) ++ xorb (aip a) (if a6 a then id else magic)).
      rewrite skipn_app_exact by (rewrite app_length, xorb_length, H2; reflexivity).
      rewrite firstn_all2; [reflexivity | rewrite xorb_length, H1; destruct (a6 a); lia].
  - split.
    + cbn [skipn]. apply firstn_app_exact. rewrite H2. reflexivity.
    + change (0 :: (if a6 a then 2 else 1) :: aport a ++ aip a) with (([0; if a6 a then 2 else 1] ++ aport a) ++ aip a).
      rewrite skipn_app_exact by (rewrite app_length, H2; reflexivity).
      rewrite firstn_all2; [reflexivity | rewrite H1; destruct (a6 a); lia].
Qed.

Definition handed_up (r : rx_result) (p : bytes) (peer : addr) : Prop :=
  exists s' o, r = Ok (s', o, RxData {| h_data := p; h_from := peer; h_sock := true |}).

(** * RFC 5766 / draft 9: Data indication *)
Lemma unwrap_rfc_indication s id16 peer p :
  is_rfc (c_compat (cf s)) = true -> length id16 = 16%nat -> firstn 4 id16 = cookie_bytes ->
  wf_addr peer -> blen p <= 65000 ->
  handed_up (recv s (c_server (cf s)) (put_msg true 23 id16 [(18, put_address (Some id16) peer); (19, p)])) p peer.
Proof.
  intros Hrfc Hid Hck Hpeer Hp.
  set (c := c_compat (cf s)) in *.
  assert (Hna : no_aligned c = false) by (destruct c; simpl in *; try discriminate; reflexivity).
  set (pa := put_address (Some id16) peer).
  set (ra := [(18, pa); (19, p)]).
  pose proof (blen_put_address (Some id16) peer Hpeer) as Hpal. fold pa in Hpal.
  pose proof (blen_nonneg p) as Hp0. pose proof (padding_range (blen p)) as Hpp.
  assert (Hwpa : whole false pa = blen pa) by (unfold whole, align; rewrite Hpal; destruct (a6 peer); reflexivity).
  assert (Hbody : blen (body false ra) = 4 + blen pa + (4 + align (blen p))).
  { unfold ra. rewrite !blen_body_cons. change (blen (body false [])) with 0. cbn [snd]. rewrite Hwpa. unfold whole. lia. }
  assert (Hsmall : blen (body (no_aligned c) ra) + 20 < 65536) by (rewrite Hna, Hbody, Hpal; unfold align; destruct (a6 peer); lia).
  replace (put_msg true 23 id16 ra) with (put_msg (negb (no_aligned c)) 23 id16 ra) by (rewrite Hna; reflexivity).
  rewrite (enc_put_msg c 23 id16 ra).
  set (b := (put16 23 ++ put16 (blen (body (no_aligned c) ra)) ++ id16) ++ body (no_aligned c) ra).
  assert (Hval : forall ids0, validate (cf s) ids0 b = Ok (V_SUCCESS, ids0)).
  { intros ids0. apply (enc_validate c 23 id16 ra Hid Hsmall); try reflexivity; try lia.
    - intros _. exact Hck.
    - unfold ra. repeat constructor; cbn [fst snd]; try lia. rewrite Hpal; destruct (a6 peer); lia.
    - unfold ra. repeat constructor.
    - intros _. rewrite Hna, Hbody, Hpal. unfold align.
      assert (E : forall x, (x + padding x) mod 4 = 0) by (intros; apply align_mod4).
      apply padding_div4. specialize (E (blen p)).
      destruct (a6 peer); rewrite Z.add_mod by lia; rewrite Z.add_mod with (a := 4 + _) by lia; rewrite Z.add_mod with (a := 4) (b := blen p + padding (blen p)) by lia; rewrite E; reflexivity. }
  unfold recv. rewrite addr_eqb_refl. cbn [negb]. rewrite Hval. cbn [bind].
  set (s0 := set_ids s (ids s)).
  assert (Hc0 : c_compat (cf s0) = c) by reflexivity.
  unfold recv_valid. rewrite Hc0, Hrfc. cbn [bind negb].
  unfold b. rewrite (enc_rdw0 c 23 id16 ra), (enc_id c 23 id16 ra Hid). cbn [bind]. fold b.
  change (method_of 23 =? M_SEND) with false. change (method_of 23 =? M_SET_ACTIVE) with false.
  change (method_of 23 =? M_CHANNELBIND) with false. change (method_of 23 =? M_CREATEPERM) with false.
  change ((class_of 23 =? C_INDICATION) && (method_of 23 =? M_IND_DATA)) with true. cbn iota.
  (* the Data indication *)
  unfold recv_data_ind. rewrite Hc0, Hrfc.
  assert (Hswap : forall ty, ty <> A_REALM -> ty <> A_NONCE -> swap_realm_nonce c ty = ty) by (intros; apply swap_id; assumption).
  assert (Hfa : find_attr c b A_PEER = Ok (Some (24, blen pa))).
  { unfold b. rewrite (enc_find c 23 id16 ra Hid Hsmall). rewrite Hswap by discriminate. reflexivity. }
  assert (Hfd : find_attr c b A_DATA = Ok (Some (20 + blen (body (no_aligned c) [(18, pa)]) + 4, blen p))).
  { unfold b. rewrite (enc_find c 23 id16 ra Hid Hsmall). rewrite Hswap by discriminate. unfold ra. cbn [rfind fst snd].
    change (18 =? A_DATA) with false. change ((18 =? A_MI) && negb (A_DATA =? A_FPR)) with false. change (18 =? A_FPR) with false.
    change (19 =? A_DATA) with true. cbn iota. rewrite blen_body_cons. change (blen (body (no_aligned c) [])) with 0. cbn [snd].
    f_equal. f_equal. f_equal. lia. }
  pose proof (enc_value c 23 id16 ra Hid [] (18, pa) [(19, p)] eq_refl) as Hva. cbn [snd] in Hva. change (blen (body (no_aligned c) [])) with 0 in Hva.
  change (20 + 0 + 4) with 24 in Hva. fold b in Hva.
  pose proof (enc_value c 23 id16 ra Hid [(18, pa)] (19, p) [] eq_refl) as Hvd. cbn [snd] in Hvd. fold b in Hvd.
  destruct (put_address_parts (Some id16) peer Hpeer) as (Hfam & Hport & Hip). cbv zeta in Hfam, Hport, Hip. fold pa in Hfam, Hport, Hip.
  unfold find_xor_addr, find_addr. rewrite Hfa. cbn [bind].
  replace (blen pa <? 4) with false by (symmetry; apply Z.ltb_ge; rewrite Hpal; destruct (a6 peer); lia).
  rewrite (rd_sub b 24 (blen pa) pa 1 Hva) by (rewrite Hpal; destruct (a6 peer); lia). cbn [bind].
  change (Z.to_nat 1) with 1%nat. rewrite Hfam.
  assert (Hxor : xor_addr id16 {| a6 := a6 peer; aip := xorb (aip peer) (if a6 peer then id16 else magic); aport := xorb (aport peer) [33; 18] |} = peer).
  { unfold xor_addr. cbn [a6 aip aport]. change cookie_bytes with magic. rewrite !xorb_invol. destruct peer; reflexivity. }
  assert (Hdata : rd_range b (20 + blen (body (no_aligned c) [(18, pa)]) + 4) (Z.min (blen b) (blen p)) = Ok p).
  { rewrite Z.min_r; [exact Hvd|]. unfold b. rewrite (enc_len c 23 id16 ra Hid), Hna, Hbody. unfold align. pose proof (blen_nonneg pa). lia. }
  assert (Hidr : rd_range b 4 16 = Ok id16) by (apply (enc_id c 23 id16 ra Hid)).
  destruct (a6 peer) eqn:E6.
  - change (2 =? 1) with false. change (2 =? 2) with true. cbn iota.
    replace (blen pa =? 20) with true by (symmetry; apply Z.eqb_eq; exact Hpal).
    rewrite (rd_range_sub b 24 (blen pa) pa 2 2 Hva) by (rewrite ?Hpal; lia).
    rewrite (rd_range_sub b 24 (blen pa) pa 4 16 Hva) by (rewrite ?Hpal; lia). cbn [bind].
    change (Z.to_nat 2) with 2%nat. change (Z.to_nat 4) with 4%nat. change (Z.to_nat 16) with 16%nat.
    rewrite Hport, Hip. rewrite Hidr. cbn [bind].
    rewrite Hxor. rewrite Hfd. cbn [bind]. rewrite Hdata. cbn [bind].
    destruct (_ && _); [destruct (send_create_permission s0 peer) as [[s1 o1] r1]|]; eexists _, _; reflexivity.
  - change (1 =? 1) with true. cbn iota.
    replace (blen pa =? 8) with true by (symmetry; apply Z.eqb_eq; exact Hpal).
    rewrite (rd_range_sub b 24 (blen pa) pa 2 2 Hva) by (rewrite ?Hpal; lia).
    rewrite (rd_range_sub b 24 (blen pa) pa 4 4 Hva) by (rewrite ?Hpal; lia). cbn [bind].
    change (Z.to_nat 2) with 2%nat. change (Z.to_nat 4) with 4%nat.
    rewrite Hport, Hip. rewrite Hidr. cbn [bind].
    rewrite Hxor. rewrite Hfd. cbn [bind]. rewrite Hdata. cbn [bind].
    destruct (_ && _); [destruct (send_create_permission s0 peer) as [[s1 o1] r1]|]; eexists _, _; reflexivity.
Qed.

(** * RFC 5766 / draft 9: ChannelData *)
Lemma peer_chan_in l p ch : peer_chan l p = Some ch -> In (ch, p) l.
Proof.
  induction l as [|[c0 a] l IH]; [discriminate|]. cbn [peer_chan].
  destruct (same_addr a p) eqn:E.
  - intros H; inversion H; subst. apply same_addr_eq in E. subst. left. reflexivity.
  - intros H. right. apply IH. exact H.
Qed.
Lemma chan_scan_hit s from b ch peer rl d : 4 <= blen b -> rdw b 0 = Ok ch -> rdw b 2 = Ok rl -> rl <= blen b - 4 ->
  rd_range b 4 (Z.min (blen b) rl) = Ok d ->
  forall l, chan_peer (map (fun x => (b_chan x, b_peer x)) l) ch = Some peer ->
  chan_scan s from b l = Ok (s, [], RxData {| h_data := d; h_from := peer; h_sock := true |}).
Proof.
  intros H4 H0 H2 Hrl Hd. induction l as [|bd l IH]; [discriminate|]. cbn [map chan_peer chan_scan].
  replace (4 <=? blen b) with true by (symmetry; apply Z.leb_le; exact H4).
  rewrite H0. cbn [bind].
  destruct (b_chan bd =? ch) eqn:E.
  - intros H; inversion H; subst. rewrite H2. cbn [bind].
    replace (rl <=? blen b - 4) with true by (symmetry; apply Z.leb_le; exact Hrl). rewrite Hd. reflexivity.
  - exact IH.
Qed.

Lemma unwrap_rfc_channeldata s peer p ch :
  is_rfc (c_compat (cf s)) = true -> chan_table_ok s -> peer_chan (r_chans (relay_of s)) peer = Some ch ->
  handed_up (recv s (c_server (cf s)) (put16 ch ++ put16 (blen p) ++ p)) p peer.
Proof.
  intros Hrfc Htab Hpc.
  apply peer_chan_in in Hpc. unfold relay_of in Hpc. cbn [r_chans] in Hpc.
  apply in_map_iff in Hpc as (bd & Hbd & Hin). inversion Hbd; subst.
  destruct (Htab Hrfc bd Hin) as (Hrange & Hlook).
  set (b := put16 (b_chan bd) ++ put16 (blen p) ++ p).
  pose proof (blen_nonneg p) as Hp0.
  assert (Hlen : blen b = 4 + blen p) by (unfold b; rewrite !blen_app; change (blen (put16 (b_chan bd))) with 2; change (blen (put16 (blen p))) with 2; lia).
  assert (H0 : rdw b 0 = Ok (b_chan bd)).
  { unfold b, put16. cbn [app]. match goal with |- rdw (?x0 :: ?x1 :: ?r) 0 = _ => change (x0 :: x1 :: r) with ([] ++ x0 :: x1 :: r) end.
    rewrite (rdw_at' [] _ _ _ 0) by reflexivity. rewrite put16_val. reflexivity. }
  assert (H2 : rdw b 2 = Ok (blen p)).
  { unfold b, put16. cbn [app]. match goal with |- rdw (?x0 :: ?x1 :: ?r) 2 = _ => change (x0 :: x1 :: r) with ([x0; x1] ++ r) end.
    rewrite (rdw_at' _ _ _ _ 2) by reflexivity. rewrite put16_val. reflexivity. }
  assert (Hd : rd_range b 4 (Z.min (blen b) (blen p)) = Ok p).
  { rewrite Z.min_r by lia. unfold b. rewrite app_assoc. replace 4 with (blen (put16 (b_chan bd) ++ put16 (blen p))) by reflexivity.
    rewrite <- (app_nil_r p) at 2. apply rd_range_at. }
  assert (Hval : validate (cf s) (ids s) b = Ok (V_NOT_STUN, ids s)).
  { unfold validate, validate_buffer_length. rewrite Hlen.
    replace (4 + blen p <? 1) with false by (symmetry; apply Z.ltb_ge; lia).
    assert (Hr0 : rd b 0 = Ok (b_chan bd / 256)).
    { unfold b, put16. cbn [app]. unfold rd. rewrite !blen_cons. pose proof (blen_nonneg (p)).
      match goal with |- context [0 <? ?x] => replace (0 <? x) with true by (symmetry; apply Z.ltb_lt; rewrite ?blen_app in *; lia) end. reflexivity. }
    rewrite Hr0. cbn [bind].
    replace (0 <? b_chan bd / 256 / 64) with true; [reflexivity|].
    symmetry. apply Z.ltb_lt. rewrite Z.div_div by lia. assert (1 <= b_chan bd / (256 * 64)) by (apply Z.div_le_lower_bound; lia). lia. }
  unfold recv. rewrite addr_eqb_refl. cbn [negb]. rewrite Hval. cbn [bind].
  unfold recv_tail. cbn [cf set_ids]. rewrite Hrfc. cbn [channels set_ids].
  rewrite (chan_scan_hit _ _ b (b_chan bd) (b_peer bd) (blen p) p ltac:(lia) H0 H2 ltac:(lia) Hd (channels s) Hlook).
  eexists _, _. reflexivity.
Qed.

(** * Google / MSN / OC2007: Data Indication 0x0115 *)
Lemma old_not_rfc5766 c : is_rfc c = false -> compat_eqb c RFC5766 = false.
Proof. destruct c; simpl; intros; try discriminate; reflexivity. Qed.
Lemma old_not_5389 c : is_rfc c = false -> rfc5389 c = true -> False.
Proof. unfold rfc5389. intros -> H. discriminate H. Qed.
Lemma unwrap_old_indication s id16 peer p :
  is_rfc (c_compat (cf s)) = false -> length id16 = 16%nat -> wf_addr peer -> blen p <= 65000 ->
  handed_up (recv s (c_server (cf s))
               (put_msg (negb (no_aligned (c_compat (cf s)))) 277 id16 [(15, turn_magic); (18, put_address None peer); (19, p)])) p peer.
Proof.
  intros Hrfc Hid Hpeer Hp.
  set (c := c_compat (cf s)) in *.
  set (pa := put_address None peer).
  set (ra := [(15, turn_magic); (18, pa); (19, p)]).
  pose proof (blen_put_address None peer Hpeer) as Hpal. fold pa in Hpal.
  pose proof (blen_nonneg p) as Hp0. pose proof (padding_range (blen p)) as Hpp. pose proof (blen_nonneg pa) as Hpa0.
  assert (Hwm : whole (no_aligned c) turn_magic = 4) by (unfold whole; destruct (no_aligned c); reflexivity).
  assert (Hwpa : whole (no_aligned c) pa = blen pa) by (unfold whole, align; rewrite Hpal; destruct (no_aligned c), (a6 peer); reflexivity).
  assert (Hwp : blen p <= whole (no_aligned c) p <= blen p + 3) by (unfold whole, align; destruct (no_aligned c); lia).
  assert (Hbody : blen (body (no_aligned c) ra) = 8 + (4 + blen pa) + (4 + whole (no_aligned c) p)).
  { unfold ra. rewrite !blen_body_cons. change (blen (body (no_aligned c) [])) with 0. cbn [snd]. rewrite Hwpa, Hwm. lia. }
  assert (Hsmall : blen (body (no_aligned c) ra) + 20 < 65536) by (rewrite Hbody, Hpal; destruct (a6 peer); lia).
  rewrite (enc_put_msg c 277 id16 ra).
  set (b := (put16 277 ++ put16 (blen (body (no_aligned c) ra)) ++ id16) ++ body (no_aligned c) ra).
  assert (Hval : forall ids0, validate (cf s) ids0 b = Ok (V_SUCCESS, ids0)).
  { intros ids0. apply (enc_validate c 277 id16 ra Hid Hsmall); try reflexivity; try lia.
    - intros H. exfalso. exact (old_not_5389 c Hrfc H).
    - unfold ra. repeat constructor; cbn [fst snd]; try lia; try (change (blen turn_magic) with 4; lia).
    - unfold ra. repeat constructor.
    - intros Hna. rewrite Hbody, Hpal. unfold whole. rewrite Hna. apply padding_div4.
      pose proof (align_mod4 (blen p)) as E.
      destruct (a6 peer); rewrite Z.add_mod by lia; rewrite Z.add_mod with (a := 8 + _) by lia;
        rewrite Z.add_mod with (a := 4) (b := align (blen p)) by lia; rewrite E; reflexivity. }
  unfold recv. rewrite addr_eqb_refl. cbn [negb]. rewrite Hval. cbn [bind].
  set (s0 := set_ids s (ids s)).
  assert (Hc0 : c_compat (cf s0) = c) by reflexivity.
  assert (Hswap : forall ty, ty <> A_REALM -> ty <> A_NONCE -> swap_realm_nonce c ty = ty) by (intros; apply swap_id; assumption).
  assert (Hfm : find_attr c b A_MAGIC_COOKIE = Ok (Some (24, 4))).
  { unfold b. rewrite (enc_find c 277 id16 ra Hid Hsmall). rewrite Hswap by discriminate. reflexivity. }
  assert (Hfa : find_attr c b A_PEER = Ok (Some (20 + blen (body (no_aligned c) [(15, turn_magic)]) + 4, blen pa))).
  { unfold b. rewrite (enc_find c 277 id16 ra Hid Hsmall). rewrite Hswap by discriminate. unfold ra. cbn [rfind fst snd].
    change (15 =? A_PEER) with false. change ((15 =? A_MI) && negb (A_PEER =? A_FPR)) with false. change (15 =? A_FPR) with false.
    change (18 =? A_PEER) with true. cbn iota. rewrite blen_body_cons. change (blen (body (no_aligned c) [])) with 0. cbn [snd].
    f_equal. f_equal. f_equal. lia. }
  assert (Hfd : find_attr c b A_DATA = Ok (Some (20 + blen (body (no_aligned c) [(15, turn_magic); (18, pa)]) + 4, blen p))).
  { unfold b. rewrite (enc_find c 277 id16 ra Hid Hsmall). rewrite Hswap by discriminate. unfold ra. cbn [rfind fst snd].
    change (15 =? A_DATA) with false. change ((15 =? A_MI) && negb (A_DATA =? A_FPR)) with false. change (15 =? A_FPR) with false.
    change (18 =? A_DATA) with false. change ((18 =? A_MI) && negb (A_DATA =? A_FPR)) with false. change (18 =? A_FPR) with false.
    change (19 =? A_DATA) with true. cbn iota. rewrite !blen_body_cons. change (blen (body (no_aligned c) [])) with 0. cbn [snd].
    f_equal. f_equal. f_equal. lia. }
  pose proof (enc_value c 277 id16 ra Hid [] (15, turn_magic) [(18, pa); (19, p)] eq_refl) as Hvm. cbn [snd] in Hvm.
  change (blen (body (no_aligned c) [])) with 0 in Hvm. change (20 + 0 + 4) with 24 in Hvm. change (blen turn_magic) with 4 in Hvm. fold b in Hvm.
  pose proof (enc_value c 277 id16 ra Hid [(15, turn_magic)] (18, pa) [(19, p)] eq_refl) as Hva. cbn [snd] in Hva. fold b in Hva.
  pose proof (enc_value c 277 id16 ra Hid [(15, turn_magic); (18, pa)] (19, p) [] eq_refl) as Hvd. cbn [snd] in Hvd. fold b in Hvd.
  set (oa := 20 + blen (body (no_aligned c) [(15, turn_magic)]) + 4) in *.
  set (od := 20 + blen (body (no_aligned c) [(15, turn_magic); (18, pa)]) + 4) in *.
  destruct (put_address_parts None peer Hpeer) as (Hfam & Hport & Hip). cbv zeta in Hfam, Hport, Hip. fold pa in Hfam, Hport, Hip.
  unfold recv_valid. rewrite Hc0, Hrfc.
  unfold find32. rewrite Hfm. cbn [bind]. rewrite Hvm. cbn [bind].
  change (fold_left (fun acc x : Z => acc * 256 + x) turn_magic 0) with 1925598150. cbn [negb].
  unfold b. rewrite (enc_rdw0 c 277 id16 ra), (enc_id c 277 id16 ra Hid). cbn [bind]. fold b.
  change (method_of 277 =? M_SEND) with false. change (method_of 277 =? M_SET_ACTIVE) with false.
  change (method_of 277 =? M_CHANNELBIND) with false. change (method_of 277 =? M_CREATEPERM) with false.
  change ((class_of 277 =? C_INDICATION) && (method_of 277 =? M_IND_DATA)) with true. cbn iota.
  unfold recv_data_ind. rewrite Hc0, Hrfc.
  unfold find_addr. rewrite Hfa. cbn [bind].
  replace (blen pa <? 4) with false by (symmetry; apply Z.ltb_ge; rewrite Hpal; destruct (a6 peer); lia).
  rewrite (rd_sub b oa (blen pa) pa 1 Hva) by (rewrite Hpal; destruct (a6 peer); lia). cbn [bind].
  change (Z.to_nat 1) with 1%nat. rewrite Hfam.
  assert (Hdata : rd_range b od (Z.min (blen b) (blen p)) = Ok p).
  { rewrite Z.min_r; [exact Hvd|]. unfold b. rewrite (enc_len c 277 id16 ra Hid), Hbody. lia. }
  assert (Hrec : {| a6 := a6 peer; aip := aip peer; aport := aport peer |} = peer) by (destruct peer; reflexivity).
  assert (Hcompat : compat_eqb c RFC5766 = false) by (apply old_not_rfc5766; exact Hrfc).
  destruct (a6 peer) eqn:E6.
  - change (2 =? 1) with false. change (2 =? 2) with true. cbn iota.
    replace (blen pa =? 20) with true by (symmetry; apply Z.eqb_eq; exact Hpal).
    rewrite (rd_range_sub b oa (blen pa) pa 2 2 Hva) by (rewrite ?Hpal; lia).
    rewrite (rd_range_sub b oa (blen pa) pa 4 16 Hva) by (rewrite ?Hpal; lia). cbn [bind].
    change (Z.to_nat 2) with 2%nat. change (Z.to_nat 4) with 4%nat. change (Z.to_nat 16) with 16%nat.
    rewrite Hport, Hip, Hrec. rewrite Hfd. cbn [bind]. rewrite Hdata. cbn [bind]. rewrite Hcompat. cbn [andb].
    eexists _, _; reflexivity.
  - change (1 =? 1) with true. cbn iota.
    replace (blen pa =? 8) with true by (symmetry; apply Z.eqb_eq; exact Hpal).
    rewrite (rd_range_sub b oa (blen pa) pa 2 2 Hva) by (rewrite ?Hpal; lia).
    rewrite (rd_range_sub b oa (blen pa) pa 4 4 Hva) by (rewrite ?Hpal; lia). cbn [bind].
    change (Z.to_nat 2) with 2%nat. change (Z.to_nat 4) with 4%nat.
    rewrite Hport, Hip, Hrec. rewrite Hfd. cbn [bind]. rewrite Hdata. cbn [bind]. rewrite Hcompat. cbn [andb].
    eexists _, _; reflexivity.
Qed.

(** * Google / MSN / OC2007: raw data from the active destination *)
Lemma unwrap_old_raw s peer p bd :
  is_rfc (c_compat (cf s)) = false -> channels s = [bd] -> b_peer bd = peer -> bytes_ok p ->
  (forall ids', validate (cf s) (ids s) p <> Ok (V_SUCCESS, ids')) ->
  handed_up (recv s (c_server (cf s)) p) p peer.
Proof.
  intros Hrfc Hch Hpeer Hb Hnv.
  unfold recv. rewrite addr_eqb_refl. cbn [negb].
  destruct (validate_spec (cf s) (ids s) p Hb) as (st & ids' & Hval & _). rewrite Hval. cbn [bind].
  assert (Htail : recv_tail (set_ids s ids') (c_server (cf s)) p =
                  Ok (set_ids s ids', [], RxData {| h_data := p; h_from := peer; h_sock := true |})).
  { unfold recv_tail. cbn [cf set_ids channels]. rewrite Hrfc, Hch. unfold raw_up.
    assert (Hr : rd_range p 0 (blen p) = Ok p).
    { unfold rd_range. destruct (blen p <=? 0) eqn:E.
      - apply Z.leb_le in E. destruct p; [reflexivity | rewrite blen_cons in E; pose proof (blen_nonneg p); lia].
      - replace ((0 <=? 0) && (0 + blen p <=? blen p)) with true by (symmetry; apply andb_true_iff; split; apply Z.leb_le; lia).
        cbn [skipn Z.to_nat]. rewrite blen_length, firstn_all. reflexivity. }
    rewrite Hr. cbn [bind is_some]. rewrite Hpeer. reflexivity. }
  destruct st; try (rewrite Htail; eexists _, _; reflexivity).
  exfalso. apply (Hnv ids'). exact Hval.
Qed.

(** * C16_unwrap *)
Definition unwrap_pre (s : state) (id16 : bytes) (peer : addr) (p : bytes) : Prop :=
  let c := c_compat (cf s) in
  wf_addr peer /\ blen p <= 65000 /\ length id16 = 16%nat /\
  (is_rfc c = true -> firstn 4 id16 = cookie_bytes /\ chan_table_ok s) /\
  (is_rfc c = false -> old_single s /\
     (forall bd, channels s = [bd] -> b_peer bd = peer ->
        bytes_ok p /\ forall ids', validate (cf s) (ids s) p <> Ok (V_SUCCESS, ids'))).

Theorem unwrap_transparent s id16 peer p : unwrap_pre s id16 peer p ->
  handed_up (recv s (c_server (cf s)) (relay_encode (relay_of s) id16 peer p)) p peer.
Proof.
  intros (Hpeer & Hp & Hid & Hr & Ho).
  unfold relay_encode. rewrite r_rfc_of.
  destruct (is_rfc (c_compat (cf s))) eqn:Hrfc.
  - destruct (Hr eq_refl) as (Hck & Htab).
    destruct (peer_chan (r_chans (relay_of s)) peer) as [ch|] eqn:Hpc.
    + apply (unwrap_rfc_channeldata s peer p ch Hrfc Htab Hpc).
    + apply (unwrap_rfc_indication s id16 peer p Hrfc Hid Hck Hpeer Hp).
  - destruct (Ho eq_refl) as (Hsingle & Hraw). rewrite r_padded_of.
    specialize (Hsingle Hrfc). unfold relay_of. cbn [r_active].
    destruct (channels s) as [|bd [|bd2 l]] eqn:Hch; [ | | simpl in Hsingle; lia].
    + apply (unwrap_old_indication s id16 peer p Hrfc Hid Hpeer Hp).
    + destruct (same_addr (b_peer bd) peer) eqn:Esame.
      * apply same_addr_eq in Esame. destruct (Hraw bd eq_refl Esame) as (Hb & Hnv).
        apply (unwrap_old_raw s peer p bd Hrfc Hch Esame Hb Hnv).
      * apply (unwrap_old_indication s id16 peer p Hrfc Hid Hpeer Hp).
Qed.

(** non-vacuity *)
Definition ex_id_rfc : bytes := cookie_bytes ++ [1; 2; 3; 4; 5; 6; 7; 8; 9; 10; 11; 12].
Definition ex_id_old : bytes := [9; 9; 9; 9; 1; 2; 3; 4; 5; 6; 7; 8; 9; 10; 11; 12].
Lemma unwrap_pre_rfc_init c peer p : is_rfc c = true -> wf_addr peer -> blen p <= 65000 ->
  unwrap_pre (init_state (ex_cfg c)) ex_id_rfc peer p.
Proof.
  intros Hc Hw Hp. unfold unwrap_pre. cbn [init_state cf ex_cfg c_compat channels ids].
  split; [exact Hw|]. split; [exact Hp|]. split; [reflexivity|]. split.
  - intros _. split; [reflexivity | intros _ b []].
  - intros H. rewrite Hc in H. discriminate H.
Qed.
Lemma unwrap_pre_rfc_bound c peer p : is_rfc c = true -> wf_addr peer -> blen p <= 65000 ->
  unwrap_pre (ex_bound c peer) ex_id_rfc peer p.
Proof.
  intros Hc Hw Hp. unfold unwrap_pre, ex_bound. cbn [init_state cf ex_cfg c_compat channels ids set_channels].
  split; [exact Hw|]. split; [exact Hp|]. split; [reflexivity|]. split.
  - intros _. split; [reflexivity|]. intros _ b [<-|[]]. cbn [b_chan b_peer]. rewrite Hc. split; [lia|].
    unfold relay_of. cbn [r_chans channels set_channels map b_chan b_peer chan_peer]. rewrite Z.eqb_refl. reflexivity.
  - intros H. rewrite Hc in H. discriminate H.
Qed.
Lemma unwrap_pre_old_init c peer p : is_rfc c = false -> wf_addr peer -> blen p <= 65000 ->
  unwrap_pre (init_state (ex_cfg c)) ex_id_old peer p.
Proof.
  intros Hc Hw Hp. unfold unwrap_pre. cbn [init_state cf ex_cfg c_compat channels ids].
  split; [exact Hw|]. split; [exact Hp|]. split; [reflexivity|]. split.
  - intros H. rewrite Hc in H. discriminate H.
  - intros _. split; [intros _; simpl; lia | intros bd H; discriminate H].
Qed.
Lemma unwrap_pre_examples :
  unwrap_pre (init_state (ex_cfg RFC5766)) ex_id_rfc ex_peer6 [1; 2; 3] /\
  unwrap_pre (ex_bound DRAFT9 ex_peer4) ex_id_rfc ex_peer4 [0; 1; 0; 0; 33] /\
  unwrap_pre (init_state (ex_cfg GOOGLE)) ex_id_old ex_peer4 [] /\
  unwrap_pre (init_state (ex_cfg OC2007)) ex_id_old ex_peer6 [1; 2; 3; 4; 5] /\
  unwrap_pre (ex_bound MSN ex_peer4) ex_id_old ex_peer4 [128; 1; 2].
Proof.
  assert (Hw4 : wf_addr ex_peer4) by (split; reflexivity). assert (Hw6 : wf_addr ex_peer6) by (split; reflexivity).
  split; [apply unwrap_pre_rfc_init; [reflexivity | assumption | vm_compute; intro Hx; discriminate Hx]|].
  split; [apply unwrap_pre_rfc_bound; [reflexivity | assumption | vm_compute; intro Hx; discriminate Hx]|].
  split; [apply unwrap_pre_old_init; [reflexivity | assumption | vm_compute; intro Hx; discriminate Hx]|].
  split; [apply unwrap_pre_old_init; [reflexivity | assumption | vm_compute; intro Hx; discriminate Hx]|].
  unfold unwrap_pre, ex_bound. cbn [init_state cf ex_cfg c_compat channels ids set_channels].
  split; [exact Hw4|]. split; [vm_compute; intro Hx; discriminate Hx|]. split; [reflexivity|]. split.
  - intros H. discriminate H.
  - intros _. split; [intros _; simpl; lia|]. intros bd Hx _. split; [repeat constructor; lia|].
    intros ids'. vm_compute. intro Hy; discriminate Hy.
Qed.

Lemma unwrap_transparent_stmt : forall s id16 peer p,
  wf_addr peer -> blen p <= 65000 -> length id16 = 16%nat ->
  (is_rfc (c_compat (cf s)) = true -> firstn 4 id16 = cookie_bytes /\ chan_table_ok s) ->
  (is_rfc (c_compat (cf s)) = false -> old_single s /\
     (forall bd, channels s = [bd] -> b_peer bd = peer ->
        bytes_ok p /\ forall ids', validate (cf s) (ids s) p <> Ok (V_SUCCESS, ids'))) ->
  exists s' o, recv s (c_server (cf s)) (relay_encode (relay_of s) id16 peer p)
               = Ok (s', o, RxData {| h_data := p; h_from := peer; h_sock := true |}).
Proof. intros s id16 peer p H1 H2 H3 H4 H5. apply unwrap_transparent. exact (conj H1 (conj H2 (conj H3 (conj H4 H5)))). Qed.
