(** C16_queue: data addressed to a peer without permission is held and handed to the base socket in the
    original order when the CreatePermission transaction is answered (success or error), after any number
    of 401/438 re-authentication rounds, or when it times out: an invariant of every run of the model. *)
From Coq Require Import ZArith List Bool Lia.
From Nice Require Import Timer.TimerModel Timer.TimerProofs.
From Nice Require Import Turn.TurnModel Turn.TurnBytes Turn.WrapProofs Turn.FaultProofs.
Import ListNotations.
Local Open Scope Z_scope.

(** * Per-peer queues *)
Definition has_key (q : list (addr * list bytes)) (a : addr) : bool := existsb (fun x => addr_eqb (fst x) a) q.
Fixpoint wfq (q : list (addr * list bytes)) : Prop :=
  match q with [] => True | (a, _) :: q' => has_key q' a = false /\ wfq q' end.

Lemma q_get_nokey q a : has_key q a = false -> q_get q a = [].
Proof.
  induction q as [|[a' l] q IH]; [reflexivity|]. cbn [has_key existsb fst q_get].
  intros H. apply orb_false_iff in H as [H1 H2]. rewrite H1. apply IH. exact H2.
Qed.
Lemma q_get_push q a d X : q_get (q_push q a d) X = if addr_eqb a X then q_get q X ++ [d] else q_get q X.
Proof.
  induction q as [|[a' l] q IH]; cbn [q_push q_get].
  - destruct (addr_eqb a X); reflexivity.
  - destruct (addr_eqb a' a) eqn:E1; cbn [q_get].
    + apply addr_eqb_eq in E1. subst a'. destruct (addr_eqb a X); reflexivity.
    + destruct (addr_eqb a' X) eqn:E2; [|exact IH].
      apply addr_eqb_eq in E2. subst a'. rewrite addr_eqb_sym, E1. reflexivity.
Qed.
Lemma has_key_push q a d X : has_key (q_push q a d) X = has_key q X || addr_eqb a X.
Proof.
  induction q as [|[a' l] q IH]; cbn [q_push has_key existsb fst].
  - rewrite orb_false_r. reflexivity.
  - destruct (addr_eqb a' a) eqn:E1; cbn [has_key existsb fst].
    + apply addr_eqb_eq in E1. subst a'. destruct (addr_eqb a X); [reflexivity | rewrite orb_false_r; reflexivity].
    + fold (has_key (q_push q a d) X). fold (has_key q X). rewrite IH. rewrite orb_assoc. reflexivity.
Qed.
Lemma wfq_push q a d : wfq q -> wfq (q_push q a d).
Proof.
  induction q as [|[a' l] q IH]; cbn [q_push wfq]; [auto|].
  intros [H1 H2]. destruct (addr_eqb a' a) eqn:E; cbn [wfq]; [auto|].
  split; [|apply IH; exact H2]. rewrite has_key_push, H1. cbn [orb]. rewrite addr_eqb_sym. exact E.
Qed.
Lemma q_get_del q a X : wfq q -> q_get (q_del q a) X = if addr_eqb a X then [] else q_get q X.
Proof.
  induction q as [|[a' l] q IH]; cbn [q_del q_get wfq]; [destruct (addr_eqb a X); reflexivity|].
  intros [H1 H2]. destruct (addr_eqb a' a) eqn:E1.
  - apply addr_eqb_eq in E1. subst a'. destruct (addr_eqb a X) eqn:E2.
    + apply addr_eqb_eq in E2. subst X. apply q_get_nokey. exact H1.
    + reflexivity.
  - cbn [q_get]. destruct (addr_eqb a' X) eqn:E2.
    + apply addr_eqb_eq in E2. subst a'. rewrite addr_eqb_sym, E1. reflexivity.
    + apply IH. exact H2.
Qed.
Lemma has_key_del q a X : has_key (q_del q a) X = true -> has_key q X = true.
Proof.
  induction q as [|[a' l] q IH]; cbn [q_del]; [auto|].
  destruct (addr_eqb a' a).
  - intros H. unfold has_key in *. cbn [existsb fst]. rewrite H. apply orb_true_r.
  - unfold has_key in *. cbn [existsb fst]. intros H. apply orb_true_iff in H as [H|H]; [rewrite H; reflexivity|].
    rewrite (IH H). apply orb_true_r.
Qed.
Lemma wfq_del q a : wfq q -> wfq (q_del q a).
Proof.
  induction q as [|[a' l] q IH]; cbn [q_del wfq]; [auto|].
  intros [H1 H2]. destruct (addr_eqb a' a); cbn [wfq]; [exact H2|].
  split; [|apply IH; exact H2].
  destruct (has_key (q_del q a) a') eqn:E; [|reflexivity]. apply has_key_del in E. rewrite E in H1. discriminate.
Qed.

(** * What a peer's relay-side observer sees in a batch of datagrams *)
Definition data_for (X : addr) (o : list out) : list bytes :=
  flat_map (fun x => match o_tag x with TData p => if addr_eqb p X then [o_bytes x] else [] | TCtl => [] end) o.
Lemma data_for_app X o1 o2 : data_for X (o1 ++ o2) = data_for X o1 ++ data_for X o2.
Proof. unfold data_for. apply flat_map_app. Qed.
Lemma data_for_flush s a l X : data_for X (map (fun d => to_server s d (TData a)) l) = if addr_eqb a X then l else [].
Proof.
  induction l as [|d l IH]; cbn [map data_for flat_map]; [destruct (addr_eqb a X); reflexivity|].
  unfold to_server at 1. cbn [o_tag o_bytes]. fold (data_for X (map (fun d => to_server s d (TData a)) l)). rewrite IH.
  destruct (addr_eqb a X); reflexivity.
Qed.

(** * The invariant *)
Definition peers (l : list pmsg) : list addr := map pm_peer l.
Record Inv (s : state) : Prop := {
  inv_wfq : wfq (queues s);
  inv_perm_empty : forall X, in_list (permissions s) X = true -> q_get (queues s) X = [];
  inv_held_sent : forall X, q_get (queues s) X <> [] -> in_list (sent_permissions s) X = true;
  inv_sent_pending : forall X, in_list (sent_permissions s) X = true -> In X (peers (pending_permissions s));
  inv_pending_sent : forall X, In X (peers (pending_permissions s)) -> in_list (sent_permissions s) X = true;
  inv_pending_nodup : NoDup (peers (pending_permissions s))
}.
(* nothing is dropped, duplicated or reordered by a transition that emits [o] *)
Definition qframe (s s' : state) (o : list out) : Prop :=
  forall X, data_for X o ++ q_get (queues s') X = q_get (queues s) X.
Lemma qframe_refl s : qframe s s [].
Proof. intros X. reflexivity. Qed.
Lemma qframe_trans s1 s2 s3 o1 o2 : qframe s1 s2 o1 -> qframe s2 s3 o2 -> qframe s1 s3 (o1 ++ o2).
Proof. intros H1 H2 X. rewrite data_for_app, <- app_assoc, H2, H1. reflexivity. Qed.
Lemma qframe_same s s' : queues s' = queues s -> qframe s s' [].
Proof. intros H X. rewrite H. reflexivity. Qed.

Lemma in_list_In l X : in_list l X = true <-> In X l.
Proof.
  unfold in_list. rewrite existsb_exists. split.
  - intros (a & H1 & H2). apply addr_eqb_eq in H2. subst. exact H1.
  - intros H. exists X. split; [exact H | apply addr_eqb_refl].
Qed.
Lemma in_list_app l1 l2 X : in_list (l1 ++ l2) X = in_list l1 X || in_list l2 X.
Proof. unfold in_list. apply existsb_app. Qed.
Lemma in_list_filter_ne l a X : in_list (filter (fun y => negb (addr_eqb y a)) l) X = in_list l X && negb (addr_eqb X a).
Proof.
  unfold in_list. induction l as [|y l IH]; [reflexivity|]. cbn [filter existsb].
  destruct (addr_eqb y a) eqn:E; cbn [negb existsb]; rewrite IH.
  - apply addr_eqb_eq in E. subst y. destruct (addr_eqb X a); cbn [negb orb]; [rewrite andb_false_r; reflexivity | reflexivity].
  - destruct (addr_eqb X y) eqn:E2; cbn [orb]; [|reflexivity].
    apply addr_eqb_eq in E2. subst y. rewrite E. reflexivity.
Qed.

(** * Flushing a peer's queue: the end of a CreatePermission transaction *)
Lemma peers_app l1 l2 : peers (l1 ++ l2) = peers l1 ++ peers l2.
Proof. unfold peers. apply map_app. Qed.
Lemma NoDup_remove_mid {A} (l1 l2 : list A) x : NoDup (l1 ++ x :: l2) -> NoDup (l1 ++ l2) /\ ~ In x (l1 ++ l2).
Proof. apply NoDup_remove. Qed.

Lemma flush_inv s s' sx p before after o :
  Inv s -> pending_permissions s = before ++ p :: after ->
  queues s' = q_del (queues s) (pm_peer p) ->
  permissions s' = permissions s ++ [pm_peer p] ->
  sent_permissions s' = filter (fun a => negb (addr_eqb a (pm_peer p))) (sent_permissions s) ->
  pending_permissions s' = before ++ after ->
  o = map (fun d => to_server sx d (TData (pm_peer p))) (q_get (queues s) (pm_peer p)) ->
  Inv s' /\ qframe s s' o.
Proof.
  intros HI Hpp Hq Hperm Hsent Hpp' Ho.
  destruct HI as [Hwf Hpe Hhs Hsp Hps Hnd].
  rewrite Hpp in Hsp, Hps, Hnd. rewrite peers_app in Hsp, Hps, Hnd. cbn [peers map] in Hsp, Hps, Hnd. fold (peers after) in Hsp, Hps, Hnd.
  destruct (NoDup_remove_mid _ _ _ Hnd) as [Hnd' Hnotin].
  split.
  - constructor.
    + rewrite Hq. apply wfq_del. exact Hwf.
    + intros X HX. rewrite Hq, q_get_del by exact Hwf. rewrite Hperm, in_list_app in HX.
      destruct (addr_eqb (pm_peer p) X) eqn:E; [reflexivity|].
      apply orb_true_iff in HX as [HX|HX]; [apply Hpe; exact HX|].
      unfold in_list in HX. cbn [existsb] in HX. rewrite orb_false_r in HX. rewrite addr_eqb_sym, E in HX. discriminate.
    + intros X HX. rewrite Hq, q_get_del in HX by exact Hwf. rewrite Hsent, in_list_filter_ne.
      destruct (addr_eqb (pm_peer p) X) eqn:E; [contradiction|].
      rewrite (Hhs X HX). rewrite addr_eqb_sym, E. reflexivity.
    + intros X HX. rewrite Hsent, in_list_filter_ne in HX. apply andb_true_iff in HX as [H1 H2].
      rewrite Hpp', peers_app. specialize (Hsp X H1). apply in_app_or in Hsp. apply in_or_app.
      destruct Hsp as [H|[H|H]]; auto. subst X. rewrite addr_eqb_refl in H2. discriminate.
    + intros X HX. rewrite Hpp', peers_app in HX. rewrite Hsent, in_list_filter_ne.
      assert (HX2 : In X (peers before ++ pm_peer p :: peers after)) by (apply in_app_or in HX; apply in_or_app; destruct HX; [left | right; right]; assumption).
      rewrite (Hps X HX2). cbn [andb].
      destruct (addr_eqb X (pm_peer p)) eqn:E; [|reflexivity]. apply addr_eqb_eq in E. subst X. contradiction.
    + rewrite Hpp', peers_app. exact Hnd'.
  - intros X. rewrite Ho, data_for_flush, Hq, q_get_del by exact Hwf.
    destruct (addr_eqb (pm_peer p) X) eqn:E; [|reflexivity].
    apply addr_eqb_eq in E. subst X. apply app_nil_r.
Qed.

Lemma cp_done_good s before after p isr s' o :
  Inv s -> pending_permissions s = before ++ p :: after -> cp_done s before after p isr = (s', o) ->
  Inv s' /\ qframe s s' o /\ q_get (queues s') (pm_peer p) = [] /\ in_list (permissions s') (pm_peer p) = true /\
  cf s' = cf s /\ now s' = now s.
Proof.
  intros HI Hpp H. unfold cp_done, dequeue_all in H.
  set (s1 := set_sperms s _) in H. set (s2 := set_perms s1 _) in H.
  set (s3 := if _ && _ then _ else s2) in H.
  assert (E3 : queues s3 = queues s /\ permissions s3 = permissions s ++ [pm_peer p] /\
               sent_permissions s3 = filter (fun a => negb (addr_eqb a (pm_peer p))) (sent_permissions s) /\
               cf s3 = cf s /\ now s3 = now s).
  { unfold s3. destruct (_ && _); [destruct (new_src s2 _) eqn:En; unfold new_src in En; inversion En; subst|]; repeat split. }
  destruct E3 as (Eq & Ep & Es & Ec & En).
  inversion H; subst s' o. clear H.
  destruct (flush_inv s (set_pp (set_queues s3 (q_del (queues s3) (pm_peer p))) (before ++ after)) s3 p before after
              (map (fun d => to_server s3 d (TData (pm_peer p))) (q_get (queues s3) (pm_peer p))) HI Hpp) as [HI' Hf];
    cbn [queues permissions sent_permissions pending_permissions set_pp set_queues]; try assumption; try reflexivity.
  - rewrite Eq. reflexivity.
  - rewrite Eq. reflexivity.
  - split; [exact HI'|]. split; [exact Hf|]. cbn [queues set_pp set_queues permissions cf now].
    split; [rewrite Eq, q_get_del by (apply (inv_wfq _ HI)); rewrite addr_eqb_refl; reflexivity|].
    split; [rewrite Ep, in_list_app; apply orb_true_iff; right; unfold in_list; cbn [existsb]; rewrite addr_eqb_refl; reflexivity|].
    split; assumption.
Qed.

(** * The retransmission tick over the pending CreatePermission requests *)
Definition DuePeer (s : state) (Y : addr) : Prop :=
  exists pm, In pm (pending_permissions s) /\ pm_peer pm = Y /\ (0 <? pm_remainder s pm) = false.
Lemma pm_remainder_now s s' pm : now s' = now s -> pm_remainder s' pm = pm_remainder s pm.
Proof. intros H. unfold pm_remainder. rewrite H. reflexivity. Qed.

Lemma nth_error_split' {A} (l : list A) i x : nth_error l i = Some x -> l = firstn i l ++ x :: skipn (S i) l.
Proof.
  revert l. induction i as [|i IH]; intros [|y l] H; try discriminate.
  - inversion H. reflexivity.
  - cbn [firstn skipn app]. f_equal. apply IH. exact H.
Qed.

Lemma Inv_same_fields s s' : queues s' = queues s -> permissions s' = permissions s -> sent_permissions s' = sent_permissions s ->
  peers (pending_permissions s') = peers (pending_permissions s) -> Inv s -> Inv s'.
Proof.
  intros Hq Hp Hs Hpp [H1 H2 H3 H4 H5 H6]. constructor; rewrite ?Hq, ?Hp, ?Hs, ?Hpp; assumption.
Qed.

Ltac split5 := split; [|split; [|split; [|split]]].
Ltac split6 := split; [|split; [|split; [|split; [|split]]]].
Ltac split7 := split; [|split; [|split; [|split; [|split; [|split]]]]].

Lemma cp_tick_one_good s before after p s1 o1 :
  pending_permissions s = before ++ p :: after -> cp_tick_one s before after p = (s1, o1) ->
  (Inv s -> Inv s1 /\ qframe s s1 o1) /\ cf s1 = cf s /\ now s1 = now s /\
  (forall Y, in_list (permissions s1) Y = true -> in_list (permissions s) Y = true \/ Y = pm_peer p) /\
  (forall pm, In pm (pending_permissions s1) -> In pm (before ++ after) \/ pm_peer pm = pm_peer p) /\
  (forall Y, in_list (sent_permissions s) Y = true -> in_list (sent_permissions s1) Y = true \/ Y = pm_peer p).
Proof.
  intros Hpp H. unfold cp_tick_one in H.
  destruct (refresh (pm_timer p) (tv_of (now s))) as [t' [| |]].
  - (* SUCCESS *) inversion H; subst. split6; auto.
    + intros HI. split; [exact HI | apply qframe_refl].
    + intros pm Hin. rewrite Hpp in Hin. apply in_app_or in Hin. destruct Hin as [Hin|[<-|Hin]]; [left; apply in_or_app; auto | right; reflexivity | left; apply in_or_app; auto].
  - (* RETRANSMIT *) inversion H; subst. clear H. split6; auto.
    + intros HI. split.
      * revert HI. apply Inv_same_fields; try reflexivity. cbn [pending_permissions set_pp]. rewrite Hpp, !peers_app. reflexivity.
      * intros X. reflexivity.
    + cbn [pending_permissions set_pp]. intros pm Hin. apply in_app_or in Hin. destruct Hin as [Hin|[<-|Hin]]; [left; apply in_or_app; auto | right; reflexivity | left; apply in_or_app; auto].
  - (* TIMEOUT *) unfold dequeue_all in H. inversion H; subst s1 o1. clear H.
    cbn [queues permissions sent_permissions pending_permissions cf now set_ids set_sperms set_pp set_perms set_queues].
    split6; auto.
    + intros HI. eapply (flush_inv s _ _ p before after); try eassumption; try reflexivity.
    + intros Y HY. rewrite in_list_app in HY. apply orb_true_iff in HY as [HY|HY]; [left; exact HY|].
      right. unfold in_list in HY. cbn [existsb] in HY. rewrite orb_false_r in HY. apply addr_eqb_eq in HY. exact HY.
    + intros Y HY. rewrite in_list_filter_ne, HY. cbn [andb]. destruct (addr_eqb Y (pm_peer p)) eqn:E; [right; apply addr_eqb_eq; exact E | left; reflexivity].
Qed.

Lemma cp_loop_good : forall fuel s i m s' o m',
  cp_loop fuel s i m = (s', o, m') ->
  (Inv s -> Inv s' /\ qframe s s' o) /\ cf s' = cf s /\ now s' = now s /\
  (forall Y, in_list (permissions s') Y = true -> in_list (permissions s) Y = true \/ DuePeer s Y) /\
  (forall Y, DuePeer s' Y -> DuePeer s Y) /\
  (forall Y, In Y (peers (pending_permissions s')) -> In Y (peers (pending_permissions s))) /\
  (forall Y, in_list (sent_permissions s) Y = true -> in_list (sent_permissions s') Y = true \/ DuePeer s Y).
Proof.
  induction fuel as [|fuel IH]; intros s i m s' o m' H.
  - inversion H; subst. split7; auto. intros HI; split; [exact HI | apply qframe_refl].
  - cbn [cp_loop] in H. destruct (nth_error (pending_permissions s) i) as [p|] eqn:En.
    2:{ inversion H; subst. split7; auto. intros HI; split; [exact HI | apply qframe_refl]. }
    destruct (0 <? pm_remainder s p) eqn:Er; [apply (IH _ _ _ _ _ _ H)|].
    destruct (cp_tick_one s (firstn i (pending_permissions s)) (skipn (S i) (pending_permissions s)) p) as [s1 o1] eqn:Et.
    destruct (cp_loop fuel s1 i m) as [[s2 o2] m2] eqn:El. inversion H; subst s' o m'. clear H.
    pose proof (nth_error_split' _ _ _ En) as Hsplit.
    destruct (cp_tick_one_good s _ _ p s1 o1 Hsplit Et) as (G1 & Gc1 & Gn1 & Gp1 & Gpp1 & Gs1).
    destruct (IH _ _ _ _ _ _ El) as (G2 & Gc2 & Gn2 & Gp2 & Gd2 & Gpe2 & Gs2).
    assert (Hdue1 : forall Y, DuePeer s1 Y -> DuePeer s Y).
    { intros Y (pm & Hin & Hpe & Hr). destruct (Gpp1 pm Hin) as [Hin'|Hsame].
      - exists pm. split; [rewrite Hsplit; apply in_app_or in Hin'; apply in_or_app; destruct Hin'; [left | right; right]; assumption|].
        split; [exact Hpe|]. rewrite <- (pm_remainder_now s s1 pm Gn1). exact Hr.
      - exists p. split; [apply nth_error_In in En; exact En|]. split; [rewrite <- Hpe; symmetry; exact Hsame | exact Er]. }
    assert (Hp_due : DuePeer s (pm_peer p)) by (exists p; split; [apply nth_error_In in En; exact En | split; [reflexivity | exact Er]]).
    split; [|split; [congruence | split; [congruence | split; [|split; [|split]]]]].
    + intros HI. destruct (G1 HI) as [HI1 F1]. destruct (G2 HI1) as [HI2 F2]. split; [exact HI2 | apply (qframe_trans _ _ _ _ _ F1 F2)].
    + intros Y HY. destruct (Gp2 Y HY) as [HY1|HY1]; [|right; apply Hdue1; exact HY1].
      destruct (Gp1 Y HY1) as [HY0| ->]; [left; exact HY0 | right; exact Hp_due].
    + intros Y HY. apply Hdue1. apply Gd2. exact HY.
    + intros Y HY. specialize (Gpe2 Y HY). unfold peers in Gpe2. apply in_map_iff in Gpe2 as (pm & Hpe & Hin).
      destruct (Gpp1 pm Hin) as [Hin'|Hsame].
      * unfold peers. apply in_map_iff. exists pm. split; [exact Hpe|]. rewrite Hsplit. apply in_app_or in Hin'. apply in_or_app. destruct Hin'; [left | right; right]; assumption.
      * unfold peers. apply in_map_iff. exists p. split; [congruence | apply nth_error_In in En; exact En].
    + intros Y HY. destruct (Gs1 Y HY) as [HY1| ->]; [|right; exact Hp_due].
      destruct (Gs2 Y HY1) as [HY2|HY2]; [left; exact HY2 | right; apply Hdue1; exact HY2].
Qed.

Definition tick_facts (s s' : state) (o : list out) : Prop :=
  (Inv s -> Inv s' /\ qframe s s' o) /\ cf s' = cf s /\ now s' = now s /\
  (forall Y, in_list (permissions s') Y = true -> in_list (permissions s) Y = true \/ DuePeer s Y) /\
  (forall Y, In Y (peers (pending_permissions s')) -> In Y (peers (pending_permissions s))) /\
  (forall Y, in_list (sent_permissions s) Y = true -> in_list (sent_permissions s') Y = true \/ DuePeer s Y).

Lemma schedule_tick_good s s' o : schedule_tick s = (s', o) -> tick_facts s s' o.
Proof.
  unfold schedule_tick, tick_facts. intros H.
  destruct (cp_loop _ (set_tick s None) 0 None) as [[s1 o1] m] eqn:El.
  destruct (cp_loop_good _ _ _ _ _ _ _ El) as (G & Gc & Gn & Gp & Gd & Gpe & Gs).
  cbn [cf now set_tick] in Gc, Gn.
  assert (HI0 : Inv s -> Inv (set_tick s None)) by (apply Inv_same_fields; reflexivity).
  assert (Hfin : forall sf, (queues sf = queues s1 /\ permissions sf = permissions s1 /\ sent_permissions sf = sent_permissions s1 /\
                             pending_permissions sf = pending_permissions s1 /\ cf sf = cf s1 /\ now sf = now s1) -> (sf, o1) = (s', o) ->
          tick_facts s s' o).
  { intros sf (E1 & E2 & E3 & E4 & E5 & E6) Heq. inversion Heq; subst sf o1. clear Heq. unfold tick_facts.
    split; [|split; [congruence | split; [congruence | split; [|split]]]].
    - intros HI. destruct (G (HI0 HI)) as [HI1 F1]. split.
      + apply (Inv_same_fields s1); try assumption. rewrite E4. reflexivity.
      + intros X. rewrite E1. apply F1.
    - intros Y HY. rewrite E2 in HY. destruct (Gp Y HY) as [H1|H1]; [left; exact H1 | right; exact H1].
    - intros Y HY. rewrite E4 in HY. apply Gpe. exact HY.
    - intros Y HY. rewrite E3. destruct (Gs Y HY) as [H1|H1]; [left; exact H1 | right; exact H1]. }
  destruct m as [r|].
  - destruct (new_src s1 (now s1 + r)) as [s2 sr] eqn:En. unfold new_src in En. inversion En; subst s2 sr.
    refine (Hfin _ _ H); repeat split.
  - refine (Hfin _ _ H); repeat split.
Qed.
Lemma schedule_tick_cb_good s s' o : schedule_tick_cb s = (s', o) -> tick_facts s s' o.
Proof.
  unfold schedule_tick_cb. intros H.
  destruct (current_binding_msg s); [|apply schedule_tick_good; exact H].
  destruct (schedule_tick_good _ _ _ H) as (G & Gc & Gn & Gp & Gpe & Gs).
  split; [|split; [exact Gc | split; [exact Gn | split; [exact Gp | split; [exact Gpe | exact Gs]]]]].
  intros HI. apply G. revert HI. apply Inv_same_fields; reflexivity.
Qed.

(** * A CreatePermission request just sent is not due at the same instant *)
Lemma fresh_timer_not_due ms : 0 <? remainder (timer_start (tv_of ms) 500 3) (tv_of ms) = true.
Proof.
  set (t := tv_of ms).
  assert (Hwf : wf_now t) by (unfold wf_now, t, tv_of; cbn [usec]; pose proof (Z.mod_pos_bound ms 1000 ltac:(lia)); lia).
  destruct (set_delay_spec t 500 Hwf ltac:(lia)) as [Hus Hdl].
  assert (Edl : deadline (timer_start t 500 3) = set_delay t 500) by reflexivity.
  assert (Hsec : sec (deadline (timer_start t 500 3)) - sec t < 4294967).
  { rewrite Edl. unfold us in Hus. unfold wf_dl in Hdl. unfold wf_now in Hwf. lia. }
  destruct (remainder_spec (timer_start t 500 3) t Hwf ltac:(rewrite Edl; exact Hdl) Hsec) as (_ & H2 & H3).
  cbv zeta in H2, H3. rewrite Edl, Hus in H2, H3.
  apply Z.ltb_lt. specialize (H3 ltac:(lia)). destruct (H2 ltac:(lia)) as [_ H4]. lia.
Qed.

(** * Sending a CreatePermission request *)
(* the invariant with one exception: [peer] may be registered as "permission requested" although no request
   for it is pending (the moment between dropping an unauthorized request and re-sending it) *)
Record InvX (s : state) (peer : addr) : Prop := {
  ix_wfq : wfq (queues s);
  ix_perm_empty : forall X, in_list (permissions s) X = true -> q_get (queues s) X = [];
  ix_held_sent : forall X, q_get (queues s) X <> [] -> in_list (sent_permissions s) X = true;
  ix_sent_pending : forall X, in_list (sent_permissions s) X = true -> X = peer \/ In X (peers (pending_permissions s));
  ix_pending_sent : forall X, In X (peers (pending_permissions s)) -> in_list (sent_permissions s) X = true;
  ix_pending_nodup : NoDup (peers (pending_permissions s));
  ix_fresh : ~ In peer (peers (pending_permissions s))
}.
Lemma Inv_InvX_fresh s peer : Inv s -> in_list (sent_permissions s) peer = false -> InvX s peer.
Proof.
  intros [H1 H2 H3 H4 H5 H6] Hns. constructor; auto.
  intros Hin. rewrite (H5 _ Hin) in Hns. discriminate.
Qed.
Lemma Inv_InvX_drop s before p after s1 :
  Inv s -> pending_permissions s = before ++ p :: after ->
  queues s1 = queues s -> permissions s1 = permissions s -> sent_permissions s1 = sent_permissions s ->
  pending_permissions s1 = before ++ after -> InvX s1 (pm_peer p).
Proof.
  intros [H1 H2 H3 H4 H5 H6] Hpp Eq Ep Es Epp.
  rewrite Hpp, peers_app in H4, H5, H6. cbn [peers map] in H4, H5, H6. fold (peers after) in H4, H5, H6.
  destruct (NoDup_remove_mid _ _ _ H6) as [Hnd Hni].
  constructor; rewrite ?Eq, ?Ep, ?Es, ?Epp, ?peers_app; auto.
  - intros X HX. specialize (H4 X HX). apply in_app_or in H4. destruct H4 as [H|[H|H]]; [right; apply in_or_app; auto | left; auto | right; apply in_or_app; auto].
  - intros X HX. apply H5. apply in_app_or in HX. apply in_or_app. destruct HX; [left | right; right]; assumption.
Qed.

Lemma NoDup_snoc {A} (l : list A) x : NoDup l -> ~ In x l -> NoDup (l ++ [x]).
Proof.
  induction l as [|y l IH]; intros Hn Hi; cbn [app]; [constructor; [intros [] | constructor]|].
  inversion Hn; subst. constructor.
  - intros H. apply in_app_or in H as [H|[H|[]]]; [contradiction | subst; apply Hi; left; reflexivity].
  - apply IH; [assumption | intros H; apply Hi; right; exact H].
Qed.
Lemma data_for_ctl X x o : o_tag x = TCtl -> data_for X (x :: o) = data_for X o.
Proof. intros H. unfold data_for. cbn [flat_map]. rewrite H. reflexivity. Qed.

Lemma scp_good s peer s' o :
  send_create_permission s peer = (s', o, true) -> InvX s peer ->
  Inv s' /\ qframe s s' o /\ cf s' = cf s /\ now s' = now s /\
  (in_list (permissions s) peer = false -> in_list (permissions s') peer = false) /\
  in_list (sent_permissions s') peer = true.
Proof.
  intros H HX. unfold send_create_permission in H.
  set (s1 := if in_list (sent_permissions s) peer then s else set_sperms s (sent_permissions s ++ [peer])) in H.
  set (s2 := set_tid s1 (next_tid s1 + 1)) in H.
  destruct (append_all _ _ _ _) as [m|]; [|discriminate H].
  destruct (finish _ _ _ _ m) as [[m' ids']|]; [|discriminate H].
  set (pm := {| pm_tid := s_id m'; pm_peer := peer; pm_bytes := serialize m'; pm_realm := cached_realm s2;
                pm_timer := timer_start (tv_of (now s2)) 500 3 |}) in H.
  set (s3 := set_pp (set_ids s2 ids') (pending_permissions s2 ++ [pm])) in H.
  destruct (schedule_tick_cb s3) as [s4 o4] eqn:Est. inversion H; subst s' o. clear H.
  destruct HX as [X1 X2 X3 X4 X5 X6 X7].
  assert (Es1 : queues s1 = queues s /\ permissions s1 = permissions s /\ pending_permissions s1 = pending_permissions s /\
                cf s1 = cf s /\ now s1 = now s /\
                (forall X, in_list (sent_permissions s1) X = in_list (sent_permissions s) X || addr_eqb X peer)).
  { unfold s1. destruct (in_list (sent_permissions s) peer) eqn:E.
    - repeat split. intros X. destruct (addr_eqb X peer) eqn:E2; [apply addr_eqb_eq in E2; subst; rewrite E; reflexivity | rewrite orb_false_r; reflexivity].
    - repeat split. intros X. cbn [sent_permissions set_sperms]. rewrite in_list_app. f_equal. unfold in_list. cbn [existsb]. apply orb_false_r. }
  destruct Es1 as (Eq & Ep & Epp & Ec & En & Esent).
  assert (HI3 : Inv s3).
  { unfold s3, s2. constructor; cbn [queues permissions sent_permissions pending_permissions set_pp set_ids set_tid]; rewrite ?Eq, ?Ep, ?Epp; auto.
    - intros X HXq. rewrite Esent, (X3 X HXq). reflexivity.
    - intros X HXs. rewrite Esent in HXs. rewrite peers_app. apply in_or_app. apply orb_true_iff in HXs as [HXs|HXs].
      + destruct (X4 X HXs) as [->|Hin]; [right; left; reflexivity | left; exact Hin].
      + apply addr_eqb_eq in HXs. subst X. right. left. reflexivity.
    - intros X HXp. rewrite Esent. rewrite peers_app in HXp. apply in_app_or in HXp as [Hin|[<-|[]]].
      + rewrite (X5 X Hin). reflexivity.
      + cbn [pm_peer pm]. rewrite addr_eqb_refl. apply orb_true_r.
    - rewrite peers_app. cbn [peers map pm_peer pm]. apply NoDup_snoc; [exact X6 | exact X7]. }
  destruct (schedule_tick_cb_good s3 s4 o4 Est) as (G & Gc & Gn & Gp & Gpe & Gs).
  destruct (G HI3) as [HI4 F4].
  assert (Hnotdue : ~ DuePeer s3 peer).
  { intros (q & Hin & Hpe & Hr). unfold s3, s2 in Hin. cbn [pending_permissions set_pp set_ids set_tid] in Hin. rewrite Epp in Hin.
    apply in_app_or in Hin as [Hin|[<-|[]]].
    - apply X7. unfold peers. apply in_map_iff. exists q. auto.
    - unfold pm_remainder, pm in Hr. cbn [pm_timer] in Hr.
      replace (now s3) with (now s2) in Hr by reflexivity. rewrite fresh_timer_not_due in Hr. discriminate. }
  split; [exact HI4|]. split; [|split; [|split; [|split]]].
  - intros X. rewrite data_for_ctl by reflexivity. rewrite (F4 X). unfold s3, s2. cbn [queues set_pp set_ids set_tid]. rewrite Eq. reflexivity.
  - rewrite Gc. unfold s3, s2. cbn [cf set_pp set_ids set_tid]. exact Ec.
  - rewrite Gn. unfold s3, s2. cbn [now set_pp set_ids set_tid]. exact En.
  - intros Hnp. destruct (in_list (permissions s4) peer) eqn:E4; [|reflexivity]. exfalso.
    destruct (Gp peer E4) as [H3|H3].
    + unfold s3, s2 in H3. cbn [permissions set_pp set_ids set_tid] in H3. rewrite Ep, Hnp in H3. discriminate.
    + apply Hnotdue. exact H3.
  - assert (Hs3 : in_list (sent_permissions s3) peer = true)
      by (unfold s3, s2; cbn [sent_permissions set_pp set_ids set_tid]; rewrite Esent, addr_eqb_refl; apply orb_true_r).
    destruct (Gs peer Hs3) as [H3|H3]; [exact H3 | exfalso; apply Hnotdue; exact H3].
Qed.

(* the only way the invariant can break: a CreatePermission request could not be built (the agent's table of
   200 outstanding transactions is full), which leaves the peer registered without a pending request *)
Definition sent_pending_ok (s : state) : Prop :=
  forall X, in_list (sent_permissions s) X = true -> In X (peers (pending_permissions s)).
Lemma scp_failed s peer s' o : send_create_permission s peer = (s', o, false) -> InvX s peer -> ~ sent_pending_ok s'.
Proof.
  intros H HX Hok. unfold send_create_permission in H.
  set (s1 := if in_list (sent_permissions s) peer then s else set_sperms s (sent_permissions s ++ [peer])) in H.
  assert (Hs1 : in_list (sent_permissions s1) peer = true /\ pending_permissions s1 = pending_permissions s).
  { unfold s1. destruct (in_list (sent_permissions s) peer) eqn:E; [auto|]. split; [|reflexivity].
    cbn [sent_permissions set_sperms]. rewrite in_list_app. apply orb_true_iff. right. unfold in_list. cbn [existsb]. rewrite addr_eqb_refl. reflexivity. }
  destruct Hs1 as [Hin Hpp].
  assert (Hbad : forall sx, sent_permissions sx = sent_permissions s1 -> pending_permissions sx = pending_permissions s1 -> sent_pending_ok sx -> False).
  { intros sx E1 E2 Hk. apply (ix_fresh _ _ HX). rewrite <- Hpp, <- E2. apply Hk. rewrite E1. exact Hin. }
  destruct (append_all _ _ _ _) as [m|]; [|inversion H; subst; apply (Hbad _ eq_refl eq_refl Hok)].
  destruct (finish _ _ _ _ m) as [[m' ids']|]; [|inversion H; subst; apply (Hbad _ eq_refl eq_refl Hok)].
  destruct (schedule_tick_cb _) as [s4 o4]. discriminate H.
Qed.

(** * The channel-binding machinery leaves the queues alone *)
Definition good (s s' : state) (o : list out) : Prop :=
  (Inv s -> Inv s' /\ qframe s s' o) /\ cf s' = cf s /\ now s' = now s.
Lemma good_refl s : good s s [].
Proof. split; [intros H; split; [exact H | apply qframe_refl] | split; reflexivity]. Qed.
Lemma good_trans s1 s2 s3 o1 o2 : good s1 s2 o1 -> good s2 s3 o2 -> good s1 s3 (o1 ++ o2).
Proof.
  intros (G1 & C1 & N1) (G2 & C2 & N2). split; [|split; congruence].
  intros HI. destruct (G1 HI) as [HI2 F1]. destruct (G2 HI2) as [HI3 F2]. split; [exact HI3 | apply (qframe_trans _ _ _ _ _ F1 F2)].
Qed.
Lemma good_fields s s' : queues s' = queues s -> permissions s' = permissions s -> sent_permissions s' = sent_permissions s ->
  pending_permissions s' = pending_permissions s -> cf s' = cf s -> now s' = now s -> good s s' [].
Proof.
  intros E1 E2 E3 E4 E5 E6. split; [|split; assumption].
  intros HI. split; [revert HI; apply Inv_same_fields; try assumption; rewrite E4; reflexivity | apply qframe_same; exact E1].
Qed.
Lemma good_ctl s s' x o : o_tag x = TCtl -> good s s' o -> good s s' (x :: o).
Proof.
  intros Hx (G & C & N). split; [|split; assumption]. intros HI. destruct (G HI) as [HI' F]. split; [exact HI'|].
  intros X. rewrite data_for_ctl by exact Hx. apply F.
Qed.
Lemma schedule_tick_cb_good' s s' o : schedule_tick_cb s = (s', o) -> good s s' o.
Proof. intros H. destruct (schedule_tick_cb_good s s' o H) as (G & C & N & _). split; [exact G | split; assumption]. Qed.

Lemma send_channel_bind_good s ch peer s' o ok : send_channel_bind s ch peer = (s', o, ok) -> good s s' o.
Proof.
  unfold send_channel_bind. intros H.
  destruct (append_all _ _ _ _) as [m|]; [|inversion H; subst; apply good_fields; reflexivity].
  destruct (finish _ _ _ _ m) as [[m' ids']|]; [|inversion H; subst; apply good_fields; reflexivity].
  destruct (schedule_tick_cb _) as [s3 o3] eqn:E. inversion H; subst. clear H.
  apply good_ctl; [reflexivity|].
  apply schedule_tick_cb_good' in E. destruct E as (G & C & N). split; [|split; [rewrite C | rewrite N]; reflexivity].
  intros HI. apply G. revert HI. apply Inv_same_fields; reflexivity.
Qed.

Lemma google_or_not (c : compat) : c = GOOGLE \/ (forall (T : Type) (a b : T), match c with GOOGLE => a | _ => b end = b).
Proof. destruct c; auto. Qed.

Lemma add_channel_binding_good s peer s' o ok : add_channel_binding s peer = (s', o, ok) -> good s s' o.
Proof.
  unfold add_channel_binding. intros H.
  destruct (current_binding s); [inversion H; subst; apply good_fields; reflexivity|].
  destruct (is_rfc _).
  - destruct (_ && _); [|inversion H; subst; apply good_refl].
    destruct (send_channel_bind s _ peer) as [[s1 o1] ok1] eqn:E. apply send_channel_bind_good in E.
    destruct ok1; inversion H; subst; [|exact E].
    destruct E as (G & C & N). split; [|split; assumption]. intros HI. destruct (G HI) as [HI1 F1].
    split; [revert HI1; apply Inv_same_fields; reflexivity | exact F1].
  - destruct (google_or_not (c_compat (cf s))) as [Ec | Ec].
    + rewrite Ec in H. inversion H; subst; apply good_fields; reflexivity.
    + rewrite Ec in H. clear Ec.
      match type of H with context [if ?c then set_ms ?a ?b ?d ?e else ?f] => set (s2 := if c then set_ms a b d e else f) in H end.
      assert (Hs2 : queues s2 = queues s /\ permissions s2 = permissions s /\ sent_permissions s2 = sent_permissions s /\
                    pending_permissions s2 = pending_permissions s /\ cf s2 = cf s /\ now s2 = now s)
        by (unfold s2; match goal with |- context [if ?c then _ else _] => destruct c end; repeat split).
      destruct Hs2 as (Q1 & Q2 & Q3 & Q4 & Q5 & Q6).
      match type of H with context [append_all ?c ?cap ?m ?l] => destruct (append_all c cap m l) as [m2|] end;
        [|inversion H; subst; apply good_fields; reflexivity].
      match type of H with context [append_all ?c ?cap m2 ?l] => destruct (append_all c cap m2 l) as [m4|] end;
        [|inversion H; subst; apply good_fields; assumption].
      match type of H with context [finish ?a ?b ?c ?d m4] => destruct (finish a b c d m4) as [[m' ids']|] end;
        [|inversion H; subst; apply good_fields; assumption].
      match type of H with context [schedule_tick_cb ?x] => destruct (schedule_tick_cb x) as [s4 o4] eqn:E end.
      inversion H; subst; clear H. apply good_ctl; [reflexivity|].
      apply schedule_tick_cb_good' in E. destruct E as (G & C & N).
      split; [| split; [rewrite C | rewrite N]; cbn [cf now set_cbm set_cb set_ids]; assumption].
      intros HI.
      destruct G as [HI' F].
      { revert HI; apply Inv_same_fields; cbn [queues permissions sent_permissions pending_permissions set_cbm set_cb set_ids]; try assumption; rewrite Q4; reflexivity. }
      split; [exact HI'|]. intros X. rewrite <- Q1. apply F.
Qed.

Lemma process_pending_bindings_good : forall fuel s s' o, process_pending_bindings fuel s = (s', o) -> good s s' o.
Proof.
  induction fuel as [|fuel IH]; intros s s' o H; [inversion H; subst; apply good_refl|].
  cbn [process_pending_bindings] in H. destruct (pending_bindings s) as [|peer rest]; [inversion H; subst; apply good_refl|].
  destruct (add_channel_binding s peer) as [[s1 o1] ok] eqn:E. apply add_channel_binding_good in E.
  set (s2 := set_pbind s1 _) in H.
  assert (G2 : good s s2 o1).
  { destruct E as (G & C & N). split; [|split; assumption]. intros HI. destruct (G HI) as [HI1 F1].
    split; [revert HI1; apply Inv_same_fields; reflexivity | exact F1]. }
  destruct ok; [inversion H; subst; exact G2|].
  destruct (process_pending_bindings fuel s2) as [s3 o3] eqn:E3. inversion H; subst. apply (good_trans _ _ _ _ _ G2 (IH _ _ _ E3)).
Qed.

Lemma lock_good s s' o : lock s = (s', o) -> good s s' o.
Proof.
  unfold lock. intros H. destruct (current_binding s); [|inversion H; subst; apply good_refl].
  apply process_pending_bindings_good in H. destruct H as (G & C & N). split; [|split; assumption].
  intros HI. apply G. revert HI. apply Inv_same_fields; reflexivity.
Qed.

(** * Receiving *)
Definition stepok (s s' : state) (o : list out) : Prop :=
  Inv s -> sent_pending_ok s' -> Inv s' /\ qframe s s' o /\ cf s' = cf s.
Lemma good_stepok s s' o : good s s' o -> stepok s s' o.
Proof. intros (G & C & _) HI _. destruct (G HI). auto. Qed.
Lemma stepok_pre s0 s s' o : queues s = queues s0 -> cf s = cf s0 -> (Inv s0 -> Inv s) -> stepok s s' o -> stepok s0 s' o.
Proof.
  intros Eq Ec Hi H HI Hok. destruct (H (Hi HI) Hok) as (HI' & F & C). split; [exact HI'|]. split; [|congruence]. intros X. rewrite <- Eq. apply F.
Qed.

Lemma split_pp_spec : forall l id acc bf p af, split_pp l id acc = Some (bf, p, af) -> rev acc ++ l = bf ++ p :: af.
Proof.
  induction l as [|x l IH]; intros id acc bf p af H; [discriminate|]. cbn [split_pp] in H.
  destruct (bytes_eqb (pm_tid x) id).
  - inversion H; subst. reflexivity.
  - apply IH in H. cbn [rev] in H. rewrite <- app_assoc in H. exact H.
Qed.

Lemma cache_realm_nonce_fields s b s1 : cache_realm_nonce s b = Ok s1 -> exists r n, s1 = set_cache s r n.
Proof.
  unfold cache_realm_nonce. intros H.
  destruct (find_attr _ b A_REALM) as [rr|]; [|discriminate]. cbn [bind] in H.
  match type of H with context [bind ?e _] => destruct e as [r|]; [|discriminate] end. cbn [bind] in H.
  destruct (find_attr _ b A_NONCE) as [nn|]; [|discriminate]. cbn [bind] in H.
  match type of H with context [bind ?e _] => destruct e as [n|]; [|discriminate] end. cbn [bind] in H.
  inversion H. eauto.
Qed.

Lemma recv_tail_same s from b s' o r : recv_tail s from b = Ok (s', o, r) -> s' = s /\ o = [].
Proof.
  unfold recv_tail, raw_up. intros H. destruct (is_rfc _).
  - revert H. induction (channels s) as [|bd l IH]; cbn [chan_scan]; unfold raw_up; intros H.
    + destruct (rd_range b 0 (blen b)); [|discriminate]. cbn [bind] in H. inversion H. auto.
    + destruct (4 <=? blen b); [|apply IH; exact H].
      destruct (rdw b 0); [|discriminate]. cbn [bind] in H. destruct (_ =? _); [|apply IH; exact H].
      destruct (rdw b 2) as [rl|]; [|discriminate]. cbn [bind] in H. destruct (rl <=? blen b - 4); [|apply IH; exact H].
      destruct (rd_range b 4 _); [|discriminate]. cbn [bind] in H. inversion H. auto.
  - destruct (rd_range b 0 (blen b)); [|discriminate]. cbn [bind] in H. inversion H. auto.
Qed.

Lemma recv_send_ok s b cl id s' o r : recv_send s b cl id = Ok (s', o, r) -> good s s' o.
Proof.
  unfold recv_send. intros H. destruct (cl =? C_RESPONSE); [|inversion H; subst; apply good_refl].
  destruct (remove_sreq _ _) as [rq found].
  set (s1 := if found then _ else s) in H.
  assert (G1 : good s s1 []) by (unfold s1; destruct found; apply good_fields; reflexivity).
  destruct (compat_eqb _ GOOGLE); [|inversion H; subst; exact G1].
  destruct (find32 _ b A_OPTIONS) as [ov|]; [|discriminate]. cbn [bind] in H.
  destruct ov as [v|]; [|inversion H; subst; exact G1]. destruct (Z.odd v); [|inversion H; subst; exact G1].
  destruct (lock s1) as [s2 o2] eqn:E. inversion H; subst. apply lock_good in E. apply (good_trans _ _ _ _ _ G1 E).
Qed.
Lemma recv_set_active_ok s cl id s' o r : recv_set_active s cl id = Ok (s', o, r) -> good s s' o.
Proof.
  unfold recv_set_active. intros H.
  destruct (current_binding s); [|inversion H; subst; apply good_refl].
  destruct (current_binding_msg s); [|inversion H; subst; apply good_refl].
  destruct (bytes_eqb _ _); [|inversion H; subst; apply good_refl].
  destruct (_ && _).
  - destruct (lock _) as [s2 o2] eqn:E. inversion H; subst. apply lock_good in E.
    apply (good_trans s (set_cbm s None) _ [] _); [apply good_fields; reflexivity | exact E].
  - inversion H; subst. apply good_fields; reflexivity.
Qed.
Lemma recv_channelbind_ok s b cl id s' o r : recv_channelbind s b cl id = Ok (s', o, r) -> good s s' o.
Proof.
  unfold recv_channelbind. intros H.
  destruct (current_binding_msg s) as [bm|]; [|inversion H; subst; apply good_refl].
  destruct (bytes_eqb _ _); [|inversion H; subst; apply good_refl].
  destruct (cl =? C_ERROR).
  - destruct (reauth _ b _) as [ra|]; [|discriminate]. cbn [bind] in H. destruct ra.
    + destruct (cache_realm_nonce (set_cbm s None) b) as [s1|] eqn:Ec; [|discriminate]. cbn [bind] in H.
      apply cache_realm_nonce_fields in Ec as (rr & nn & ->).
      assert (G1 : good s (set_cache (set_cbm s None) rr nn) []) by (apply good_fields; reflexivity).
      destruct (match current_binding s with Some x => Some x | None => _ end) as [x|].
      * destruct (send_channel_bind _ _ _) as [[s2 o2] ok] eqn:E. inversion H; subst. apply send_channel_bind_good in E.
        apply (good_trans _ _ _ _ _ G1 E).
      * inversion H; subst. exact G1.
    + destruct (process_pending_bindings _ _) as [s2 o2] eqn:E. inversion H; subst. apply process_pending_bindings_good in E.
      apply (good_trans s (set_cbm (set_cb s None) None) _ [] _); [apply good_fields; reflexivity | exact E].
  - destruct (cl =? C_RESPONSE); [|inversion H; subst; apply good_refl].
    destruct (process_pending_bindings _ _) as [s2 o2] eqn:E. inversion H; subst. apply process_pending_bindings_good in E.
    refine (good_trans s _ _ [] _ _ E). apply good_fields;
      destruct (current_binding (set_cbm s None)); destruct (match current_binding s with Some x => Some x | None => _ end); reflexivity.
Qed.

Lemma recv_createperm_ok s b cl id s' o r : recv_createperm s b cl id = Ok (s', o, r) -> stepok s s' o.
Proof.
  unfold recv_createperm. intros H.
  destruct (split_pp _ _ _) as [[[before pm] after]|] eqn:Esp; [|inversion H; subst; apply good_stepok, good_refl].
  apply split_pp_spec in Esp. cbn [rev app] in Esp.
  match type of H with context [bind ?e _] => destruct e as [ra|]; [|discriminate] end. cbn [bind] in H.
  destruct ra.
  - destruct (cache_realm_nonce (set_pp s (before ++ after)) b) as [s1|] eqn:Ec; [|discriminate]. cbn [bind] in H.
    apply cache_realm_nonce_fields in Ec as (rr & nn & ->).
    destruct (send_create_permission _ (pm_peer pm)) as [[s2 o2] ok] eqn:E. inversion H; subst. clear H.
    intros HI Hok.
    assert (HX : InvX (set_cache (set_pp s (before ++ after)) rr nn) (pm_peer pm)) by (apply (Inv_InvX_drop s before pm after); auto).
    destruct ok.
    + destruct (scp_good _ _ _ _ E HX) as (HI2 & F2 & C2 & _). split; [exact HI2 | split; [exact F2 | exact C2]].
    + exfalso. apply (scp_failed _ _ _ _ E HX Hok).
  - destruct (cp_done s before after pm _) as [s1 o1] eqn:E. inversion H; subst. intros HI _.
    destruct (cp_done_good _ _ _ _ _ _ _ HI Esp E) as (HI1 & F1 & _ & _ & C1 & _). split; [|split]; assumption.
Qed.

Lemma recv_data_ind_ok s from b s' o r : recv_data_ind s from b = Ok (s', o, r) -> stepok s s' o.
Proof.
  unfold recv_data_ind. intros H.
  assert (Htail : recv_tail s from b = Ok (s', o, r) -> stepok s s' o)
    by (intros Ht; apply recv_tail_same in Ht as [-> ->]; apply good_stepok, good_refl).
  match type of H with context [bind ?e _] => destruct e as [a|]; [|discriminate] end. cbn [bind] in H.
  destruct a as [peer|]; [|auto].
  destruct (find_attr _ b A_DATA) as [d|]; [|discriminate]. cbn [bind] in H.
  destruct d as [[off dl]|]; [|auto].
  destruct (rd_range b off _) as [data|]; [|discriminate]. cbn [bind] in H.
  destruct (compat_eqb _ RFC5766 && negb (in_list (permissions s) peer) && negb (in_list (sent_permissions s) peer)) eqn:Ec.
  - destruct (send_create_permission s peer) as [[s1 o1] ok] eqn:E. inversion H; subst. clear H.
    apply andb_true_iff in Ec as [Ec Es]. apply negb_true_iff in Es.
    intros HI Hok. pose proof (Inv_InvX_fresh s peer HI Es) as HX.
    destruct ok.
    + destruct (scp_good _ _ _ _ E HX) as (HI2 & F2 & C2 & _). split; [|split]; assumption.
    + exfalso. apply (scp_failed _ _ _ _ E HX Hok).
  - inversion H; subst. apply good_stepok, good_refl.
Qed.

Lemma recv_valid_ok s from b s' o r : recv_valid s from b = Ok (s', o, r) -> stepok s s' o.
Proof.
  unfold recv_valid. intros H.
  assert (Htail : recv_tail s from b = Ok (s', o, r) -> stepok s s' o)
    by (intros Ht; apply recv_tail_same in Ht as [-> ->]; apply good_stepok, good_refl).
  match type of H with context [bind ?e _] => destruct e as [ck|]; [|discriminate] end. cbn [bind] in H.
  destruct ck; cbn [negb] in H; [|auto].
  destruct (rdw b 0) as [t|]; [|discriminate]. cbn [bind] in H.
  destruct (rd_range b 4 16) as [id|]; [|discriminate]. cbn [bind] in H.
  destruct (_ =? M_SEND); [apply good_stepok; eapply recv_send_ok; exact H|].
  destruct (_ =? M_SET_ACTIVE); [apply good_stepok; eapply recv_set_active_ok; exact H|].
  destruct (_ =? M_CHANNELBIND); [apply good_stepok; eapply recv_channelbind_ok; exact H|].
  destruct (_ =? M_CREATEPERM); [eapply recv_createperm_ok; exact H|].
  destruct (_ && _); [eapply recv_data_ind_ok; exact H | auto].
Qed.

Lemma recv_ok s from b s' o r : recv s from b = Ok (s', o, r) -> stepok s s' o.
Proof.
  unfold recv. intros H.
  destruct (negb _); [apply recv_tail_same in H as [-> ->]; apply good_stepok, good_refl|].
  destruct (validate _ _ b) as [[st ids']|]; [|discriminate]. cbn [bind] in H.
  assert (Hpre : forall x, stepok (set_ids s ids') s' x -> stepok s s' x)
    by (intros x; apply stepok_pre; [reflexivity | reflexivity | apply Inv_same_fields; reflexivity]).
  destruct st; try (apply recv_tail_same in H as [-> ->]; apply Hpre, good_stepok, good_refl).
  apply Hpre. eapply recv_valid_ok. exact H.
Qed.

(** * Sending *)
Lemma wrap_fields s to p s1 w : wrap s to p = (s1, w) ->
  queues s1 = queues s /\ permissions s1 = permissions s /\ sent_permissions s1 = sent_permissions s /\
  pending_permissions s1 = pending_permissions s /\ cf s1 = cf s /\ now s1 = now s.
Proof.
  unfold wrap. intros H.
  destruct (find_binding _ _).
  - destruct (is_rfc _); [destruct (_ <=? _)|]; inversion H; subst; repeat split.
  - destruct (is_rfc _).
    + destruct (append_all _ _ _ _) as [m|]; [|inversion H; subst; repeat split].
      destruct (finish _ _ _ _ m) as [[m' ?]|]; inversion H; subst; repeat split.
    + destruct (append_all _ _ _ _) as [m5|]; [|inversion H; subst; repeat split].
      match type of H with context [if ?c then set_ms ?a ?b ?d ?e else ?f] => set (s2 := if c then set_ms a b d e else f) in H end.
      assert (Hs2 : queues s2 = queues s /\ permissions s2 = permissions s /\ sent_permissions s2 = sent_permissions s /\
                    pending_permissions s2 = pending_permissions s /\ cf s2 = cf s /\ now s2 = now s)
        by (unfold s2; match goal with |- context [if ?c then _ else _] => destruct c end; repeat split).
      destruct (append_all _ _ m5 _) as [m|]; [|inversion H; subst; exact Hs2].
      destruct (finish _ _ _ _ m) as [[m' ids']|]; [|inversion H; subst; exact Hs2].
      destruct (oc2007 _); inversion H; subst; cbn [queues permissions sent_permissions pending_permissions cf now set_ids set_sreqs set_src]; exact Hs2.
Qed.

Definition accepted_for (X : addr) (acc : list (addr * bytes)) : list bytes :=
  flat_map (fun x => if addr_eqb (fst x) X then [snd x] else []) acc.

Lemma wrap_raw_old s to p s1 b : wrap s to p = (s1, WRaw b) -> is_rfc (c_compat (cf s)) = false.
Proof.
  unfold wrap. intros H. destruct (find_binding _ _).
  - destruct (is_rfc _); [destruct (_ <=? _); discriminate H | reflexivity].
  - destruct (is_rfc _); [|reflexivity].
    destruct (append_all _ _ _ _) as [m|]; [|discriminate H]. destruct (finish _ _ _ _ m) as [[? ?]|]; discriminate H.
Qed.

(* only the RFC 5766 mode ever holds data back *)
Definition Q0 (s : state) : Prop := compat_eqb (c_compat (cf s)) RFC5766 = false -> forall X, q_get (queues s) X = [].
Lemma Q0_frame s s' o : Q0 s -> cf s' = cf s -> qframe s s' o -> Q0 s'.
Proof.
  intros H0 Hc F Hcompat X. rewrite Hc in Hcompat. specialize (F X). rewrite (H0 Hcompat X) in F.
  apply app_eq_nil in F. apply F.
Qed.

(* a datagram that was TURN-framed or goes raw down a locked channel; the "error pass-through" is out of scope *)
Definition wrapped_bytes (w : wrapped) : option bytes :=
  match w with WMsg b | WRaw b => Some b | WPass _ | WErr => None end.

Lemma send_ok s to p s' o ret s1 w b :
  send s to p = (s', o, ret) -> wrap s to p = (s1, w) -> ret <> -1 -> wrapped_bytes w = Some b ->
  Inv s -> Q0 s -> sent_pending_ok s' ->
  Inv s' /\ cf s' = cf s /\ forall X, data_for X o ++ q_get (queues s') X = q_get (queues s) X ++ accepted_for X [(to, b)].
Proof.
  intros H Hw Hret Hb HI H0 Hok. unfold send in H. rewrite Hw in H.
  destruct (wrap_fields _ _ _ _ _ Hw) as (Eq & Ep & Es & Epp & Ec & En).
  assert (HI1 : Inv s1) by (revert HI; apply Inv_same_fields; try assumption; rewrite Epp; reflexivity).
  assert (Hacc : forall X, accepted_for X [(to, b)] = if addr_eqb to X then [b] else [])
    by (intros X; unfold accepted_for; cbn [flat_map fst snd]; rewrite app_nil_r; reflexivity).
  assert (Hdirect : forall dest, s' = s1 -> o = [ {| o_to := dest; o_bytes := b; o_tag := TData to |} ] ->
            in_list (permissions s1) to = true \/ q_get (queues s1) to = [] ->
            Inv s' /\ cf s' = cf s /\ forall X, data_for X o ++ q_get (queues s') X = q_get (queues s) X ++ accepted_for X [(to, b)]).
  { intros dest -> -> Hq. split; [exact HI1|]. split; [exact Ec|]. intros X. rewrite Hacc, Eq. unfold data_for. cbn [flat_map o_tag o_bytes]. rewrite app_nil_r.
    destruct (addr_eqb to X) eqn:E; [|rewrite app_nil_r; reflexivity].
    apply addr_eqb_eq in E. subst X.
    assert (Hempty : q_get (queues s) to = []) by (destruct Hq as [Hq|Hq]; [rewrite <- Eq; apply (inv_perm_empty _ HI1); exact Hq | rewrite <- Eq; exact Hq]).
    rewrite Hempty. reflexivity. }
  destruct w as [| bm | br | bp]; cbn [wrapped_bytes] in Hb; try discriminate; inversion Hb; subst b.
  - (* a TURN-framed datagram *)
    destruct (compat_eqb _ RFC5766 && negb (in_list (permissions s1) to)) eqn:Ec5.
    + apply andb_true_iff in Ec5 as [_ Enp]. apply negb_true_iff in Enp.
      destruct (in_list (sent_permissions s1) to) eqn:Esent.
      * (* a request is outstanding: queue *)
        inversion H; subst s' o ret. clear H. split; [|split; [exact Ec|]].
        -- destruct HI1 as [H1 H2 H3 H4 H5 H6]. constructor; cbn [queues permissions sent_permissions pending_permissions set_queues]; auto.
           ++ apply wfq_push. exact H1.
           ++ intros X HX. rewrite q_get_push. destruct (addr_eqb to X) eqn:E; [apply addr_eqb_eq in E; subst X; rewrite HX in Enp; discriminate | apply H2; exact HX].
           ++ intros X HX. rewrite q_get_push in HX. destruct (addr_eqb to X) eqn:E; [apply addr_eqb_eq in E; subst X; exact Esent | apply H3; exact HX].
        -- intros X. cbn [data_for flat_map queues set_queues app]. rewrite q_get_push, Hacc, Eq. destruct (addr_eqb to X); [reflexivity | rewrite app_nil_r; reflexivity].
      * (* first datagram for this peer: CreatePermission, then queue *)
        destruct (send_create_permission s1 to) as [[s2 o2] ok] eqn:E.
        pose proof (Inv_InvX_fresh s1 to HI1 Esent) as HX.
        destruct ok; [|inversion H; subst; contradiction].
        inversion H; subst s' o ret. clear H.
        destruct (scp_good _ _ _ _ E HX) as (HI2 & F2 & C2 & _ & Hnp & Hsent2). specialize (Hnp Enp).
        split; [|split; [cbn [cf set_queues]; congruence|]].
        -- destruct HI2 as [H1 H2 H3 H4 H5 H6]. constructor; cbn [queues permissions sent_permissions pending_permissions set_queues]; auto.
           ++ apply wfq_push. exact H1.
           ++ intros X HX'. rewrite q_get_push. destruct (addr_eqb to X) eqn:E'; [apply addr_eqb_eq in E'; subst X; rewrite HX' in Hnp; discriminate | apply H2; exact HX'].
           ++ intros X HX'. rewrite q_get_push in HX'. destruct (addr_eqb to X) eqn:E'; [apply addr_eqb_eq in E'; subst X; exact Hsent2 | apply H3; exact HX'].
        -- intros X. cbn [queues set_queues]. rewrite q_get_push, Hacc. specialize (F2 X). rewrite Eq in F2.
           destruct (addr_eqb to X); [rewrite app_assoc, F2; reflexivity | rewrite F2, app_nil_r; reflexivity].
    + (* permission installed, or a dialect without permissions: straight to the server *)
      inversion H; subst. apply (Hdirect (c_server (cf s'))); [reflexivity | reflexivity |].
      apply andb_false_iff in Ec5 as [Ec5|Ec5].
      * right. rewrite Eq. apply H0. exact Ec5.
      * left. apply negb_false_iff in Ec5. exact Ec5.
  - inversion H; subst. apply (Hdirect (c_server (cf s'))); [reflexivity | reflexivity |]. right. rewrite Eq. apply H0.
    apply wrap_raw_old in Hw. destruct (c_compat (cf s)); simpl in *; try discriminate; reflexivity.
Qed.

(** * Time *)
Definition good' (s s' : state) (o : list out) : Prop := (Inv s -> Inv s' /\ qframe s s' o) /\ cf s' = cf s.
Lemma good_good' s s' o : good s s' o -> good' s s' o.
Proof. intros (G & C & _). split; assumption. Qed.
Lemma good'_trans s1 s2 s3 o1 o2 : good' s1 s2 o1 -> good' s2 s3 o2 -> good' s1 s3 (o1 ++ o2).
Proof.
  intros (G1 & C1) (G2 & C2). split; [|congruence].
  intros HI. destruct (G1 HI) as [HI2 F1]. destruct (G2 HI2) as [HI3 F2]. split; [exact HI3 | apply (qframe_trans _ _ _ _ _ F1 F2)].
Qed.
Lemma dispatch_good s sid e s' o : dispatch s sid e = (s', o) -> good' s s' o.
Proof.
  unfold dispatch. intros H. destruct e.
  - destruct (tick_cp s) as [x|]; [|inversion H; subst; apply good_good', good_refl].
    destruct (_ =? sid); [|inversion H; subst; apply good_good', good_refl].
    apply good_good'. apply schedule_tick_cb_good'. exact H.
  - destruct (perm_src s) as [x|]; [|inversion H; subst; apply good_good', good_refl].
    inversion H; subst. split; [|reflexivity]. intros [H1 H2 H3 H4 H5 H6]. split; [|apply qframe_same; reflexivity].
    constructor; cbn [queues permissions sent_permissions pending_permissions set_psrc set_perms]; auto.
    intros X HX. discriminate HX.
  - destruct (remove_sreq _ _) as [rq found]. destruct found; inversion H; subst; apply good_good', good_fields; reflexivity.
Qed.
Lemma dispatch_all_good : forall evs s o0 s' o,
  fold_left (fun acc x => let '(st, o) := acc in let '(st', o') := dispatch st (fst x) (snd x) in (st', o ++ o')) evs (s, o0) = (s', o) ->
  exists o1, o = o0 ++ o1 /\ good' s s' o1.
Proof.
  induction evs as [|x evs IH]; intros s o0 s' o H; cbn [fold_left] in H.
  - inversion H; subst. exists []. split; [rewrite app_nil_r; reflexivity | apply good_good', good_refl].
  - destruct (dispatch s (fst x) (snd x)) as [s1 o1] eqn:E. apply dispatch_good in E.
    destruct (IH _ _ _ _ H) as (o2 & -> & G2). exists (o1 ++ o2). split; [rewrite app_assoc; reflexivity | apply (good'_trans _ _ _ _ _ E G2)].
Qed.
Lemma iterate_good : forall fuel s s' o, iterate fuel s = (s', o) -> good' s s' o.
Proof.
  induction fuel as [|fuel IH]; intros s s' o H; [inversion H; subst; apply good_good', good_refl|].
  cbn [iterate] in H. destruct (sort_ev (ready_sources s)) as [|e evs] eqn:Es; [inversion H; subst; apply good_good', good_refl|].
  match type of H with context [fold_left ?f ?l ?a] => destruct (fold_left f l a) as [s1 o1] eqn:Ef end.
  destruct (iterate fuel s1) as [s2 o2] eqn:Ei. inversion H; subst.
  apply dispatch_all_good in Ef as (o1' & -> & G1). cbn [app]. apply (good'_trans _ _ _ _ _ G1 (IH _ _ _ Ei)).
Qed.
Lemma advance_good s ms s' o : advance s ms = Advanced s' o -> good' s s' o.
Proof.
  unfold advance. intros H. destruct (_ || _); [discriminate|].
  destruct (iterate _ _) as [s2 o2] eqn:E. inversion H; subst. apply iterate_good in E.
  destruct E as (G & C). split; [|exact C]. intros HI. apply G. revert HI. apply Inv_same_fields; reflexivity.
Qed.

(** * Runs *)
Inductive event :=
| ESend (to : addr) (p : bytes)          (* the application sends a datagram *)
| ERecv (from : addr) (b : bytes)        (* a packet arrives (relay answers of any kind, peers, anyone) *)
| EBind (peer : addr)                    (* nice_udp_turn_socket_set_peer *)
| ETime (ms : Z)                         (* the clock advances; retransmissions and time-outs fire *)
| ECache (r n : option bytes) | EMsRealm (r : bytes) | EMsConn (v : bytes).

(* one event: new state, what reached the base socket, the wrapped datagram the socket accepted (if any) *)
Definition step (s : state) (e : event) : option (state * list out * list (addr * bytes)) :=
  match e with
  | ESend to p =>
      let '(_, w) := wrap s to p in
      let '(s', o, ret) := send s to p in
      if ret =? -1 then None else match wrapped_bytes w with Some b => Some (s', o, [(to, b)]) | None => None end
  | ERecv from b => match recv s from b with Ok (s', o, _) => Some (s', o, []) | Fault => None end
  | EBind peer => let '(s', o, _) := set_peer s peer in Some (s', o, [])
  | ETime ms => match advance s ms with Advanced s' o => Some (s', o, []) | Unmodelled => None end
  | ECache r n => Some (cache_op s r n, [], [])
  | EMsRealm r => Some (ms_realm_op s r, [], [])
  | EMsConn v => Some (ms_conn_op s v, [], [])
  end.
(* a run in which no CreatePermission request failed to be built *)
Inductive Run : state -> list event -> state -> list out -> list (addr * bytes) -> Prop :=
| Run_nil s : Run s [] s [] []
| Run_cons s e s1 o1 a1 es s2 o2 a2 :
    step s e = Some (s1, o1, a1) -> sent_pending_ok s1 -> Run s1 es s2 o2 a2 -> Run s (e :: es) s2 (o1 ++ o2) (a1 ++ a2).

Lemma accepted_for_app X a1 a2 : accepted_for X (a1 ++ a2) = accepted_for X a1 ++ accepted_for X a2.
Proof. unfold accepted_for. apply flat_map_app. Qed.

Lemma step_ok s e s1 o1 a1 : step s e = Some (s1, o1, a1) -> Inv s -> Q0 s -> sent_pending_ok s1 ->
  Inv s1 /\ Q0 s1 /\ forall X, data_for X o1 ++ q_get (queues s1) X = q_get (queues s) X ++ accepted_for X a1.
Proof.
  intros H HI H0 Hok. destruct e; cbn [step] in H.
  - destruct (wrap s to p) as [sw w] eqn:Ew. destruct (send s to p) as [[s' o] ret] eqn:Es.
    destruct (ret =? -1) eqn:Er; [discriminate|]. apply Z.eqb_neq in Er.
    destruct (wrapped_bytes w) as [b|] eqn:Eb; [|discriminate]. inversion H; subst. clear H.
    destruct (send_ok _ _ _ _ _ _ _ _ _ Es Ew Er Eb HI H0 Hok) as (HI1 & C1 & F1).
    split; [exact HI1|]. split; [|exact F1].
    intros Hc X. rewrite C1 in Hc.
    destruct (wrap_fields _ _ _ _ _ Ew) as (_ & _ & _ & _ & Ecw & _).
    (* outside RFC 5766 nothing is pushed *)
    specialize (F1 X). rewrite (H0 Hc X) in F1.
    unfold send in Es. rewrite Ew in Es. rewrite Hc in Es. cbn [andb] in Es.
    destruct w; cbn [wrapped_bytes] in Eb; try discriminate; inversion Es; subst; cbn [queues];
      destruct (wrap_fields _ _ _ _ _ Ew) as (Eq & _); rewrite Eq; apply H0; exact Hc.
  - destruct (recv s from b) as [[[s' o] r]|] eqn:E; [|discriminate]. inversion H; subst. clear H.
    destruct (recv_ok _ _ _ _ _ _ E HI Hok) as (HI1 & F1 & C1).
    split; [exact HI1|]. split; [apply (Q0_frame s s1 o1 H0 C1 F1)|]. intros X. cbn [accepted_for flat_map]. rewrite app_nil_r. apply F1.
  - unfold set_peer in H. destruct (add_channel_binding s peer) as [[s' o] ok] eqn:E. inversion H; subst. clear H.
    apply add_channel_binding_good in E. destruct E as (G & C & _). destruct (G HI) as [HI1 F1].
    split; [exact HI1|]. split; [apply (Q0_frame s s1 o1 H0 C F1)|]. intros X. cbn [accepted_for flat_map]. rewrite app_nil_r. apply F1.
  - destruct (advance s ms) as [s' o|] eqn:E; [|discriminate]. inversion H; subst. clear H.
    apply advance_good in E. destruct E as (G & C). destruct (G HI) as [HI1 F1].
    split; [exact HI1|]. split; [apply (Q0_frame s s1 o1 H0 C F1)|]. intros X. cbn [accepted_for flat_map]. rewrite app_nil_r. apply F1.
  - inversion H; subst. clear H. unfold cache_op.
    split; [revert HI; apply Inv_same_fields; reflexivity|]. split; [exact H0 | intros X; cbn [accepted_for flat_map data_for]; rewrite app_nil_r; reflexivity].
  - inversion H; subst. clear H. unfold ms_realm_op. destruct (_ <=? _);
    (split; [try exact HI; revert HI; apply Inv_same_fields; reflexivity|]; split; [exact H0 | intros X; cbn [accepted_for flat_map data_for]; rewrite app_nil_r; reflexivity]).
  - inversion H; subst. clear H. unfold ms_conn_op. destruct (_ =? _);
    (split; [try exact HI; revert HI; apply Inv_same_fields; reflexivity|]; split; [exact H0 | intros X; cbn [accepted_for flat_map data_for]; rewrite app_nil_r; reflexivity]).
Qed.

(** * C16_queue *)
Theorem run_fifo s es s' o acc : Run s es s' o acc -> Inv s -> Q0 s ->
  Inv s' /\ forall X, data_for X o ++ q_get (queues s') X = q_get (queues s) X ++ accepted_for X acc.
Proof.
  induction 1 as [s | s e s1 o1 a1 es s2 o2 a2 Hstep Hok Hrun IH]; intros HI H0.
  - split; [exact HI|]. intros X. cbn [data_for accepted_for flat_map]. rewrite app_nil_r. reflexivity.
  - destruct (step_ok _ _ _ _ _ Hstep HI H0 Hok) as (HI1 & H01 & F1).
    destruct (IH HI1 H01) as (HI2 & F2). split; [exact HI2|].
    intros X. rewrite data_for_app, accepted_for_app, <- app_assoc, F2, app_assoc, F1, <- app_assoc. reflexivity.
Qed.

Lemma Inv_init c : Inv (init_state c).
Proof.
  constructor; cbn [init_state queues permissions sent_permissions pending_permissions wfq q_get peers map in_list existsb]; auto;
    try (intros X H; discriminate H); try (intros X H; contradiction); try (intros X []); constructor.
Qed.
Lemma Q0_init c : Q0 (init_state c).
Proof. intros _ X. reflexivity. Qed.

(* from socket creation on: what a peer's relay has been handed, followed by what is still held for that
   peer, is exactly what the application sent to that peer, in order *)
Theorem queue_fifo_from_start c es s o acc : Run (init_state c) es s o acc ->
  Inv s /\ forall X, data_for X o ++ q_get (queues s) X = accepted_for X acc.
Proof.
  intros H. destruct (run_fifo _ _ _ _ _ H (Inv_init c) (Q0_init c)) as (HI & F). split; [exact HI|].
  intros X. rewrite (F X). reflexivity.
Qed.
(* data is held only while a CreatePermission request for that peer is outstanding *)
Theorem held_has_pending_request s X : Inv s -> q_get (queues s) X <> [] ->
  exists pm, In pm (pending_permissions s) /\ pm_peer pm = X.
Proof.
  intros HI Hq. pose proof (inv_sent_pending _ HI X (inv_held_sent _ HI X Hq)) as Hin.
  unfold peers in Hin. apply in_map_iff in Hin as (pm & H1 & H2). eauto.
Qed.
(* ... and the end of that transaction -- success response, error response that is not a re-authentication
   request, or time-out -- hands everything held for the peer to the base socket in order and leaves nothing *)
Theorem answered_flushes s before after p isr s' o : Inv s -> pending_permissions s = before ++ p :: after ->
  cp_done s before after p isr = (s', o) ->
  data_for (pm_peer p) o = q_get (queues s) (pm_peer p) /\ q_get (queues s') (pm_peer p) = [] /\
  in_list (permissions s') (pm_peer p) = true.
Proof.
  intros HI Hpp H. destruct (cp_done_good _ _ _ _ _ _ _ HI Hpp H) as (_ & F & Hq & Hp & _).
  split; [|split; assumption]. specialize (F (pm_peer p)). rewrite Hq, app_nil_r in F. exact F.
Qed.
Theorem timeout_flushes s before after p s' o : Inv s -> pending_permissions s = before ++ p :: after ->
  snd (refresh (pm_timer p) (tv_of (now s))) = TIMEOUT -> cp_tick_one s before after p = (s', o) ->
  data_for (pm_peer p) o = q_get (queues s) (pm_peer p) /\ q_get (queues s') (pm_peer p) = [] /\
  in_list (permissions s') (pm_peer p) = true.
Proof.
  intros HI Hpp Hto H. unfold cp_tick_one in H. destruct (refresh _ _) as [t' r]. cbn [snd] in Hto. subst r.
  unfold dequeue_all in H. inversion H; subst s' o. clear H.
  cbn [queues permissions set_queues set_perms set_pp set_sperms set_ids].
  rewrite data_for_flush, addr_eqb_refl, q_get_del by (apply (inv_wfq _ HI)). rewrite addr_eqb_refl.
  split; [reflexivity|]. split; [reflexivity|].
  rewrite in_list_app. apply orb_true_iff. right. unfold in_list. cbn [existsb]. rewrite addr_eqb_refl. reflexivity.
Qed.

(** * Non-vacuity: a run with two peers, a 401 round, a success answer and a time-out *)
Definition spo_b (s : state) : bool := forallb (fun a => in_list (peers (pending_permissions s)) a) (sent_permissions s).
Lemma spo_b_ok s : spo_b s = true -> sent_pending_ok s.
Proof.
  unfold spo_b, sent_pending_ok. intros H X HX. rewrite forallb_forall in H.
  apply in_list_In in HX. specialize (H X HX). apply in_list_In in H. exact H.
Qed.
Fixpoint run_fn (s : state) (es : list event) : option (state * list out * list (addr * bytes)) :=
  match es with
  | [] => Some (s, [], [])
  | e :: es' =>
      match step s e with
      | Some (s1, o1, a1) =>
          if spo_b s1 then
            match run_fn s1 es' with Some (s2, o2, a2) => Some (s2, o1 ++ o2, a1 ++ a2) | None => None end
          else None
      | None => None
      end
  end.
Lemma run_fn_sound : forall es s s' o acc, run_fn s es = Some (s', o, acc) -> Run s es s' o acc.
Proof.
  induction es as [|e es IH]; intros s s' o acc H; cbn [run_fn] in H.
  - inversion H; subst. constructor.
  - destruct (step s e) as [[[s1 o1] a1]|] eqn:Es; [|discriminate].
    destruct (spo_b s1) eqn:Eb; [|discriminate].
    destruct (run_fn s1 es) as [[[s2 o2] a2]|] eqn:Er; [|discriminate]. inversion H; subst.
    econstructor; [exact Es | apply spo_b_ok; exact Eb | apply IH; exact Er].
Qed.

Definition qx_cfg : cfg := {| c_compat := RFC5766; c_server := WrapProofs.ex_server; c_user := [117]; c_pwlen := 0 |}.
Definition qx_tid (n : Z) : bytes := cookie_bytes ++ [164; 165; 166; 167; 168; 169; 170; 171] ++ be32 n.
Definition qx_A := ex_peer4.
Definition qx_B := ex_peer6.
Definition qx_events : list event :=
  [ ESend qx_A [1; 2; 3];                       (* CreatePermission for A (transaction 2), datagram held *)
    ESend qx_B [4];                             (* CreatePermission for B (transaction 4), datagram held *)
    ESend qx_A [5; 6];                          (* held behind the first one *)
    ERecv WrapProofs.ex_server ([1; 24; 0; 24] ++ qx_tid 2 ++ [0; 9; 0; 4; 0; 0; 4; 1;  0; 20; 0; 1; 114; 0; 0; 0;  0; 21; 0; 1; 110; 0; 0; 0]);
                                                (* 401 with realm and nonce: the request is re-sent (transaction 6) *)
    ESend qx_A [7];                             (* still held *)
    ERecv WrapProofs.ex_server ([1; 8; 0; 0] ++ qx_tid 6);   (* success: A's three datagrams leave in order *)
    ESend qx_A [8];                             (* permission installed: goes out at once *)
    ETime 600; ETime 1100; ETime 600 ].         (* B's request is retransmitted twice and times out: B's datagram leaves *)
Lemma queue_run_example :
  exists s o acc, Run (init_state qx_cfg) qx_events s o acc /\
    queues s = [] /\ length (data_for qx_A o) = 4%nat /\ length (data_for qx_B o) = 1%nat /\
    data_for qx_A o = accepted_for qx_A acc /\ data_for qx_B o = accepted_for qx_B acc /\
    in_list (permissions s) qx_A = true /\ in_list (permissions s) qx_B = true.
Proof.
  destruct (run_fn (init_state qx_cfg) qx_events) as [[[s o] acc]|] eqn:E; [|vm_compute in E; discriminate E].
  exists s, o, acc. split; [apply run_fn_sound; exact E|].
  vm_compute in E. inversion E; subst. vm_compute. repeat split; reflexivity.
Qed.

Lemma queue_fifo_stmt : forall c es s o acc, Run (init_state c) es s o acc ->
  forall X, data_for X o ++ q_get (queues s) X = accepted_for X acc.
Proof. intros c es s o acc H. exact (proj2 (queue_fifo_from_start c es s o acc H)). Qed.
Lemma held_only_while_requested_stmt : forall c es s o acc, Run (init_state c) es s o acc ->
  forall X, q_get (queues s) X <> [] -> exists pm, In pm (pending_permissions s) /\ pm_peer pm = X.
Proof. intros c es s o acc H X. exact (held_has_pending_request s X (proj1 (queue_fifo_from_start c es s o acc H))). Qed.
