From Coq Require Import ZArith List.
From Coq Require Extraction ExtrOcamlBasic.
From Nice Require Import Turn.TurnModel.
Extraction Language OCaml.
Extraction "../ocaml/gen/turn_model.ml" init_state send recv set_peer advance cache_op ms_realm_op ms_conn_op.
