(** C16_wrap: what the model of udp-turn.c emits for a payload is decoded by the relay specification
    (Relay.v) to exactly (peer, payload). *)
From Coq Require Import ZArith List Bool Lia.
From Nice Require Import Turn.TurnModel Turn.Relay Turn.TurnBytes.
Import ListNotations.
Local Open Scope Z_scope.

(** * The relay's attribute parser on encoded attributes *)
Lemma get_attrs_more padded : forall f b l, get_attrs f padded b = Some l -> forall f', (f <= f')%nat -> get_attrs f' padded b = Some l.
Proof.
  induction f as [|f IH]; intros b l H f' Hf; [discriminate|].
  destruct f' as [|f']; [lia|].
  simpl in *. destruct b as [|t0 [|t1 [|l0 [|l1 rest]]]]; auto.
  match type of H with context [if ?c then _ else _] => destruct c; [|discriminate] end.
  match type of H with context [get_attrs f padded ?x] => destruct (get_attrs f padded x) eqn:E; [|discriminate] end.
  rewrite (IH _ _ E f') by lia. exact H.
Qed.

Lemma get_attrs_step (fuel : nat) (padded : bool) (ty lf : Z) (val padz rest : bytes) l :
  0 <= ty < 65536 -> 0 <= lf < 65536 -> lf = blen val ->
  (if padded then lf + pad4 lf else lf) = blen val + blen padz ->
  get_attrs fuel padded rest = Some l ->
  get_attrs (S fuel) padded (be16 ty ++ be16 lf ++ val ++ padz ++ rest) = Some ((ty, val) :: l).
Proof.
  intros Hty Hlf Hval Hwhole Hrest.
  unfold be16. cbn [app get_attrs].
  assert (Eu : u16 ((lf / 256) mod 256) (lf mod 256) = lf) by (unfold u16; pose proof (be16_u16 lf Hlf); lia).
  assert (Et : u16 ((ty / 256) mod 256) (ty mod 256) = ty) by (unfold u16; pose proof (be16_u16 ty Hty); lia).
  rewrite Eu, Et.
  assert (Hle : (if padded then lf + pad4 lf else lf) <=? blen (val ++ padz ++ rest) = true).
  { apply Z.leb_le. rewrite Hwhole, !blen_app. pose proof (blen_nonneg rest). lia. }
  rewrite Hle.
  assert (Ed : drop (if padded then lf + pad4 lf else lf) (val ++ padz ++ rest) = rest).
  { unfold drop. rewrite Hwhole, app_assoc. apply skipn_app_exact. rewrite app_length. unfold blen. lia. }
  rewrite Ed, Hrest.
  assert (Etk : take lf (val ++ padz ++ rest) = val).
  { unfold take. apply firstn_app_exact. subst lf. unfold blen. lia. }
  rewrite Etk. reflexivity.
Qed.

(** * The relay's view of the client's bindings *)
Definition relay_of (s : state) : relay :=
  {| r_compat := c_compat (cf s);
     r_chans := map (fun b => (b_chan b, b_peer b)) (channels s);
     r_active := match channels s with b :: _ => Some (b_peer b) | [] => None end |}.

(* the relay has, for every channel the client believes bound, that very binding (RFC 5766 numbers) *)
Definition chan_table_ok (s : state) : Prop :=
  is_rfc (c_compat (cf s)) = true -> forall b, In b (channels s) -> 16384 <= b_chan b < 32768 /\ chan_peer (r_chans (relay_of s)) (b_chan b) = Some (b_peer b).
(* Google / MSN / OC2007: one active destination *)
Definition old_single (s : state) : Prop := is_rfc (c_compat (cf s)) = false -> (length (channels s) <= 1)%nat.
Definition bounds_ok (s : state) : Prop :=
  blen (c_user (cf s)) <= 256 /\ blen (ms_realm s) <= 128 /\ (forall id, ms_conn s = Some id -> blen id = 20).

Lemma find_binding_some l to b : find_binding l to = Some b -> In b l /\ b_peer b = to.
Proof.
  unfold find_binding. intros H. apply find_some in H as [H1 H2]. apply addr_eqb_eq in H2. auto.
Qed.

Lemma append_ok c cap m ty v :
  msg_len16 m + 4 + blen v + (if no_aligned c then 0 else padding (blen v)) <= cap ->
  append c cap m ty v =
  Some {| s_type := s_type m; s_id := s_id m;
          s_attrs := s_attrs m ++ be16 (swap_realm_nonce c ty)
                     ++ be16 (if no_aligned c then blen v else if has_cookie m then blen v else align (blen v))
                     ++ v ++ zeros (if no_aligned c then 0 else padding (blen v)) |}.
Proof.
  intros H. unfold append.
  destruct (_ >? cap) eqn:E; [apply Z.gtb_lt in E; lia | reflexivity].
Qed.

Lemma msg_len16_small m : blen (s_attrs m) + 20 < 65536 -> msg_len16 m = blen (s_attrs m) + 20.
Proof. intros H. unfold msg_len16. apply Z.mod_small. pose proof (blen_nonneg (s_attrs m)). lia. Qed.

Lemma blen_enc_addr a : wf_addr a -> blen (enc_addr a) = if a6 a then 20 else 8.
Proof.
  intros [H1 H2]. unfold enc_addr. rewrite !blen_app. unfold blen at 1. simpl length. unfold blen. rewrite H1, H2.
  destruct (a6 a); reflexivity.
Qed.
Lemma wf_xor_addr id a : wf_addr a -> wf_addr (xor_addr id a).
Proof. intros [H1 H2]. unfold wf_addr, xor_addr; simpl. rewrite !xorb_length. auto. Qed.

(* an address attribute written by the model is read back by the relay *)
Lemma get_address_plain a : wf_addr a -> get_address None (enc_addr a) = Some a.
Proof.
  intros [H1 H2]. destruct a as [f ip pt]; simpl in *. unfold enc_addr; simpl.
  destruct pt as [|p0 [|p1 [|]]]; try discriminate. simpl.
  destruct f; simpl; unfold blen; rewrite H1; reflexivity.
Qed.
Lemma get_address_xor id a : wf_addr a -> length id = 16%nat ->
  get_address (Some id) (enc_addr (xor_addr id a)) = Some a.
Proof.
  intros [H1 H2] Hid. destruct a as [f ip pt]; simpl in *. unfold enc_addr, xor_addr; simpl.
  destruct pt as [|p0 [|p1 [|]]]; try discriminate. simpl.
  destruct f; simpl; unfold blen; rewrite xorb_length, H1; simpl;
  rewrite zipxor_xorb, xorb_invol, !lxor_invol; reflexivity.
Qed.

(** * Messages as attribute lists *)
Definition enc1 (c : compat) (ck : bool) (a : Z * bytes) : bytes :=
  be16 (swap_realm_nonce c (fst a))
  ++ be16 (if no_aligned c then blen (snd a) else if ck then blen (snd a) else align (blen (snd a)))
  ++ snd a ++ zeros (if no_aligned c then 0 else padding (blen (snd a))).
Definition encs (c : compat) (ck : bool) (l : list (Z * bytes)) : bytes := flat_map (enc1 c ck) l.
Definition strip (l : list aspec) : list (Z * bytes) := map (fun x => (fst (fst x), snd (fst x))) l.

Lemma encs_app c ck l1 l2 : encs c ck (l1 ++ l2) = encs c ck l1 ++ encs c ck l2.
Proof. unfold encs. apply flat_map_app. Qed.
Lemma strip_app l1 l2 : strip (l1 ++ l2) = strip l1 ++ strip l2.
Proof. unfold strip. apply map_app. Qed.
Lemma blen_enc1 c ck a : blen (enc1 c ck a) = 4 + blen (snd a) + (if no_aligned c then 0 else padding (blen (snd a))).
Proof.
  unfold enc1. rewrite !blen_app, !blen_be16, blen_zeros; [lia|].
  destruct (no_aligned c); [lia | apply padding_range].
Qed.
Lemma blen_enc1_pos c ck a : 4 <= blen (enc1 c ck a).
Proof. rewrite blen_enc1. pose proof (blen_nonneg (snd a)). pose proof (padding_range (blen (snd a))). destruct (no_aligned c); lia. Qed.
Lemma blen_encs_nonneg c ck l : 0 <= blen (encs c ck l).
Proof. apply blen_nonneg. Qed.
Lemma blen_encs_cons c ck a l : blen (encs c ck (a :: l)) = blen (enc1 c ck a) + blen (encs c ck l).
Proof. unfold encs; cbn [flat_map]. apply blen_app. Qed.

(* a run of appends that fits produces the concatenated encodings *)
Lemma append_all_ok c cap : forall l m,
  blen (s_attrs m) + 20 + blen (encs c (has_cookie m) (strip l)) <= cap -> cap <= 65552 ->
  blen (s_attrs m) + 20 + blen (encs c (has_cookie m) (strip l)) < 65536 + 4 ->
  append_all c cap m l =
  Some {| s_type := s_type m; s_id := s_id m; s_attrs := s_attrs m ++ encs c (has_cookie m) (strip l) |}.
Proof.
  induction l as [|[[ty v] ign] l IH]; intros m Hcap Hc2 Hlt.
  - simpl. rewrite app_nil_r. destruct m; reflexivity.
  - cbn [append_all]. cbn [strip map fst snd] in Hcap, Hlt. fold (strip l) in Hcap, Hlt.
    rewrite blen_encs_cons in Hcap, Hlt.
    pose proof (blen_enc1 c (has_cookie m) (ty, v)) as Hb. cbn [fst snd] in Hb.
    pose proof (blen_encs_nonneg c (has_cookie m) (strip l)).
    pose proof (blen_nonneg (s_attrs m)). pose proof (blen_nonneg v).
    assert (Hpadnn : 0 <= (if no_aligned c then 0 else padding (blen v))) by (destruct (no_aligned c); [lia | apply padding_range]).
    assert (Hsmall : blen (s_attrs m) + 20 < 65536).
    { pose proof (blen_enc1_pos c (has_cookie m) (ty, v)). lia. }
    rewrite append_ok by (rewrite msg_len16_small by exact Hsmall; lia).
    set (m' := {| s_type := s_type m; s_id := s_id m; s_attrs := _ |}).
    assert (Hck : has_cookie m' = has_cookie m) by reflexivity.
    assert (Hat : s_attrs m' = s_attrs m ++ enc1 c (has_cookie m) (ty, v)) by reflexivity.
    rewrite IH.
    + rewrite Hck, Hat. cbn [strip map fst snd encs flat_map]. rewrite <- app_assoc. reflexivity.
    + rewrite Hck, Hat, blen_app. fold (strip l). lia.
    + exact Hc2.
    + rewrite Hck, Hat, blen_app. fold (strip l). lia.
Qed.

(* what the relay's TLV parser sees of an attribute the client wrote *)
Definition seen (c : compat) (ck : bool) (a : Z * bytes) : attribute :=
  (swap_realm_nonce c (fst a),
   if no_aligned c then snd a else if ck then snd a else snd a ++ zeros (padding (blen (snd a)))).
Definition attr_ok (c : compat) (a : Z * bytes) : Prop :=
  0 <= swap_realm_nonce c (fst a) < 65536 /\ blen (snd a) + 3 < 65536.

Lemma align_eq l : align l = l + pad4 l.
Proof. unfold align. rewrite padding_pad4. reflexivity. Qed.
Lemma pad4_align l : pad4 (align l) = 0.
Proof. rewrite <- padding_pad4. apply padding_div4. apply align_mod4. Qed.

Lemma get_attrs_encs c ck : forall l f, Forall (attr_ok c) l -> (length l < f)%nat ->
  get_attrs f (negb (no_aligned c)) (encs c ck l) = Some (map (seen c ck) l).
Proof.
  induction l as [|a l IH]; intros f Hok Hf.
  - destruct f; [lia|]. reflexivity.
  - destruct f as [|f]; [simpl in Hf; lia|].
    inversion Hok as [|? ? [Hty Hlen] Hok']; subst.
    simpl length in Hf.
    specialize (IH f Hok' ltac:(lia)).
    unfold encs in *. cbn [flat_map]. unfold enc1 at 1. rewrite <- !app_assoc.
    pose proof (blen_nonneg (snd a)) as Hnn. pose proof (padding_range (blen (snd a))) as Hpr.
    cbn [map]. unfold seen at 1.
    destruct (no_aligned c) eqn:Hna; cbn [negb].
    + (* not padded *)
      change (zeros 0) with (@nil Z).
      apply (get_attrs_step f false _ _ (snd a) [] _ _ Hty); [lia | reflexivity | rewrite blen_nil; lia | exact IH].
    + destruct ck.
      * apply (get_attrs_step f true _ _ (snd a) (zeros (padding (blen (snd a)))) _ _ Hty); [lia | reflexivity | | exact IH].
        rewrite blen_zeros by lia. rewrite padding_pad4. reflexivity.
      * assert (E : snd a ++ zeros (padding (blen (snd a))) ++ flat_map (enc1 c false) l =
                    (snd a ++ zeros (padding (blen (snd a)))) ++ [] ++ flat_map (enc1 c false) l) by (rewrite <- app_assoc; reflexivity).
        rewrite E.
        apply (get_attrs_step f true _ _ (snd a ++ zeros (padding (blen (snd a)))) [] _ _ Hty); [ | | | exact IH].
        -- unfold align. lia.
        -- rewrite blen_app, blen_zeros by lia. reflexivity.
        -- rewrite pad4_align, blen_app, blen_zeros, blen_nil by lia. unfold align. lia.
Qed.

(* stun_agent_finish_message leaves the attributes alone or appends MESSAGE-INTEGRITY *)
Lemma finish_shape cf0 ids0 cl me m :
  ((cl =? C_REQUEST) && negb (oc2007 (c_compat cf0) && (me =? M_SEND)) = true -> (length ids0 < MAX_SAVED_IDS)%nat) ->
  blen (s_attrs m) + 20 + 28 <= 65536 ->
  exists tail ids', finish cf0 ids0 cl me m =
    Some ({| s_type := s_type m; s_id := s_id m; s_attrs := s_attrs m ++ encs (c_compat cf0) (has_cookie m) tail |}, ids')
    /\ (tail = [] \/ tail = [(A_MI, mi_value)]).
Proof.
  intros Hids Hcap. unfold finish.
  destruct ((cl =? C_REQUEST) && negb (oc2007 (c_compat cf0) && (me =? M_SEND))) eqn:Erem.
  - specialize (Hids eq_refl). assert (Hl : Nat.leb MAX_SAVED_IDS (length ids0) = false) by (apply Nat.leb_gt; exact Hids).
    rewrite Hl. cbn [andb].
    assert (Hmi : append (c_compat cf0) STUN_MAX_MESSAGE_SIZE m A_MI mi_value = Some {| s_type := s_type m; s_id := s_id m; s_attrs := s_attrs m ++ encs (c_compat cf0) (has_cookie m) [(A_MI, mi_value)] |}).
    { rewrite append_ok.
      - unfold encs, enc1; cbn [flat_map fst snd]. rewrite app_nil_r. reflexivity.
      - rewrite msg_len16_small by (pose proof (blen_nonneg (s_attrs m)); lia).
        change (blen mi_value) with 20. unfold STUN_MAX_MESSAGE_SIZE. change (padding 20) with 0. destruct (no_aligned (c_compat cf0)); lia. }
    destruct (key_null cf0).
    + exists [], (ids0 ++ [{| si_tid := s_id m; si_method := me; si_lt := false |}]). unfold encs; simpl. rewrite app_nil_r. destruct m; auto.
    + destruct (long_term (c_compat cf0)).
      * destruct (own_find _ m A_REALM); [destruct (own_find _ m A_USERNAME)|].
        -- rewrite Hmi. eexists _, _. split; [reflexivity | right; reflexivity].
        -- exists [], (ids0 ++ [{| si_tid := s_id m; si_method := me; si_lt := false |}]). unfold encs; simpl. rewrite app_nil_r. destruct m; auto.
        -- exists [], (ids0 ++ [{| si_tid := s_id m; si_method := me; si_lt := false |}]). unfold encs; simpl. rewrite app_nil_r. destruct m; auto.
      * rewrite Hmi. eexists _, _. split; [reflexivity | right; reflexivity].
  - cbn [andb].
    assert (Hmi : append (c_compat cf0) STUN_MAX_MESSAGE_SIZE m A_MI mi_value = Some {| s_type := s_type m; s_id := s_id m; s_attrs := s_attrs m ++ encs (c_compat cf0) (has_cookie m) [(A_MI, mi_value)] |}).
    { rewrite append_ok.
      - unfold encs, enc1; cbn [flat_map fst snd]. rewrite app_nil_r. reflexivity.
      - rewrite msg_len16_small by (pose proof (blen_nonneg (s_attrs m)); lia).
        change (blen mi_value) with 20. unfold STUN_MAX_MESSAGE_SIZE. change (padding 20) with 0. destruct (no_aligned (c_compat cf0)); lia. }
    destruct (key_null cf0).
    + exists [], ids0. unfold encs; simpl. rewrite app_nil_r. destruct m; auto.
    + destruct (long_term (c_compat cf0)).
      * destruct (own_find _ m A_REALM); [destruct (own_find _ m A_USERNAME)|].
        -- rewrite Hmi. eexists _, _. split; [reflexivity | right; reflexivity].
        -- exists [], ids0. unfold encs; simpl. rewrite app_nil_r. destruct m; auto.
        -- exists [], ids0. unfold encs; simpl. rewrite app_nil_r. destruct m; auto.
      * rewrite Hmi. eexists _, _. split; [reflexivity | right; reflexivity].
Qed.

(** * The relay's header parser on a serialized message *)
Lemma get_msg_ok padded ty (id attrs : bytes) l :
  0 <= ty < 16384 -> length id = 16%nat -> blen attrs < 65536 ->
  get_attrs (S (length (id ++ attrs))) padded attrs = Some l ->
  get_msg padded (be16 ty ++ be16 (blen attrs) ++ id ++ attrs) = Some (ty, id, l).
Proof.
  intros Hty Hid Hlen Hga. unfold be16. cbn [app get_msg].
  pose proof (blen_nonneg attrs) as Hnn.
  assert (Eu : u16 ((blen attrs / 256) mod 256) (blen attrs mod 256) = blen attrs)
    by (unfold u16; pose proof (be16_u16 (blen attrs) ltac:(lia)); lia).
  assert (Et : u16 ((ty / 256) mod 256) (ty mod 256) = ty) by (unfold u16; pose proof (be16_u16 ty ltac:(lia)); lia).
  rewrite Eu, Et.
  assert (E1 : blen (id ++ attrs) =? 16 + blen attrs = true) by (apply Z.eqb_eq; rewrite blen_app; unfold blen; rewrite Hid; lia).
  assert (E2 : (ty / 256) mod 256 <? 64 = true).
  { apply Z.ltb_lt. rewrite Z.mod_small; [apply Z.div_lt_upper_bound; lia | split; [apply Z.div_pos; lia | apply Z.div_lt_upper_bound; lia]]. }
  rewrite E1, E2. cbn [andb].
  assert (Ed : drop 16 (id ++ attrs) = attrs) by (unfold drop; apply skipn_app_exact; rewrite Hid; reflexivity).
  assert (Etk : take 16 (id ++ attrs) = id) by (unfold take; apply firstn_app_exact; rewrite Hid; reflexivity).
  rewrite Ed, Etk, Hga. reflexivity.
Qed.

Lemma init_msg_rfc c cl me n : is_rfc c = true ->
  init_msg c cl me n = {| s_type := stun_type cl me; s_id := cookie_bytes ++ skipn 4 (mk_tid n); s_attrs := [] |}.
Proof. intros H. unfold init_msg, rfc5389. rewrite H. reflexivity. Qed.
Lemma init_msg_old c cl me n : is_rfc c = false ->
  init_msg c cl me n = {| s_type := stun_type cl me; s_id := mk_tid n; s_attrs := [] |}.
Proof. intros H. unfold init_msg, rfc5389. rewrite H. reflexivity. Qed.
Lemma r_rfc_of s : r_rfc (relay_of s) = is_rfc (c_compat (cf s)).
Proof. unfold r_rfc, relay_of; simpl. destruct (c_compat (cf s)); reflexivity. Qed.
Lemma r_padded_of s : r_padded (relay_of s) = negb (no_aligned (c_compat (cf s))).
Proof. unfold r_padded, relay_of; simpl. destruct (c_compat (cf s)); reflexivity. Qed.
Lemma swap_id c ty : ty <> A_REALM -> ty <> A_NONCE -> swap_realm_nonce c ty = ty.
Proof.
  intros H1 H2. unfold swap_realm_nonce. destruct (oc2007 c); auto.
  destruct (ty =? A_REALM) eqn:E1; [apply Z.eqb_eq in E1; contradiction|].
  destruct (ty =? A_NONCE) eqn:E2; [apply Z.eqb_eq in E2; contradiction|]. reflexivity.
Qed.
Lemma swap_range c ty : 0 <= ty < 65536 -> 0 <= swap_realm_nonce c ty < 65536.
Proof.
  intros H. unfold swap_realm_nonce. destruct (oc2007 c); auto.
  destruct (ty =? A_REALM); [unfold A_NONCE; lia|]. destruct (ty =? A_NONCE); [unfold A_REALM; lia | exact H].
Qed.

(** * RFC 5766 / draft-09: Send indication *)
Lemma wrap_rfc_unbound s to p :
  is_rfc (c_compat (cf s)) = true -> find_binding (channels s) to = None ->
  wf_addr to -> blen p <= 65000 ->
  exists s' b, wrap s to p = (s', WMsg b) /\ relay_decode (relay_of s) b = Some (to, p).
Proof.
  intros Hrfc Hfb Hto Hp.
  assert (Hna : no_aligned (c_compat (cf s)) = false) by (destruct (c_compat (cf s)); simpl in *; try discriminate; reflexivity).
  unfold wrap. rewrite Hfb, Hrfc.
  rewrite (init_msg_rfc _ _ _ _ Hrfc).
  set (id := cookie_bytes ++ skipn 4 (mk_tid (next_tid s + 1))).
  assert (Hid : length id = 16%nat) by reflexivity.
  set (m0 := {| s_type := stun_type C_INDICATION M_SET_ACTIVE; s_id := id; s_attrs := [] |}).
  change (s_id m0) with id.
  pose proof (wf_xor_addr id to Hto) as Hxa.
  pose proof (blen_enc_addr _ Hxa) as Hbl. simpl a6 in Hbl.
  pose proof (padding_range (blen p)) as Hpr. pose proof (blen_nonneg p) as Hp0.
  set (al := [(A_PEER, enc_addr (xor_addr id to), false); (A_DATA, p, false)]).
  assert (Hck : has_cookie m0 = true) by reflexivity.
  assert (Hsz : blen (encs (c_compat (cf s)) true (strip al)) = (4 + (if a6 to then 20 else 8)) + (4 + blen p + padding (blen p))).
  { unfold al, strip, encs. cbn [map flat_map fst snd]. rewrite app_nil_r, blen_app, !blen_enc1. cbn [snd]. rewrite Hna, Hbl.
    destruct (a6 to); reflexivity. }
  rewrite append_all_ok; rewrite ?Hck, ?Hsz; cbn [s_attrs m0]; rewrite ?blen_nil; unfold STUN_MAX_MESSAGE_SIZE;
    [ | destruct (a6 to); lia | lia | destruct (a6 to); lia].
  cbn [s_type s_id m0].
  set (m1 := {| s_type := _; s_id := id; s_attrs := _ |}).
  destruct (finish_shape (cf (set_tid s (next_tid s + 1))) (ids (set_tid s (next_tid s + 1))) C_INDICATION M_SET_ACTIVE m1)
    as (tail & ids' & Hf & Htail).
  { intros H; discriminate H. }
  { unfold m1; cbn [s_attrs]. rewrite app_nil_l, Hsz. destruct (a6 to); lia. }
  rewrite Hf. eexists _, _. split; [reflexivity|].
  (* the relay *)
  unfold relay_decode. rewrite r_rfc_of, Hrfc.
  unfold serialize. cbn [s_type s_id s_attrs m1]. rewrite app_nil_l, <- encs_app.
  change (set_tid s (next_tid s + 1)) with (set_tid s (next_tid s + 1)) in *. cbn [cf set_tid] in *.
  assert (Hck1 : has_cookie m1 = true) by reflexivity. rewrite Hck1.
  set (attrs := encs (c_compat (cf s)) true (strip al ++ tail)).
  change (be16 (stun_type C_INDICATION M_SET_ACTIVE)) with [0; 22].
  assert (Hal : blen attrs < 65536).
  { unfold attrs. rewrite encs_app, blen_app, Hsz. destruct Htail as [-> | ->].
    - change (blen (encs _ true [])) with 0. destruct (a6 to); lia.
    - unfold encs; cbn [flat_map]. rewrite app_nil_r, blen_enc1. cbn [snd]. rewrite Hna. change (blen mi_value) with 20. change (padding 20) with 0.
      destruct (a6 to); lia. }
  assert (Hga : get_attrs (S (length (id ++ attrs))) true attrs = Some (map (seen (c_compat (cf s)) true) (strip al ++ tail))).
  { change true with (negb false) at 1. rewrite <- Hna. unfold attrs. apply get_attrs_encs.
    - apply Forall_app. split.
      + unfold al, strip; cbn [map fst snd]. repeat constructor; cbn [fst snd]; try (rewrite swap_id by (intro Hx; discriminate Hx)); unfold A_PEER, A_DATA; try lia.
        rewrite Hbl. destruct (a6 to); lia.
      + destruct Htail as [-> | ->]; repeat constructor; cbn [fst snd]; try (rewrite swap_id by (intro Hx; discriminate Hx)); unfold A_MI; try lia.
        all: try (change (blen mi_value) with 20; lia).
    - rewrite app_length. destruct Htail as [-> | ->]; simpl; lia. }
  pose proof (get_msg_ok true 22 id attrs _ ltac:(lia) Hid Hal Hga) as Hgm.
  change (be16 22) with [0; 22] in Hgm. cbn [app] in Hgm |- *.
  change (64 <=? 0) with false. cbn [andb].
  rewrite Hgm.
  assert (Hmagic : same (take 4 id) magic = true) by reflexivity. rewrite Hmagic.
  unfold be16 at 1; cbn [app].
  unfold al, strip. cbn [map app fst snd]. unfold seen; cbn [fst snd]. rewrite Hna.
  rewrite !swap_id by (intro Hx; discriminate Hx).
  cbn [lookup_attr A_PEER A_DATA Z.eqb Pos.eqb].
  change (A_PEER =? 18) with true. cbn iota. change (A_PEER =? 19) with false. change (A_DATA =? 19) with true. cbn iota.
  pose proof (get_address_xor id to Hto Hid) as Hx. unfold bytes in *. rewrite Hx. reflexivity.
Qed.

(** * RFC 5766 / draft-09: ChannelData *)
Lemma wrap_rfc_bound s to p b :
  is_rfc (c_compat (cf s)) = true -> find_binding (channels s) to = Some b ->
  chan_table_ok s -> blen p <= 65000 ->
  exists s' d, wrap s to p = (s', WMsg d) /\ relay_decode (relay_of s) d = Some (to, p).
Proof.
  intros Hrfc Hfb Htab Hp.
  apply find_binding_some in Hfb as Hb. destruct Hb as [Hin Hpeer].
  destruct (Htab Hrfc b Hin) as [Hch Hlook].
  pose proof (blen_nonneg p) as Hp0.
  unfold wrap. rewrite Hfb, Hrfc.
  assert (Hle : blen p + 4 <=? STUN_MAX_MESSAGE_SIZE = true) by (apply Z.leb_le; unfold STUN_MAX_MESSAGE_SIZE; lia).
  rewrite Hle. eexists _, _. split; [reflexivity|].
  unfold relay_decode. rewrite r_rfc_of, Hrfc.
  rewrite Z.mod_small by lia.
  unfold be16. cbn [app].
  assert (Ec : u16 ((b_chan b / 256) mod 256) (b_chan b mod 256) = b_chan b) by (unfold u16; pose proof (be16_u16 (b_chan b) ltac:(lia)); lia).
  assert (El : u16 ((blen p / 256) mod 256) (blen p mod 256) = blen p) by (unfold u16; pose proof (be16_u16 (blen p) ltac:(lia)); lia).
  assert (Hc0 : (64 <=? (b_chan b / 256) mod 256) && ((b_chan b / 256) mod 256 <? 128) = true).
  { rewrite Z.mod_small by (split; [apply Z.div_pos; lia | apply Z.div_lt_upper_bound; lia]).
    apply andb_true_iff; split; [apply Z.leb_le; apply Z.div_le_lower_bound; lia | apply Z.ltb_lt; apply Z.div_lt_upper_bound; lia]. }
  rewrite Hc0, Ec, El.
  assert (Hl2 : blen p <=? blen p = true) by (apply Z.leb_le; lia). rewrite Hl2, Hlook.
  unfold take. rewrite blen_length, firstn_all, Hpeer. reflexivity.
Qed.

(** * Google / MSN / OC2007: raw data on the locked channel *)
Lemma wrap_old_bound s to p b :
  is_rfc (c_compat (cf s)) = false -> find_binding (channels s) to = Some b ->
  old_single s ->
  old_turn_message (negb (no_aligned (c_compat (cf s)))) p = None ->
  exists s' d, wrap s to p = (s', WRaw d) /\ relay_decode (relay_of s) d = Some (to, p).
Proof.
  intros Hrfc Hfb Hsingle Hnt.
  apply find_binding_some in Hfb as Hb. destruct Hb as [Hin Hpeer].
  unfold wrap. rewrite Hfb, Hrfc. eexists _, _. split; [reflexivity|].
  unfold relay_decode. rewrite r_rfc_of, Hrfc, r_padded_of, Hnt.
  specialize (Hsingle Hrfc).
  unfold relay_of; cbn [r_active].
  destruct (channels s) as [|b0 [|b1 l]]; [destruct Hin | | simpl in Hsingle; lia].
  destruct Hin as [-> | []]. rewrite Hpeer. reflexivity.
Qed.

(** * Google / MSN / OC2007: Send request *)
Lemma c_strlen_le b : blen (c_strlen b) <= blen b.
Proof.
  unfold c_strlen. induction b as [|x b IH]; [lia|].
  destruct (x =? 0); rewrite ?blen_cons; [rewrite blen_nil; pose proof (blen_nonneg b); lia | lia].
Qed.

Ltac pad_facts :=
  repeat match goal with
         | |- context [padding ?x] => lazymatch goal with | H : 0 <= padding x < 4 |- _ => fail | _ => pose proof (padding_range x) end
         end.

Lemma old_flags c : is_rfc c = false -> c = GOOGLE \/ c = MSN \/ c = OC2007.
Proof. destruct c; simpl; intros; try discriminate; auto. Qed.

(* the attribute list of a Send request, as the relay's parser sees it *)
Lemma send_request_lookups (c : compat) (user cidb realm : bytes) (to : addr) (hasuser lockopt hasconn : bool) (seq' : Z) (p : bytes) tail :
  is_rfc c = false -> wf_addr to ->
  (short_term c = true -> blen p mod 4 = 0) ->
  (tail = [] \/ tail = [(A_MI, mi_value)]) ->
  let pre := [(A_MAGIC_COOKIE, turn_cookie_bytes, false)] ++ opt hasuser A_USERNAME user ++ [(A_DEST, enc_addr to, false)]
             ++ opt lockopt A_OPTIONS (be32 1) ++ opt (oc2007 c) A_MS_VERSION (be32 1) in
  let post := opt (oc2007 c && hasconn) A_MS_SEQ (cidb ++ be32 seq') ++ (if oc2007 c then [(A_REALM, realm, true)] else []) ++ [(A_DATA, p, false)] in
  let al := (strip pre ++ strip post) ++ tail in
  lookup_attr 15 (map (seen c false) al) = Some turn_magic /\
  lookup_attr 17 (map (seen c false) al) = Some (enc_addr to) /\
  lookup_attr 19 (map (seen c false) al) = Some p.
Proof.
  intros Hrfc Hto Hmod Htail.
  pose proof (blen_enc_addr to Hto) as Hbl.
  assert (Hpada : padding (blen (enc_addr to)) = 0) by (rewrite Hbl; destruct (a6 to); reflexivity).
  assert (E0 : forall x : bytes, x ++ zeros 0 = x) by (intros; change (zeros 0) with (@nil Z); apply app_nil_r).
  destruct c; try discriminate Hrfc; cbn [oc2007 andb]; destruct hasuser, lockopt; try destruct hasconn;
    unfold opt, strip; cbn [app map fst snd]; unfold seen; cbn [fst snd no_aligned swap_realm_nonce oc2007];
    try (rewrite (padding_div4 (blen p)) by (apply Hmod; reflexivity));
    rewrite ?Hpada, ?E0; change (turn_cookie_bytes ++ zeros (padding (blen turn_cookie_bytes))) with turn_magic;
    cbn [lookup_attr]; repeat split; reflexivity.
Qed.

Lemma wrap_old_unbound s to p :
  is_rfc (c_compat (cf s)) = false -> find_binding (channels s) to = None ->
  wf_addr to -> blen p <= 65000 -> bounds_ok s ->
  (short_term (c_compat (cf s)) = true -> (length (ids s) < MAX_SAVED_IDS)%nat) ->
  (short_term (c_compat (cf s)) = true -> blen p mod 4 = 0) ->
  exists s' b, wrap s to p = (s', WMsg b) /\ relay_decode (relay_of s) b = Some (to, p).
Proof.
  intros Hrfc Hfb Hto Hp (Hu & Hr & Hconn) Hids Hmod.
  pose proof (blen_nonneg p) as Hp0. pose proof (blen_nonneg (c_user (cf s))) as Hu0.
  pose proof (c_strlen_le (ms_realm s)) as Hsl. pose proof (blen_nonneg (c_strlen (ms_realm s))) as Hsl0.
  pose proof (blen_enc_addr to Hto) as Hbl.
  unfold wrap. rewrite Hfb, Hrfc. rewrite (init_msg_old _ _ _ _ Hrfc).
  set (id := mk_tid (next_tid s + 1)).
  assert (Hid : length id = 16%nat) by reflexivity.
  set (m0 := {| s_type := stun_type C_REQUEST M_SEND; s_id := id; s_attrs := [] |}).
  assert (Hck : has_cookie m0 = false) by reflexivity.
  set (c := c_compat (cf s)) in *.
  set (seq' := (ms_seq (set_tid s (next_tid s + 1)) + 1) mod 4294967296).
  (* sizes *)
  assert (Hpre : blen (encs c false (strip (send_request_pre s to))) <= 8 + (4 + 256 + 3) + 24 + 8 + 8 /\
                 Forall (attr_ok c) (strip (send_request_pre s to)) /\ (length (send_request_pre s to) <= 5)%nat).
  { unfold send_request_pre. fold c.
    destruct (0 <? blen (c_user (cf s))); destruct (match c with GOOGLE => _ | _ => _ end); destruct (oc2007 c);
      unfold opt, strip, encs; cbn [app map flat_map fst snd length]; rewrite ?app_nil_r, ?blen_app, ?blen_enc1; cbn [snd];
      rewrite ?Hbl; change (blen turn_cookie_bytes) with 4; change (blen (be32 1)) with 4; change (padding 4) with 0; pad_facts;
      (split; [destruct (no_aligned c), (a6 to); try change (padding 20) with 0; try change (padding 8) with 0; lia |
               split; [repeat constructor; cbn [fst snd]; try (apply swap_range; unfold A_MAGIC_COOKIE, A_USERNAME, A_DEST, A_OPTIONS, A_MS_VERSION; lia);
                       rewrite ?Hbl; try change (blen turn_cookie_bytes) with 4; try change (blen (be32 1)) with 4; try (destruct (a6 to)); lia | lia]]). }
  destruct Hpre as (Hpre & Hpreok & Hprelen).
  pose proof (blen_encs_nonneg c false (strip (send_request_pre s to))) as Hpre0.
  rewrite append_all_ok; rewrite ?Hck; cbn [s_attrs m0]; rewrite ?blen_nil; unfold STUN_MAX_MESSAGE_SIZE; [ | lia | lia | lia].
  cbn [s_type s_id m0]. rewrite app_nil_l.
  set (m5 := {| s_type := _; s_id := id; s_attrs := _ |}).
  assert (Hck5 : has_cookie m5 = false) by reflexivity.
  assert (Hpost : blen (encs c false (strip (send_request_post s seq' p))) <= 31 + (4 + 128 + 3) + (4 + blen p + 3) /\
                  Forall (attr_ok c) (strip (send_request_post s seq' p)) /\ (length (send_request_post s seq' p) <= 3)%nat).
  { unfold send_request_post. fold c.
    destruct (ms_conn s) as [cid|] eqn:Ecid; [pose proof (Hconn cid eq_refl) as Hcid|]; cbn [is_some opt_bytes];
    destruct (oc2007 c); cbn [andb];
      unfold opt, strip, encs; cbn [app map flat_map fst snd length]; rewrite ?app_nil_r, ?blen_app, ?blen_enc1; cbn [snd];
      rewrite ?blen_app, ?Hcid; change (blen (be32 seq')) with 4; pad_facts;
      (split; [destruct (no_aligned c); lia |
               split; [repeat constructor; cbn [fst snd]; try (apply swap_range; unfold A_MS_SEQ, A_REALM, A_DATA; lia);
                       rewrite ?blen_app, ?Hcid; try change (blen (be32 seq')) with 4; lia | lia]]). }
  destruct Hpost as (Hpost & Hpostok & Hpostlen).
  pose proof (blen_encs_nonneg c false (strip (send_request_post s seq' p))) as Hpost0.
  rewrite append_all_ok; rewrite ?Hck5; cbn [s_attrs m5]; unfold STUN_MAX_MESSAGE_SIZE; [ | lia | lia | lia].
  cbn [s_type s_id m5].
  set (m6 := {| s_type := _; s_id := id; s_attrs := _ |}).
  set (s2 := if oc2007 c && is_some (ms_conn (set_tid s (next_tid s + 1))) then _ else _).
  assert (Hcf2 : cf s2 = cf s) by (unfold s2; destruct (oc2007 c && _); reflexivity).
  assert (Hids2 : ids s2 = ids s) by (unfold s2; destruct (oc2007 c && _); reflexivity).
  destruct (finish_shape (cf s2) (ids s2) C_REQUEST M_SEND m6) as (tail & ids' & Hf & Htail).
  { rewrite Hcf2, Hids2. fold c. intros Hrem. apply Hids.
    destruct c; simpl in *; try discriminate; reflexivity. }
  { unfold m6; cbn [s_attrs]. rewrite blen_app. lia. }
  rewrite Hf. rewrite Hcf2. fold c.
  assert (Hck6 : has_cookie m6 = false) by reflexivity. rewrite Hck6.
  match goal with |- context [(?st, WMsg ?bb)] => exists st, bb end. split; [reflexivity|].
  (* the relay *)
  unfold relay_decode. rewrite r_rfc_of, r_padded_of. fold c. rewrite Hrfc.
  unfold serialize. cbn [s_type s_id s_attrs m6]. rewrite <- !encs_app.
  set (al := (strip (send_request_pre s to) ++ strip (send_request_post s seq' p)) ++ tail).
  set (attrs := encs c false al).
  assert (Hal : blen attrs < 65536).
  { unfold attrs, al. rewrite !encs_app, !blen_app. destruct Htail as [-> | ->].
    - change (blen (encs c false [])) with 0. lia.
    - unfold encs at 3; cbn [flat_map]. rewrite app_nil_r, blen_enc1. cbn [snd]. change (blen mi_value) with 20. change (padding 20) with 0.
      destruct (no_aligned c); lia. }
  assert (Hga : get_attrs (S (length (id ++ attrs))) (negb (no_aligned c)) attrs = Some (map (seen c false) al)).
  { unfold attrs. apply get_attrs_encs.
    - unfold al. rewrite !Forall_app. repeat split; auto.
      destruct Htail as [-> | ->]; repeat constructor; cbn [fst snd]; try (apply swap_range; unfold A_MI; lia).
      all: try (change (blen mi_value) with 20; lia).
    - match goal with |- (_ < S (length (id ++ ?x)))%nat => rewrite (app_length id x), Hid end. unfold al. rewrite !app_length. unfold strip. rewrite !map_length. unfold aspec in *. destruct Htail as [-> | ->]; cbn [length]; lia. }
  pose proof (get_msg_ok (negb (no_aligned c)) 4 id attrs _ ltac:(lia) Hid Hal Hga) as Hgm.
  change (stun_type C_REQUEST M_SEND) with 4.
  unfold old_turn_message. rewrite Hgm.
  (* now the attribute list is explicit *)
  assert (Hlook : lookup_attr 15 (map (seen c false) al) = Some turn_magic /\
                  lookup_attr 17 (map (seen c false) al) = Some (enc_addr to) /\
                  lookup_attr 19 (map (seen c false) al) = Some p).
  { unfold al, send_request_pre, send_request_post. fold c.
    apply (send_request_lookups c (c_user (cf s)) (opt_bytes (ms_conn s)) (c_strlen (ms_realm s)) to _ _ (is_some (ms_conn s)) seq' p tail Hrfc Hto Hmod Htail). }
  destruct Hlook as (H15 & H17 & H19).
  rewrite H15. assert (Hsm : same turn_magic turn_magic = true) by reflexivity. rewrite Hsm.
  change (4 =? 4) with true. cbn iota. rewrite H17, H19.
  rewrite (get_address_plain to Hto). reflexivity.
Qed.

(** * C16_wrap *)
Definition wrap_pre (s : state) (to : addr) (p : bytes) : Prop :=
  let c := c_compat (cf s) in
  wf_addr to /\ blen p <= 65000 /\ bounds_ok s /\ chan_table_ok s /\ old_single s /\
  (short_term c = true -> find_binding (channels s) to = None ->
     (length (ids s) < MAX_SAVED_IDS)%nat /\ blen p mod 4 = 0) /\
  (is_rfc c = false -> find_binding (channels s) to <> None -> old_turn_message (negb (no_aligned c)) p = None).

Theorem wrap_transparent s to p : wrap_pre s to p ->
  exists s' b, (wrap s to p = (s', WMsg b) \/ wrap s to p = (s', WRaw b)) /\ relay_decode (relay_of s) b = Some (to, p).
Proof.
  intros (Hto & Hp & Hb & Htab & Hsingle & Hshort & Hraw).
  destruct (is_rfc (c_compat (cf s))) eqn:Hrfc; destruct (find_binding (channels s) to) as [b|] eqn:Hfb.
  - destruct (wrap_rfc_bound s to p b Hrfc Hfb Htab Hp) as (s' & d & H1 & H2). eauto.
  - destruct (wrap_rfc_unbound s to p Hrfc Hfb Hto Hp) as (s' & d & H1 & H2). eauto.
  - destruct (wrap_old_bound s to p b Hrfc Hfb Hsingle) as (s' & d & H1 & H2); [apply Hraw; [reflexivity | discriminate]|]. eauto.
  - destruct (wrap_old_unbound s to p Hrfc Hfb Hto Hp Hb) as (s' & d & H1 & H2);
      [intros H; apply (Hshort H eq_refl) | intros H; apply (Hshort H eq_refl) |]. eauto.
Qed.

(** witnesses for the two excluded triggers *)
Definition ex_peer4 : addr := {| a6 := false; aip := [192; 168; 0; 1]; aport := [4; 0] |}.
Definition ex_peer6 : addr := {| a6 := true; aip := [32; 1; 13; 184; 0; 0; 0; 0; 0; 0; 0; 0; 0; 0; 0; 1]; aport := [255; 255] |}.
Definition ex_server : addr := {| a6 := false; aip := [192; 0; 2; 1]; aport := [13; 150] |}.
Definition ex_cfg (c : compat) : cfg := {| c_compat := c; c_server := ex_server; c_user := [117; 115; 101; 114]; c_pwlen := 4 |}.

(* GOOGLE (and MSN) Send request: a 5-byte payload reaches the relay as 8 bytes *)
Lemma wrap_padded_refuted :
  exists s to p, wf_addr to /\ blen p <= 65000 /\ (length (ids s) < MAX_SAVED_IDS)%nat /\
    exists s' b, wrap s to p = (s', WMsg b) /\ relay_decode (relay_of s) b = Some (to, p ++ [0; 0; 0]).
Proof.
  exists (init_state (ex_cfg GOOGLE)), ex_peer4, [104; 101; 108; 108; 111].
  split; [split; reflexivity|]. split; [vm_compute; intro H; discriminate H|]. split; [vm_compute; lia|].
  eexists _, _. split; vm_compute; reflexivity.
Qed.

(* 200 Send requests outstanding: the payload leaves un-relayed ("error condition pass through") *)
Lemma wrap_ids_exhausted_refuted :
  exists s to p s', wf_addr to /\ blen p mod 4 = 0 /\ length (ids s) = MAX_SAVED_IDS /\ wrap s to p = (s', WPass p).
Proof.
  exists (set_ids (init_state (ex_cfg MSN)) (repeat {| si_tid := []; si_method := 4; si_lt := false |} 200)), ex_peer4, [1; 2; 3; 4].
  eexists. split; [split; reflexivity|]. split; [reflexivity|]. split; [reflexivity|]. vm_compute. reflexivity.
Qed.

(** non-vacuity: the premises hold in each mode, bound and unbound, IPv4 and IPv6 *)
Definition ex_bound (c : compat) (peer : addr) : state :=
  set_channels (init_state (ex_cfg c)) [ {| b_peer := peer; b_chan := if is_rfc c then 16384 else 0 |} ].
Lemma wrap_pre_init c to p : wf_addr to -> blen p <= 65000 -> (short_term c = true -> blen p mod 4 = 0) ->
  wrap_pre (init_state (ex_cfg c)) to p.
Proof.
  intros Hto Hp Hm. unfold wrap_pre. cbn [init_state cf ex_cfg c_compat channels ids].
  split; [exact Hto|]. split; [exact Hp|].
  split; [split; [vm_compute; intro H; discriminate H | split; [vm_compute; intro H; discriminate H | intros id H; discriminate H]]|].
  split; [intros _ b []|].
  split; [intros _; simpl; lia|].
  split; [intros H _; split; [vm_compute; lia | apply Hm; exact H] | intros _ H; exfalso; apply H; reflexivity].
Qed.
Lemma wrap_pre_bound c peer p : wf_addr peer -> blen p <= 65000 ->
  (is_rfc c = false -> old_turn_message (negb (no_aligned c)) p = None) ->
  wrap_pre (ex_bound c peer) peer p.
Proof.
  intros Hto Hp Hraw. unfold wrap_pre, ex_bound. cbn [init_state cf ex_cfg c_compat channels ids set_channels].
  assert (Hfb : find_binding [{| b_peer := peer; b_chan := if is_rfc c then 16384 else 0 |}] peer <> None)
    by (unfold find_binding; cbn [find b_peer]; rewrite addr_eqb_refl; discriminate).
  split; [exact Hto|]. split; [exact Hp|].
  split; [split; [vm_compute; intro H; discriminate H | split; [vm_compute; intro H; discriminate H | intros id H; discriminate H]]|].
  split.
  { intros Hr b [<-|[]]. cbn [b_chan b_peer]. cbn [set_channels cf init_state ex_cfg c_compat] in Hr. rewrite Hr.
    split; [lia|]. unfold relay_of. cbn [r_chans channels set_channels map b_chan b_peer chan_peer]. rewrite Z.eqb_refl. reflexivity. }
  split; [intros _; simpl; lia|].
  split; [intros _ H; contradiction | intros H _; apply Hraw; exact H].
Qed.

Ltac ex_side := first [ split; reflexivity | (vm_compute; let H := fresh in intro H; discriminate H) | (intros; reflexivity) | (let H := fresh in intros H; discriminate H) ].
Lemma wrap_pre_examples :
  wrap_pre (init_state (ex_cfg RFC5766)) ex_peer6 [1; 2; 3] /\ wrap_pre (init_state (ex_cfg DRAFT9)) ex_peer4 [] /\
  wrap_pre (init_state (ex_cfg GOOGLE)) ex_peer4 [1; 2; 3; 4] /\ wrap_pre (init_state (ex_cfg MSN)) ex_peer6 [] /\
  wrap_pre (init_state (ex_cfg OC2007)) ex_peer4 [1; 2; 3; 4; 5] /\
  wrap_pre (ex_bound RFC5766 ex_peer4) ex_peer4 [1; 2; 3; 4; 5] /\ wrap_pre (ex_bound GOOGLE ex_peer6) ex_peer6 [128; 1; 2] /\
  wrap_pre (ex_bound OC2007 ex_peer4) ex_peer4 [0; 1; 0; 0].
Proof.
  split; [apply wrap_pre_init; ex_side|]. split; [apply wrap_pre_init; ex_side|].
  split; [apply wrap_pre_init; ex_side|]. split; [apply wrap_pre_init; ex_side|].
  split; [apply wrap_pre_init; ex_side|]. split; [apply wrap_pre_bound; ex_side|].
  split; [apply wrap_pre_bound; ex_side | apply wrap_pre_bound; ex_side].
Qed.

(** statements as they appear in Props/Properties_C16.v *)
Lemma wrap_transparent_stmt : forall s peer p,
  wf_addr peer -> blen p <= 65000 ->
  blen (c_user (cf s)) <= 256 /\ blen (ms_realm s) <= 128 /\ (forall id, ms_conn s = Some id -> blen id = 20) ->
  chan_table_ok s -> old_single s ->
  (short_term (c_compat (cf s)) = true -> find_binding (channels s) peer = None ->
     (length (ids s) < MAX_SAVED_IDS)%nat /\ blen p mod 4 = 0) ->
  (is_rfc (c_compat (cf s)) = false -> find_binding (channels s) peer <> None ->
     old_turn_message (negb (no_aligned (c_compat (cf s)))) p = None) ->
  exists s' b, (wrap s peer p = (s', WMsg b) \/ wrap s peer p = (s', WRaw b)) /\
               relay_decode (relay_of s) b = Some (peer, p).
Proof. intros s peer p H1 H2 H3 H4 H5 H6 H7. apply wrap_transparent. exact (conj H1 (conj H2 (conj H3 (conj H4 (conj H5 (conj H6 H7)))))). Qed.
Lemma wrap_rfc_stmt : forall s peer p,
  is_rfc (c_compat (cf s)) = true -> wf_addr peer -> blen p <= 65000 -> chan_table_ok s ->
  exists s' b, wrap s peer p = (s', WMsg b) /\ relay_decode (relay_of s) b = Some (peer, p).
Proof.
  intros s peer p Hr Hw Hp Ht. destruct (find_binding (channels s) peer) as [b|] eqn:E.
  - exact (wrap_rfc_bound s peer p b Hr E Ht Hp).
  - exact (wrap_rfc_unbound s peer p Hr E Hw Hp).
Qed.
