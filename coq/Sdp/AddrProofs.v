(** Lemmas about AddrModel: positional numerals, the IPv4 text round trip, byte order, equality and
    the classification ranges.  (IPv6 text round trip: Addr6Proofs.v.) *)
From Coq Require Import ZArith List Bool Lia ZifyBool.
From Nice Require Import Base.CSem Gen.Address Sdp.AddrModel.
Import ListNotations.
Local Open Scope Z_scope.
Ltac Zify.zify_post_hook ::= Z.div_mod_to_equations.

(** * positional numerals *)
Definition dstep (b a d : Z) : Z := a * b + d.
Definition dvalue (b : Z) (ds : list Z) (acc : Z) : Z := fold_left (dstep b) ds acc.
Definition all_digits (b : Z) (ds : list Z) : Prop := Forall (fun d => 0 <= d < b) ds.

Lemma dvalue_app b xs ys acc : dvalue b (xs ++ ys) acc = dvalue b ys (dvalue b xs acc).
Proof. unfold dvalue. apply fold_left_app. Qed.

Lemma digits_value b fuel : 1 < b -> forall n, 0 <= n < b ^ (Z.of_nat fuel + 1) -> dvalue b (digits b fuel n) 0 = n.
Proof.
  intros Hb. induction fuel as [|f IH]; intros n Hn.
  - change (Z.of_nat 0 + 1) with 1 in Hn. rewrite Z.pow_1_r in Hn. unfold dvalue, dstep. simpl. rewrite Z.mod_small by lia. lia.
  - cbn [digits]. destruct (n <? b) eqn:E.
    + unfold dvalue, dstep. simpl. lia.
    + rewrite dvalue_app. rewrite IH.
      * unfold dvalue, dstep. simpl. apply Z.ltb_ge in E. pose proof (Z.div_mod n b ltac:(lia)). lia.
      * apply Z.ltb_ge in E. split. { apply Z.div_pos; lia. }
        apply Z.div_lt_upper_bound; [lia|].
        replace (Z.of_nat (S f) + 1) with (Z.succ (Z.of_nat f + 1)) in Hn by lia.
        rewrite Z.pow_succ_r in Hn by lia. lia.
Qed.

Lemma digits_range b fuel : 1 < b -> forall n, 0 <= n -> all_digits b (digits b fuel n).
Proof.
  intros Hb. induction fuel as [|f IH]; intros n Hn; cbn [digits].
  - constructor; [|constructor]. apply Z.mod_pos_bound. lia.
  - destruct (n <? b) eqn:E.
    + constructor; [|constructor]. apply Z.ltb_lt in E. lia.
    + apply Forall_app. split.
      * apply IH. apply Z.div_pos; lia.
      * constructor; [|constructor]. apply Z.mod_pos_bound. lia.
Qed.

(* the first digit is non-zero unless the number is 0, in which case the numeral is "0" *)
Lemma digits_head b fuel : 1 < b -> forall n, 0 <= n < b ^ (Z.of_nat fuel + 1) ->
  exists d tl, digits b fuel n = d :: tl /\ 0 <= d < b /\ (d = 0 -> n = 0 /\ tl = []).
Proof.
  intros Hb. induction fuel as [|f IH]; intros n Hn; cbn [digits].
  - change (Z.of_nat 0 + 1) with 1 in Hn. rewrite Z.pow_1_r in Hn. exists (n mod b), []. rewrite Z.mod_small by lia. repeat split; lia.
  - destruct (n <? b) eqn:E.
    + apply Z.ltb_lt in E. exists n, []. repeat split; lia.
    + apply Z.ltb_ge in E.
      assert (Hq : 0 <= n / b < b ^ (Z.of_nat f + 1)).
      { split. { apply Z.div_pos; lia. }
        apply Z.div_lt_upper_bound; [lia|].
        replace (Z.of_nat (S f) + 1) with (Z.succ (Z.of_nat f + 1)) in Hn by lia.
        rewrite Z.pow_succ_r in Hn by lia. lia. }
      destruct (IH _ Hq) as (d & tl & Hd & Hr & Hz).
      exists d, (tl ++ [n mod b]). rewrite Hd. split; [reflexivity|]. split; [assumption|].
      intros H0. destruct (Hz H0) as [Hq0 _]. exfalso.
      assert (1 <= n / b) by (apply Z.div_le_lower_bound; lia). lia.
Qed.

Lemma digits_length b fuel : 1 < b -> forall (k : nat) n, 0 <= n < b ^ Z.of_nat (S k) -> (length (digits b fuel n) <= S k)%nat.
Proof.
  intros Hb. induction fuel as [|f IH]; intros k n Hn; cbn [digits].
  - simpl. lia.
  - destruct (n <? b) eqn:E.
    + simpl. lia.
    + apply Z.ltb_ge in E. rewrite app_length. simpl.
      destruct k as [|k].
      * change (Z.of_nat 1) with 1 in Hn. rewrite Z.pow_1_r in Hn. lia.
      * assert (Hq : 0 <= n / b < b ^ Z.of_nat (S k)).
        { split. { apply Z.div_pos; lia. }
          apply Z.div_lt_upper_bound; [lia|].
          replace (Z.of_nat (S (S k))) with (Z.succ (Z.of_nat (S k))) in Hn by lia.
          rewrite Z.pow_succ_r in Hn by lia. lia. }
        specialize (IH k _ Hq). lia.
Qed.

(** characters of digits *)
Lemma hexval_dchar d : 0 <= d < 16 -> hexval (dchar d) = Some d.
Proof. intros H. unfold hexval, dchar, is_digit. destruct (d <? 10) eqn:E; [|assert (Hd : 10 <= d) by lia];
  repeat match goal with |- context [if ?c then _ else _] => destruct c eqn:?; try lia end; f_equal; lia. Qed.

Lemma digval_dchar b d : 0 <= d < b -> b <= 16 -> digval b (dchar d) = Some d.
Proof. intros H Hb. unfold digval. rewrite hexval_dchar by lia. destruct (d <? b) eqn:E; [reflexivity|lia]. Qed.

Lemma is_digit_dchar d : 0 <= d < 10 -> is_digit (dchar d) = true.
Proof. intros H. unfold is_digit, dchar. destruct (d <? 10) eqn:E; lia. Qed.

Lemma dchar_dec d : 0 <= d < 10 -> dchar d = 48 + d.
Proof. intros H. unfold dchar. destruct (d <? 10) eqn:E; lia. Qed.

(* where a scan stops *)
Definition stops (b : Z) (rest : str) : Prop := match rest with [] => True | c :: _ => digval b c = None end.

Lemma scan_num_stops b rest acc : stops b rest -> scan_num b rest acc = (acc, rest).
Proof. destruct rest as [|c tl]; simpl; intros H; [reflexivity|rewrite H; reflexivity]. Qed.

Lemma scan_num_digits b ds : b <= 16 -> all_digits b ds -> forall rest acc,
  scan_num b (map dchar ds ++ rest) acc = scan_num b rest (dvalue b ds acc).
Proof.
  intros Hb H. induction H as [|d ds Hd _ IH]; intros rest acc; simpl; [reflexivity|].
  rewrite digval_dchar by lia. apply IH.
Qed.

Lemma scan_num_print b fuel n rest : 1 < b <= 16 -> 0 <= n < b ^ (Z.of_nat fuel + 1) -> stops b rest ->
  scan_num b (map dchar (digits b fuel n) ++ rest) 0 = (n, rest).
Proof.
  intros Hb Hn Hs. rewrite scan_num_digits by (try apply digits_range; lia).
  rewrite digits_value by lia. apply scan_num_stops. assumption.
Qed.

Lemma pow10_21 : 10 ^ (Z.of_nat 20 + 1) = 1000000000000000000000. Proof. reflexivity. Qed.
Lemma pow16_9 : 16 ^ (Z.of_nat 8 + 1) = 68719476736. Proof. reflexivity. Qed.

Definition DECMAX := 1000000000000000000000.

Lemma scan_print_dec n rest : 0 <= n < DECMAX -> stops 10 rest -> scan_num 10 (print_dec n ++ rest) 0 = (n, rest).
Proof. intros. unfold print_dec. apply scan_num_print; [lia| rewrite pow10_21; assumption | assumption]. Qed.

(* shape of a decimal numeral *)
Lemma print_dec_shape n : 0 <= n < DECMAX ->
  exists d tl, print_dec n = (48 + d) :: map dchar tl /\ 0 <= d < 10 /\ all_digits 10 (d :: tl) /\
               dvalue 10 (d :: tl) 0 = n /\ (d = 0 -> n = 0 /\ tl = []).
Proof.
  intros Hn. unfold print_dec.
  destruct (digits_head 10 20 ltac:(lia) n ltac:(rewrite pow10_21; exact Hn)) as (d & tl & Hd & Hr & Hz).
  exists d, tl. pose proof (digits_range 10 20 ltac:(lia) n ltac:(lia)) as Hall.
  pose proof (digits_value 10 20 ltac:(lia) n ltac:(rewrite pow10_21; exact Hn)) as Hv.
  rewrite Hd in *. simpl. rewrite dchar_dec by lia. repeat split; try assumption; try lia.
  destruct (Hz H); assumption.
Qed.

Lemma print_dec_0 : print_dec 0 = [48]. Proof. reflexivity. Qed.

(* every character of a numeral is a lower-case hex digit character, in particular not ' ', ':', '.', '%' *)
Definition numchar (c : Z) : Prop := (48 <= c <= 57) \/ (97 <= c <= 102).
Lemma dchar_numchar d : 0 <= d < 16 -> numchar (dchar d).
Proof. intros. unfold numchar, dchar. destruct (d <? 10) eqn:E; lia. Qed.
Lemma print_dec_chars n : 0 <= n -> Forall numchar (print_dec n).
Proof.
  intros. unfold print_dec. apply Forall_map.
  eapply Forall_impl; [|apply (digits_range 10 20); lia]. intros d Hd. apply dchar_numchar. simpl in Hd. lia.
Qed.
Lemma print_hex_chars n : 0 <= n -> Forall numchar (print_hex n).
Proof.
  intros. unfold print_hex. apply Forall_map.
  eapply Forall_impl; [|apply (digits_range 16 8); lia]. intros d Hd. apply dchar_numchar. simpl in Hd. lia.
Qed.

(** * IPv4: from_string (to_string a) = a *)
Lemma byte_of_range x i : 0 <= byte_of x i < 256.
Proof. unfold byte_of. apply Z.mod_pos_bound. lia. Qed.

Lemma bytes_recompose ip : 0 <= ip < 4294967296 ->
  byte_of ip 3 * 16777216 + byte_of ip 2 * 65536 + byte_of ip 1 * 256 + byte_of ip 0 = ip.
Proof.
  intros H. unfold byte_of. change (2 ^ (8 * 3)) with 16777216. change (2 ^ (8 * 2)) with 65536.
  change (2 ^ (8 * 1)) with 256. change (2 ^ (8 * 0)) with 1. lia.
Qed.

(* strtoul base 0 on a printed decimal followed by '.' or the end *)
Definition dot_or_end (rest : str) : Prop := rest = [] \/ exists r, rest = 46 :: r.

Lemma dot_or_end_stops b rest : dot_or_end rest -> stops b rest.
Proof. intros [->|[r ->]]; simpl; [exact I|reflexivity]. Qed.

Lemma strtoul0_dec n rest : 0 <= n < DECMAX -> dot_or_end rest -> strtoul0 (print_dec n ++ rest) = (n, rest).
Proof.
  intros Hn Hr.
  destruct (print_dec_shape n Hn) as (d & tl & Hp & Hd & Hall & Hv & Hz).
  pose proof (scan_print_dec n rest Hn (dot_or_end_stops 10 rest Hr)) as Hs.
  rewrite Hp in *. cbn [app] in *. unfold strtoul0.
  destruct (48 + d =? 48) eqn:E.
  - assert (d = 0) by lia. destruct (Hz H) as [-> ->]. subst d. simpl.
    destruct Hr as [->|[r ->]]; reflexivity.
  - exact Hs.
Qed.

Lemma print_dec_head_digit n : 0 <= n < DECMAX -> exists c tl, print_dec n = c :: tl /\ is_digit c = true.
Proof.
  intros Hn. destruct (print_dec_shape n Hn) as (d & tl & Hp & Hd & _).
  exists (48 + d), (map dchar tl). split; [assumption|]. unfold is_digit. lia.
Qed.

Lemma aton_part_dot f b r np hi : 0 <= b <= 255 -> 0 <= np <= 2 ->
  aton_loop (S f) (print_dec b ++ 46 :: r) np hi = aton_loop f r (np + 1) (hi + b * 2 ^ (8 * (3 - np))).
Proof.
  intros Hb Hnp.
  pose proof (strtoul0_dec b (46 :: r) ltac:(unfold DECMAX; lia) ltac:(right; eexists; reflexivity)) as Hs.
  destruct (print_dec_head_digit b ltac:(unfold DECMAX; lia)) as (c & tl & Hp & Hc).
  rewrite Hp in *. cbn [app aton_loop] in *. rewrite Hc. rewrite Hs.
  replace (b >? 4294967295) with false by lia. simpl (46 =? 46).
  replace ((np >? 2) || (b >? 255)) with false by lia. reflexivity.
Qed.

Lemma aton_part_end f b np hi : 0 <= b <= aton_max np -> b <= 4294967295 ->
  aton_loop (S f) (print_dec b) np hi = Some (hi + b).
Proof.
  intros Hb Hm.
  pose proof (strtoul0_dec b [] ltac:(unfold DECMAX; lia) ltac:(left; reflexivity)) as Hs.
  destruct (print_dec_head_digit b ltac:(unfold DECMAX; lia)) as (c & tl & Hp & Hc).
  rewrite app_nil_r in Hs. rewrite Hp in *. cbn [aton_loop]. rewrite Hc. rewrite Hs.
  replace (b >? 4294967295) with false by lia. replace (b >? aton_max np) with false by lia. reflexivity.
Qed.

Lemma aton_ntop4 ip : 0 <= ip < 4294967296 -> inet_aton_exact (ntop4 ip) = Some ip.
Proof.
  intros H. unfold inet_aton_exact, ntop4.
  pose proof (byte_of_range ip 3). pose proof (byte_of_range ip 2). pose proof (byte_of_range ip 1). pose proof (byte_of_range ip 0).
  rewrite aton_part_dot by lia. rewrite aton_part_dot by lia. rewrite aton_part_dot by lia.
  rewrite aton_part_end by (unfold aton_max; simpl; lia).
  f_equal. pose proof (bytes_recompose ip H). simpl. lia.
Qed.

Theorem from_to_string_v4 ip p : 0 <= ip < 4294967296 -> from_string (to_string (A4 ip p)) = Some (A4 ip 0).
Proof. intros H. unfold from_string, to_string. rewrite aton_ntop4 by assumption. reflexivity. Qed.

(* the model writes res.word | htonl (val) as a sum: the stored parts and the last value are disjoint *)
Lemma aton_or_is_add np hi val k : 0 <= np <= 3 -> 0 <= k -> hi = k * 2 ^ (8 * (4 - np)) -> 0 <= val <= aton_max np ->
  Z.lor hi val = hi + val.
Proof.
  intros Hnp Hk -> Hv. unfold aton_max in Hv.
  rewrite <- Z.shiftl_mul_pow2 by lia.
  rewrite Z.add_comm, Z.lor_comm. symmetry. rewrite <- Z.lxor_lor.
  - apply Z.add_nocarry_lxor. apply Z.bits_inj'. intros n Hn. rewrite Z.land_spec, Z.bits_0.
    destruct (Z.ltb_spec n (8 * (4 - np))).
    + rewrite Z.shiftl_spec_low by lia. apply andb_false_r.
    + rewrite (Z.bits_above_log2 val n); [reflexivity|lia|].
      destruct (Z.eq_dec val 0) as [->|]; [simpl; lia|].
      apply Z.log2_lt_pow2; [lia|]. apply Z.lt_le_trans with (2 ^ (8 * (4 - np))); [lia|].
      apply Z.pow_le_mono_r; lia.
  - apply Z.bits_inj'. intros n Hn. rewrite Z.land_spec, Z.bits_0.
    destruct (Z.ltb_spec n (8 * (4 - np))).
    + rewrite Z.shiftl_spec_low by lia. apply andb_false_r.
    + rewrite (Z.bits_above_log2 val n); [reflexivity|lia|].
      destruct (Z.eq_dec val 0) as [->|]; [simpl; lia|].
      apply Z.log2_lt_pow2; [lia|]. apply Z.lt_le_trans with (2 ^ (8 * (4 - np))); [lia|].
      apply Z.pow_le_mono_r; lia.
Qed.

(** * byte order *)
Lemma bswap32_range x : 0 <= bswap32 x < 4294967296.
Proof.
  unfold bswap32. pose proof (byte_of_range x 0). pose proof (byte_of_range x 1).
  pose proof (byte_of_range x 2). pose proof (byte_of_range x 3). lia.
Qed.

Lemma bswap32_involutive x : 0 <= x < 4294967296 -> bswap32 (bswap32 x) = x.
Proof.
  intros H. pose proof (bytes_recompose x H) as Hr.
  pose proof (byte_of_range x 0) as H0. pose proof (byte_of_range x 1) as H1.
  pose proof (byte_of_range x 2) as H2. pose proof (byte_of_range x 3) as H3.
  unfold bswap32 at 1.
  set (y := bswap32 x). unfold bswap32 in y.
  assert (E0 : byte_of y 0 = byte_of x 3).
  { unfold byte_of at 1. change (2 ^ (8 * 0)) with 1. subst y. rewrite Z.div_1_r.
    generalize dependent (byte_of x 0). generalize dependent (byte_of x 1). generalize dependent (byte_of x 2).
    generalize dependent (byte_of x 3). intros. lia. }
  assert (E1 : byte_of y 1 = byte_of x 2).
  { unfold byte_of at 1. change (2 ^ (8 * 1)) with 256. subst y.
    generalize dependent (byte_of x 0). generalize dependent (byte_of x 1). generalize dependent (byte_of x 2).
    generalize dependent (byte_of x 3). intros. lia. }
  assert (E2 : byte_of y 2 = byte_of x 1).
  { unfold byte_of at 1. change (2 ^ (8 * 2)) with 65536. subst y.
    generalize dependent (byte_of x 0). generalize dependent (byte_of x 1). generalize dependent (byte_of x 2).
    generalize dependent (byte_of x 3). intros. lia. }
  assert (E3 : byte_of y 3 = byte_of x 0).
  { unfold byte_of at 1. change (2 ^ (8 * 3)) with 16777216. subst y.
    generalize dependent (byte_of x 0). generalize dependent (byte_of x 1). generalize dependent (byte_of x 2).
    generalize dependent (byte_of x 3). intros. lia. }
  rewrite E0, E1, E2, E3. lia.
Qed.

Lemma ntohl_htonl x : 0 <= x < 4294967296 -> ntohl (htonl x) = x.
Proof. exact (bswap32_involutive x). Qed.

(** * classification by ranges *)
(* x & (2^32 - 2^k) keeps the bits k..31 *)
Lemma land_high_mask x k : 0 <= k <= 32 -> 0 <= x < 4294967296 ->
  Z.land x (4294967296 - 2 ^ k) = (x / 2 ^ k) * 2 ^ k.
Proof.
  intros Hk Hx.
  assert (Hm : 4294967296 - 2 ^ k = Z.shiftl (Z.ones (32 - k)) k).
  { rewrite Z.shiftl_mul_pow2, Z.ones_equiv by lia. rewrite Z.mul_pred_l.
    rewrite <- Z.pow_add_r by lia. replace (32 - k + k) with 32 by lia. reflexivity. }
  rewrite Hm. rewrite <- Z.shiftl_mul_pow2, <- Z.shiftr_div_pow2 by lia.
  apply Z.bits_inj'. intros n Hn. rewrite Z.land_spec.
  destruct (Z.ltb_spec n k).
  - rewrite !Z.shiftl_spec_low by lia. apply andb_false_r.
  - rewrite !Z.shiftl_spec by lia. rewrite Z.shiftr_spec by lia. replace (n - k + k) with n by lia.
    destruct (Z.ltb_spec n 32).
    + rewrite Z.ones_spec_low by lia. apply andb_true_r.
    + rewrite Z.ones_spec_high by lia. rewrite andb_false_r. symmetry.
      destruct (Z.eq_dec x 0) as [->|]; [apply Z.bits_0|].
      apply Z.bits_above_log2; [lia|]. apply Z.log2_lt_pow2; [lia|].
      apply Z.lt_le_trans with (2 ^ 32); [change (2 ^ 32) with 4294967296; lia|]. apply Z.pow_le_mono_r; lia.
Qed.

Lemma mask_range x k v : 0 <= k <= 32 -> 0 <= x < 4294967296 -> v mod 2 ^ k = 0 ->
  (Z.land x (4294967296 - 2 ^ k) =? v) = (v <=? x) && (x <? v + 2 ^ k).
Proof.
  intros Hk Hx Hv. rewrite land_high_mask by assumption.
  assert (0 < 2 ^ k) by (apply Z.pow_pos_nonneg; lia).
  generalize dependent (2 ^ k). intros m Hv Hm.
  apply Bool.eq_true_iff_eq. rewrite andb_true_iff, Z.eqb_eq, Z.leb_le, Z.ltb_lt.
  assert (Ev : v = m * (v / m)) by (apply Z.div_exact; lia).
  pose proof (Z.div_mod x m ltac:(lia)) as Ex. pose proof (Z.mod_pos_bound x m Hm) as Hr.
  generalize dependent (x mod m). generalize dependent (x / m). generalize dependent (v / m).
  intros qv Ev q r Ex Hr. subst v x. split.
  - intros E. nia.
  - intros [E1 E2]. assert (q = qv) by nia. subst. ring.
Qed.

Definition in_range (lo hi x : Z) : bool := (lo <=? x) && (x <=? hi).

Lemma negb_ite01 (c : bool) : negb ((if c then 1 else 0) =? 0) = c.
Proof. destruct c; reflexivity. Qed.

Theorem is_private4_ranges ip : 0 <= ip < 4294967296 ->
  is_private4 ip = in_range 167772160 184549375 ip        (* 10.0.0.0    - 10.255.255.255  *)
                || in_range 2886729728 2887778303 ip      (* 172.16.0.0  - 172.31.255.255  *)
                || in_range 3232235520 3232301055 ip      (* 192.168.0.0 - 192.168.255.255 *)
                || in_range 2851995648 2852061183 ip      (* 169.254.0.0 - 169.254.255.255 *)
                || in_range 2130706432 2147483647 ip.     (* 127.0.0.0   - 127.255.255.255 *)
Proof.
  intros H. unfold is_private4, ipv4_address_is_private. rewrite ntohl_htonl by assumption. cbv zeta.
  change 4278190080 with (4294967296 - 2 ^ 24). change 4293918720 with (4294967296 - 2 ^ 20).
  change 4294901760 with (4294967296 - 2 ^ 16).
  rewrite !mask_range by (try reflexivity; lia).
  unfold in_range, oget. change (2 ^ 24) with 16777216. change (2 ^ 20) with 1048576. change (2 ^ 16) with 65536.
  rewrite negb_ite01. lia.
Qed.

Theorem is_linklocal4_range ip : 0 <= ip < 4294967296 ->
  is_linklocal4 ip = in_range 2851995648 2852061183 ip.
Proof.
  intros H. unfold is_linklocal4, ipv4_address_is_linklocal. rewrite ntohl_htonl by assumption. cbv zeta.
  change 4294901760 with (4294967296 - 2 ^ 16).
  rewrite !mask_range by (try reflexivity; lia).
  unfold in_range, oget. change (2 ^ 16) with 65536. rewrite negb_ite01. lia.
Qed.

(* IPv6: the first word decides, except for ::1 *)
Lemma byte_mask_c0 b : 0 <= b < 256 -> (Z.land b 192 =? 128) = (128 <=? b) && (b <? 192).
Proof.
  intros H.
  assert (E : forallb (fun b => Bool.eqb (Z.land b 192 =? 128) ((128 <=? b) && (b <? 192))) (map Z.of_nat (seq 0 256)) = true)
    by (vm_compute; reflexivity).
  rewrite forallb_forall in E. specialize (E b). rewrite Bool.eqb_true_iff in E. apply E.
  apply in_map_iff. exists (Z.to_nat b). split; [lia|]. apply in_seq. lia.
Qed.
Lemma byte_mask_fe b : 0 <= b < 256 -> (Z.land b 254 =? 252) = (252 <=? b) && (b <? 254).
Proof.
  intros H.
  assert (E : forallb (fun b => Bool.eqb (Z.land b 254 =? 252) ((252 <=? b) && (b <? 254))) (map Z.of_nat (seq 0 256)) = true)
    by (vm_compute; reflexivity).
  rewrite forallb_forall in E. specialize (E b). rewrite Bool.eqb_true_iff in E. apply E.
  apply in_map_iff. exists (Z.to_nat b). split; [lia|]. apply in_seq. lia.
Qed.

Lemma wf_words_hd ws : wf_words ws -> exists w0 tl, ws = w0 :: tl /\ 0 <= w0 < 65536.
Proof.
  intros [Hl Hf]. destruct ws as [|w0 tl]; [discriminate|]. exists w0, tl. split; [reflexivity|].
  inversion Hf; assumption.
Qed.

Theorem is_linklocal6_range ws : wf_words ws ->
  is_linklocal6 ws = in_range 65152 65215 (nth 0 ws 0).      (* fe80::/10 : first word fe80 .. febf *)
Proof.
  intros H. destruct (wf_words_hd ws H) as (w0 & tl & -> & Hw).
  unfold is_linklocal6, byte6, in_range. simpl.
  rewrite byte_mask_c0 by lia. lia.
Qed.

Theorem is_private6_ranges ws : wf_words ws ->
  is_private6 ws = in_range 65152 65215 (nth 0 ws 0)         (* fe80::/10 *)
                || in_range 64512 65023 (nth 0 ws 0)         (* fc00::/7  : first word fc00 .. fdff *)
                || zlist_eqb ws loopback6.                   (* ::1 *)
Proof.
  intros H. destruct (wf_words_hd ws H) as (w0 & tl & -> & Hw).
  unfold is_private6, byte6, in_range. cbn [nth Nat.div Nat.even Nat.divmod fst].
  rewrite byte_mask_c0 by lia. rewrite byte_mask_fe by lia.
  destruct (zlist_eqb (w0 :: tl) loopback6); [rewrite !orb_true_r; reflexivity|].
  rewrite !orb_false_r. lia.
Qed.

(** * equality *)
Lemma zlist_eqb_eq a b : zlist_eqb a b = true <-> a = b.
Proof.
  revert b. induction a as [|x a IH]; destruct b as [|y b]; simpl; split; intros H; try reflexivity; try discriminate.
  - apply andb_true_iff in H. destruct H as [H1 H2]. apply Z.eqb_eq in H1. apply IH in H2. subst. reflexivity.
  - inversion H; subst. rewrite Z.eqb_refl. simpl. apply IH. reflexivity.
Qed.
Lemma zlist_eqb_refl a : zlist_eqb a a = true.
Proof. apply zlist_eqb_eq. reflexivity. Qed.

Definition scope0 (a : addr) : Prop := match a with A6 _ _ sc => sc = 0 | A4 _ _ => True | AUnspec => False end.

(* on valid addresses with scope id 0, nice_address_equal is structural equality *)
Lemma addr_equal_iff a b : scope0 a -> scope0 b -> (addr_equal a b = true <-> a = b).
Proof.
  destruct a as [|i1 p1|w1 p1 s1], b as [|i2 p2|w2 p2 s2]; simpl; intros Ha Hb; try contradiction;
    split; intros H; try discriminate.
  - apply andb_true_iff in H. destruct H as [H1 H2]. apply Z.eqb_eq in H1, H2. subst. reflexivity.
  - inversion H; subst. rewrite !Z.eqb_refl. reflexivity.
  - subst. apply andb_true_iff in H. destruct H as [H _]. apply andb_true_iff in H. destruct H as [H1 H2].
    apply zlist_eqb_eq in H1. apply Z.eqb_eq in H2. subst. reflexivity.
  - inversion H; subst. rewrite zlist_eqb_refl, Z.eqb_refl. reflexivity.
Qed.

Theorem addr_equal_refl a : addr_valid a = true -> addr_equal a a = true.
Proof.
  destruct a as [|i p|w p s]; simpl; intros H; try discriminate.
  - rewrite !Z.eqb_refl. reflexivity.
  - rewrite zlist_eqb_refl, Z.eqb_refl. unfold scope_compat. rewrite Z.eqb_refl. simpl. rewrite orb_true_r. reflexivity.
Qed.

Theorem addr_equal_sym a b : addr_equal a b = addr_equal b a.
Proof.
  destruct a as [|i1 p1|w1 p1 s1], b as [|i2 p2|w2 p2 s2]; simpl; try reflexivity.
  - rewrite (Z.eqb_sym i1), (Z.eqb_sym p1). reflexivity.
  - unfold scope_compat. rewrite (Z.eqb_sym p1), (Z.eqb_sym s1 s2).
    replace (zlist_eqb w1 w2) with (zlist_eqb w2 w1).
    + destruct (s1 =? 0), (s2 =? 0); reflexivity.
    + apply Bool.eq_true_iff_eq. rewrite !zlist_eqb_eq. split; congruence.
Qed.

Theorem addr_equal_trans a b c : scope0 a -> scope0 b -> scope0 c ->
  addr_equal a b = true -> addr_equal b c = true -> addr_equal a c = true.
Proof.
  intros Ha Hb Hc H1 H2. apply addr_equal_iff in H1; try assumption. apply addr_equal_iff in H2; try assumption.
  subst. apply addr_equal_iff; try assumption. reflexivity.
Qed.

(* the noted defect of the scope-id rule (outside the property's quantifier): not transitive *)
Lemma addr_equal_not_transitive_with_scopes :
  let a := A6 [65152; 0; 0; 0; 0; 0; 0; 1] 5 1 in
  let b := A6 [65152; 0; 0; 0; 0; 0; 0; 1] 5 0 in
  let c := A6 [65152; 0; 0; 0; 0; 0; 0; 1] 5 2 in
  addr_equal a b = true /\ addr_equal b c = true /\ addr_equal a c = false.
Proof. vm_compute. repeat split. Qed.
