From Coq Require Import ZArith List.
From Coq Require Extraction ExtrOcamlBasic.
From Nice Require Import Base.CSem Gen.Address Sdp.AddrModel Sdp.SdpModel.
Extraction Language OCaml.
Extraction "../ocaml/gen/sdp_model.ml"
  from_string to_string addr_equal addr_equal_no_port addr_is_private addr_is_linklocal addr_ip_version addr_valid
  gen_candidate parse_candidate_full gen_sdp parse_remote_stream_sdp parse_remote_sdp remote_of_component.
