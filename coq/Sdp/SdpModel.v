(** Executable model of the SDP text forms of agent/agent.c:
      _generate_candidate_sdp / _generate_stream_sdp / nice_agent_generate_local_sdp   (agent.c:7174-7330)
      nice_agent_parse_remote_candidate_sdp / _parse_remote_stream_sdp / _parse_remote_sdp (agent.c:7332-7590)
    together with the GLib routines they rely on (g_strsplit, g_ascii_strtoull, g_strlcpy,
    g_ascii_strcasecmp, g_str_has_prefix).

    Written out explicitly:
      * "%d" of the guint32 priority / guint component id: values >= 2^31 are printed NEGATIVE;
        g_ascii_strtoull reads "-n" as 2^64 - n and the (guint32) cast keeps the low 32 bits;
      * port 0 is printed as 9; (guint16) casts of the parsed ports;
      * the NULL-[tcptype] path: transport "TCP" without a tcptype attribute calls
        g_ascii_strcasecmp (NULL, "so"), which logs a CRITICAL and returns 0, so the candidate becomes
        TCP_SO ([PCand _ true] = "a critical warning was logged");
      * every pointer that the C code passes to a string routine is an [option]; using a NULL one
        where GLib would not protect the call is [PFault] (SdpProofs shows it cannot happen).

    No proofs in this file. *)
From Coq Require Import ZArith List Bool.
From Nice Require Import Base.CSem Gen.Address Sdp.AddrModel.
Import ListNotations.
Local Open Scope Z_scope.
Local Open Scope bool_scope.

(** * string constants (byte values) *)
Definition s_prefix : str := [97; 61; 99; 97; 110; 100; 105; 100; 97; 116; 101; 58].        (* "a=candidate:" *)
Definition s_ufrag : str := [97; 61; 105; 99; 101; 45; 117; 102; 114; 97; 103; 58].         (* "a=ice-ufrag:" *)
Definition s_pwd : str := [97; 61; 105; 99; 101; 45; 112; 119; 100; 58].                     (* "a=ice-pwd:" *)
Definition s_m : str := [109; 61].                                                           (* "m=" *)
Definition s_typ : str := [116; 121; 112].
Definition s_raddr : str := [114; 97; 100; 100; 114].
Definition s_rport : str := [114; 112; 111; 114; 116].
Definition s_tcptype : str := [116; 99; 112; 116; 121; 112; 101].
Definition s_host : str := [104; 111; 115; 116].
Definition s_srflx : str := [115; 114; 102; 108; 120].
Definition s_prflx : str := [112; 114; 102; 108; 120].
Definition s_relay : str := [114; 101; 108; 97; 121].
Definition s_UDP : str := [85; 68; 80].
Definition s_TCP : str := [84; 67; 80].
Definition s_TCP_SO : str := [84; 67; 80; 45; 83; 79].
Definition s_TCP_ACT : str := [84; 67; 80; 45; 65; 67; 84].
Definition s_TCP_PASS : str := [84; 67; 80; 45; 80; 65; 83; 83].
Definition s_qqq : str := [63; 63; 63].
Definition s_active : str := [97; 99; 116; 105; 118; 101].
Definition s_passive : str := [112; 97; 115; 115; 105; 118; 101].
Definition s_so : str := [115; 111].
Definition s_ice_sdp : str := [32; 73; 67; 69; 47; 83; 68; 80].                              (* " ICE/SDP" *)
Definition s_c_in_ip4 : str := [99; 61; 73; 78; 32; 73; 80; 52; 32].                         (* "c=IN IP4 " *)
Definition s_rtcp : str := [97; 61; 114; 116; 99; 112; 58].                                  (* "a=rtcp:" *)
Definition SP : Z := 32.
Definition NL : Z := 10.

(** * GLib helpers *)
(* g_strsplit (s, <one char>, 0): "" gives no token, otherwise every delimiter separates (empty tokens kept) *)
Fixpoint split_on (d : Z) (s : str) : list str :=
  match s with
  | [] => [[]]
  | c :: tl => if c =? d then [] :: split_on d tl
               else match split_on d tl with t :: ts => (c :: t) :: ts | [] => [[c]] end
  end.
Definition g_strsplit (d : Z) (s : str) : list str := match s with [] => [] | _ => split_on d s end.

Fixpoint has_prefix (p s : str) : bool :=
  match p, s with
  | [], _ => true
  | a :: p', b :: s' => (a =? b) && has_prefix p' s'
  | _ :: _, [] => false
  end.

Definition ascii_lower (c : Z) : Z := if (65 <=? c) && (c <=? 90) then c + 32 else c.
(* g_ascii_strcasecmp (a, b) == 0 *)
Definition case_eq (a b : str) : bool := zlist_eqb (map ascii_lower a) (map ascii_lower b).
(* g_strcmp0 (a, b) == 0 *)
Definition str_eq (a b : str) : bool := zlist_eqb a b.

Definition g_isspace (c : Z) : bool :=
  (c =? 32) || (c =? 12) || (c =? 10) || (c =? 13) || (c =? 9) || (c =? 11).
Fixpoint skip_space (s : str) : str :=
  match s with c :: tl => if g_isspace c then skip_space tl else s | [] => [] end.

Definition U64MAX : Z := 18446744073709551615.
(* g_ascii_strtoull (s, NULL, 10) (GLib built with xlocale: strtoull_l in the C locale): leading white
   space, optional sign, decimal digits; no digits -> 0; overflow -> G_MAXUINT64 whatever the sign;
   otherwise a leading '-' negates modulo 2^64 *)
Definition g_strtoull10 (s : str) : Z :=
  match skip_space s with
  | [] => 0
  | c :: tl =>
    let neg := c =? 45 in
    let s2 := if (c =? 45) || (c =? 43) then tl else c :: tl in
    let '(v, _) := scan_num 10 s2 0 in
    if v >? U64MAX then U64MAX
    else if neg then (18446744073709551616 - v) mod 18446744073709551616 else v
  end.

(* g_strlcpy (dst, src, n): at most n-1 bytes *)
Definition strlcpy (n : nat) (s : str) : str := firstn (n - 1) s.

(** * candidates *)
Record cand := mkCand {
  c_type : Z;          (* NiceCandidateType: 0 host, 1 srflx, 2 prflx, 3 relay *)
  c_transport : Z;     (* NiceCandidateTransport: 0 UDP, 1 TCP_ACTIVE, 2 TCP_PASSIVE, 3 TCP_SO *)
  c_addr : addr;
  c_base : addr;
  c_prio : Z;          (* guint32 *)
  c_comp : Z;          (* guint *)
  c_found : str        (* char[33], NUL terminated: at most 32 characters *)
}.

Definition MAX_FOUNDATION : nat := 33.

Definition type_to_sdp (t : Z) : str :=
  if t =? 1 then s_srflx else if t =? 2 then s_prflx else if t =? 3 then s_relay else s_host.
Definition transport_to_sdp (t : Z) : str :=
  if t =? 0 then s_UDP else if (t =? 1) || (t =? 2) || (t =? 3) then s_TCP else s_qqq.
Definition transport_to_tcptype (t : Z) : str :=
  if t =? 1 then s_active else if t =? 2 then s_passive else if t =? 3 then s_so else [].

(* printf "%d" of a 32-bit unsigned value (guint / guint32 passed where an int is expected) *)
Definition print_d32 (x : Z) : str :=
  let y := x mod 4294967296 in
  if y <? 2147483648 then print_dec y else 45 :: print_dec (4294967296 - y).
Definition sdp_port (p : Z) : Z := if p =? 0 then 9 else p.

(* _generate_candidate_sdp (for a candidate whose [addr] is valid) *)
Definition gen_candidate (c : cand) : str :=
  s_prefix ++ firstn MAX_FOUNDATION (c_found c) ++ SP :: print_d32 (c_comp c) ++ SP :: transport_to_sdp (c_transport c)
  ++ SP :: print_d32 (c_prio c) ++ SP :: to_string (c_addr c) ++ SP :: print_dec (sdp_port (addr_port (c_addr c)))
  ++ SP :: s_typ ++ SP :: type_to_sdp (c_type c)
  ++ (if addr_valid (c_base c) && negb (addr_equal (c_addr c) (c_base c))
      then SP :: s_raddr ++ SP :: to_string (c_base c) ++ SP :: s_rport ++ SP :: print_dec (sdp_port (addr_port (c_base c)))
      else [])
  ++ (if negb (c_transport c =? 0) then SP :: s_tcptype ++ SP :: transport_to_tcptype (c_transport c) else []).

(** * parsing one candidate line *)
Record pstate := mkP {
  p_found : option str; p_comp : Z; p_transport : option str; p_prio : Z; p_addr : option str; p_port : Z;
  p_type : option str; p_tcptype : option str; p_raddr : option str; p_rport : Z }.
Definition p_init : pstate := mkP None 0 None 0 None 0 None None None 0.

Definition set_kv (st : pstate) (k v : str) : pstate :=
  if str_eq k s_typ then
    mkP (p_found st) (p_comp st) (p_transport st) (p_prio st) (p_addr st) (p_port st) (Some v) (p_tcptype st) (p_raddr st) (p_rport st)
  else if str_eq k s_raddr then
    mkP (p_found st) (p_comp st) (p_transport st) (p_prio st) (p_addr st) (p_port st) (p_type st) (p_tcptype st) (Some v) (p_rport st)
  else if str_eq k s_rport then
    mkP (p_found st) (p_comp st) (p_transport st) (p_prio st) (p_addr st) (p_port st) (p_type st) (p_tcptype st) (p_raddr st)
        (g_strtoull10 v mod 65536)
  else if str_eq k s_tcptype then
    mkP (p_found st) (p_comp st) (p_transport st) (p_prio st) (p_addr st) (p_port st) (p_type st) (Some v) (p_raddr st) (p_rport st)
  else st.

(* the token loop: positions 0..5, then key/value pairs; None = "goto done" with no candidate *)
Fixpoint tok_loop (toks : list str) (i : nat) (st : pstate) : option pstate :=
  match toks with
  | [] => Some st
  | t :: tl =>
    match i with
    | 0%nat => tok_loop tl 1 (mkP (Some t) (p_comp st) (p_transport st) (p_prio st) (p_addr st) (p_port st) (p_type st) (p_tcptype st) (p_raddr st) (p_rport st))
    | 1%nat => tok_loop tl 2 (mkP (p_found st) (g_strtoull10 t mod 4294967296) (p_transport st) (p_prio st) (p_addr st) (p_port st) (p_type st) (p_tcptype st) (p_raddr st) (p_rport st))
    | 2%nat => tok_loop tl 3 (mkP (p_found st) (p_comp st) (Some t) (p_prio st) (p_addr st) (p_port st) (p_type st) (p_tcptype st) (p_raddr st) (p_rport st))
    | 3%nat => tok_loop tl 4 (mkP (p_found st) (p_comp st) (p_transport st) (g_strtoull10 t mod 4294967296) (p_addr st) (p_port st) (p_type st) (p_tcptype st) (p_raddr st) (p_rport st))
    | 4%nat => tok_loop tl 5 (mkP (p_found st) (p_comp st) (p_transport st) (p_prio st) (Some t) (p_port st) (p_type st) (p_tcptype st) (p_raddr st) (p_rport st))
    | 5%nat => tok_loop tl 6 (mkP (p_found st) (p_comp st) (p_transport st) (p_prio st) (p_addr st) (g_strtoull10 t mod 65536) (p_type st) (p_tcptype st) (p_raddr st) (p_rport st))
    | _ => match tl with
           | [] => None
           | v :: tl' => tok_loop tl' (i + 2) (set_kv st t v)
           end
    end
  end.

Inductive presult :=
| PFault                        (* a NULL pointer would be dereferenced / passed to libc *)
| PNone                         (* NULL returned *)
| PCand (c : cand) (crit : bool).   (* candidate; crit = GLib logged a CRITICAL on the way *)

Definition type_of_name (t : str) : option Z :=
  if str_eq t s_host then Some 0 else if str_eq t s_srflx then Some 1
  else if str_eq t s_prflx then Some 2 else if str_eq t s_relay then Some 3 else None.

(* transport keyword (+ tcptype) -> (transport, critical logged) *)
Definition transport_of (tr : str) (tcptype : option str) : option (Z * bool) :=
  if case_eq tr s_UDP then Some (0, false)
  else if case_eq tr s_TCP_SO then Some (3, false)
  else if case_eq tr s_TCP_ACT then Some (1, false)
  else if case_eq tr s_TCP_PASS then Some (2, false)
  else if case_eq tr s_TCP then
    match tcptype with
    | None => Some (3, true)        (* g_ascii_strcasecmp (NULL, "so"): CRITICAL, returns 0 *)
    | Some tv => if case_eq tv s_so then Some (3, false)
                 else if case_eq tv s_active then Some (1, false)
                 else if case_eq tv s_passive then Some (2, false)
                 else None
    end
  else None.

(* nice_agent_parse_remote_candidate_sdp *)
Definition parse_candidate_full (s : str) : presult :=
  if negb (has_prefix s_prefix s) then PNone else
  match tok_loop (g_strsplit SP (skipn 12 s)) 0 p_init with
  | None => PNone
  | Some st =>
    match p_type st with
    | None => PNone
    | Some ty =>
      match type_of_name ty with
      | None => PNone
      | Some ntype =>
        match p_transport st with
        | None => PFault                         (* g_ascii_strcasecmp (NULL, ...) decides the transport *)
        | Some tr =>
          match transport_of tr (p_tcptype st) with
          | None => PNone
          | Some (ctr, crit) =>
            match p_found st, p_addr st with
            | Some f, Some a =>
              match from_string a with
              | None => PNone
              | Some ad =>
                let ad := addr_set_port ad (p_port st) in
                let mk b := PCand (mkCand ntype ctr ad b (p_prio st) (p_comp st) (strlcpy MAX_FOUNDATION f)) crit in
                match p_raddr st with
                | Some ra =>
                  if negb (p_rport st =? 0) then
                    match from_string ra with
                    | None => PNone
                    | Some b => mk (addr_set_port b (p_rport st))
                    end
                  else mk AUnspec
                | None => mk AUnspec
                end
              end
            | _, _ => PFault
            end
          end
        end
      end
    end
  end.

Definition parse_candidate (s : str) : option cand :=
  match parse_candidate_full s with PCand c _ => Some c | _ => None end.

(** * stream and agent level *)
Record stream := mkStream {
  s_name : option str;
  s_lufrag : str;
  s_lpwd : str;
  s_comps : list (list cand)      (* local candidates of component 1, 2, ... *)
}.

Definition cand_is_v4 (c : cand) : bool := addr_ip_version (c_addr c) =? 4.
(* _get_default_local_candidate_locked for the RTP component: lowest priority IPv4 candidate, first wins *)
Fixpoint default_rtp (cs : list cand) (best : option cand) : option cand :=
  match cs with
  | [] => best
  | c :: tl =>
    if cand_is_v4 c then
      default_rtp tl (match best with None => Some c | Some b => if c_prio c <? c_prio b then Some c else best end)
    else default_rtp tl best
  end.
(* ... for the RTCP component: first IPv4 candidate with the foundation of the RTP default *)
Fixpoint default_rtcp (cs : list cand) (f : str) : option cand :=
  match cs with
  | [] => None
  | c :: tl => if cand_is_v4 c && str_eq (c_found c) f then Some c else default_rtcp tl f
  end.

(* the addresses written on the "m=" / "c=" / "a=rtcp:" lines: default candidates of components 1 and 2,
   0.0.0.0:0 when there is none *)
Definition stream_rtp_cand (st : stream) : option cand :=
  match s_comps st with c1 :: _ => default_rtp c1 None | [] => None end.
Definition stream_rtp (st : stream) : addr :=
  match stream_rtp_cand st with Some c => c_addr c | None => A4 0 0 end.
Definition stream_rtcp (st : stream) : addr :=
  match s_comps st, stream_rtp_cand st with
  | _ :: c2 :: _, Some r => match default_rtcp c2 (c_found r) with Some c => c_addr c | None => A4 0 0 end
  | _, _ => A4 0 0
  end.
(* _generate_stream_sdp with include_non_ice = TRUE: every printf writes one line ending in "\n" *)
Definition head_lines (st : stream) : list str :=
  [s_m ++ (match s_name st with Some n => n | None => [45] end) ++ SP :: print_dec (addr_port (stream_rtp st)) ++ s_ice_sdp;
   s_c_in_ip4 ++ to_string (stream_rtp st)]
  ++ (if negb (addr_port (stream_rtcp st) =? 0) then [s_rtcp ++ print_dec (addr_port (stream_rtcp st))] else []).
Definition stream_lines (st : stream) : list str :=
  head_lines st ++ [s_ufrag ++ s_lufrag st; s_pwd ++ s_lpwd st] ++ map gen_candidate (concat (s_comps st)).
Definition unlines (ls : list str) : str := flat_map (fun l => l ++ [NL]) ls.
Definition gen_stream (st : stream) : str := unlines (stream_lines st).

(* nice_agent_generate_local_sdp *)
Definition gen_sdp (sts : list stream) : str := flat_map gen_stream sts.

(* nice_agent_parse_remote_stream_sdp: (ufrag, pwd, candidates); the list is built by prepending and is
   dropped when a candidate line does not parse *)
Fixpoint parse_stream_lines (lines : list str) (uf pw : option str) (acc : list cand)
  : option str * option str * list cand :=
  match lines with
  | [] => (uf, pw, acc)
  | l :: tl =>
    if has_prefix s_ufrag l then parse_stream_lines tl (Some (skipn 12 l)) pw acc
    else if has_prefix s_pwd l then parse_stream_lines tl uf (Some (skipn 10 l)) acc
    else if has_prefix s_prefix l then
      match parse_candidate l with
      | None => (uf, pw, [])
      | Some c => parse_stream_lines tl uf pw (c :: acc)
      end
    else parse_stream_lines tl uf pw acc
  end.
Definition parse_remote_stream_sdp (s : str) : option str * option str * list cand :=
  parse_stream_lines (g_strsplit NL s) None None [].

(* receiving side of nice_agent_parse_remote_sdp *)
Record rstream := mkR {
  r_ufrag : str;                 (* remote_ufrag, char[257] *)
  r_pwd : str;
  r_ncomp : Z;                   (* components 1..r_ncomp exist *)
  r_offered : list cand          (* candidates handed to _set_remote_candidates_locked, in order *)
}.

Fixpoint upd_nth {A} (n : nat) (f : A -> A) (l : list A) : list A :=
  match l, n with
  | [], _ => []
  | x :: tl, O => f x :: tl
  | x :: tl, S k => x :: upd_nth k f tl
  end.

(* priv_add_remote_candidate accepts (returns TRUE) unless peer-reflexive or priority 0
   (use_ice_udp / use_ice_tcp are at their default TRUE; no connectivity check is in flight) *)
Definition remote_accepted (c : cand) : bool := negb (c_type c =? 2) && negb (c_prio c =? 0).

(* the line loop; [cur] = index of the current stream (None before the first "m=");
   result (ret, streams): ret = -1 on the first error, else the number of accepted candidate lines *)
Fixpoint parse_sdp_lines (lines : list str) (cur : option nat) (sts : list rstream) (ret : Z) : Z * list rstream :=
  match lines with
  | [] => (ret, sts)
  | l :: tl =>
    if has_prefix s_m l then
      let nxt := match cur with None => O | Some k => S k end in
      if (nxt <? length sts)%nat then parse_sdp_lines tl (Some nxt) sts ret else (-1, sts)
    else if has_prefix s_ufrag l then
      match cur with
      | None => (-1, sts)
      | Some k => parse_sdp_lines tl cur
                    (upd_nth k (fun r => mkR (strlcpy 257 (skipn 12 l)) (r_pwd r) (r_ncomp r) (r_offered r)) sts) ret
      end
    else if has_prefix s_pwd l then
      match cur with
      | None => (-1, sts)
      | Some k => parse_sdp_lines tl cur
                    (upd_nth k (fun r => mkR (r_ufrag r) (strlcpy 257 (skipn 10 l)) (r_ncomp r) (r_offered r)) sts) ret
      end
    else if has_prefix s_prefix l then
      match cur with
      | None => (-1, sts)
      | Some k =>
        match parse_candidate l with
        | None => (-1, sts)
        | Some c =>
          let nc := match nth_error sts k with Some r => r_ncomp r | None => 0 end in
          if (1 <=? c_comp c) && (c_comp c <=? nc) then
            parse_sdp_lines tl cur
              (upd_nth k (fun r => mkR (r_ufrag r) (r_pwd r) (r_ncomp r) (r_offered r ++ [c])) sts)
              (if remote_accepted c then ret + 1 else ret)
          else (-1, sts)
        end
      end
    else parse_sdp_lines tl cur sts ret
  end.
Definition parse_remote_sdp (sts : list rstream) (s : str) : Z * list rstream :=
  parse_sdp_lines (g_strsplit NL s) None sts 0.

(* what the offered candidates become in the remote-candidate list of one component
   (priv_add_remote_candidate: same address+transport and same type -> update in place, else append) *)
Fixpoint remote_update (l : list cand) (c : cand) : option (list cand) :=
  match l with
  | [] => None
  | e :: tl =>
    if addr_equal (c_addr e) (c_addr c) && (c_transport e =? c_transport c) then
      (* nice_component_find_remote_candidate returns this first match *)
      if c_type e =? c_type c then
        Some (mkCand (c_type e) (c_transport e) (c_addr e) (c_base c) (c_prio c) (c_comp e) (c_found c) :: tl)
      else None
    else match remote_update tl c with Some tl' => Some (e :: tl') | None => None end
  end.
Definition add_remote (l : list cand) (c : cand) : list cand :=
  if remote_accepted c then
    match remote_update l c with Some l' => l' | None => l ++ [c] end
  else l.
(* remote candidates of component [comp] after all offers of a stream *)
Definition remote_of_component (offers : list cand) (comp : Z) : list cand :=
  fold_left add_remote (filter (fun c => c_comp c =? comp) offers) [].
