(** Executable model of the text forms of NiceAddress (agent/address.c) and of the libc routines it
    delegates to (glibc 2.36: inet_ntop, getaddrinfo(AI_NUMERICHOST) = __inet_aton_exact, then
    inet_pton(AF_INET6) with an optional "%scope" suffix).

    Strings are lists of byte values (Z, 0..255, no NUL inside).  An IPv4 address is its host-order
    32-bit value (what nice_address_set_ipv4 takes), an IPv6 address its eight 16-bit words in network
    order.  Ports are host-order 16-bit values.

    The IPv4 classifiers are NOT written here: they are the definitions generated from /repo's
    agent/address.c (Gen/Address.v); the generated functions take the raw argument [addr] and the value
    of the call [ntohl (addr)] as two inputs, this model supplies both.

    No proofs in this file. *)
From Coq Require Import ZArith List Bool.
From Nice Require Import Base.CSem Gen.Address.
Import ListNotations.
Local Open Scope Z_scope.
Local Open Scope bool_scope.

Definition str := list Z.

Inductive addr :=
| AUnspec                                   (* sa_family = AF_UNSPEC (nice_address_init) *)
| A4 (ip : Z) (port : Z)
| A6 (ws : list Z) (port : Z) (scope : Z).

(** * characters and numerals *)
Definition is_digit (c : Z) : bool := (48 <=? c) && (c <=? 57).
(* value of a hexadecimal digit character *)
Definition hexval (c : Z) : option Z :=
  if is_digit c then Some (c - 48)
  else if (97 <=? c) && (c <=? 102) then Some (c - 87)
  else if (65 <=? c) && (c <=? 70) then Some (c - 55)
  else None.
(* value of a digit character in base b <= 16 *)
Definition digval (b c : Z) : option Z :=
  match hexval c with Some d => if d <? b then Some d else None | None => None end.
(* character of a digit value ("%u", "%d", "%x": lower case) *)
Definition dchar (d : Z) : Z := if d <? 10 then 48 + d else 87 + d.

(* digit values of n in base b, most significant first; at most fuel+1 digits *)
Fixpoint digits (b : Z) (fuel : nat) (n : Z) : list Z :=
  match fuel with
  | O => [n mod b]
  | S f => if n <? b then [n] else digits b f (n / b) ++ [n mod b]
  end.
Definition print_dec (n : Z) : str := map dchar (digits 10 20 n).     (* "%u" / "%d" of a value 0 <= n < 2^64 *)
Definition print_hex (n : Z) : str := map dchar (digits 16 8 n).      (* "%x" of a value 0 <= n < 2^32 *)

(* the longest prefix of s made of base-b digits, accumulated exactly (callers compare with their limit:
   strtoul / strtoull clamp on overflow, which every caller treats like a too large value) *)
Fixpoint scan_num (b : Z) (s : str) (acc : Z) : Z * str :=
  match s with
  | c :: tl => match digval b c with Some d => scan_num b tl (acc * b + d) | None => (acc, s) end
  | [] => (acc, [])
  end.

(** * IPv4 text *)
Definition byte_of (x i : Z) : Z := (x / 2 ^ (8 * i)) mod 256.

(* inet_ntop (AF_INET): "%u.%u.%u.%u" *)
Definition ntop4 (ip : Z) : str :=
  print_dec (byte_of ip 3) ++ 46 :: print_dec (byte_of ip 2) ++ 46 :: print_dec (byte_of ip 1) ++ 46 :: print_dec (byte_of ip 0).

(* strtoul (s, &end, 0) for s starting with a digit: "0x"/"0X" hex (only "0" is consumed when no hex
   digit follows), leading "0" octal, otherwise decimal.  Returns (exact value, rest). *)
Definition strtoul0 (s : str) : Z * str :=
  match s with
  | c :: tl =>
    if c =? 48 then
      match tl with
      | x :: tl2 =>
        if (x =? 120) || (x =? 88) then
          match tl2 with
          | h :: _ => match digval 16 h with Some _ => scan_num 16 tl2 0 | None => (0, tl) end
          | [] => (0, tl)
          end
        else scan_num 8 s 0
      | [] => (0, [])
      end
    else scan_num 10 s 0
  | [] => (0, [])
  end.

Definition aton_max (np : Z) : Z := 2 ^ (8 * (4 - np)) - 1.

(* __inet_aton_exact: up to four parts a.b.c.d / a.b.c / a.b / a, each by strtoul base 0; a part followed
   by '.' must be <= 255, the last part fills the remaining bytes; nothing may follow.
   [np] = parts stored so far, [hi] = their contribution.  res.word | htonl (val) is written hi + val:
   val <= aton_max np makes the two disjoint (AddrProofs.aton_or_is_add). *)
Fixpoint aton_loop (fuel : nat) (s : str) (np hi : Z) : option Z :=
  match fuel with
  | O => None
  | S f =>
    match s with
    | [] => None
    | c :: _ =>
      if is_digit c then
        let '(val, rest) := strtoul0 s in
        if val >? 4294967295 then None
        else match rest with
             | [] => if val >? aton_max np then None else Some (hi + val)
             | d :: rest' =>
               if d =? 46 then
                 if (np >? 2) || (val >? 255) then None
                 else aton_loop f rest' (np + 1) (hi + val * 2 ^ (8 * (3 - np)))
               else None
             end
      else None
    end
  end.
Definition inet_aton_exact (s : str) : option Z := aton_loop 5 s 0 0.

(** * IPv6 text *)
(* inet_pton4 as used for the embedded dotted quad of an IPv6 text: strictly decimal, no leading zero,
   exactly four octets.  [cur] = octet being read, [done] = finished octets. *)
Fixpoint pton4_loop (s : str) (saw : bool) (octets cur : Z) (done : list Z) : option (list Z) :=
  match s with
  | [] => if octets <? 4 then None else Some (done ++ [cur])
  | ch :: tl =>
    if is_digit ch then
      let nw := cur * 10 + (ch - 48) in
      if saw && (cur =? 0) then None
      else if nw >? 255 then None
      else if saw then pton4_loop tl true octets nw done
      else if octets + 1 >? 4 then None
      else pton4_loop tl true (octets + 1) nw done
    else if (ch =? 46) && saw then
      if octets =? 4 then None else pton4_loop tl false octets 0 (done ++ [cur])
    else None
  end.
Definition inet_pton4 (s : str) : option (list Z) := pton4_loop s false 0 0 [].

(* main loop of inet_pton6: [ws] = 16-bit words stored so far (tp), [colon] = index where "::" was seen
   (colonp), [seen]/[val] = hex digits of the current group, [curtok] = text from the start of the
   current group (for the embedded IPv4 form).  Result = the state when the text is exhausted. *)
Fixpoint pton6_loop (s curtok : str) (ws : list Z) (colon : option nat) (seen val : Z)
  : option (list Z * option nat * Z * Z) :=
  match s with
  | [] => Some (ws, colon, seen, val)
  | ch :: tl =>
    match hexval ch with
    | Some d =>
      if seen =? 4 then None
      else let v := val * 16 + d in
           if v >? 65535 then None else pton6_loop tl curtok ws colon (seen + 1) v
    | None =>
      if ch =? 58 then
        if seen =? 0 then
          match colon with
          | Some _ => None
          | None => pton6_loop tl tl ws (Some (length ws)) seen val
          end
        else match tl with
             | [] => None
             | _ => if (8 <? Z.of_nat (length ws) + 1) then None
                    else pton6_loop tl tl (ws ++ [val]) colon 0 0
             end
      else if (ch =? 46) && (Z.of_nat (length ws) + 2 <=? 8) then
        match inet_pton4 curtok with
        | Some (a :: b :: c :: d :: nil) => Some (ws ++ [a * 256 + b; c * 256 + d], colon, 0, val)
        | _ => None
        end
      else None
    end
  end.

Definition inet_pton6 (s : str) : option (list Z) :=
  match s with
  | [] => None
  | c :: tl =>
    let start := if c =? 58 then
                   match tl with c2 :: _ => if c2 =? 58 then Some tl else None | [] => None end
                 else Some s in
    match start with
    | None => None
    | Some s1 =>
      match pton6_loop s1 s1 [] None 0 0 with
      | None => None
      | Some (ws, colon, seen, val) =>
        let ws1 := if seen >? 0 then
                     (if 8 <? Z.of_nat (length ws) + 1 then None else Some (ws ++ [val]))
                   else Some ws in
        match ws1 with
        | None => None
        | Some ws1 =>
          match colon with
          | Some cp => if (length ws1 =? 8)%nat then None
                       else Some (firstn cp ws1 ++ repeat 0 (8 - length ws1) ++ skipn cp ws1)
          | None => if (length ws1 =? 8)%nat then Some ws1 else None
          end
        end
      end
    end
  end.

(* text before the first '%' and, when there is one, the text after it *)
Fixpoint split_scope (s : str) : str * option str :=
  match s with
  | [] => ([], None)
  | c :: tl => if c =? 37 then ([], Some tl)
               else let '(h, sc) := split_scope tl in (c :: h, sc)
  end.
(* __inet6_scopeid_pton, numeric branch only (interface names depend on the host and are not modelled) *)
Definition scopeid (sc : str) : option Z :=
  match sc with
  | c :: _ => if is_digit c then
                let '(v, rest) := scan_num 10 sc 0 in
                match rest with [] => if v <=? 4294967295 then Some v else None | _ => None end
              else None
  | [] => None
  end.

(* inet_ntop (AF_INET6): first longest run of >= 2 zero words is written "::", embedded IPv4 for
   ::a.b.c.d (run of six) and ::ffff:a.b.c.d *)
(* scanning for the best run: cur/best = (base, len) *)
Definition run_better (c : nat * nat) (best : option (nat * nat)) : bool :=
  match best with None => true | Some (_, bl) => (bl <? snd c)%nat end.
Definition run_close (cur best : option (nat * nat)) : option (nat * nat) :=
  match cur with Some c => if run_better c best then cur else best | None => best end.
Fixpoint best_run (ws : list Z) (i : nat) (cur best : option (nat * nat)) : option (nat * nat) :=
  match ws with
  | [] => run_close cur best
  | w :: tl =>
    if w =? 0 then
      best_run tl (S i) (match cur with None => Some (i, 1%nat) | Some (cb, cl) => Some (cb, S cl) end) best
    else
      best_run tl (S i) None (run_close cur best)
  end.
Definition best_of (ws : list Z) : option (nat * nat) :=
  match best_run ws 0 None None with
  | Some (b, l) => if (l <? 2)%nat then None else Some (b, l)
  | None => None
  end.

(* "is this address an encapsulated IPv4?" (asked at word 6) *)
Definition v4_tail (best : option (nat * nat)) (w5 : Z) : bool :=
  match best with
  | Some (b, l) => (b =? 0)%nat && ((l =? 6)%nat || ((l =? 5)%nat && (w5 =? 65535)))
  | None => false
  end.
Definition in_run (best : option (nat * nat)) (i : nat) : bool :=
  match best with Some (b, l) => (b <=? i)%nat && (i <? b + l)%nat | None => false end.
Definition run_base (best : option (nat * nat)) (i : nat) : bool :=
  match best with Some (b, _) => (i =? b)%nat | None => false end.

Fixpoint ntop6_emit (ws : list Z) (i : nat) (best : option (nat * nat)) (w5 w6 w7 : Z) : str :=
  match ws with
  | [] => []
  | w :: tl =>
    if in_run best i then
      (if run_base best i then [58] else []) ++ ntop6_emit tl (S i) best w5 w6 w7
    else
      (if (i =? 0)%nat then [] else [58]) ++
      (if (i =? 6)%nat && v4_tail best w5
       then ntop4 (w6 * 65536 + w7)
       else print_hex w ++ ntop6_emit tl (S i) best w5 w6 w7)
  end.
Definition ntop6 (ws : list Z) : str :=
  let best := best_of ws in
  ntop6_emit ws 0 best (nth 5 ws 0) (nth 6 ws 0) (nth 7 ws 0) ++
  match best with Some (b, l) => if (b + l =? 8)%nat then [58] else [] | None => [] end.

(** * NiceAddress operations *)
Definition addr_valid (a : addr) : bool := match a with AUnspec => false | _ => true end.
Definition addr_port (a : addr) : Z := match a with AUnspec => 0 | A4 _ p => p | A6 _ p _ => p end.
Definition addr_set_port (a : addr) (p : Z) : addr :=
  match a with AUnspec => AUnspec | A4 ip _ => A4 ip (p mod 65536) | A6 ws _ sc => A6 ws (p mod 65536) sc end.
Definition addr_ip_version (a : addr) : Z := match a with AUnspec => 0 | A4 _ _ => 4 | A6 _ _ _ => 6 end.

(* nice_address_to_string; an AF_UNSPEC address leaves the buffer untouched (g_return_if_reached) *)
Definition to_string (a : addr) : str :=
  match a with AUnspec => [] | A4 ip _ => ntop4 ip | A6 ws _ _ => ntop6 ws end.

(* nice_address_set_from_string: getaddrinfo (str, NULL, {AF_UNSPEC, AI_NUMERICHOST}); port 0 *)
Definition from_string (s : str) : option addr :=
  match inet_aton_exact s with
  | Some ip => Some (A4 ip 0)
  | None =>
    let '(h, sc) := split_scope s in
    match inet_pton6 h with
    | None => None
    | Some ws =>
      match sc with
      | None => Some (A6 ws 0 0)
      | Some sc => match scopeid sc with Some id => Some (A6 ws 0 id) | None => None end
      end
    end
  end.

Fixpoint zlist_eqb (a b : list Z) : bool :=
  match a, b with
  | [], [] => true
  | x :: a', y :: b' => (x =? y) && zlist_eqb a' b'
  | _, _ => false
  end.

Definition scope_compat (s1 s2 : Z) : bool := (s1 =? 0) || (s2 =? 0) || (s1 =? s2).
(* nice_address_equal / nice_address_equal_no_port (FALSE with a critical warning for AF_UNSPEC) *)
Definition addr_equal (a b : addr) : bool :=
  match a, b with
  | A4 i1 p1, A4 i2 p2 => (i1 =? i2) && (p1 =? p2)
  | A6 w1 p1 s1, A6 w2 p2 s2 => zlist_eqb w1 w2 && (p1 =? p2) && scope_compat s1 s2
  | _, _ => false
  end.
Definition addr_equal_no_port (a b : addr) : bool :=
  match a, b with
  | A4 i1 _, A4 i2 _ => (i1 =? i2)
  | A6 w1 _ s1, A6 w2 _ s2 => zlist_eqb w1 w2 && scope_compat s1 s2
  | _, _ => false
  end.

(* byte order: sin_addr.s_addr holds htonl (host value) (little-endian host: byte swap) *)
Definition bswap32 (x : Z) : Z :=
  byte_of x 0 * 16777216 + byte_of x 1 * 65536 + byte_of x 2 * 256 + byte_of x 3.
Definition htonl := bswap32.
Definition ntohl := bswap32.

(* the generated classifiers, applied to s_addr = htonl ip and to the value of the call ntohl (s_addr) *)
Definition is_private4 (ip : Z) : bool :=
  negb (oget (ipv4_address_is_private (htonl ip) (ntohl (htonl ip))) =? 0).
Definition is_linklocal4 (ip : Z) : bool :=
  negb (oget (ipv4_address_is_linklocal (htonl ip) (ntohl (htonl ip))) =? 0).

(* s6_addr[i] of the word list *)
Definition byte6 (ws : list Z) (i : nat) : Z :=
  let w := nth (Nat.div i 2) ws 0 in if Nat.even i then w / 256 else w mod 256.
Definition loopback6 : list Z := [0; 0; 0; 0; 0; 0; 0; 1].
(* ipv6_address_is_private / ipv6_address_is_linklocal *)
Definition is_private6 (ws : list Z) : bool :=
  ((byte6 ws 0 =? 254) && (Z.land (byte6 ws 1) 192 =? 128))
  || (byte6 ws 0 =? 253)
  || (Z.land (byte6 ws 0) 254 =? 252)
  || zlist_eqb ws loopback6.
Definition is_linklocal6 (ws : list Z) : bool :=
  (byte6 ws 0 =? 254) && (Z.land (byte6 ws 1) 192 =? 128).

Definition addr_is_private (a : addr) : bool :=
  match a with AUnspec => false | A4 ip _ => is_private4 ip | A6 ws _ _ => is_private6 ws end.
Definition addr_is_linklocal (a : addr) : bool :=
  match a with AUnspec => false | A4 ip _ => is_linklocal4 ip | A6 ws _ _ => is_linklocal6 ws end.

(** well-formed values (what the C types can hold) *)
Definition wf_words (ws : list Z) : Prop := length ws = 8%nat /\ Forall (fun w => 0 <= w < 65536) ws.
Definition wf_addr (a : addr) : Prop :=
  match a with
  | AUnspec => True
  | A4 ip p => 0 <= ip < 4294967296 /\ 0 <= p < 65536
  | A6 ws p sc => wf_words ws /\ 0 <= p < 65536 /\ 0 <= sc < 4294967296
  end.
