(** IPv6 text round trip on the model: inet_pton6 (inet_ntop6 ws) = ws for every address, and
    from_string (to_string a) = a with scope id 0.  Structure:
      1. the shape of the printer's output (plain groups / one "::" / the two embedded-IPv4 forms),
         obtained from an invariant of the best-run scan;
      2. the parser's state machine run over hex groups, "::" and a dotted quad;
      3. assembling the cases;
      4. character classes of the printed texts (no ' ', '%', newline), used by the SDP proofs. *)
From Coq Require Import ZArith List Bool Lia ZifyBool.
From Nice Require Import Base.CSem Gen.Address Sdp.AddrModel Sdp.AddrProofs.
Import ListNotations.
Local Open Scope Z_scope.
Ltac Zify.zify_post_hook ::= Z.div_mod_to_equations.

(** * 0. hex groups *)
Definition wfw (w : Z) : Prop := 0 <= w < 65536.

Lemma print_hex_shape w : wfw w ->
  exists ds, print_hex w = map dchar ds /\ all_digits 16 ds /\ (1 <= length ds <= 4)%nat /\ dvalue 16 ds 0 = w.
Proof.
  intros Hw. unfold print_hex. exists (digits 16 8 w). split; [reflexivity|].
  split. { apply digits_range; unfold wfw in Hw; lia. }
  split.
  - split.
    + destruct (digits_head 16 8 ltac:(lia) w ltac:(rewrite pow16_9; unfold wfw in Hw; lia)) as (d & tl & -> & _). simpl. lia.
    + apply (digits_length 16 8 ltac:(lia) 3%nat). unfold wfw in Hw. change (16 ^ Z.of_nat 4) with 65536. lia.
  - apply digits_value; [lia|]. rewrite pow16_9. unfold wfw in Hw. lia.
Qed.

Lemma print_hex_head w : wfw w -> exists c tl, print_hex w = c :: tl /\ numchar c.
Proof.
  intros Hw. pose proof (print_hex_chars w ltac:(unfold wfw in Hw; lia)) as Hc.
  destruct (print_hex_shape w Hw) as (ds & E & _ & Hl & _).
  destruct (print_hex w) as [|c tl] eqn:Ep.
  - destruct ds; simpl in *; [lia|discriminate].
  - exists c, tl. split; [reflexivity|]. inversion Hc; assumption.
Qed.

Lemma numchar_not_colon c : numchar c -> c <> 58 /\ c <> 46 /\ c <> 37 /\ c <> 32 /\ c <> 10.
Proof. unfold numchar. lia. Qed.

(** * 1. the printer *)
(* texts *)
Definition colon_groups (ws : list Z) : str := flat_map (fun w => 58 :: print_hex w) ws.
Definition plain (ws : list Z) : str :=
  match ws with [] => [] | w :: tl => print_hex w ++ colon_groups tl end.

Lemma colon_groups_plain ws : ws <> [] -> colon_groups ws = 58 :: plain ws.
Proof. destruct ws; [congruence|]. intros _. reflexivity. Qed.

Lemma colon_groups_app a b : colon_groups (a ++ b) = colon_groups a ++ colon_groups b.
Proof. unfold colon_groups. apply flat_map_app. Qed.

(* emitting words that are outside the run and not the embedded IPv4 tail, at positions >= 1 *)
Lemma emit_groups best w5 w6 w7 : forall pre i tl, (1 <= i)%nat ->
  (forall j, (i <= j < i + length pre)%nat -> in_run best j = false) ->
  (v4_tail best w5 = false \/ (i + length pre <= 6)%nat) ->
  ntop6_emit (pre ++ tl) i best w5 w6 w7 = colon_groups pre ++ ntop6_emit tl (i + length pre) best w5 w6 w7.
Proof.
  induction pre as [|w pre IH]; intros i tl Hi Hrun Hv4.
  - simpl. rewrite Nat.add_0_r. reflexivity.
  - cbn [app ntop6_emit]. rewrite (Hrun i) by (simpl; lia).
    replace (i =? 0)%nat with false by lia.
    assert (E : (i =? 6)%nat && v4_tail best w5 = false).
    { destruct Hv4 as [->|H]; [apply andb_false_r|]. simpl in H. replace (i =? 6)%nat with false by lia. reflexivity. }
    rewrite E. rewrite IH.
    + replace (i + length (w :: pre))%nat with (S i + length pre)%nat by (simpl; lia).
      simpl. rewrite <- app_assoc. reflexivity.
    + lia.
    + intros j Hj. apply Hrun. simpl. lia.
    + destruct Hv4 as [H|H]; [left; assumption|right; simpl in H; lia].
Qed.

(* the same from position 0: the first group has no leading colon *)
Lemma emit_plain0 best w5 w6 w7 pre tl :
  pre <> [] ->
  (forall j, (j < length pre)%nat -> in_run best j = false) ->
  (v4_tail best w5 = false \/ (length pre <= 6)%nat) ->
  ntop6_emit (pre ++ tl) 0 best w5 w6 w7 = plain pre ++ ntop6_emit tl (length pre) best w5 w6 w7.
Proof.
  destruct pre as [|w pre]; [congruence|]. intros _ Hrun Hv4.
  cbn [app ntop6_emit]. rewrite (Hrun 0%nat) by (simpl; lia). simpl ((0 =? 0)%nat). simpl ((0 =? 6)%nat). cbn [andb app].
  rewrite (emit_groups best w5 w6 w7 pre 1 tl); try lia.
  - simpl. rewrite <- app_assoc. reflexivity.
  - intros j Hj. apply Hrun. simpl. lia.
  - destruct Hv4 as [H|H]; [left; assumption|right; simpl in H; lia].
Qed.

(* inside the run, after its first position: nothing is written *)
Lemma emit_run_rest b l w5 w6 w7 : forall zs j tl, (b < j)%nat -> (j + length zs <= b + l)%nat ->
  ntop6_emit (zs ++ tl) j (Some (b, l)) w5 w6 w7 = ntop6_emit tl (j + length zs) (Some (b, l)) w5 w6 w7.
Proof.
  induction zs as [|z zs IH]; intros j tl Hj Hl.
  - simpl. rewrite Nat.add_0_r. reflexivity.
  - cbn [app ntop6_emit in_run run_base]. simpl in Hl.
    replace ((b <=? j)%nat && (j <? b + l)%nat) with true by lia.
    replace (j =? b)%nat with false by lia. cbn [app].
    rewrite IH by lia. f_equal; simpl; lia.
Qed.
Lemma emit_run b l w5 w6 w7 zs tl : (length zs = l)%nat -> (1 <= l)%nat ->
  ntop6_emit (zs ++ tl) b (Some (b, l)) w5 w6 w7 = 58 :: ntop6_emit tl (b + l) (Some (b, l)) w5 w6 w7.
Proof.
  intros Hl H1. destruct zs as [|z zs]; [simpl in Hl; lia|].
  cbn [app ntop6_emit in_run run_base]. simpl in Hl.
  replace ((b <=? b)%nat && (b <? b + l)%nat) with true by lia.
  rewrite Nat.eqb_refl. cbn [app].
  rewrite emit_run_rest by lia. f_equal. f_equal; simpl; lia.
Qed.

(** the best-run scan only ever reports runs of zero words *)
Definition zeros_at (all : list Z) (b l : nat) : Prop := forall j, (b <= j < b + l)%nat -> nth j all 1 = 0.

Lemma zeros_at_app all x b l : (b + l <= length all)%nat -> zeros_at all b l -> zeros_at (all ++ x) b l.
Proof. intros Hl H j Hj. rewrite app_nth1 by lia. apply H. assumption. Qed.

Lemma run_close_inv done cur best :
  (forall cb cl, cur = Some (cb, cl) -> (cb + cl = length done)%nat /\ zeros_at done cb cl) ->
  (forall bb bl, best = Some (bb, bl) -> (bb + bl <= length done)%nat /\ zeros_at done bb bl) ->
  forall b l, run_close cur best = Some (b, l) -> (b + l <= length done)%nat /\ zeros_at done b l.
Proof.
  intros Hc Hb b l. unfold run_close. destruct cur as [[cb cl]|].
  - destruct (run_better (cb, cl) best).
    + intros E. injection E as <- <-. destruct (Hc cb cl eq_refl). split; [lia|assumption].
    + apply Hb.
  - apply Hb.
Qed.

Lemma best_run_inv : forall ws done cur best,
  (forall cb cl, cur = Some (cb, cl) -> (cb + cl = length done)%nat /\ zeros_at done cb cl) ->
  (forall bb bl, best = Some (bb, bl) -> (bb + bl <= length done)%nat /\ zeros_at done bb bl) ->
  forall b l, best_run ws (length done) cur best = Some (b, l) ->
  (b + l <= length (done ++ ws))%nat /\ zeros_at (done ++ ws) b l.
Proof.
  induction ws as [|w ws IH]; intros done cur best Hc Hb b l.
  - cbn [best_run]. rewrite app_nil_r. apply run_close_inv; assumption.
  - cbn [best_run]. replace (done ++ w :: ws) with ((done ++ [w]) ++ ws) by (rewrite <- app_assoc; reflexivity).
    replace (S (length done)) with (length (done ++ [w])) by (rewrite app_length; simpl; lia).
    destruct (w =? 0) eqn:Ew.
    + apply Z.eqb_eq in Ew. subst w. apply IH.
      * intros cb cl E. rewrite app_length. simpl. destruct cur as [[cb0 cl0]|].
        -- injection E as <- <-. destruct (Hc cb0 cl0 eq_refl) as [Hlen Hz]. split; [lia|].
           intros j Hj. destruct (Nat.eq_dec j (length done)) as [->|Hne].
           ++ rewrite app_nth2 by lia. rewrite Nat.sub_diag. reflexivity.
           ++ rewrite app_nth1 by lia. apply Hz. lia.
        -- injection E as <- <-. split; [lia|]. intros j Hj. assert (j = length done) by lia. subst j.
           rewrite app_nth2 by lia. rewrite Nat.sub_diag. reflexivity.
      * intros bb bl E. destruct (Hb bb bl E) as [Hlen Hz]. rewrite app_length. simpl. split; [lia|].
        apply zeros_at_app; assumption.
    + apply IH.
      * intros cb cl E. discriminate.
      * intros bb bl E. destruct (run_close_inv done cur best Hc Hb bb bl E) as [Hlen Hz].
        rewrite app_length. simpl. split; [lia|]. apply zeros_at_app; assumption.
Qed.

Lemma best_of_zeros ws b l : best_of ws = Some (b, l) -> (2 <= l)%nat /\ (b + l <= length ws)%nat /\ zeros_at ws b l.
Proof.
  unfold best_of. destruct (best_run ws 0 None None) as [[b0 l0]|] eqn:E; [|discriminate].
  destruct (l0 <? 2)%nat eqn:El; [discriminate|]. intros H. injection H as <- <-.
  pose proof (best_run_inv ws [] None None) as Hi. simpl in Hi.
  destruct (Hi ltac:(discriminate) ltac:(discriminate) b0 l0 E) as [H1 H2].
  split; [lia|]. split; assumption.
Qed.

(* a run of zeros splits the list *)
Lemma zeros_at_split : forall ws b l, (b + l <= length ws)%nat -> zeros_at ws b l ->
  ws = firstn b ws ++ repeat 0 l ++ skipn (b + l) ws.
Proof.
  induction ws as [|w ws IH]; intros b l Hl Hz.
  - simpl in Hl. assert (b = 0 /\ l = 0)%nat as [-> ->] by lia. reflexivity.
  - destruct b as [|b].
    + destruct l as [|l]; [reflexivity|].
      simpl. f_equal.
      * apply (Hz 0%nat). lia.
      * specialize (IH 0%nat l). simpl in IH. apply IH.
        -- simpl in Hl. lia.
        -- intros j Hj. apply (Hz (S j)). lia.
    + simpl. f_equal. apply IH.
      * simpl in Hl. lia.
      * intros j Hj. apply (Hz (S j)). lia.
Qed.

(** the four shapes of inet_ntop6's output *)
Definition dquad (w6 w7 : Z) : str := ntop4 (w6 * 65536 + w7).

Lemma nth_app_len {A} (a b : list A) k d : nth (length a + k) (a ++ b) d = nth k b d.
Proof. rewrite app_nth2 by lia. f_equal. lia. Qed.

Lemma shape_v6 p6 p7 :
  ntop6_emit (repeat 0 6 ++ [p6; p7]) 0 (Some (0, 6)%nat) 0 p6 p7 ++ (if (0 + 6 =? 8)%nat then [58] else [])
  = 58 :: 58 :: dquad p6 p7.
Proof. cbn [repeat app ntop6_emit in_run run_base Nat.leb Nat.ltb Nat.eqb Nat.add andb orb v4_tail]. rewrite app_nil_r. reflexivity. Qed.
Lemma shape_v5 p6 p7 :
  ntop6_emit (repeat 0 5 ++ [65535; p6; p7]) 0 (Some (0, 5)%nat) 65535 p6 p7 ++ (if (0 + 5 =? 8)%nat then [58] else [])
  = 58 :: 58 :: print_hex 65535 ++ 58 :: dquad p6 p7.
Proof.
  cbn [repeat app ntop6_emit in_run run_base Nat.leb Nat.ltb Nat.eqb Nat.add andb orb v4_tail].
  rewrite Z.eqb_refl. rewrite app_nil_r. reflexivity.
Qed.

Lemma ntop6_shape ws : length ws = 8%nat ->
  match best_of ws with
  | None => ntop6 ws = plain ws
  | Some (b, l) =>
    exists pre post, ws = pre ++ repeat 0 l ++ post /\ length pre = b /\ (2 <= l)%nat /\
      if v4_tail (Some (b, l)) (nth 5 ws 0) then
        pre = [] /\
        ((l = 6%nat /\ exists w6 w7, post = [w6; w7] /\ ntop6 ws = 58 :: 58 :: dquad w6 w7) \/
         (l = 5%nat /\ exists w6 w7, post = [65535; w6; w7] /\ ntop6 ws = 58 :: 58 :: print_hex 65535 ++ 58 :: dquad w6 w7))
      else ntop6 ws = plain pre ++ 58 :: colon_groups post ++ (if (length post =? 0)%nat then [58] else [])
  end.
Proof.
  intros Hlen. unfold ntop6. destruct (best_of ws) as [[b l]|] eqn:Eb.
  - destruct (best_of_zeros ws b l Eb) as (Hl2 & Hbl & Hz).
    pose proof (zeros_at_split ws b l Hbl Hz) as Hsplit.
    remember (firstn b ws) as pre eqn:Epre0. remember (skipn (b + l) ws) as post eqn:Epost0.
    assert (Hpre : length pre = b) by (rewrite Epre0, firstn_length; lia).
    assert (Hpost : (length post = 8 - b - l)%nat) by (rewrite Epost0, skipn_length; lia).
    clear Epre0 Epost0.
    exists pre, post. split; [assumption|]. split; [assumption|]. split; [assumption|].
    set (w5 := nth 5 ws 0). set (w6 := nth 6 ws 0). set (w7 := nth 7 ws 0).
    destruct (v4_tail (Some (b, l)) w5) eqn:Ev.
    + (* embedded IPv4 *)
      cbn [v4_tail] in Ev. apply andb_true_iff in Ev. destruct Ev as [Eb0 Ev]. apply Nat.eqb_eq in Eb0.
      assert (Epn : pre = []) by (destruct pre; [reflexivity|simpl in Hpre; lia]). split; [assumption|].
      rewrite Epn in Hsplit. cbn [app] in Hsplit. clear Hpre. subst b.
      apply orb_true_iff in Ev. destruct Ev as [El|Ev].
      * apply Nat.eqb_eq in El. subst l. left. split; [reflexivity|].
        destruct post as [|p6 [|p7 [|? ?]]]; simpl in Hpost; try lia.
        exists p6, p7. split; [reflexivity|].
        assert (E6 : w6 = p6) by (subst w6; rewrite Hsplit; reflexivity).
        assert (E7 : w7 = p7) by (subst w7; rewrite Hsplit; reflexivity).
        assert (E5 : w5 = 0) by (subst w5; rewrite Hsplit; reflexivity).
        rewrite Hsplit at 1. rewrite E5, E6, E7. exact (shape_v6 p6 p7).
      * apply andb_true_iff in Ev. destruct Ev as [El E5]. apply Nat.eqb_eq in El. apply Z.eqb_eq in E5. subst l. right.
        split; [reflexivity|].
        destruct post as [|p5 [|p6 [|p7 [|? ?]]]]; simpl in Hpost; try lia.
        assert (E5' : w5 = p5) by (subst w5; rewrite Hsplit; reflexivity).
        assert (E6 : w6 = p6) by (subst w6; rewrite Hsplit; reflexivity).
        assert (E7 : w7 = p7) by (subst w7; rewrite Hsplit; reflexivity).
        assert (Ep5 : p5 = 65535) by congruence. clear E5'. subst p5.
        exists p6, p7. split; [reflexivity|].
        rewrite Hsplit at 1. rewrite E5, E6, E7. exact (shape_v5 p6 p7).
    + (* one "::" *)
      rewrite Hsplit at 1.
      assert (Hnr_pre : forall j, (j < length pre)%nat -> in_run (Some (b, l)) j = false).
      { intros j Hj. cbn [in_run]. lia. }
      assert (Hpost_emit : ntop6_emit post (b + l) (Some (b, l)) w5 w6 w7 = colon_groups post).
      { pose proof (emit_groups (Some (b, l)) w5 w6 w7 post (b + l) [] ltac:(lia)) as He.
        rewrite app_nil_r in He. rewrite He; [simpl; apply app_nil_r| |left; assumption].
        intros j Hj. cbn [in_run]. lia. }
      assert (Hrun : ntop6_emit (repeat 0 l ++ post) b (Some (b, l)) w5 w6 w7 = 58 :: colon_groups post).
      { rewrite emit_run by (try apply repeat_length; lia). rewrite Hpost_emit. reflexivity. }
      destruct pre as [|p0 pre'] eqn:Epre.
      * simpl in Hpre. subst b. cbn [app plain]. rewrite Hrun.
        replace (0 + l =? 8)%nat with (length post =? 0)%nat by lia.
        destruct (length post =? 0)%nat; reflexivity.
      * rewrite <- Epre in *. rewrite emit_plain0; [|subst pre; discriminate|assumption|left; assumption].
        rewrite Hpre. rewrite Hrun.
        replace (b + l =? 8)%nat with (length post =? 0)%nat by lia.
        rewrite <- app_assoc. cbn [app]. destruct (length post =? 0)%nat; reflexivity.
  - (* no run *)
    rewrite app_nil_r. destruct ws as [|w0 ws']; [discriminate|].
    pose proof (emit_plain0 None (nth 5 (w0 :: ws') 0) (nth 6 (w0 :: ws') 0) (nth 7 (w0 :: ws') 0) (w0 :: ws') []) as He.
    rewrite app_nil_r in He. rewrite He; [simpl; apply app_nil_r|discriminate| |left; reflexivity].
    intros; reflexivity.
Qed.

(** * 2. the parser *)
Definition p6_finish (r : option (list Z * option nat * Z * Z)) : option (list Z) :=
  match r with
  | None => None
  | Some (ws, colon, seen, val) =>
    let ws1 := if seen >? 0 then
                 (if 8 <? Z.of_nat (length ws) + 1 then None else Some (ws ++ [val]))
               else Some ws in
    match ws1 with
    | None => None
    | Some ws1 =>
      match colon with
      | Some cp => if (length ws1 =? 8)%nat then None
                   else Some (firstn cp ws1 ++ repeat 0 (8 - length ws1) ++ skipn cp ws1)
      | None => if (length ws1 =? 8)%nat then Some ws1 else None
      end
    end
  end.

Lemma pton6_start_plain c tl : c <> 58 ->
  inet_pton6 (c :: tl) = p6_finish (pton6_loop (c :: tl) (c :: tl) [] None 0 0).
Proof.
  intros Hc. unfold inet_pton6. replace (c =? 58) with false by lia.
  unfold p6_finish. destruct (pton6_loop (c :: tl) (c :: tl) [] None 0 0) as [[[[ws colon] seen] val]|]; reflexivity.
Qed.

Lemma pton6_start_dcolon' r :
  inet_pton6 (58 :: 58 :: r) = p6_finish (pton6_loop (58 :: r) (58 :: r) [] None 0 0).
Proof.
  unfold inet_pton6. simpl (58 =? 58). cbv iota.
  unfold p6_finish. destruct (pton6_loop (58 :: r) (58 :: r) [] None 0 0) as [[[[ws colon] seen] val]|]; reflexivity.
Qed.
Lemma pton6_start_dcolon r :
  inet_pton6 (58 :: 58 :: r) = p6_finish (pton6_loop r r [] (Some 0%nat) 0 0).
Proof. rewrite pton6_start_dcolon'. reflexivity. Qed.

Lemma pow16_le seen : 0 <= seen <= 3 -> 16 ^ seen <= 4096.
Proof. intros H. change 4096 with (16 ^ 3). apply Z.pow_le_mono_r; lia. Qed.

(* hex digits of one group *)
Lemma pton6_digits : forall ds, all_digits 16 ds -> forall rest ct ws colon seen val,
  0 <= seen -> seen + Z.of_nat (length ds) <= 4 -> 0 <= val < 16 ^ seen ->
  pton6_loop (map dchar ds ++ rest) ct ws colon seen val
  = pton6_loop rest ct ws colon (seen + Z.of_nat (length ds)) (dvalue 16 ds val).
Proof.
  intros ds H. induction H as [|d ds Hd _ IH]; intros rest ct ws colon seen val Hs Hl Hv.
  - simpl. rewrite Z.add_0_r. reflexivity.
  - cbn [map app pton6_loop]. rewrite hexval_dchar by assumption.
    cbn [length] in Hl. replace (seen =? 4) with false by lia.
    pose proof (pow16_le seen ltac:(lia)).
    replace (val * 16 + d >? 65535) with false by lia.
    rewrite IH.
    + f_equal. cbn [length]. lia.
    + lia.
    + lia.
    + rewrite Z.pow_add_r by lia. change (16 ^ 1) with 16. lia.
Qed.

Lemma hexval_58 : hexval 58 = None. Proof. reflexivity. Qed.
Lemma hexval_46 : hexval 46 = None. Proof. reflexivity. Qed.

(* a group followed by ':' and more text *)
Lemma pton6_group w rest ct ws colon : wfw w -> (length ws < 8)%nat -> rest <> [] ->
  pton6_loop (print_hex w ++ 58 :: rest) ct ws colon 0 0 = pton6_loop rest rest (ws ++ [w]) colon 0 0.
Proof.
  intros Hw Hl Hr. destruct (print_hex_shape w Hw) as (ds & -> & Hall & Hlen & Hv).
  rewrite pton6_digits by (try assumption; simpl; lia). rewrite Hv.
  cbn [pton6_loop]. rewrite hexval_58. simpl (58 =? 58).
  replace (0 + Z.of_nat (length ds) =? 0) with false by lia.
  destruct rest as [|r0 rest']; [congruence|].
  replace (8 <? Z.of_nat (length ws) + 1) with false by lia. reflexivity.
Qed.

(* the last group *)
Lemma pton6_last w ct ws colon : wfw w ->
  exists k, 0 < k /\ pton6_loop (print_hex w) ct ws colon 0 0 = Some (ws, colon, k, w).
Proof.
  intros Hw. destruct (print_hex_shape w Hw) as (ds & -> & Hall & Hlen & Hv).
  exists (0 + Z.of_nat (length ds)). split; [lia|].
  rewrite <- (app_nil_r (map dchar ds)). rewrite pton6_digits by (try assumption; simpl; lia). rewrite Hv. reflexivity.
Qed.

(* the second ':' of a "::" *)
Lemma pton6_dcolon rest ct ws v :
  pton6_loop (58 :: rest) ct ws None 0 v = pton6_loop rest rest ws (Some (length ws)) 0 v.
Proof. reflexivity. Qed.

Lemma plain_nonempty ws : Forall wfw ws -> ws <> [] -> plain ws <> [].
Proof.
  destruct ws as [|w tl]; [congruence|]. intros H _. inversion H; subst.
  destruct (print_hex_head w H2) as (c & t & E & _). simpl. rewrite E. discriminate.
Qed.

(* groups separated by ':' up to the end of the text *)
Lemma pton6_groups : forall front l ct ws colon, Forall wfw front -> wfw l -> (length ws + length front < 8)%nat ->
  exists k, 0 < k /\ pton6_loop (plain (front ++ [l])) ct ws colon 0 0 = Some (ws ++ front, colon, k, l).
Proof.
  induction front as [|g front IH]; intros l ct ws colon Hf Hl Hlen.
  - simpl. rewrite !app_nil_r. apply pton6_last. assumption.
  - inversion Hf; subst. cbn [app plain].
    rewrite colon_groups_plain by (destruct front; discriminate).
    rewrite pton6_group; [|assumption|simpl in Hlen; lia|].
    + destruct (IH l (plain (front ++ [l])) (ws ++ [g]) colon H2 Hl) as (k & Hk & E).
      { rewrite app_length. simpl in *. lia. }
      exists k. split; [assumption|]. rewrite E. rewrite <- app_assoc. reflexivity.
    + apply plain_nonempty; [|destruct front; discriminate].
      apply Forall_app. split; [assumption|constructor; [assumption|constructor]].
Qed.

(** embedded dotted quad *)
Lemma dvalue10_ge : forall ds a, all_digits 10 ds -> 0 <= a -> a <= dvalue 10 ds a.
Proof.
  induction ds as [|d ds IH]; intros a H Ha; [simpl; lia|].
  inversion H; subst. unfold dvalue in *. simpl. specialize (IH (dstep 10 a d) H3). unfold dstep in *. lia.
Qed.

Lemma pton4_more rest oct done : forall ds cur, all_digits 10 ds -> 0 < cur -> dvalue 10 ds cur <= 255 ->
  pton4_loop (map dchar ds ++ rest) true oct cur done = pton4_loop rest true oct (dvalue 10 ds cur) done.
Proof.
  induction ds as [|d ds IH]; intros cur H Hc Hv; [reflexivity|].
  inversion H; subst. cbn [map app pton4_loop]. rewrite is_digit_dchar by assumption. rewrite dchar_dec by assumption.
  replace (48 + d - 48) with d by lia.
  assert (Hge : dstep 10 cur d <= dvalue 10 ds (dstep 10 cur d)) by (apply dvalue10_ge; [assumption|unfold dstep; lia]).
  unfold dvalue in Hv, Hge. simpl in Hv. unfold dstep in Hge, Hv at 2.
  replace (true && (cur =? 0)) with false by lia.
  replace (cur * 10 + d >? 255) with false by (unfold dstep in *; lia).
  rewrite IH; [reflexivity|assumption|lia|exact Hv].
Qed.

Lemma pton4_octet b rest oct done : 0 <= b <= 255 -> 0 <= oct <= 3 ->
  pton4_loop (print_dec b ++ rest) false oct 0 done = pton4_loop rest true (oct + 1) b done.
Proof.
  intros Hb Ho. destruct (print_dec_shape b ltac:(unfold DECMAX; lia)) as (d & tl & -> & Hd & Hall & Hv & Hz).
  cbn [app pton4_loop]. replace (is_digit (48 + d)) with true by (unfold is_digit; lia).
  replace (0 * 10 + (48 + d - 48)) with d by lia. cbn [andb].
  replace (d >? 255) with false by lia. replace (oct + 1 >? 4) with false by lia.
  destruct (Z.eq_dec d 0) as [E|E].
  - destruct (Hz E) as [-> ->]. subst d. reflexivity.
  - assert (Htl : all_digits 10 tl) by (inversion Hall; assumption).
    change (dvalue 10 (d :: tl) 0) with (dvalue 10 tl (dstep 10 0 d)) in Hv.
    replace (dstep 10 0 d) with d in Hv by (unfold dstep; lia).
    rewrite pton4_more; [rewrite Hv; reflexivity|assumption|lia|lia].
Qed.

Lemma pton4_dot r oct cur done : 0 <= oct <= 3 ->
  pton4_loop (46 :: r) true oct cur done = pton4_loop r false oct 0 (done ++ [cur]).
Proof. intros H. cbn [pton4_loop]. simpl. replace (oct =? 4) with false by lia. reflexivity. Qed.

Lemma pton4_ntop4 x : 0 <= x < 4294967296 ->
  inet_pton4 (ntop4 x) = Some [byte_of x 3; byte_of x 2; byte_of x 1; byte_of x 0].
Proof.
  intros Hx. unfold inet_pton4, ntop4.
  pose proof (byte_of_range x 3). pose proof (byte_of_range x 2). pose proof (byte_of_range x 1). pose proof (byte_of_range x 0).
  rewrite pton4_octet by lia. rewrite pton4_dot by lia.
  rewrite pton4_octet by lia. rewrite pton4_dot by lia.
  rewrite pton4_octet by lia. rewrite pton4_dot by lia.
  rewrite <- (app_nil_r (print_dec (byte_of x 0))). rewrite pton4_octet by lia.
  reflexivity.
Qed.

(* the parser reaching a dotted quad at the start of a group *)
Lemma pton6_dquad w6 w7 ws colon : wfw w6 -> wfw w7 -> (length ws + 2 <= 8)%nat ->
  exists v, pton6_loop (dquad w6 w7) (dquad w6 w7) ws colon 0 0 = Some (ws ++ [w6; w7], colon, 0, v).
Proof.
  intros H6 H7 Hl. unfold wfw in *. unfold dquad.
  set (x := w6 * 65536 + w7). assert (Hx : 0 <= x < 4294967296) by (subst x; lia).
  pose proof (pton4_ntop4 x Hx) as H4.
  set (ct := ntop4 x) in *. unfold ntop4 in ct.
  pose proof (byte_of_range x 3) as Hb3.
  destruct (print_dec_shape (byte_of x 3) ltac:(unfold DECMAX; lia)) as (d & tl & Ep & Hd & Hall & Hv & Hz).
  assert (Hlen : (length (d :: tl) <= 3)%nat).
  { pose proof (digits_length 10 20 ltac:(lia) 2%nat (byte_of x 3) ltac:(change (10 ^ Z.of_nat 3) with 1000; lia)) as Hdl.
    assert (Hpl : (length (print_dec (byte_of x 3)) <= 3)%nat) by (unfold print_dec; rewrite map_length; exact Hdl).
    rewrite Ep in Hpl. simpl in Hpl. rewrite map_length in Hpl. simpl. lia. }
  assert (Ep' : print_dec (byte_of x 3) = map dchar (d :: tl)) by (rewrite Ep; simpl; rewrite dchar_dec by lia; reflexivity).
  assert (Hall16 : all_digits 16 (d :: tl)).
  { eapply Forall_impl; [|exact Hall]. simpl. intros; lia. }
  unfold ct at 1. rewrite Ep'.
  rewrite pton6_digits; [|assumption|lia|lia|simpl; lia].
  cbn [pton6_loop]. rewrite hexval_46. simpl (46 =? 58). simpl (46 =? 46).
  replace (Z.of_nat (length ws) + 2 <=? 8) with true by lia. cbn [andb].
  rewrite H4. eexists. f_equal. f_equal. f_equal. f_equal.
  pose proof (byte_of_range x 2). pose proof (byte_of_range x 1). pose proof (byte_of_range x 0).
  pose proof (bytes_recompose x Hx).
  subst x. generalize dependent (byte_of (w6 * 65536 + w7) 3). generalize dependent (byte_of (w6 * 65536 + w7) 2).
  generalize dependent (byte_of (w6 * 65536 + w7) 1). generalize dependent (byte_of (w6 * 65536 + w7) 0).
  intros. f_equal. f_equal; [|f_equal]; lia.
Qed.

(** * 3. inet_pton6 (inet_ntop6 ws) = ws *)
Lemma wf_split (pre post : list Z) l : Forall wfw (pre ++ repeat 0 l ++ post) -> Forall wfw pre /\ Forall wfw post.
Proof. intros H. apply Forall_app in H. destruct H as [H1 H]. apply Forall_app in H. destruct H as [_ H2]. split; assumption. Qed.

Lemma exists_last' {A} (l : list A) : l <> [] -> exists front x, l = front ++ [x].
Proof. intros H. destruct (exists_last H) as (f & x & E). exists f, x. exact E. Qed.

Theorem pton6_ntop6 ws : wf_words ws -> inet_pton6 (ntop6 ws) = Some ws.
Proof.
  intros [Hlen Hwf]. pose proof (ntop6_shape ws Hlen) as Hs.
  destruct (best_of ws) as [[b l]|].
  - destruct Hs as (pre & post & Hsplit & Hpre & Hl2 & Hs).
    assert (Hlens : (length pre + l + length post = 8)%nat).
    { rewrite Hsplit in Hlen. rewrite !app_length, repeat_length in Hlen. lia. }
    rewrite Hsplit in Hwf. destruct (wf_split pre post l Hwf) as [Hwpre Hwpost].
    destruct (v4_tail (Some (b, l)) (nth 5 ws 0)).
    + (* embedded IPv4 forms *)
      destruct Hs as [-> [(-> & w6 & w7 & -> & ->)|(-> & w6 & w7 & -> & ->)]].
      * inversion Hwpost as [|? ? H6 Hw']; subst. inversion Hw' as [|? ? H7 _]; subst.
        rewrite pton6_start_dcolon.
        destruct (pton6_dquad w6 w7 [] (Some 0%nat) H6 H7 ltac:(simpl; lia)) as (v & ->).
        try rewrite Hsplit; reflexivity.
      * inversion Hwpost as [|? ? H5 Hw']; subst. inversion Hw' as [|? ? H6 Hw'']; subst. inversion Hw'' as [|? ? H7 _]; subst.
        rewrite pton6_start_dcolon.
        rewrite pton6_group; [|assumption|simpl; lia|].
        -- cbn [app]. destruct (pton6_dquad w6 w7 [65535] (Some 0%nat) H6 H7 ltac:(simpl; lia)) as (v & ->).
           try rewrite Hsplit; reflexivity.
        -- unfold dquad, ntop4.
           destruct (print_dec_head_digit (byte_of (w6 * 65536 + w7) 3)) as (c & t & -> & _); [|discriminate].
           pose proof (byte_of_range (w6 * 65536 + w7) 3). unfold DECMAX. lia.
    + (* one "::" *)
      rewrite Hs. clear Hs.
      destruct pre as [|p0 pre'].
      * (* text starts with "::" *)
        cbn [plain app].
        destruct post as [|q0 post'].
        -- simpl. try rewrite Hsplit. simpl in Hlens. replace l with 8%nat by lia. reflexivity.
        -- rewrite colon_groups_plain by discriminate. cbn [length Nat.eqb]. rewrite app_nil_r.
           rewrite pton6_start_dcolon.
           destruct (exists_last' (q0 :: post') ltac:(discriminate)) as (front & lst & Efl).
           rewrite Efl in *. apply Forall_app in Hwpost. destruct Hwpost as [Hwf1 Hwl]. inversion Hwl; subst.
           rewrite app_length in Hlens. simpl in Hlens.
           destruct (pton6_groups front lst (plain (front ++ [lst])) [] (Some 0%nat) Hwf1 H1 ltac:(simpl; lia)) as (k & Hk & ->).
           unfold p6_finish. replace (k >? 0) with true by lia.
           cbn [app length]. replace (8 <? Z.of_nat (length front) + 1) with false by lia.
           replace (length (front ++ [lst]) =? 8)%nat with false by (rewrite app_length; simpl; lia).
           try rewrite Hsplit. cbn [firstn skipn app]. f_equal. f_equal. f_equal. rewrite app_length. simpl length. lia.
      * (* groups, then "::" *)
        destruct (exists_last' (p0 :: pre') ltac:(discriminate)) as (pf & pl & Epf).
        rewrite Epf in *. clear Epf p0 pre'.
        apply Forall_app in Hwpre. destruct Hwpre as [Hwpf Hwpl]. inversion Hwpl as [|? ? Hpl _]; subst.
        rewrite app_length in Hlens. simpl in Hlens.
        destruct (print_hex_head (hd pl (pf ++ [pl]))) as (c & t & Ehd & Hc).
        { destruct pf; simpl; [assumption|]. inversion Hwpf; assumption. }
        assert (Estart : exists t', plain (pf ++ [pl]) ++ 58 :: colon_groups post ++ (if (length post =? 0)%nat then [58] else []) = c :: t').
        { destruct pf as [|f0 pf']; simpl in *; rewrite Ehd; simpl; eexists; reflexivity. }
        destruct Estart as (t' & Estart).
        pose proof (pton6_start_plain c t' ltac:(destruct (numchar_not_colon c Hc); lia)) as Hst.
        rewrite <- Estart in Hst. rewrite Hst. clear Hst Estart Ehd.
        (* run the groups of pre; the last one is followed by ':' and by the "::" marker *)
        assert (Hrun : forall rest, rest <> [] ->
                  pton6_loop (plain (pf ++ [pl]) ++ 58 :: rest) (plain (pf ++ [pl]) ++ 58 :: rest) [] None 0 0
                  = pton6_loop rest rest (pf ++ [pl]) None 0 0).
        { intros rest Hrest. clear - Hwpf Hpl Hlens Hrest.
          assert (G : forall pf ws ct, Forall wfw pf -> (length ws + length pf < 8)%nat ->
                      pton6_loop (plain (pf ++ [pl]) ++ 58 :: rest) ct ws None 0 0 = pton6_loop rest rest (ws ++ pf ++ [pl]) None 0 0).
          { induction pf0 as [|g pf0 IH]; intros ws ct Hf Hl.
            - simpl. rewrite app_nil_r. apply pton6_group; [assumption|simpl in Hl; lia|assumption].
            - inversion Hf; subst. cbn [app plain]. rewrite colon_groups_plain by (destruct pf0; discriminate).
              rewrite <- app_assoc. cbn [app]. rewrite pton6_group; [|assumption|simpl in Hl; lia|].
              + rewrite IH; [|assumption|rewrite app_length; simpl in *; lia]. rewrite <- app_assoc. reflexivity.
              + destruct (plain (pf0 ++ [pl])) eqn:E; [|discriminate]. simpl. discriminate. }
          apply (G pf [] _ Hwpf). simpl. lia. }
        destruct post as [|q0 post'].
        -- simpl (colon_groups []). cbn [length Nat.eqb app].
           rewrite Hrun by discriminate. rewrite pton6_dcolon. cbn [pton6_loop p6_finish].
           change (0 >? 0) with false. cbv iota.
           replace (length (pf ++ [pl]) =? 8)%nat with false by (rewrite app_length; simpl in *; lia).
           try rewrite Hsplit. rewrite firstn_all, skipn_all. rewrite !app_nil_r. f_equal. f_equal. f_equal.
           rewrite app_length. cbn [length] in *. lia.
        -- rewrite colon_groups_plain by discriminate. cbn [length Nat.eqb]. rewrite app_nil_r.
           rewrite Hrun by discriminate. rewrite pton6_dcolon.
           destruct (exists_last' (q0 :: post') ltac:(discriminate)) as (front & lst & Efl).
           rewrite Efl in *. apply Forall_app in Hwpost. destruct Hwpost as [Hwf1 Hwl]. inversion Hwl; subst.
           rewrite app_length in Hlens. simpl in Hlens.
           destruct (pton6_groups front lst (plain (front ++ [lst])) (pf ++ [pl]) (Some (length (pf ++ [pl]))) Hwf1 H1
                       ltac:(rewrite app_length; simpl; lia)) as (k & Hk & ->).
           unfold p6_finish. replace (k >? 0) with true by lia.
           replace (8 <? Z.of_nat (length ((pf ++ [pl]) ++ front)) + 1) with false by (rewrite !app_length; simpl; lia).
           replace (length (((pf ++ [pl]) ++ front) ++ [lst]) =? 8)%nat with false by (rewrite !app_length; simpl; lia).
           try rewrite Hsplit. f_equal.
           rewrite <- app_assoc. rewrite firstn_app, firstn_all, Nat.sub_diag. simpl (firstn 0 _). rewrite app_nil_r.
           rewrite skipn_app, skipn_all, Nat.sub_diag. simpl (skipn 0 _). cbn [app].
           f_equal. f_equal. f_equal. rewrite !app_length. cbn [length] in *. lia.
  - (* eight groups *)
    rewrite Hs.
    destruct (exists_last' ws ltac:(destruct ws; discriminate)) as (front & lst & Efl).
    rewrite Efl in *. apply Forall_app in Hwf. destruct Hwf as [Hwf1 Hwl]. inversion Hwl; subst.
    rewrite app_length in Hlen. simpl in Hlen.
    destruct (print_hex_head (hd lst (front ++ [lst]))) as (c & t & Ehd & Hc).
    { destruct front; simpl; [assumption|]. inversion Hwf1; assumption. }
    assert (Estart : exists t', plain (front ++ [lst]) = c :: t').
    { destruct front as [|f0 front']; simpl in *; rewrite Ehd; simpl; eexists; reflexivity. }
    destruct Estart as (t' & Estart).
    pose proof (pton6_start_plain c t' ltac:(destruct (numchar_not_colon c Hc); lia)) as Hst.
    rewrite <- Estart in Hst. rewrite Hst.
    destruct (pton6_groups front lst (plain (front ++ [lst])) [] None Hwf1 H1 ltac:(simpl; lia)) as (k & Hk & ->).
    unfold p6_finish. replace (k >? 0) with true by lia.
    cbn [app]. replace (8 <? Z.of_nat (length front) + 1) with false by lia.
    replace (length (front ++ [lst]) =? 8)%nat with true by (rewrite app_length; simpl; lia).
    reflexivity.
Qed.

(** * 4. character classes of the printed texts *)
Definition v4char (c : Z) : Prop := numchar c \/ c = 46.
Definition v6char (c : Z) : Prop := numchar c \/ c = 58 \/ c = 46.
Definition gchar (c : Z) : Prop := numchar c \/ c = 58.

Lemma ntop4_chars ip : Forall v4char (ntop4 ip).
Proof.
  unfold ntop4.
  assert (D : forall i, Forall v4char (print_dec (byte_of ip i))).
  { intros i. eapply Forall_impl; [|apply print_dec_chars; pose proof (byte_of_range ip i); lia]. intros c Hc. left. exact Hc. }
  repeat (apply Forall_app; split; [apply D|]; try (constructor; [right; reflexivity|])). apply D.
Qed.

Lemma colon_groups_chars ws : Forall wfw ws -> Forall gchar (colon_groups ws).
Proof.
  induction 1 as [|w ws Hw _ IH]; [constructor|]. simpl. constructor; [right; reflexivity|].
  apply Forall_app. split; [|exact IH].
  eapply Forall_impl; [|apply print_hex_chars; unfold wfw in Hw; lia]. intros c Hc. left. exact Hc.
Qed.
Lemma plain_chars ws : Forall wfw ws -> Forall gchar (plain ws).
Proof.
  destruct 1 as [|w ws Hw Hws]; [constructor|]. simpl. apply Forall_app. split; [|apply colon_groups_chars; assumption].
  eapply Forall_impl; [|apply print_hex_chars; unfold wfw in Hw; lia]. intros c Hc. left. exact Hc.
Qed.

Lemma gchar_v6char c : gchar c -> v6char c.
Proof. unfold gchar, v6char. tauto. Qed.
Lemma v4char_v6char c : v4char c -> v6char c.
Proof. unfold v4char, v6char. tauto. Qed.

Lemma ntop6_chars ws : wf_words ws -> Forall v6char (ntop6 ws).
Proof.
  intros [Hlen Hwf]. pose proof (ntop6_shape ws Hlen) as Hs.
  destruct (best_of ws) as [[b l]|].
  - destruct Hs as (pre & post & Hsplit & Hpre & Hl2 & Hs).
    rewrite Hsplit in Hwf. destruct (wf_split pre post l Hwf) as [Hwpre Hwpost].
    destruct (v4_tail (Some (b, l)) (nth 5 ws 0)).
    + destruct Hs as [_ [(_ & w6 & w7 & _ & ->)|(_ & w6 & w7 & _ & ->)]].
      * constructor; [right; left; reflexivity|]. constructor; [right; left; reflexivity|].
        eapply Forall_impl; [apply v4char_v6char|apply ntop4_chars].
      * constructor; [right; left; reflexivity|]. constructor; [right; left; reflexivity|].
        apply Forall_app. split.
        -- eapply Forall_impl; [|apply print_hex_chars; lia]. intros c Hc. left. exact Hc.
        -- constructor; [right; left; reflexivity|]. eapply Forall_impl; [apply v4char_v6char|apply ntop4_chars].
    + rewrite Hs. eapply Forall_impl; [apply gchar_v6char|].
      apply Forall_app. split; [apply plain_chars; assumption|].
      constructor; [right; reflexivity|]. apply Forall_app. split; [apply colon_groups_chars; assumption|].
      destruct (length post =? 0)%nat; [constructor; [right; reflexivity|constructor]|constructor].
  - rewrite Hs. eapply Forall_impl; [apply gchar_v6char|]. apply plain_chars. exact Hwf.
Qed.

(** * 5. getaddrinfo on a printed IPv6 text: the IPv4 reader refuses it, there is no scope part *)
Lemma scan_num_split b : forall s acc, exists pre rest v,
  scan_num b s acc = (v, rest) /\ s = pre ++ rest /\ Forall (fun c => digval b c <> None) pre.
Proof.
  induction s as [|c tl IH]; intros acc.
  - exists [], [], acc. repeat split. constructor.
  - simpl. destruct (digval b c) as [d|] eqn:E.
    + destruct (IH (acc * b + d)) as (pre & rest & v & H1 & H2 & H3).
      exists (c :: pre), rest, v. split; [assumption|]. split; [simpl; f_equal; assumption|].
      constructor; [congruence|assumption].
    + exists [], (c :: tl), acc. repeat split. constructor.
Qed.

Lemma digval_58 b : digval b 58 = None. Proof. reflexivity. Qed.

Lemma scan_num_colon b s acc : Forall gchar s -> In 58 s ->
  exists v d rest, scan_num b s acc = (v, d :: rest) /\ d <> 46.
Proof.
  intros Hg Hin. destruct (scan_num_split b s acc) as (pre & rest & v & H1 & H2 & H3).
  assert (Hr : In 58 rest).
  { rewrite H2 in Hin. apply in_app_or in Hin. destruct Hin as [Hin|Hin]; [|assumption].
    rewrite Forall_forall in H3. specialize (H3 58 Hin). rewrite digval_58 in H3. congruence. }
  destruct rest as [|d rest']; [contradiction|].
  exists v, d, rest'. split; [assumption|].
  rewrite H2 in Hg. apply Forall_app in Hg. destruct Hg as [_ Hg]. inversion Hg; subst.
  destruct H4 as [Hn|Hn]; [destruct (numchar_not_colon d Hn); lia|lia].
Qed.

Lemma aton_none_v6 s : Forall gchar s -> In 58 s -> forall f np hi, aton_loop f s np hi = None.
Proof.
  intros Hg Hin f np hi. destruct f as [|f]; [reflexivity|].
  destruct s as [|c tl]; [reflexivity|]. cbn [aton_loop].
  destruct (is_digit c) eqn:Ed; [|reflexivity].
  assert (Hs : exists v d rest, strtoul0 (c :: tl) = (v, d :: rest) /\ d <> 46).
  { unfold strtoul0. destruct (c =? 48) eqn:E48.
    - destruct tl as [|x tl2].
      + simpl in Hin. lia.
      + inversion Hg as [|? ? _ Hg']; subst. inversion Hg' as [|? ? Hx _]; subst.
        assert ((x =? 120) || (x =? 88) = false) as ->.
        { destruct Hx as [Hx|Hx]; [unfold numchar in Hx|]; lia. }
        apply scan_num_colon; assumption.
    - apply scan_num_colon; assumption. }
  destruct Hs as (v & d & rest & -> & Hd).
  destruct (v >? 4294967295); [reflexivity|]. replace (d =? 46) with false by lia. reflexivity.
Qed.

Lemma in_colon_groups ws : ws <> [] -> In 58 (colon_groups ws).
Proof. destruct ws; [congruence|]. intros _. simpl. left. reflexivity. Qed.

Lemma aton_ntop6 ws : wf_words ws -> inet_aton_exact (ntop6 ws) = None.
Proof.
  intros [Hlen Hwf]. pose proof (ntop6_shape ws Hlen) as Hs. unfold inet_aton_exact.
  destruct (best_of ws) as [[b l]|].
  - destruct Hs as (pre & post & Hsplit & Hpre & Hl2 & Hs).
    rewrite Hsplit in Hwf. destruct (wf_split pre post l Hwf) as [Hwpre Hwpost].
    destruct (v4_tail (Some (b, l)) (nth 5 ws 0)).
    + destruct Hs as [_ [(_ & w6 & w7 & _ & ->)|(_ & w6 & w7 & _ & ->)]]; reflexivity.
    + rewrite Hs. apply aton_none_v6.
      * apply Forall_app. split; [apply plain_chars; assumption|].
        constructor; [right; reflexivity|]. apply Forall_app. split; [apply colon_groups_chars; assumption|].
        destruct (length post =? 0)%nat; [constructor; [right; reflexivity|constructor]|constructor].
      * apply in_or_app. right. left. reflexivity.
  - rewrite Hs. apply aton_none_v6; [apply plain_chars; exact Hwf|].
    destruct ws as [|w0 [|w1 ws']]; try discriminate. simpl. apply in_or_app. right. left. reflexivity.
Qed.

Lemma split_scope_none s : Forall (fun c => c <> 37) s -> split_scope s = (s, None).
Proof.
  induction 1 as [|c s Hc _ IH]; [reflexivity|]. simpl. replace (c =? 37) with false by lia. rewrite IH. reflexivity.
Qed.

Lemma v6char_not_special c : v6char c -> c <> 37 /\ c <> 32 /\ c <> 10 /\ c <> 0.
Proof. unfold v6char, numchar. lia. Qed.

Theorem from_to_string_v6 ws p sc : wf_words ws -> from_string (to_string (A6 ws p sc)) = Some (A6 ws 0 0).
Proof.
  intros H. unfold from_string, to_string. rewrite aton_ntop6 by assumption.
  rewrite split_scope_none.
  - rewrite pton6_ntop6 by assumption. reflexivity.
  - eapply Forall_impl; [|apply ntop6_chars; assumption]. intros c Hc. destruct (v6char_not_special c Hc) as [H1 _]. exact H1.
Qed.

(** * 6. both families *)
(* what survives the text form: the IP (no port, no scope id) *)
Definition strip (a : addr) : addr :=
  match a with AUnspec => AUnspec | A4 ip _ => A4 ip 0 | A6 ws _ _ => A6 ws 0 0 end.

Theorem from_to_string a : wf_addr a -> addr_valid a = true -> from_string (to_string a) = Some (strip a).
Proof.
  destruct a as [|ip p|ws p sc]; simpl; intros Hw Hv; try discriminate.
  - exact (from_to_string_v4 ip p ltac:(lia)).
  - exact (from_to_string_v6 ws p sc ltac:(tauto)).
Qed.

Lemma to_string_strip a : to_string (strip a) = to_string a.
Proof. destruct a; reflexivity. Qed.

Theorem to_from_string a : wf_addr a -> addr_valid a = true ->
  option_map to_string (from_string (to_string a)) = Some (to_string a).
Proof. intros Hw Hv. rewrite from_to_string by assumption. simpl. rewrite to_string_strip. reflexivity. Qed.

(* the text determines the IP: to_string is injective up to port and scope *)
Theorem to_string_inj a b : wf_addr a -> wf_addr b -> addr_valid a = true -> addr_valid b = true ->
  (to_string a = to_string b <-> strip a = strip b).
Proof.
  intros Ha Hb Va Vb. split; intros H.
  - pose proof (from_to_string a Ha Va) as E1. pose proof (from_to_string b Hb Vb) as E2. rewrite H in E1. congruence.
  - rewrite <- (to_string_strip a), <- (to_string_strip b), H. reflexivity.
Qed.

(* nice_address_equal_no_port agrees with equality of the texts (scope id 0) *)
Theorem equal_no_port_iff_text a b : wf_addr a -> wf_addr b -> scope0 a -> scope0 b ->
  (addr_equal_no_port a b = true <-> to_string a = to_string b).
Proof.
  intros Ha Hb Sa Sb.
  assert (Va : addr_valid a = true) by (destruct a; simpl in *; [contradiction|reflexivity|reflexivity]).
  assert (Vb : addr_valid b = true) by (destruct b; simpl in *; [contradiction|reflexivity|reflexivity]).
  rewrite (to_string_inj a b Ha Hb Va Vb).
  destruct a as [|i1 p1|w1 p1 s1], b as [|i2 p2|w2 p2 s2]; simpl in *; try contradiction; split; intros H; try discriminate.
  - apply Z.eqb_eq in H. subst. reflexivity.
  - injection H as ->. apply Z.eqb_refl.
  - apply andb_true_iff in H. destruct H as [H _]. apply zlist_eqb_eq in H. subst. reflexivity.
  - injection H as ->. rewrite zlist_eqb_refl. subst. reflexivity.
Qed.

(* nice_address_equal = same text and same port (scope id 0) *)
Theorem equal_iff_text_and_port a b : wf_addr a -> wf_addr b -> scope0 a -> scope0 b ->
  (addr_equal a b = true <-> to_string a = to_string b /\ addr_port a = addr_port b).
Proof.
  intros Ha Hb Sa Sb. rewrite <- (equal_no_port_iff_text a b Ha Hb Sa Sb).
  destruct a as [|i1 p1|w1 p1 s1], b as [|i2 p2|w2 p2 s2]; simpl in *; try contradiction; subst;
    rewrite ?andb_true_iff, ?Z.eqb_eq; unfold scope_compat; simpl; try tauto; try (split; [intros H; discriminate|intros [H _]; discriminate]).
Qed.
