(** Lemmas about SdpModel: tokenising, "%d" of 32-bit values read back by g_ascii_strtoull, the
    candidate-line round trip, totality of the parser, the stream- and agent-level round trips. *)
From Coq Require Import ZArith List Bool Lia ZifyBool.
From Nice Require Import Base.CSem Gen.Address Sdp.AddrModel Sdp.SdpModel Sdp.AddrProofs Sdp.Addr6Proofs.
Import ListNotations.
Local Open Scope Z_scope.
Ltac Zify.zify_post_hook ::= Z.div_mod_to_equations.

(** * g_strsplit *)
Definition nochar (d : Z) (s : str) : Prop := Forall (fun c => c <> d) s.

Lemma nochar_dec d s : forallb (fun c => negb (c =? d)) s = true -> nochar d s.
Proof.
  intros H. apply Forall_forall. intros c Hc. rewrite forallb_forall in H. specialize (H c Hc). lia.
Qed.

Lemma split_on_single d t : nochar d t -> split_on d t = [t].
Proof.
  induction 1 as [|c t Hc _ IH]; [reflexivity|]. simpl. replace (c =? d) with false by lia. rewrite IH. reflexivity.
Qed.

Lemma split_on_app d t rest : nochar d t -> split_on d (t ++ d :: rest) = t :: split_on d rest.
Proof.
  induction 1 as [|c t Hc _ IH]; simpl.
  - rewrite Z.eqb_refl. reflexivity.
  - replace (c =? d) with false by lia. rewrite IH. reflexivity.
Qed.

Fixpoint join (d : Z) (toks : list str) : str :=
  match toks with
  | [] => []
  | [t] => t
  | t :: rest => t ++ d :: join d rest
  end.

Lemma split_on_join d toks : toks <> [] -> Forall (nochar d) toks -> split_on d (join d toks) = toks.
Proof.
  induction toks as [|t rest IH]; [congruence|]. intros _ H. inversion H; subst.
  destruct rest as [|t2 rest'].
  - simpl. apply split_on_single. assumption.
  - change (join d (t :: t2 :: rest')) with (t ++ d :: join d (t2 :: rest')).
    rewrite split_on_app by assumption. rewrite IH; [reflexivity|discriminate|assumption].
Qed.

Lemma strsplit_join d t1 t2 rest : Forall (nochar d) (t1 :: t2 :: rest) ->
  g_strsplit d (join d (t1 :: t2 :: rest)) = t1 :: t2 :: rest.
Proof.
  intros H. unfold g_strsplit.
  destruct (join d (t1 :: t2 :: rest)) eqn:E.
  - change (join d (t1 :: t2 :: rest)) with (t1 ++ d :: join d (t2 :: rest)) in E. destruct t1; discriminate.
  - rewrite <- E. apply split_on_join; [discriminate|assumption].
Qed.

(** * prefixes *)
Lemma has_prefix_app p x : has_prefix p (p ++ x) = true.
Proof. induction p as [|a p IH]; [reflexivity|]. simpl. rewrite Z.eqb_refl. exact IH. Qed.

Lemma skipn_app_len {A} (p x : list A) : skipn (length p) (p ++ x) = x.
Proof. induction p; [reflexivity|assumption]. Qed.

(** * numerals read back by g_ascii_strtoull *)
Lemma print_dec_first n : 0 <= n < DECMAX -> exists c tl, print_dec n = c :: tl /\ 48 <= c <= 57.
Proof.
  intros Hn. destruct (print_dec_shape n Hn) as (d & tl & Hp & Hd & _). exists (48 + d), (map dchar tl). split; [assumption|lia].
Qed.

Lemma strtoull_print_dec n : 0 <= n <= U64MAX -> g_strtoull10 (print_dec n) = n.
Proof.
  intros Hn. unfold U64MAX in Hn.
  pose proof (scan_print_dec n [] ltac:(unfold DECMAX; lia) I) as Hs. rewrite app_nil_r in Hs.
  destruct (print_dec_first n ltac:(unfold DECMAX; lia)) as (c & tl & Hp & Hc). rewrite Hp in *.
  unfold g_strtoull10. cbn [skip_space]. replace (g_isspace c) with false by (unfold g_isspace; lia).
  replace (c =? 45) with false by lia. replace (c =? 43) with false by lia. cbn [orb].
  rewrite Hs. unfold U64MAX. replace (n >? 18446744073709551615) with false by lia. reflexivity.
Qed.

Lemma strtoull_neg_print_dec m : 0 <= m <= U64MAX ->
  g_strtoull10 (45 :: print_dec m) = (18446744073709551616 - m) mod 18446744073709551616.
Proof.
  intros Hm. unfold U64MAX in Hm.
  pose proof (scan_print_dec m [] ltac:(unfold DECMAX; lia) I) as Hs. rewrite app_nil_r in Hs.
  unfold g_strtoull10. cbn [skip_space]. change (g_isspace 45) with false. cbv iota.
  change (45 =? 45) with true. cbn [orb]. rewrite Hs. unfold U64MAX.
  replace (m >? 18446744073709551615) with false by lia. reflexivity.
Qed.

(* "%d" of a 32-bit value, read by g_ascii_strtoull and cast to guint32: the value itself,
   also when it was printed as a negative number *)
Theorem d32_roundtrip x : 0 <= x < 4294967296 -> g_strtoull10 (print_d32 x) mod 4294967296 = x.
Proof.
  intros Hx. unfold print_d32. rewrite (Z.mod_small x) by lia.
  destruct (x <? 2147483648) eqn:E.
  - rewrite strtoull_print_dec by (unfold U64MAX; lia). apply Z.mod_small. lia.
  - rewrite strtoull_neg_print_dec by (unfold U64MAX; lia). lia.
Qed.

Lemma port_roundtrip p : 0 <= p < 65536 -> g_strtoull10 (print_dec p) mod 65536 = p.
Proof. intros Hp. rewrite strtoull_print_dec by (unfold U64MAX; lia). apply Z.mod_small. lia. Qed.

(** * characters of the generated tokens *)
Lemma numchar_nochar d s : Forall numchar s -> ~ numchar d -> nochar d s.
Proof. intros H Hd. eapply Forall_impl; [|exact H]. intros c Hc E. subst. contradiction. Qed.

Lemma print_dec_nochar d n : 0 <= n -> ~ numchar d -> nochar d (print_dec n).
Proof. intros. apply numchar_nochar; [apply print_dec_chars|]; assumption. Qed.

Lemma print_d32_nochar d x : ~ numchar d -> d <> 45 -> nochar d (print_d32 x).
Proof.
  intros Hd H45. unfold print_d32. pose proof (Z.mod_pos_bound x 4294967296 ltac:(lia)).
  destruct (x mod 4294967296 <? 2147483648).
  - apply print_dec_nochar; [lia|assumption].
  - constructor; [lia|]. apply print_dec_nochar; [lia|assumption].
Qed.

Lemma to_string_nochar d a : wf_addr a -> ~ numchar d -> d <> 58 -> d <> 46 -> nochar d (to_string a).
Proof.
  intros Hw Hd H58 H46. destruct a as [|ip p|ws p sc]; simpl.
  - constructor.
  - eapply Forall_impl; [|apply ntop4_chars]. intros c [Hc|Hc] E; subst; [contradiction|lia].
  - simpl in Hw. eapply Forall_impl; [|apply ntop6_chars; tauto]. intros c [Hc|[Hc|Hc]] E; subst; [contradiction|lia|lia].
Qed.

Lemma not_numchar_32 : ~ numchar 32. Proof. unfold numchar. lia. Qed.
Lemma not_numchar_10 : ~ numchar 10. Proof. unfold numchar. lia. Qed.

(** * the candidate line as a token list *)
Definition base_shown (c : cand) : bool := addr_valid (c_base c) && negb (addr_equal (c_addr c) (c_base c)).

Definition cand_tokens (c : cand) : list str :=
  [firstn MAX_FOUNDATION (c_found c); print_d32 (c_comp c); transport_to_sdp (c_transport c); print_d32 (c_prio c);
   to_string (c_addr c); print_dec (sdp_port (addr_port (c_addr c))); s_typ; type_to_sdp (c_type c)]
  ++ (if base_shown c then [s_raddr; to_string (c_base c); s_rport; print_dec (sdp_port (addr_port (c_base c)))] else [])
  ++ (if negb (c_transport c =? 0) then [s_tcptype; transport_to_tcptype (c_transport c)] else []).

Lemma gen_candidate_tokens c : gen_candidate c = s_prefix ++ join SP (cand_tokens c).
Proof.
  unfold gen_candidate, cand_tokens. fold (base_shown c). f_equal.
  destruct (base_shown c), (negb (c_transport c =? 0)); cbn [app join]; repeat (rewrite <- ?app_assoc; cbn [app]);
    rewrite ?app_nil_r; reflexivity.
Qed.

Definition wf_cand (c : cand) : Prop :=
  0 <= c_type c <= 3 /\ 0 <= c_transport c <= 3 /\ 0 <= c_prio c < 4294967296 /\ 0 <= c_comp c < 4294967296 /\
  (length (c_found c) <= 32)%nat /\ nochar SP (c_found c) /\
  wf_addr (c_addr c) /\ addr_valid (c_addr c) = true /\ wf_addr (c_base c).

Lemma type_to_sdp_nochar d t : d <> 104 -> d <> 111 -> d <> 115 -> d <> 116 -> d <> 114 -> d <> 102 -> d <> 108 -> d <> 120 ->
  d <> 112 -> d <> 101 -> d <> 97 -> d <> 121 -> nochar d (type_to_sdp t).
Proof.
  intros. unfold type_to_sdp. repeat match goal with |- context [if ?b then _ else _] => destruct b end;
    repeat constructor; lia.
Qed.
Lemma transport_to_sdp_nochar d t : d <> 85 -> d <> 68 -> d <> 80 -> d <> 84 -> d <> 67 -> d <> 63 -> nochar d (transport_to_sdp t).
Proof.
  intros. unfold transport_to_sdp. repeat match goal with |- context [if ?b then _ else _] => destruct b end;
    repeat constructor; lia.
Qed.
Lemma tcptype_nochar d t : d <> 97 -> d <> 99 -> d <> 116 -> d <> 105 -> d <> 118 -> d <> 101 -> d <> 112 -> d <> 115 -> d <> 111 ->
  nochar d (transport_to_tcptype t).
Proof.
  intros. unfold transport_to_tcptype. repeat match goal with |- context [if ?b then _ else _] => destruct b end;
    repeat constructor; lia.
Qed.

Lemma sdp_port_range p : 0 <= p < 65536 -> 0 < sdp_port p < 65536.
Proof. intros. unfold sdp_port. destruct (p =? 0) eqn:E; lia. Qed.

Lemma addr_port_range a : wf_addr a -> 0 <= addr_port a < 65536.
Proof. destruct a; simpl; lia. Qed.

(* every token of a generated line is free of [d] when the foundation is, for d = ' ' or newline *)
Lemma cand_tokens_nochar d c : (d = 32 \/ d = 10) -> wf_cand c -> nochar d (c_found c) -> Forall (nochar d) (cand_tokens c).
Proof.
  intros Hd (Ht & Htr & Hp & Hc & Hfl & Hfs & Hwa & Hva & Hwb) Hf.
  assert (Hn : ~ numchar d) by (unfold numchar; lia).
  pose proof (sdp_port_range _ (addr_port_range _ Hwa)) as Hpa.
  pose proof (sdp_port_range _ (addr_port_range _ Hwb)) as Hpb.
  assert (Hk : forall k, forallb (fun c => negb (c =? 32)) k = true -> forallb (fun c => negb (c =? 10)) k = true -> nochar d k).
  { intros k H1 H2. apply nochar_dec. destruct Hd; subst; assumption. }
  unfold cand_tokens. apply Forall_app; split; [|apply Forall_app; split].
  - apply Forall_cons; [rewrite firstn_all2 by (unfold MAX_FOUNDATION; lia); exact Hf|].
    apply Forall_cons; [apply print_d32_nochar; [assumption|lia]|].
    apply Forall_cons; [apply transport_to_sdp_nochar; lia|].
    apply Forall_cons; [apply print_d32_nochar; [assumption|lia]|].
    apply Forall_cons; [apply to_string_nochar; [assumption|assumption|lia|lia]|].
    apply Forall_cons; [apply print_dec_nochar; [lia|assumption]|].
    apply Forall_cons; [apply Hk; reflexivity|].
    apply Forall_cons; [apply type_to_sdp_nochar; lia|]. apply Forall_nil.
  - destruct (base_shown c); [|apply Forall_nil].
    apply Forall_cons; [apply Hk; reflexivity|].
    apply Forall_cons; [apply to_string_nochar; [assumption|assumption|lia|lia]|].
    apply Forall_cons; [apply Hk; reflexivity|].
    apply Forall_cons; [apply print_dec_nochar; [lia|assumption]|]. apply Forall_nil.
  - destruct (negb (c_transport c =? 0)); [|apply Forall_nil].
    apply Forall_cons; [apply Hk; reflexivity|].
    apply Forall_cons; [apply tcptype_nochar; lia|]. apply Forall_nil.
Qed.

(** * running the parser over the tokens *)
Lemma set_kv_typ st v : set_kv st s_typ v =
  mkP (p_found st) (p_comp st) (p_transport st) (p_prio st) (p_addr st) (p_port st) (Some v) (p_tcptype st) (p_raddr st) (p_rport st).
Proof. reflexivity. Qed.
Lemma set_kv_raddr st v : set_kv st s_raddr v =
  mkP (p_found st) (p_comp st) (p_transport st) (p_prio st) (p_addr st) (p_port st) (p_type st) (p_tcptype st) (Some v) (p_rport st).
Proof. reflexivity. Qed.
Lemma set_kv_rport st v : set_kv st s_rport v =
  mkP (p_found st) (p_comp st) (p_transport st) (p_prio st) (p_addr st) (p_port st) (p_type st) (p_tcptype st) (p_raddr st)
      (g_strtoull10 v mod 65536).
Proof. reflexivity. Qed.
Lemma set_kv_tcptype st v : set_kv st s_tcptype v =
  mkP (p_found st) (p_comp st) (p_transport st) (p_prio st) (p_addr st) (p_port st) (p_type st) (Some v) (p_raddr st) (p_rport st).
Proof. reflexivity. Qed.

Lemma type_roundtrip t : 0 <= t <= 3 -> type_of_name (type_to_sdp t) = Some t.
Proof.
  intros H. assert (t = 0 \/ t = 1 \/ t = 2 \/ t = 3) as [->|[->|[->| ->]]] by lia; reflexivity.
Qed.

Lemma transport_roundtrip tr : 0 <= tr <= 3 ->
  transport_of (transport_to_sdp tr) (if negb (tr =? 0) then Some (transport_to_tcptype tr) else None) = Some (tr, false).
Proof.
  intros H. assert (tr = 0 \/ tr = 1 \/ tr = 2 \/ tr = 3) as [->|[->|[->| ->]]] by lia; reflexivity.
Qed.

Lemma strlcpy_foundation f : (length f <= 32)%nat -> strlcpy MAX_FOUNDATION (firstn MAX_FOUNDATION f) = f.
Proof.
  intros H. unfold strlcpy, MAX_FOUNDATION. rewrite firstn_firstn. simpl (Init.Nat.min _ _). apply firstn_all2. exact H.
Qed.

(** what the property says a candidate looks like after generate -> parse *)
Definition norm_addr (a : addr) : addr :=
  match a with
  | AUnspec => AUnspec
  | A4 ip p => A4 ip (sdp_port p)
  | A6 ws p _ => A6 ws (sdp_port p) 0
  end.
Definition rt_image (c : cand) : cand :=
  mkCand (c_type c) (c_transport c) (norm_addr (c_addr c))
         (if base_shown c then norm_addr (c_base c) else AUnspec)
         (c_prio c) (c_comp c) (c_found c).

Lemma set_port_strip a : wf_addr a -> addr_set_port (strip a) (sdp_port (addr_port a)) = norm_addr a.
Proof.
  destruct a as [|ip p|ws p sc]; simpl; intros H; [reflexivity| |].
  - pose proof (sdp_port_range p ltac:(lia)). rewrite Z.mod_small by lia. reflexivity.
  - pose proof (sdp_port_range p ltac:(lia)). rewrite Z.mod_small by lia. reflexivity.
Qed.

(* the token loop on the four layouts of a generated line (tokens are arbitrary strings here) *)
Definition U32 (t : str) : Z := g_strtoull10 t mod 4294967296.
Definition U16 (t : str) : Z := g_strtoull10 t mod 65536.
Lemma tok_loop_plain f co tr pr a po ty :
  tok_loop [f; co; tr; pr; a; po; s_typ; ty] 0 p_init
  = Some (mkP (Some f) (U32 co) (Some tr) (U32 pr) (Some a) (U16 po) (Some ty) None None 0).
Proof. reflexivity. Qed.
Lemma tok_loop_base f co tr pr a po ty ra rp :
  tok_loop [f; co; tr; pr; a; po; s_typ; ty; s_raddr; ra; s_rport; rp] 0 p_init
  = Some (mkP (Some f) (U32 co) (Some tr) (U32 pr) (Some a) (U16 po) (Some ty) None (Some ra) (U16 rp)).
Proof. reflexivity. Qed.
Lemma tok_loop_tcp f co tr pr a po ty tt :
  tok_loop [f; co; tr; pr; a; po; s_typ; ty; s_tcptype; tt] 0 p_init
  = Some (mkP (Some f) (U32 co) (Some tr) (U32 pr) (Some a) (U16 po) (Some ty) (Some tt) None 0).
Proof. reflexivity. Qed.
Lemma tok_loop_base_tcp f co tr pr a po ty ra rp tt :
  tok_loop [f; co; tr; pr; a; po; s_typ; ty; s_raddr; ra; s_rport; rp; s_tcptype; tt] 0 p_init
  = Some (mkP (Some f) (U32 co) (Some tr) (U32 pr) (Some a) (U16 po) (Some ty) (Some tt) (Some ra) (U16 rp)).
Proof. reflexivity. Qed.

Ltac unfold_pfields :=
  cbv beta iota delta [p_found p_comp p_transport p_prio p_addr p_port p_type p_tcptype p_raddr p_rport].

Theorem candidate_roundtrip c : wf_cand c -> parse_candidate_full (gen_candidate c) = PCand (rt_image c) false.
Proof.
  intros Hwf. pose proof Hwf as (Ht & Htr & Hp & Hc & Hfl & Hfs & Hwa & Hva & Hwb).
  rewrite gen_candidate_tokens. unfold parse_candidate_full.
  rewrite has_prefix_app. cbn [negb]. change 12%nat with (length s_prefix). rewrite skipn_app_len.
  pose proof (cand_tokens_nochar 32 c ltac:(left; reflexivity) Hwf Hfs) as Hnos.
  unfold cand_tokens in *. cbn [app] in *. rewrite strsplit_join by exact Hnos. clear Hnos.
  pose proof (sdp_port_range _ (addr_port_range _ Hwa)) as Hpa.
  pose proof (sdp_port_range _ (addr_port_range _ Hwb)) as Hpb.
  assert (Hvb : base_shown c = true -> addr_valid (c_base c) = true) by (unfold base_shown; intros H; apply andb_true_iff in H; tauto).
  pose proof (transport_roundtrip (c_transport c) Htr) as Htp.
  unfold rt_image.
  destruct (base_shown c) eqn:Eb; destruct (negb (c_transport c =? 0)) eqn:Etr; cbn [app].
  - rewrite tok_loop_base_tcp. unfold_pfields. unfold U32, U16.
    rewrite type_roundtrip by assumption. rewrite Htp.
    rewrite (from_to_string (c_addr c) Hwa Hva).
    rewrite !d32_roundtrip by assumption. rewrite !port_roundtrip by lia.
    rewrite strlcpy_foundation by assumption. rewrite set_port_strip by assumption.
    replace (negb (sdp_port (addr_port (c_base c)) =? 0)) with true by lia.
    rewrite (from_to_string (c_base c) Hwb (Hvb eq_refl)). rewrite set_port_strip by assumption. reflexivity.
  - rewrite tok_loop_base. unfold_pfields. unfold U32, U16.
    rewrite type_roundtrip by assumption. rewrite Htp.
    rewrite (from_to_string (c_addr c) Hwa Hva).
    rewrite !d32_roundtrip by assumption. rewrite !port_roundtrip by lia.
    rewrite strlcpy_foundation by assumption. rewrite set_port_strip by assumption.
    replace (negb (sdp_port (addr_port (c_base c)) =? 0)) with true by lia.
    rewrite (from_to_string (c_base c) Hwb (Hvb eq_refl)). rewrite set_port_strip by assumption. reflexivity.
  - rewrite tok_loop_tcp. unfold_pfields. unfold U32, U16.
    rewrite type_roundtrip by assumption. rewrite Htp.
    rewrite (from_to_string (c_addr c) Hwa Hva).
    rewrite !d32_roundtrip by assumption. rewrite !port_roundtrip by lia.
    rewrite strlcpy_foundation by assumption. rewrite set_port_strip by assumption. reflexivity.
  - rewrite tok_loop_plain. unfold_pfields. unfold U32, U16.
    rewrite type_roundtrip by assumption. rewrite Htp.
    rewrite (from_to_string (c_addr c) Hwa Hva).
    rewrite !d32_roundtrip by assumption. rewrite !port_roundtrip by lia.
    rewrite strlcpy_foundation by assumption. rewrite set_port_strip by assumption. reflexivity.
Qed.

Corollary candidate_roundtrip_opt c : wf_cand c -> parse_candidate (gen_candidate c) = Some (rt_image c).
Proof. intros H. unfold parse_candidate. rewrite candidate_roundtrip by assumption. reflexivity. Qed.

(** * totality of the candidate-line parser *)
Definition pinv (i : nat) (st : pstate) : Prop :=
  ((i < 6)%nat -> p_type st = None) /\ ((1 <= i)%nat -> p_found st <> None) /\
  ((3 <= i)%nat -> p_transport st <> None) /\ ((5 <= i)%nat -> p_addr st <> None).

Lemma set_kv_keeps st k v :
  p_found (set_kv st k v) = p_found st /\ p_transport (set_kv st k v) = p_transport st /\ p_addr (set_kv st k v) = p_addr st /\
  p_comp (set_kv st k v) = p_comp st /\ p_prio (set_kv st k v) = p_prio st /\ p_port (set_kv st k v) = p_port st.
Proof.
  unfold set_kv. destruct (str_eq k s_typ); [repeat split|]. destruct (str_eq k s_raddr); [repeat split|].
  destruct (str_eq k s_rport); [repeat split|]. destruct (str_eq k s_tcptype); repeat split.
Qed.

Lemma tok_loop_inv : forall toks i st st', pinv i st -> tok_loop toks i st = Some st' ->
  exists i', pinv i' st' /\ (i <= i')%nat.
Proof.
  fix IH 1. intros toks i st st' Hi H. destruct toks as [|t tl].
  - simpl in H. injection H as <-. exists i. split; [assumption|lia].
  - destruct Hi as (H1 & H2 & H3 & H4).
    destruct i as [|[|[|[|[|[|i]]]]]]; cbn [tok_loop] in H.
    1-6: (apply IH in H; [destruct H as (i' & Hi' & Hle); exists i'; split; [assumption|lia]|];
          unfold pinv; cbn [p_type p_found p_transport p_addr]; repeat split; intros; try lia; try discriminate;
          try (apply H1; lia); try (apply H2; lia); try (apply H3; lia); try (apply H4; lia)).
    destruct tl as [|v tl']; [discriminate|].
    apply IH in H; [destruct H as (i' & Hi' & Hle); exists i'; split; [assumption|lia]|].
    destruct (set_kv_keeps st t v) as (E1 & E2 & E3 & _).
    unfold pinv. rewrite E1, E2, E3. repeat split; intros; try lia; try (apply H2; lia); try (apply H3; lia); try (apply H4; lia).
Qed.

Lemma pinv_init : pinv 0 p_init.
Proof. unfold pinv, p_init. simpl. repeat split; intros; try lia; reflexivity. Qed.

Lemma tok_loop_ranges : forall toks i st st', tok_loop toks i st = Some st' ->
  (0 <= p_comp st < 4294967296 /\ 0 <= p_prio st < 4294967296 /\ 0 <= p_port st < 65536 /\ 0 <= p_rport st < 65536) ->
  (0 <= p_comp st' < 4294967296 /\ 0 <= p_prio st' < 4294967296 /\ 0 <= p_port st' < 65536 /\ 0 <= p_rport st' < 65536).
Proof.
  fix IH 1. intros toks i st st' H Hr. destruct toks as [|t tl].
  - simpl in H. injection H as <-. assumption.
  - destruct Hr as (R1 & R2 & R3 & R4).
    destruct i as [|[|[|[|[|[|i]]]]]]; cbn [tok_loop] in H.
    1-6: (apply IH in H; [assumption|]; cbn [p_comp p_prio p_port p_rport]; repeat split; try lia;
          apply Z.mod_pos_bound; lia).
    destruct tl as [|v tl']; [discriminate|]. apply IH in H; [assumption|].
    unfold set_kv. destruct (str_eq t s_typ); [cbn; lia|]. destruct (str_eq t s_raddr); [cbn; lia|].
    destruct (str_eq t s_rport).
    + cbn [p_comp p_prio p_port p_rport]. pose proof (Z.mod_pos_bound (g_strtoull10 v) 65536 ltac:(lia)). lia.
    + destruct (str_eq t s_tcptype); cbn; lia.
Qed.

Lemma from_string_valid s a : from_string s = Some a -> addr_valid a = true.
Proof.
  unfold from_string. destruct (inet_aton_exact s); [intros H; injection H as <-; reflexivity|].
  destruct (split_scope s) as [h sc]. destruct (inet_pton6 h); [|discriminate].
  destruct sc as [sc|]; [destruct (scopeid sc); [|discriminate]|]; intros H; injection H as <-; reflexivity.
Qed.

Lemma set_port_valid a p : addr_valid (addr_set_port a p) = addr_valid a.
Proof. destruct a; reflexivity. Qed.
Lemma set_port_port a p : addr_valid a = true -> addr_port (addr_set_port a p) = p mod 65536.
Proof. destruct a; simpl; intros; [discriminate|reflexivity|reflexivity]. Qed.

Lemma type_of_name_range t n : type_of_name t = Some n -> 0 <= n <= 3.
Proof.
  unfold type_of_name. repeat match goal with |- context [if ?b then _ else _] => destruct b end; intros H; inversion H; lia.
Qed.
Lemma transport_of_range tr tt n k : transport_of tr tt = Some (n, k) -> 0 <= n <= 3 /\ (k = true -> tt = None).
Proof.
  unfold transport_of. repeat match goal with |- context [if ?b then _ else _] => destruct b end;
    try (intros H; inversion H; split; [lia|congruence]); try discriminate.
  destruct tt as [tv|].
  - repeat match goal with |- context [if ?b then _ else _] => destruct b end; intros H; inversion H; split; try lia; congruence.
  - intros H; inversion H. split; [lia|reflexivity].
Qed.

(* the properties every parsed candidate has *)
Definition parsed_ok (c : cand) : Prop :=
  addr_valid (c_addr c) = true /\ 0 <= addr_port (c_addr c) < 65536 /\
  (c_base c = AUnspec \/ (addr_valid (c_base c) = true /\ 0 < addr_port (c_base c) < 65536)) /\
  0 <= c_type c <= 3 /\ 0 <= c_transport c <= 3 /\ 0 <= c_prio c < 4294967296 /\ 0 <= c_comp c < 4294967296 /\
  (length (c_found c) <= 32)%nat.

Theorem parse_total s :
  parse_candidate_full s <> PFault /\
  forall c crit, parse_candidate_full s = PCand c crit -> parsed_ok c.
Proof.
  unfold parse_candidate_full.
  destruct (negb (has_prefix s_prefix s)); [split; [discriminate|intros; discriminate]|].
  destruct (tok_loop (g_strsplit SP (skipn 12 s)) 0 p_init) as [st|] eqn:Et; [|split; [discriminate|intros; discriminate]].
  destruct (tok_loop_inv _ _ _ _ pinv_init Et) as (i' & (I1 & I2 & I3 & I4) & _).
  pose proof (tok_loop_ranges _ _ _ _ Et ltac:(unfold p_init; simpl; lia)) as (R1 & R2 & R3 & R4).
  destruct (p_type st) as [ty|] eqn:Ety; [|split; [discriminate|intros; discriminate]].
  assert (Hi : (6 <= i')%nat). { destruct (Nat.lt_ge_cases i' 6) as [Hlt|]; [|assumption]. specialize (I1 Hlt). congruence. }
  destruct (type_of_name ty) as [ntype|] eqn:Enty; [|split; [discriminate|intros; discriminate]].
  destruct (p_transport st) as [tr|] eqn:Etr; [|exfalso; apply I3; [lia|reflexivity]].
  destruct (transport_of tr (p_tcptype st)) as [[ctr crit0]|] eqn:Ectr; [|split; [discriminate|intros; discriminate]].
  destruct (p_found st) as [f|] eqn:Ef; [|exfalso; apply I2; [lia|reflexivity]].
  destruct (p_addr st) as [a|] eqn:Ea; [|exfalso; apply I4; [lia|reflexivity]].
  destruct (from_string a) as [ad|] eqn:Ead; [|split; [discriminate|intros; discriminate]].
  pose proof (from_string_valid _ _ Ead) as Hv.
  pose proof (type_of_name_range _ _ Enty) as Hnty. destruct (transport_of_range _ _ _ _ Ectr) as [Hctr _].
  assert (Hfl : (length (strlcpy MAX_FOUNDATION f) <= 32)%nat).
  { unfold strlcpy, MAX_FOUNDATION. simpl (33 - 1)%nat. apply firstn_le_length. }
  assert (Hmk : forall b, (b = AUnspec \/ (addr_valid b = true /\ 0 < addr_port b < 65536)) ->
            parsed_ok (mkCand ntype ctr (addr_set_port ad (p_port st)) b (p_prio st) (p_comp st) (strlcpy MAX_FOUNDATION f))).
  { intros b Hb. unfold parsed_ok. cbn [c_addr c_base c_type c_transport c_prio c_comp c_found].
    rewrite set_port_valid, set_port_port by assumption. rewrite Z.mod_small by lia. repeat split; try assumption; try lia. }
  destruct (p_raddr st) as [ra|].
  - destruct (negb (p_rport st =? 0)) eqn:Erp.
    + destruct (from_string ra) as [b|] eqn:Eb; [|split; [discriminate|intros; discriminate]].
      split; [discriminate|]. intros c crit H. injection H as <- _. apply Hmk. right.
      pose proof (from_string_valid _ _ Eb) as Hvb. rewrite set_port_valid, set_port_port by assumption.
      rewrite Z.mod_small by lia. split; [assumption|lia].
    + split; [discriminate|]. intros c crit H. injection H as <- _. apply Hmk. left. reflexivity.
  - split; [discriminate|]. intros c crit H. injection H as <- _. apply Hmk. left. reflexivity.
Qed.

(* the CRITICAL-logging path is exactly: transport "TCP" (any case) and no tcptype attribute *)
Theorem parse_critical_only_null_tcptype s c :
  parse_candidate_full s = PCand c true -> c_transport c = 3.
Proof.
  unfold parse_candidate_full.
  destruct (negb (has_prefix s_prefix s)); [discriminate|].
  destruct (tok_loop (g_strsplit SP (skipn 12 s)) 0 p_init) as [st|]; [|discriminate].
  destruct (p_type st) as [ty|]; [|discriminate]. destruct (type_of_name ty); [|discriminate].
  destruct (p_transport st) as [tr|]; [|discriminate].
  destruct (transport_of tr (p_tcptype st)) as [[ctr crit0]|] eqn:Ectr; [|discriminate].
  assert (Hc : crit0 = true -> ctr = 3).
  { revert Ectr. unfold transport_of.
    repeat match goal with |- context [if ?b then _ else _] => destruct b end; try (intros H; inversion H; intros; discriminate).
    destruct (p_tcptype st).
    - repeat match goal with |- context [if ?b then _ else _] => destruct b end; intros H; inversion H; intros; discriminate.
    - intros H; inversion H. reflexivity. }
  destruct (p_found st); [|discriminate]. destruct (p_addr st) as [a|]; [|discriminate].
  destruct (from_string a); [|discriminate].
  destruct (p_raddr st) as [ra|].
  - destruct (negb (p_rport st =? 0)).
    + destruct (from_string ra); [|discriminate]. intros H. injection H as E1 E2. subst c. cbn. auto.
    + intros H. injection H as E1 E2. subst c. cbn. auto.
  - intros H. injection H as E1 E2. subst c. cbn. auto.
Qed.

(** * lines *)
Lemma split_on_unlines ls : Forall (nochar NL) ls -> split_on NL (unlines ls) = ls ++ [[]].
Proof.
  induction 1 as [|l ls Hl _ IH]; [reflexivity|].
  unfold unlines. cbn [flat_map]. rewrite <- app_assoc. cbn [app].
  rewrite split_on_app by assumption. fold (unlines ls). rewrite IH. reflexivity.
Qed.

Lemma strsplit_unlines l ls : Forall (nochar NL) (l :: ls) -> g_strsplit NL (unlines (l :: ls)) = (l :: ls) ++ [[]].
Proof.
  intros H. unfold g_strsplit. destruct (unlines (l :: ls)) eqn:E.
  - unfold unlines in E. cbn [flat_map] in E. destruct l; discriminate.
  - rewrite <- E. apply split_on_unlines. assumption.
Qed.

Lemma unlines_app a b : unlines (a ++ b) = unlines a ++ unlines b.
Proof. unfold unlines. apply flat_map_app. Qed.

Lemma nochar_app d a b : nochar d a -> nochar d b -> nochar d (a ++ b).
Proof. intros. apply Forall_app. split; assumption. Qed.

Lemma join_nochar d sep toks : d <> sep -> Forall (nochar d) toks -> nochar d (join sep toks).
Proof.
  intros Hd. induction 1 as [|t rest Ht _ IH]; [constructor|].
  destruct rest as [|t2 rest']; [exact Ht|].
  change (join sep (t :: t2 :: rest')) with (t ++ sep :: join sep (t2 :: rest')).
  apply nochar_app; [assumption|]. constructor; [congruence|assumption].
Qed.

(* a candidate that can sit in an SDP block: its foundation has no newline either *)
Definition wf_cand_nl (c : cand) : Prop := wf_cand c /\ nochar NL (c_found c).

Lemma gen_candidate_nonl c : wf_cand_nl c -> nochar NL (gen_candidate c).
Proof.
  intros [Hw Hf]. rewrite gen_candidate_tokens. apply nochar_app; [apply nochar_dec; reflexivity|].
  apply join_nochar; [unfold NL, SP; lia|]. apply cand_tokens_nochar; [right; reflexivity|assumption|assumption].
Qed.

Definition wf_stream (st : stream) : Prop :=
  (match s_name st with Some n => nochar NL n | None => True end) /\
  nochar NL (s_lufrag st) /\ nochar NL (s_lpwd st) /\
  (length (s_lufrag st) <= 256)%nat /\ (length (s_lpwd st) <= 256)%nat /\
  Forall wf_cand_nl (concat (s_comps st)) /\
  Forall (fun c => 1 <= c_comp c <= Z.of_nat (length (s_comps st))) (concat (s_comps st)).

(** * the stream block *)
Lemma default_rtp_in cs : forall best c, default_rtp cs best = Some c -> best = Some c \/ In c cs.
Proof.
  induction cs as [|x cs IH]; intros best c H; simpl in H; [left; assumption|].
  destruct (cand_is_v4 x).
  - apply IH in H. destruct H as [H|H]; [|right; right; assumption].
    destruct best as [b|].
    + destruct (c_prio x <? c_prio b); [injection H as <-; right; left; reflexivity|left; assumption].
    + injection H as <-. right. left. reflexivity.
  - apply IH in H. destruct H; [left|right; right]; assumption.
Qed.
Lemma default_rtcp_in cs f c : default_rtcp cs f = Some c -> In c cs.
Proof.
  induction cs as [|x cs IH]; simpl; [discriminate|].
  destruct (cand_is_v4 x && str_eq (c_found x) f); [intros H; injection H as <-; left; reflexivity|intros H; right; apply IH; assumption].
Qed.

Lemma wf_zero_addr : wf_addr (A4 0 0). Proof. simpl. lia. Qed.

Lemma stream_addrs_wf st : Forall wf_cand_nl (concat (s_comps st)) -> wf_addr (stream_rtp st) /\ wf_addr (stream_rtcp st).
Proof.
  intros H. rewrite Forall_forall in H.
  assert (Hin : forall c, In c (concat (s_comps st)) -> wf_addr (c_addr c)).
  { intros c Hc. destruct (H c Hc) as [(_ & _ & _ & _ & _ & _ & Hw & _) _]. exact Hw. }
  unfold stream_rtp, stream_rtcp, stream_rtp_cand.
  destruct (s_comps st) as [|c1 rest] eqn:E; [split; apply wf_zero_addr|].
  split.
  - destruct (default_rtp c1 None) as [c|] eqn:Ed; [|apply wf_zero_addr].
    apply default_rtp_in in Ed. destruct Ed as [Ed|Ed]; [discriminate|]. apply Hin. simpl. apply in_or_app. left. assumption.
  - destruct rest as [|c2 rest']; [destruct (default_rtp c1 None); apply wf_zero_addr|].
    destruct (default_rtp c1 None) as [r|]; [|apply wf_zero_addr].
    destruct (default_rtcp c2 (c_found r)) as [c|] eqn:Ed; [|apply wf_zero_addr].
    apply default_rtcp_in in Ed. apply Hin. simpl. apply in_or_app. right. apply in_or_app. left. assumption.
Qed.

Definition not_ice_line (l : str) : Prop :=
  has_prefix s_ufrag l = false /\ has_prefix s_pwd l = false /\ has_prefix s_prefix l = false.

Lemma head_lines_shape st :
  exists x tl, head_lines st = (s_m ++ x) :: tl /\ not_ice_line (s_m ++ x) /\
               Forall (fun l => has_prefix s_m l = false /\ not_ice_line l) tl.
Proof.
  unfold head_lines. eexists. eexists. split; [reflexivity|]. split; [repeat split; reflexivity|].
  constructor; [repeat split; reflexivity|]. destruct (negb (addr_port (stream_rtcp st) =? 0)); [|constructor].
  constructor; [repeat split; reflexivity|constructor].
Qed.

Lemma head_lines_nonl st : wf_stream st -> Forall (nochar NL) (head_lines st).
Proof.
  intros (Hn & _ & _ & _ & _ & Hc & _). destruct (stream_addrs_wf st Hc) as [W1 W2].
  pose proof (addr_port_range _ W1). pose proof (addr_port_range _ W2).
  unfold head_lines. apply Forall_app. split.
  - constructor; [|constructor; [|constructor]].
    + apply nochar_app; [apply nochar_dec; reflexivity|]. apply nochar_app.
      * destruct (s_name st); [assumption|apply nochar_dec; reflexivity].
      * constructor; [unfold SP, NL; lia|]. apply nochar_app; [|apply nochar_dec; reflexivity].
        apply print_dec_nochar; [lia|apply not_numchar_10].
    + apply nochar_app; [apply nochar_dec; reflexivity|].
      apply to_string_nochar; [assumption|apply not_numchar_10|unfold NL; lia|unfold NL; lia].
  - destruct (negb (addr_port (stream_rtcp st) =? 0)); [|constructor]. constructor; [|constructor].
    apply nochar_app; [apply nochar_dec; reflexivity|]. apply print_dec_nochar; [lia|apply not_numchar_10].
Qed.

Lemma stream_lines_nonl st : wf_stream st -> Forall (nochar NL) (stream_lines st).
Proof.
  intros H. pose proof (head_lines_nonl st H) as Hh. destruct H as (_ & Hu & Hp & _ & _ & Hc & _).
  unfold stream_lines. apply Forall_app. split; [assumption|].
  constructor; [apply nochar_app; [apply nochar_dec; reflexivity|assumption]|].
  constructor; [apply nochar_app; [apply nochar_dec; reflexivity|assumption]|].
  apply Forall_map. eapply Forall_impl; [|exact Hc]. intros c. apply gen_candidate_nonl.
Qed.

Lemma gen_candidate_prefixes c :
  has_prefix s_m (gen_candidate c) = false /\ has_prefix s_ufrag (gen_candidate c) = false /\
  has_prefix s_pwd (gen_candidate c) = false /\ has_prefix s_prefix (gen_candidate c) = true.
Proof. rewrite gen_candidate_tokens. repeat split. Qed.

(** nice_agent_parse_remote_stream_sdp of a generated stream block *)
Lemma parse_stream_skip l tl uf pw acc : not_ice_line l ->
  parse_stream_lines (l :: tl) uf pw acc = parse_stream_lines tl uf pw acc.
Proof. intros (H1 & H2 & H3). cbn [parse_stream_lines]. rewrite H1, H2, H3. reflexivity. Qed.

Lemma parse_stream_cands tl uf pw : forall cs acc, Forall wf_cand cs ->
  parse_stream_lines (map gen_candidate cs ++ tl) uf pw acc = parse_stream_lines tl uf pw (rev (map rt_image cs) ++ acc).
Proof.
  induction cs as [|c cs IH]; intros acc H; [reflexivity|]. inversion H; subst.
  cbn [map app parse_stream_lines]. destruct (gen_candidate_prefixes c) as (_ & -> & -> & ->).
  rewrite candidate_roundtrip_opt by assumption. rewrite IH by assumption.
  cbn [rev]. rewrite <- app_assoc. reflexivity.
Qed.

Theorem stream_roundtrip st : wf_stream st ->
  parse_remote_stream_sdp (gen_stream st)
  = (Some (s_lufrag st), Some (s_lpwd st), rev (map rt_image (concat (s_comps st)))).
Proof.
  intros Hw. pose proof (stream_lines_nonl st Hw) as Hnl.
  unfold parse_remote_stream_sdp, gen_stream.
  destruct (head_lines_shape st) as (x & tl & Eh & Hm & Htl).
  unfold stream_lines in *. rewrite Eh in *. cbn [app] in *.
  rewrite strsplit_unlines by assumption. cbn [app].
  rewrite parse_stream_skip by assumption.
  assert (Hskip : forall rest uf pw acc, parse_stream_lines (tl ++ rest) uf pw acc = parse_stream_lines rest uf pw acc).
  { clear - Htl. induction Htl as [|l tl [_ Hl] _ IH]; intros; [reflexivity|]. cbn [app]. rewrite parse_stream_skip by assumption. apply IH. }
  rewrite <- app_assoc. rewrite Hskip. cbn [app parse_stream_lines].
  rewrite has_prefix_app. change 12%nat with (length s_ufrag). rewrite skipn_app_len.
  replace (has_prefix s_ufrag (s_pwd ++ s_lpwd st)) with false by reflexivity.
  rewrite has_prefix_app. change 10%nat with (length s_pwd). rewrite skipn_app_len.
  destruct Hw as (_ & _ & _ & _ & _ & Hc & _).
  rewrite parse_stream_cands by (eapply Forall_impl; [|exact Hc]; intros c [Hc' _]; exact Hc').
  cbn [parse_stream_lines has_prefix]. rewrite app_nil_r. reflexivity.
Qed.

(** * the whole SDP: agent A generates, agent B (same streams / components) parses *)
Lemma upd_nth_app {A} (f : A -> A) (pre : list A) x post : upd_nth (length pre) f (pre ++ x :: post) = pre ++ f x :: post.
Proof. induction pre as [|p pre IH]; [reflexivity|]. simpl. rewrite IH. reflexivity. Qed.
Lemma nth_error_app_len {A} (pre : list A) x post : nth_error (pre ++ x :: post) (length pre) = Some x.
Proof. induction pre; [reflexivity|assumption]. Qed.

Definition accepted_count (cs : list cand) : Z := Z.of_nat (length (filter remote_accepted cs)).

Lemma accepted_count_cons c cs : accepted_count (c :: cs) = (if remote_accepted c then 1 else 0) + accepted_count cs.
Proof. unfold accepted_count. simpl. destruct (remote_accepted c); simpl length; lia. Qed.
Lemma accepted_count_app a b : accepted_count (a ++ b) = accepted_count a + accepted_count b.
Proof. unfold accepted_count. rewrite filter_app, app_length. lia. Qed.

Lemma remote_accepted_image c : remote_accepted (rt_image c) = remote_accepted c.
Proof. reflexivity. Qed.

Lemma parse_sdp_skip l tl cur sts ret : has_prefix s_m l = false -> not_ice_line l ->
  parse_sdp_lines (l :: tl) cur sts ret = parse_sdp_lines tl cur sts ret.
Proof. intros H0 (H1 & H2 & H3). cbn [parse_sdp_lines]. rewrite H0, H1, H2, H3. reflexivity. Qed.

Lemma parse_sdp_cands tl pre post uf pw nc : forall cs offered ret,
  Forall wf_cand cs -> Forall (fun c => 1 <= c_comp c <= nc) cs ->
  parse_sdp_lines (map gen_candidate cs ++ tl) (Some (length pre)) (pre ++ mkR uf pw nc offered :: post) ret
  = parse_sdp_lines tl (Some (length pre)) (pre ++ mkR uf pw nc (offered ++ map rt_image cs) :: post) (ret + accepted_count cs).
Proof.
  induction cs as [|c cs IH]; intros offered ret Hw Hc.
  - cbn [map app]. rewrite app_nil_r. unfold accepted_count. simpl. rewrite Z.add_0_r. reflexivity.
  - inversion Hw; subst. inversion Hc; subst.
    cbn [map app parse_sdp_lines]. destruct (gen_candidate_prefixes c) as (-> & -> & -> & ->).
    rewrite candidate_roundtrip_opt by assumption.
    rewrite nth_error_app_len. cbn [r_ncomp c_comp rt_image].
    replace ((1 <=? c_comp c) && (c_comp c <=? nc)) with true by lia.
    rewrite upd_nth_app. cbn [r_ufrag r_pwd r_ncomp r_offered].
    rewrite IH by assumption. rewrite remote_accepted_image, accepted_count_cons.
    rewrite <- app_assoc. cbn [app]. f_equal. destruct (remote_accepted c); lia.
Qed.

Definition recv_init (st : stream) : rstream := mkR [] [] (Z.of_nat (length (s_comps st))) [].
Definition recv_filled (st : stream) : rstream :=
  mkR (s_lufrag st) (s_lpwd st) (Z.of_nat (length (s_comps st))) (map rt_image (concat (s_comps st))).

Lemma strlcpy_small n s : (length s < n)%nat -> strlcpy n s = s.
Proof. intros H. unfold strlcpy. apply firstn_all2. lia. Qed.

Lemma parse_sdp_stream st tl pre post cur ret : wf_stream st ->
  match cur with None => O | Some k => S k end = length pre ->
  parse_sdp_lines (stream_lines st ++ tl) cur (pre ++ recv_init st :: post) ret
  = parse_sdp_lines tl (Some (length pre)) (pre ++ recv_filled st :: post) (ret + accepted_count (concat (s_comps st))).
Proof.
  intros Hw Hcur. destruct (head_lines_shape st) as (x & htl & Eh & Hm & Htl).
  unfold stream_lines. rewrite Eh. cbn [app parse_sdp_lines].
  rewrite has_prefix_app. rewrite Hcur.
  replace (length pre <? length (pre ++ recv_init st :: post))%nat with true by (rewrite app_length; simpl; lia).
  assert (Hskip : forall rest cur sts ret, parse_sdp_lines (htl ++ rest) cur sts ret = parse_sdp_lines rest cur sts ret).
  { clear - Htl. induction Htl as [|l htl [H0 Hl] _ IH]; intros; [reflexivity|]. cbn [app]. rewrite parse_sdp_skip by assumption. apply IH. }
  rewrite <- app_assoc. rewrite Hskip. cbn [app parse_sdp_lines].
  replace (has_prefix s_m (s_ufrag ++ s_lufrag st)) with false by reflexivity.
  rewrite has_prefix_app. change (skipn 12 (s_ufrag ++ s_lufrag st)) with (skipn (length s_ufrag) (s_ufrag ++ s_lufrag st)). rewrite skipn_app_len.
  rewrite upd_nth_app. unfold recv_init at 1. cbn [r_ufrag r_pwd r_ncomp r_offered].
  replace (has_prefix s_m (s_pwd ++ s_lpwd st)) with false by reflexivity.
  replace (has_prefix s_ufrag (s_pwd ++ s_lpwd st)) with false by reflexivity.
  rewrite has_prefix_app. change (skipn 10 (s_pwd ++ s_lpwd st)) with (skipn (length s_pwd) (s_pwd ++ s_lpwd st)). rewrite skipn_app_len.
  rewrite upd_nth_app. cbn [r_ufrag r_pwd r_ncomp r_offered].
  destruct Hw as (_ & _ & _ & Hlu & Hlp & Hc & Hcomp).
  rewrite !strlcpy_small by lia.
  rewrite parse_sdp_cands; [reflexivity| |assumption].
  eapply Forall_impl; [|exact Hc]. intros c [Hc' _]. exact Hc'.
Qed.

Lemma parse_sdp_streams : forall sts pre cur ret, Forall wf_stream sts ->
  match cur with None => O | Some k => S k end = length pre ->
  parse_sdp_lines (flat_map stream_lines sts ++ [[]]) cur (pre ++ map recv_init sts) ret
  = (ret + accepted_count (flat_map (fun s => concat (s_comps s)) sts), pre ++ map recv_filled sts).
Proof.
  induction sts as [|st sts IH]; intros pre cur ret Hw Hcur.
  - cbn [flat_map map app parse_sdp_lines has_prefix]. unfold accepted_count. simpl. rewrite Z.add_0_r. reflexivity.
  - inversion Hw; subst. cbn [flat_map map]. rewrite <- app_assoc.
    rewrite parse_sdp_stream by assumption.
    replace (pre ++ recv_filled st :: map recv_init sts) with ((pre ++ [recv_filled st]) ++ map recv_init sts)
      by (rewrite <- app_assoc; reflexivity).
    replace (length pre) with (length (pre ++ [recv_filled st]) - 1)%nat at 1 by (rewrite app_length; simpl; lia).
    rewrite IH; [|assumption|rewrite app_length; simpl; lia].
    rewrite accepted_count_app, <- app_assoc. f_equal. lia.
Qed.

Lemma gen_sdp_lines sts : gen_sdp sts = unlines (flat_map stream_lines sts).
Proof.
  unfold gen_sdp, gen_stream. induction sts as [|st sts IH]; [reflexivity|].
  cbn [flat_map]. rewrite unlines_app, IH. reflexivity.
Qed.

Theorem sdp_roundtrip sts : sts <> [] -> Forall wf_stream sts ->
  parse_remote_sdp (map recv_init sts) (gen_sdp sts)
  = (accepted_count (flat_map (fun s => concat (s_comps s)) sts), map recv_filled sts).
Proof.
  intros Hne Hw. unfold parse_remote_sdp. rewrite gen_sdp_lines.
  assert (Hnl : Forall (nochar NL) (flat_map stream_lines sts)).
  { clear Hne. induction Hw as [|st sts H _ IH]; [constructor|]. cbn [flat_map]. apply Forall_app. split; [apply stream_lines_nonl; assumption|assumption]. }
  destruct (flat_map stream_lines sts) as [|l ls] eqn:E.
  - destruct sts as [|st sts']; [congruence|]. cbn [flat_map] in E. unfold stream_lines in E.
    destruct (head_lines_shape st) as (x & tl & Eh & _). rewrite Eh in E. discriminate.
  - rewrite strsplit_unlines by assumption. rewrite <- E.
    pose proof (parse_sdp_streams sts [] None 0 Hw eq_refl) as H. cbn [app] in H. rewrite H. f_equal.
Qed.
