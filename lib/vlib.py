"""Shared machinery of the libnice verification checks.

Everything a per-property check (props/<ID>.py) needs:
  * building C harnesses from /repo's *working tree* (never from _build/*.a),
  * regenerating coq/Gen/*.v and (re)building .vo targets with make (full .vo),
  * collecting `Print Assumptions` for every theorem of Properties_<ID>.v,
  * the forbidden-construct scan of the Coq development,
  * running the extracted-model driver and diffing against the harness,
  * evidence / replay / VIOLATION / KNOWN-FINDING reporting.
"""
import fcntl, hashlib, json, os, random, re, shutil, subprocess, sys, time

ROOT = os.path.dirname(os.path.dirname(os.path.abspath(__file__)))
REPO = os.environ.get("VERIF_REPO", "/repo")
COQ = os.path.join(ROOT, "coq")
# binaries and object caches of a scratch copy of the repository (VERIF_REPO=...) are kept apart from those of /repo, so that a run
# against a modified tree can never hand a stale or foreign binary to a concurrent run against /repo
BUILD = os.path.join(ROOT, "build") if REPO == "/repo" else os.path.join(ROOT, "build", "alt-" + hashlib.sha256(REPO.encode()).hexdigest()[:8])
NPROC = os.cpu_count() or 4

ALLOWED_AXIOMS = {
    # standard-library axioms that may appear through libraries we import; each
    # is named in evidence.trusted_base when it shows up.
    "functional_extensionality_dep",
    "FunctionalExtensionality.functional_extensionality_dep",
    "Eqdep.Eq_rect_eq.eq_rect_eq",
    "Coq.Logic.Eqdep.Eq_rect_eq.eq_rect_eq",
    "JMeq_eq", "JMeq.JMeq_eq",
    "proof_irrelevance", "ProofIrrelevance.proof_irrelevance",
    "classic", "Classical_Prop.classic",
    "propositional_extensionality",
}

FORBIDDEN = re.compile(
    r"\b(Admitted|admit|Axiom|Axioms|Parameter|Parameters|Conjecture|Conjectures|"
    r"Admit\s+Obligations|Unset\s+Guard\s+Checking|Unset\s+Positivity\s+Checking|"
    r"Unset\s+Universe\s+Checking|bypass_check|native_compute|type-in-type|impredicative-set)\b")


def log(*a):
    print(*a, flush=True)


def sh(cmd, timeout=None, cwd=None, env=None, input=None):
    """Run a command (list or shell string) in its own process group; on timeout the whole group is killed
    (a timed-out make must not leave a coqc running).  Returns (rc, stdout+stderr)."""
    import signal
    shell = isinstance(cmd, str)
    p = subprocess.Popen(cmd, shell=shell, cwd=cwd, env=env, stdin=subprocess.PIPE if input is not None else None,
                         stdout=subprocess.PIPE, stderr=subprocess.STDOUT, text=True, errors="replace",
                         start_new_session=True)
    try:
        out, _ = p.communicate(input=input, timeout=timeout)
        return p.returncode, out
    except subprocess.TimeoutExpired:
        try:
            os.killpg(p.pid, signal.SIGKILL)
        except OSError:
            pass
        out, _ = p.communicate()
        return 124, (out or "") + "\n[timeout after %ss]\n" % timeout


def file_hash(paths):
    h = hashlib.sha256()
    for p in paths:
        h.update(p.encode())
        try:
            with open(p, "rb") as f:
                h.update(f.read())
        except OSError:
            h.update(b"<missing>")
    return h.hexdigest()[:16]


# --------------------------------------------------------------------------
# C side: compile harnesses from /repo's working tree
# --------------------------------------------------------------------------
_pkg_cache = {}


def pkg(flag, mods="glib-2.0 gio-2.0 gobject-2.0"):
    k = (flag, mods)
    if k not in _pkg_cache:
        _pkg_cache[k] = subprocess.check_output(["pkg-config", flag] + mods.split(), text=True).split()
    return _pkg_cache[k]


def gen_include_dir():
    """config.h / agent-enum-types.h: /repo/_build if present, else the pinned copy."""
    d = os.path.join(REPO, "_build")
    if os.path.exists(os.path.join(d, "config.h")) and os.path.exists(os.path.join(d, "agent", "agent-enum-types.h")):
        return [d, os.path.join(d, "agent")]
    return [os.path.join(ROOT, "support")]


def repo_cflags():
    inc = gen_include_dir() + [REPO] + [os.path.join(REPO, d) for d in ("agent", "stun", "socket", "random", "stun/usages")]
    return pkg("--cflags") + ["-I" + i for i in inc] + [
        "-DHAVE_CONFIG_H", "-D_GNU_SOURCE", "-DLIBNICE_VERIF", "-fno-strict-aliasing", "-w"]


SAN = ["-O1", "-g", "-fsanitize=address,undefined", "-fno-sanitize-recover=all", "-fno-omit-frame-pointer"]

STUN_SRCS = ["stun/stunagent.c", "stun/stunmessage.c", "stun/stun5389.c", "stun/stuncrc32.c",
             "stun/stunhmac.c", "stun/utils.c", "stun/debug.c", "stun/rand.c",
             "stun/usages/bind.c", "stun/usages/ice.c", "stun/usages/timer.c", "stun/usages/turn.c",
             "random/random.c", "random/random-glib.c"]


def repo_srcs(rel):
    return [os.path.join(REPO, r) for r in rel]


def cc(name, harness_srcs, repo_rel_srcs, extra=(), sanitize=True, libs=("gnutls",), timeout=600,
       compiler="gcc"):
    """Compile build/<name> from harness sources + /repo sources (working tree).
    Cached on the hash of every input file.  Returns (path|None, log)."""
    os.makedirs(BUILD, exist_ok=True)
    srcs = [os.path.join(ROOT, "harness", s) if not os.path.isabs(s) else s for s in harness_srcs]
    srcs += repo_srcs(repo_rel_srcs)
    hdrs = []
    for d in ("agent", "stun", "stun/usages", "socket", "random"):
        dd = os.path.join(REPO, d)
        if os.path.isdir(dd):
            hdrs += sorted(os.path.join(dd, f) for f in os.listdir(dd) if f.endswith(".h"))
    hdrs += sorted(os.path.join(ROOT, "harness", f) for f in os.listdir(os.path.join(ROOT, "harness")) if f.endswith(".h"))
    stamp = file_hash(srcs + hdrs) + all_source_hash() + hashlib.sha256(repr((extra, sanitize, libs, compiler)).encode()).hexdigest()[:8]
    out = os.path.join(BUILD, name)
    sfile = out + ".stamp"
    if os.path.exists(out) and os.path.exists(sfile) and open(sfile).read() == stamp:
        return out, "cached"
    objs = []
    objdir = os.path.join(BUILD, name + ".o.d")
    shutil.rmtree(objdir, ignore_errors=True)
    os.makedirs(objdir)
    flags = repo_cflags() + (SAN if sanitize else ["-O1", "-g"]) + list(extra)
    procs = []
    for i, s in enumerate(srcs):
        o = os.path.join(objdir, "%03d_%s.o" % (i, os.path.basename(s)))
        objs.append(o)
        procs.append((s, subprocess.Popen([compiler, "-c", s, "-o", o] + flags,
                                          stdout=subprocess.PIPE, stderr=subprocess.STDOUT, text=True)))
        while len([p for _, p in procs if p.poll() is None]) >= NPROC:
            time.sleep(0.01)
    logs = []
    bad = False
    for s, p in procs:
        o, _ = p.communicate()
        if p.returncode != 0:
            bad = True
            logs.append("== %s\n%s" % (s, o))
    if bad:
        return None, "\n".join(logs)
    ldflags = (SAN if sanitize else []) + ["-rdynamic"] + pkg("--libs") + ["-l" + l for l in libs] + ["-lm", "-lpthread"]
    rc, o = sh([compiler] + objs + ["-o", out] + ldflags, timeout=timeout)
    shutil.rmtree(objdir, ignore_errors=True)
    if rc != 0:
        return None, o
    with open(sfile, "w") as f:
        f.write(stamp)
    return out, "built"


AGENT_SRCS = ["agent/address.c", "agent/agent.c", "agent/candidate.c", "agent/component.c", "agent/conncheck.c",
              "agent/debug.c", "agent/discovery.c", "agent/inputstream.c", "agent/interfaces.c", "agent/iostream.c",
              "agent/outputstream.c", "agent/pseudotcp.c", "agent/stream.c"]
SOCKET_SRCS = ["socket/socket.c", "socket/udp-bsd.c", "socket/tcp-bsd.c", "socket/tcp-active.c", "socket/tcp-passive.c",
               "socket/pseudossl.c", "socket/socks5.c", "socket/http.c", "socket/udp-turn.c", "socket/udp-turn-over-tcp.c"]


def all_source_hash():
    """hash of every .c/.h of libnice (harnesses may #include .c files directly)"""
    fs = []
    for d in ("agent", "stun", "stun/usages", "socket", "random"):
        dd = os.path.join(REPO, d)
        if os.path.isdir(dd):
            fs += sorted(os.path.join(dd, f) for f in os.listdir(dd) if f.endswith((".h", ".c")))
    return file_hash(fs)


def header_hash():
    hdrs = []
    for d in ("agent", "stun", "stun/usages", "socket", "random"):
        dd = os.path.join(REPO, d)
        if os.path.isdir(dd):
            hdrs += sorted(os.path.join(dd, f) for f in os.listdir(dd) if f.endswith(".h"))
    hdrs += [os.path.join(d, f) for d in gen_include_dir() for f in ("config.h", "agent-enum-types.h") if os.path.exists(os.path.join(d, f))]
    return file_hash(hdrs)


def repo_objects(rel_srcs, variant="san", extra=(), sanitize=True, compiler="gcc"):
    """Compile /repo sources (working tree) to cached objects, one per file, recompiling a file only when it,
    any libnice header or the flags changed.  Returns (list of .o | None, log)."""
    odir = os.path.join(BUILD, "obj-" + variant)
    os.makedirs(odir, exist_ok=True)
    hh = header_hash()
    flags = repo_cflags() + (SAN if sanitize else ["-O1", "-g"]) + list(extra)
    fkey = hashlib.sha256(repr((flags, compiler)).encode()).hexdigest()[:8]
    todo, objs = [], []
    for r in rel_srcs:
        src = os.path.join(REPO, r) if not os.path.isabs(r) else r
        if r == "agent/agent-enum-types.c":
            src = os.path.join(gen_include_dir()[-1], "agent-enum-types.c")
        o = os.path.join(odir, r.replace("/", "__") + ".o")
        st = file_hash([src]) + hh + fkey
        objs.append(o)
        if not (os.path.exists(o) and os.path.exists(o + ".stamp") and open(o + ".stamp").read() == st):
            todo.append((src, o, st, r))
    procs, logs, bad = [], [], False
    for src, o, st, r in todo:
        dom = "libnice" if r.startswith("agent") else ("libnice-socket" if r.startswith("socket") else "libnice-stun")
        procs.append((src, o, st, subprocess.Popen([compiler, "-c", src, "-o", o, '-DG_LOG_DOMAIN="%s"' % dom] + flags,
                                                   stdout=subprocess.PIPE, stderr=subprocess.STDOUT, text=True)))
        while len([p for *_, p in procs if p.poll() is None]) >= NPROC:
            time.sleep(0.01)
    for src, o, st, p in procs:
        out, _ = p.communicate()
        if p.returncode != 0:
            bad = True
            logs.append("== %s\n%s" % (src, out[-3000:]))
            for f in (o, o + ".stamp"):
                if os.path.exists(f):
                    os.unlink(f)
        else:
            with open(o + ".stamp", "w") as f:
                f.write(st)
    if bad:
        return None, "\n".join(logs)
    return objs, "%d compiled, %d cached" % (len(todo), len(objs) - len(todo))


def link(name, harness_srcs, objs, extra=(), sanitize=True, libs=("gnutls",), compiler="gcc", timeout=600):
    """Compile harness sources and link them with cached repo objects into build/<name>."""
    hs = [os.path.join(ROOT, "harness", s) if not os.path.isabs(s) else s for s in harness_srcs]
    hh = sorted(os.path.join(ROOT, "harness", f) for f in os.listdir(os.path.join(ROOT, "harness")) if f.endswith(".h"))
    stamp = file_hash(hs + hh + objs) + all_source_hash() + hashlib.sha256(repr((extra, sanitize, libs)).encode()).hexdigest()[:8]
    out = os.path.join(BUILD, name)
    if os.path.exists(out) and os.path.exists(out + ".stamp") and open(out + ".stamp").read() == stamp:
        return out, "cached"
    flags = repo_cflags() + (SAN if sanitize else ["-O1", "-g"]) + list(extra)
    ldflags = ["-rdynamic"] + pkg("--libs") + ["-l" + l for l in libs] + ["-lm", "-lpthread"]
    rc, o = sh([compiler] + hs + objs + ["-o", out] + flags + ldflags, timeout=timeout)
    if rc != 0:
        return None, o
    with open(out + ".stamp", "w") as f:
        f.write(stamp)
    return out, "built"


# --------------------------------------------------------------------------
# Coq side
# --------------------------------------------------------------------------
class CoqLock:
    def __enter__(self):
        os.makedirs(BUILD, exist_ok=True)
        self.f = open(os.path.join(BUILD, ".coq.lock"), "w")
        fcntl.flock(self.f, fcntl.LOCK_EX)
        return self

    def __exit__(self, *a):
        fcntl.flock(self.f, fcntl.LOCK_UN)
        self.f.close()


def write_if_changed(path, content):
    os.makedirs(os.path.dirname(path), exist_ok=True)
    try:
        if open(path).read() == content:
            return False
    except OSError:
        pass
    with open(path, "w") as f:
        f.write(content)
    return True


def coq_files():
    """every .v file of the development, except work in progress listed (one path or glob per line) in coq/WIP: such files are not part
    of any check (not built, not scanned, no theorem of theirs is claimed) until they are taken off that list"""
    import fnmatch
    wip = []
    try:
        wip = [l.strip() for l in open(os.path.join(COQ, "WIP")) if l.strip() and not l.startswith("#")]
    except OSError:
        pass
    out = []
    for d, _, fs in os.walk(COQ):
        for f in sorted(fs):
            if f.endswith(".v"):
                rel = os.path.relpath(os.path.join(d, f), COQ)
                if not any(fnmatch.fnmatch(rel, w) for w in wip):
                    out.append(rel)
    return sorted(out)


def coq_prepare():
    """(Re)generate _CoqProject and Makefile when the set of .v files changed."""
    files = coq_files()
    os.makedirs(os.path.join(ROOT, "ocaml", "gen"), exist_ok=True)      # target directory of the Extraction commands (not under version control)
    proj = "-Q . Nice\n-arg -w -arg -all\n" + "\n".join(files) + "\n"
    changed = write_if_changed(os.path.join(COQ, "_CoqProject"), proj)
    if changed or not os.path.exists(os.path.join(COQ, "Makefile")):
        rc, o = sh(["coq_makefile", "-f", "_CoqProject", "-o", "Makefile"], cwd=COQ)
        if rc != 0:
            raise RuntimeError("coq_makefile failed: " + o)


def coq_make(targets, timeout=3000, keep_going=True):
    """make -k -jN <targets> (targets relative to coq/, e.g. Props/Properties_C19.vo).
    Full .vo build.  Returns (ok, log)."""
    with CoqLock():
        coq_prepare()
        cmd = ["make", "-j%d" % NPROC, "COQC=timeout --foreground -k 5 1500 prlimit --as=16000000000 coqc"] + (["-k"] if keep_going else []) + list(targets)
        env = dict(os.environ, TIMED="", COQFLAGS="")
        rc, o = sh(cmd, cwd=COQ, timeout=timeout)
        return rc == 0, o


def scan_forbidden():
    """Return list of (file, line, text) with forbidden constructs in hand-written or generated .v files."""
    bad = []
    for rel in coq_files():
        p = os.path.join(COQ, rel)
        txt = open(p).read()
        # strip comments (non-nested approximation is enough: we forbid the words in code only)
        depth, out, i = 0, [], 0
        while i < len(txt):
            if txt.startswith("(*", i):
                depth += 1; i += 2; continue
            if txt.startswith("*)", i) and depth > 0:
                depth -= 1; i += 2; continue
            if depth == 0:
                out.append(txt[i])
            elif txt[i] == "\n":
                out.append("\n")
            i += 1
        code = "".join(out)
        sec_depth = 0
        for n, line in enumerate(code.split("\n"), 1):
            if FORBIDDEN.search(line):
                bad.append((rel, n, line.strip()))
            s = line.strip()
            if re.match(r"Section\b", s):
                sec_depth += 1
            elif re.match(r"End\b", s) and sec_depth > 0:
                sec_depth -= 1
            elif sec_depth == 0 and re.match(r"(Variable|Variables|Hypothesis|Hypotheses|Context)\b", s):
                bad.append((rel, n, "top-level " + s))
    return bad


def theorems_of(vfile):
    txt = open(os.path.join(COQ, vfile)).read()
    return re.findall(r"^\s*(?:Theorem|Corollary)\s+([A-Za-z0-9_']+)", txt, re.M)


def print_assumptions(module, theorems, timeout=600):
    """Run a fresh coqc that loads the compiled module and prints the assumptions of each theorem.
    Returns dict name -> list of axioms (empty = closed under the global context), or None on failure."""
    os.makedirs(BUILD, exist_ok=True)
    tmpd = os.path.join(BUILD, "pa_" + module.replace(".", "_") + "_%d" % os.getpid())
    os.makedirs(tmpd, exist_ok=True)
    src = os.path.join(tmpd, "PA.v")
    with open(src, "w") as f:
        f.write("Require Import %s.\n" % module)
        for t in theorems:
            f.write('Redirect "%s/%s" Print Assumptions %s.\n' % (tmpd, t, t))
    rc, o = sh(["coqc", "-Q", COQ, "Nice", "-w", "-all", src], timeout=timeout, cwd=tmpd)
    res = {}
    if rc != 0:
        shutil.rmtree(tmpd, ignore_errors=True)
        return None, o
    for t in theorems:
        try:
            txt = open(os.path.join(tmpd, t + ".out")).read()
        except OSError:
            res[t] = ["<no output>"]
            continue
        if "Closed under the global context" in txt:
            res[t] = []
        else:
            ax = []
            for line in txt.split("\n"):
                m = re.match(r"^([A-Za-z_][A-Za-z0-9_.']*)\s*:", line)
                if m:
                    ax.append(m.group(1))
            res[t] = ax or ["<unparsed: %s>" % txt[:200]]
    shutil.rmtree(tmpd, ignore_errors=True)
    return res, o


def coq_eval(module_imports, body, timeout=600):
    """Evaluate Coq vernacular (used for in-Coq correspondence of translated code). Returns (rc, out)."""
    os.makedirs(BUILD, exist_ok=True)
    tmpd = os.path.join(BUILD, "ev_%d_%d" % (os.getpid(), random.randrange(1 << 30)))
    os.makedirs(tmpd)
    src = os.path.join(tmpd, "Cases.v")
    with open(src, "w") as f:
        for m in module_imports:
            f.write("Require Import %s.\n" % m)
        f.write(body)
    rc, o = sh(["coqc", "-Q", COQ, "Nice", "-w", "-all", src], timeout=timeout, cwd=tmpd)
    shutil.rmtree(tmpd, ignore_errors=True)
    return rc, o


# --------------------------------------------------------------------------
# OCaml side (extracted models)
# --------------------------------------------------------------------------
def ocaml_build(name, model, parts, timeout=900):
    """Build build/<name> from ocaml/gen/<model>.ml(+.mli) (produced by an Extract_*.v) and the driver text
    obtained by concatenating ocaml/<part> for each part (preceded by `open <Model>`)."""
    gen = os.path.join(ROOT, "ocaml", "gen")
    srcs = [os.path.join(gen, model + ".mli"), os.path.join(gen, model + ".ml")]
    psrc = [os.path.join(ROOT, "ocaml", d) for d in parts]
    for f in srcs + psrc:
        if not os.path.exists(f):
            return None, "missing " + f
    stamp = file_hash(srcs + psrc)
    out = os.path.join(BUILD, name)
    sfile = out + ".stamp"
    if os.path.exists(out) and os.path.exists(sfile) and open(sfile).read() == stamp:
        return out, "cached"
    wd = os.path.join(BUILD, name + ".ml.d")
    shutil.rmtree(wd, ignore_errors=True)
    os.makedirs(wd)
    for s_ in srcs:
        shutil.copy(s_, wd)
    with open(os.path.join(wd, "driver.ml"), "w") as f:
        f.write("open %s\n" % (model[0].upper() + model[1:]))
        for p_ in psrc:
            f.write(open(p_).read() + "\n")
    rc, o = sh(["ocamlfind", "ocamlopt", "-O2", "-w", "-a", "-I", ".", model + ".mli", model + ".ml", "driver.ml", "-o", out],
               cwd=wd, timeout=timeout)
    shutil.rmtree(wd, ignore_errors=True)
    if rc != 0:
        return None, o
    with open(sfile, "w") as f:
        f.write(stamp)
    return out, "built"


def run_lines(exe, text, timeout=600, env=None):
    e = dict(os.environ)
    e.setdefault("ASAN_OPTIONS", "detect_leaks=0:abort_on_error=0:allocator_may_return_null=1")
    e.setdefault("UBSAN_OPTIONS", "print_stacktrace=1:halt_on_error=1")
    e.setdefault("G_SLICE", "always-malloc")      # GLib 2.74 slices would hide use-after-free / overruns of g_slice objects from ASan
    if env:
        e.update(env)
    try:
        p = subprocess.run([exe], input=text, stdout=subprocess.PIPE, stderr=subprocess.PIPE,
                           timeout=timeout, text=True, errors="replace", env=e)
        return p.returncode, p.stdout, p.stderr
    except subprocess.TimeoutExpired as ex:
        so = ex.stdout if isinstance(ex.stdout, str) else (ex.stdout or b"").decode("utf8", "replace")
        return 124, so or "", "[timeout]"


def run_sharded(exe, cases, nshards=None, timeout=900, env=None):
    """cases: list of strings (each a block of lines for one case, the harness prints exactly one line per
    case starting with the case's index).  Runs shards in parallel; returns list of outputs per case or an
    (index, stderr) crash tuple."""
    import concurrent.futures as cf
    nshards = nshards or NPROC
    shards = [[] for _ in range(nshards)]
    for i, c in enumerate(cases):
        shards[i % nshards].append((i, c))
    res = [None] * len(cases)
    errs = []

    def work(sh_):
        if not sh_:
            return []
        text = "".join(c for _, c in sh_)
        rc, so, se = run_lines(exe, text, timeout=timeout, env=env)
        lines = so.split("\n")
        return [(sh_, rc, lines, se)]
    with cf.ThreadPoolExecutor(nshards) as ex:
        for r in ex.map(work, shards):
            for sh_, rc, lines, se in r:
                k = 0
                for (i, _c) in sh_:
                    if k < len(lines) and lines[k] != "":
                        res[i] = lines[k]
                    k += 1
                if rc != 0:
                    # first case without output is the crashing one
                    idx = next((i for (i, _c) in sh_ if res[i] is None), sh_[-1][0])
                    errs.append((idx, rc, se[-4000:]))
    return res, errs


# --------------------------------------------------------------------------
# Reporting
# --------------------------------------------------------------------------
def load_known():
    out = []
    ps = [os.path.join(ROOT, "known_findings.json")]
    kd = os.path.join(ROOT, "known")
    if os.path.isdir(kd):
        ps += sorted(os.path.join(kd, f) for f in os.listdir(kd) if f.endswith(".json"))
    for p in ps:
        try:
            out += json.load(open(p)).get("findings", [])
        except OSError:
            pass
    return out


class Check:
    """One run of one property's check."""

    def __init__(self, pid, tier, seed):
        self.pid, self.tier, self.seed = pid, tier, seed
        self.t0 = time.time()
        self.violations = []      # (replay_path, no_input)
        self.known_hits = []
        self.cov = {"obligations": 0, "discharged": 0, "checker_cmd": "", "trusted_base": [],
                    "evaluations": 0, "distinct_nontrivial": 0, "rule": "", "samples": [],
                    "traces_validated_against_impl": 0, "theorems": [], "axioms_seen": [],
                    "correspondence": {}, "input_distribution": {}}
        self.assumptions = []
        self.rng = random.Random(seed)
        self._distinct = set()

    # ---- proof side ----
    def prove(self, vfiles, extra_targets=()):
        """Build Properties files (full .vo) and check the assumptions of every theorem in them.
        Returns True when every obligation is discharged with allowed assumptions."""
        bad = scan_forbidden()
        if bad:
            self.broken_obligation("forbidden-construct", "forbidden constructs in the Coq development: %r" % bad[:5])
            return False
        targets = [v[:-2] + ".vo" for v in vfiles] + list(extra_targets)
        ok, out = coq_make(targets)
        self.cov["checker_cmd"] = "cd coq && coq_makefile -f _CoqProject -o Makefile && make -k -j%d %s ; coqc Print Assumptions <each theorem>" % (NPROC, " ".join(targets))
        allok = True
        for v in vfiles:
            ths = theorems_of(v)
            self.cov["obligations"] += len(ths)
            vo = os.path.join(COQ, v[:-2] + ".vo")
            if not os.path.exists(vo) or not ok and not _vo_fresh(vo, out, v):
                allok = False
                self.broken_obligation("coq-build:" + v, "Coq build of %s failed:\n%s" % (v, _tail_err(out)))
                continue
            mod = "Nice." + v[:-2].replace("/", ".")
            res, o = print_assumptions(mod, ths)
            if res is None:
                allok = False
                self.broken_obligation("print-assumptions:" + v, o[-3000:])
                continue
            for t in ths:
                ax = res[t]
                notallowed = [a for a in ax if a.split(".")[-1] not in {x.split(".")[-1] for x in ALLOWED_AXIOMS}]
                if notallowed:
                    allok = False
                    self.broken_obligation("assumptions:" + t, "theorem %s depends on %r" % (t, notallowed))
                else:
                    self.cov["discharged"] += 1
                    self.cov["theorems"].append(t)
                    for a in ax:
                        if a not in self.cov["axioms_seen"]:
                            self.cov["axioms_seen"].append(a)
        if not ok and allok:
            # some other target failed
            allok = False
            self.broken_obligation("coq-build", _tail_err(out))
        return allok

    def sub_rng(self, name):
        """an independent, reproducible random stream for one stage of a check (derived from the seed and the stage name), so that adding or
        changing one stage does not shift the cases every later stage generates"""
        return random.Random("%s/%s/%s" % (self.seed, self.pid, name))

    def broken_obligation(self, what, detail):
        """A proof obligation / correspondence no longer checks and no failing input is (yet) known."""
        self._pending_broken = getattr(self, "_pending_broken", [])
        self._pending_broken.append((what, detail))
        log("[%s] BROKEN %s: %s" % (self.pid, what, detail[:1500]))

    # ---- case accounting ----
    def count_case(self, canon, nontrivial=True, kind=None):
        self.cov["evaluations"] += 1
        if nontrivial:
            self._distinct.add(hashlib.sha1(canon.encode() if isinstance(canon, str) else canon).digest()[:8])
        if kind is not None:
            d = self.cov["input_distribution"]
            d[kind] = d.get(kind, 0) + 1

    def sample(self, obj):
        if len(self.cov["samples"]) < 6:
            self.cov["samples"].append(obj)

    # ---- violations ----
    def violation(self, replay, summary, no_input=False):
        """replay: JSON-able dict describing the failing input/history.  Checks known findings first."""
        for k in load_known():
            if k.get("property") != self.pid or k.get("status") != "known":
                continue
            if _match_known(k, replay):
                if k["id"] not in self.known_hits:
                    self.known_hits.append(k["id"])
                    log("KNOWN-FINDING: property=%s %s" % (self.pid, k.get("what", k["id"])))
                return False
        os.makedirs(os.path.join(ROOT, "replays"), exist_ok=True)
        body = json.dumps({"property": self.pid, "summary": summary, "seed": self.seed, "replay": replay},
                          indent=1, sort_keys=True, default=str)
        h = hashlib.sha1(body.encode()).hexdigest()[:10]
        path = os.path.join(ROOT, "replays", "%s-%s.json" % (self.pid, h))
        with open(path, "w") as f:
            f.write(body)
        self.violations.append((path, no_input, summary))
        return True

    def finish(self, level="proof", trusted=(), rule=None, assumptions=()):
        # broken obligations for which no failing input was found
        pend = getattr(self, "_pending_broken", [])
        if pend and not any(not ni for _, ni, _ in self.violations):
            self.violation({"kind": "broken-obligation", "obligations": [{"what": w, "detail": d[-6000:]} for w, d in pend]},
                           "proof obligation or correspondence no longer checks: " + "; ".join(w for w, _ in pend),
                           no_input=True)
        elif pend:
            # a failing input was found; record broken obligations inside the evidence only
            self.cov["broken_obligations"] = [w for w, _ in pend]
            self.cov["discharged"] = min(self.cov["discharged"], self.cov["obligations"])
        self.cov["distinct_nontrivial"] = len(self._distinct)
        if rule:
            self.cov["rule"] = rule
        tb = ["Coq 8.16.1 kernel (coqc, full .vo build; vm_compute used, no native_compute)",
              "axioms reported by Print Assumptions: " + (", ".join(self.cov["axioms_seen"]) or "none (closed under the global context)")]
        tb += list(trusted)
        self.cov["trusted_base"] = tb
        ev = {"property_id": self.pid, "tier": self.tier, "seed": self.seed, "level": level,
              "coverage": self.cov, "assumptions": list(assumptions), "wall_s": round(time.time() - self.t0, 2),
              "violations": len(self.violations), "known_findings_hit": self.known_hits}
        # a run against a scratch copy of the repository (seeded-change evaluation) must never overwrite the evidence of /repo
        evdir = os.path.join(ROOT, "evidence") if REPO == "/repo" else os.path.join(BUILD, "evidence")
        os.makedirs(evdir, exist_ok=True)
        with open(os.path.join(evdir, self.pid + ".json"), "w") as f:
            json.dump(ev, f, indent=1, sort_keys=True, default=str)
        for path, no_input, summary in self.violations:
            log("[%s] %s" % (self.pid, summary[:2000]))
        for path, no_input, summary in self.violations:
            rel = os.path.relpath(path, ROOT)
            log("VIOLATION property=%s replay=%s%s" % (self.pid, rel, " no-failing-input-found" if no_input else ""))
        if not self.violations:
            log("[%s] OK tier=%s obligations=%d discharged=%d cases=%d distinct=%d wall=%.1fs" % (
                self.pid, self.tier, self.cov["obligations"], self.cov["discharged"],
                self.cov["evaluations"], self.cov["distinct_nontrivial"], time.time() - self.t0))
        return 1 if self.violations else 0


def _vo_fresh(vo, out, v):
    # make -k: a .vo that exists but whose rule failed would have been removed by coq_makefile; treat existing as ok
    # unless make mentions an error for this file
    return ("%s" % v) not in _tail_err(out)


def _tail_err(out):
    lines = out.split("\n")
    idx = [i for i, l in enumerate(lines) if "Error" in l or "error:" in l or "***" in l]
    if not idx:
        return "\n".join(lines[-30:])
    i = max(0, idx[0] - 12)
    return "\n".join(lines[i:i + 60])


def _match_known(k, replay):
    m = k.get("match", {})
    if not isinstance(replay, dict):
        return False
    for key, val in m.items():
        if key.endswith("__in"):
            if replay.get(key[:-4]) not in val:
                return False
        elif replay.get(key) != val:
            return False
    return bool(m)


# deterministic helpers ------------------------------------------------------
def hexs(b):
    return bytes(b).hex() if b else "-"


def unhex(s):
    return b"" if s == "-" else bytes.fromhex(s)


# --------------------------------------------------------------------------
# generic line-oriented correspondence
# --------------------------------------------------------------------------
def correspond(chk, cases, model_exe, impl_exe, oracle=None, what="", nontrivial=None, timeout=900, env=None,
               max_report=3, compare=True):
    """cases: list of (line, kind).  Each line starts with a unique id token; both executables print one
    line per case starting with the same id.  The model's and the implementation's lines must be equal.
    oracle(line, impl_line) -> None | str : implementation-side property oracle (independent of the model);
    it is evaluated on every case, so a property violation is reported with the failing input even when
    model and implementation agree (a model that followed a broken code) and a mere correspondence break
    without oracle failure is reported as no-failing-input-found.
    Returns (n_mismatch, n_oracle_fail)."""
    lines = [c[0].rstrip("\n") + "\n" for c in cases]
    i_out, i_err = run_sharded(impl_exe, lines, timeout=timeout, env=env)
    # compare=False: oracle-only exploration (no second executable to compare with)
    m_out, m_err = run_sharded(model_exe, lines, timeout=timeout) if compare else (i_out, [])
    mism = orf = reported = 0
    for idx, rc, se in i_err:
        # the implementation crashed / sanitizer report: that is a failing input by itself
        orf += 1
        if orf <= max_report:
            chk.violation({"kind": "impl-crash", "what": what, "case": cases[idx][0], "rc": rc, "stderr": se[-3000:]},
                          "%s: implementation crashed or sanitizer report (rc=%s) on case: %s\n%s" % (what, rc, cases[idx][0][:300], se[-1500:]))
    for idx, rc, se in m_err:
        chk.broken_obligation("model-driver-crash:" + what, "case %s rc=%s %s" % (cases[idx][0][:300], rc, se[-500:]))
    crashed = {idx for idx, _, _ in i_err}
    for k, (line, kind) in enumerate(cases):
        mo, io = m_out[k], i_out[k]
        nt = True if nontrivial is None else nontrivial(line, io)
        chk.count_case(line, nt, kind)
        if io is None:
            if k not in crashed and not i_err:
                chk.broken_obligation("impl-no-output:" + what, line[:300])
            continue
        if k < 3:
            chk.sample({"case": line[:400], "impl": io[:400], "model": (mo or "")[:400]})
        bad = oracle(line, io) if oracle else None
        if bad:
            orf += 1
            # known findings (violation() returns False for them) do not use up the report budget: they must never hide another violation
            if reported < max_report:
                if chk.violation({"kind": "oracle", "what": what, "case": line, "impl": io, "why": bad},
                                 "%s: property oracle failed on the implementation: %s\n case: %s\n impl: %s" % (what, bad, line[:400], io[:400])):
                    reported += 1
        if mo != io:
            mism += 1
            if mism <= max_report:
                chk.broken_obligation("correspondence:" + what,
                                      "model and implementation differ\n case : %s\n model: %s\n impl : %s" % (line[:600], (mo or "<none>")[:600], io[:600]))
        else:
            chk.cov["traces_validated_against_impl"] += 1
    chk.cov["correspondence"][what] = {"cases": len(cases), "mismatches": mism, "oracle_failures": orf}
    return mism, orf


# --------------------------------------------------------------------------
# translator front-end: regenerate coq/Gen/<Module>.v from /repo's working tree
# --------------------------------------------------------------------------
def gen_module(module, specs, extra_text="", constants=()):
    """specs: list of (c file relative to /repo, [function names, callees first], [headers for constants]).
    Writes coq/Gen/<module>.v when its content changed.  Returns (info dict | None, error text)."""
    sys.path.insert(0, os.path.join(ROOT, "tools"))
    import c2v
    cfl = [f for f in repo_cflags() if f != "-w"]
    key = file_hash([os.path.join(REPO, c) for c, _, _ in specs] + [os.path.join(ROOT, "tools", "c2v.py")]) + header_hash() + \
        hashlib.sha256(repr((specs, constants)).encode()).hexdigest()[:8]
    cdir = os.path.join(BUILD, "c2v-cache")
    os.makedirs(cdir, exist_ok=True)
    cfile_ = os.path.join(cdir, module + "-" + key + ".json")
    if os.path.exists(cfile_):
        d = json.load(open(cfile_))
    else:
        texts, infos, known = [], {}, {}
        try:
            for c, fns, hdrs in specs:
                def consts(names, hdrs=hdrs):
                    return c2v.probe_constants([os.path.join(REPO, h) for h in hdrs], names, cfl)
                t, info, known = c2v.translate_file(os.path.join(REPO, c), fns, cfl, consts, known)
                texts.append("(* from %s *)\n" % c + t)
                infos.update(info)
        except c2v.TranslateError as e:
            return None, "translator cannot render %s any more: %s" % (module, e)
        ctext = ""
        try:
            for hdrs, names in constants:
                vals = c2v.probe_constants([os.path.join(REPO, h) for h in hdrs], set(names), cfl)
                for nm in names:
                    ctext += "Definition c_%s : Z := %s.\n" % (nm, ("(%d)" % vals[nm]))
        except c2v.TranslateError as e:
            return None, "translator cannot evaluate constants of %s any more: %s" % (module, e)
        d = {"text": c2v.PRELUDE + ctext + "\n".join(texts), "info": infos}
        json.dump(d, open(cfile_, "w"))
    write_if_changed(os.path.join(COQ, "Gen", module + ".v"), d["text"] + extra_text)
    return d["info"], ""
