"""Text extractors: turn tables / whitelists in /repo's sources into Coq data (coq/Gen/*.v).
They fail loudly (return None, message) when the expected shape is gone."""
import os, re
import vlib


def crc32_table():
    """coq/Gen/Crc32Tab.v from stun/stuncrc32.c: crc32_tab[] and the two constants of the WLM2009 typo."""
    src = open(os.path.join(vlib.REPO, "stun/stuncrc32.c")).read()
    m = re.search(r"static\s+const\s+uint32_t\s+crc32_tab\s*\[\s*\]\s*=\s*\{(.*?)\};", src, re.S)
    if not m:
        return None, "crc32_tab[] not found in stun/stuncrc32.c"
    vals = re.findall(r"0x[0-9a-fA-F]+", m.group(1))
    if len(vals) != 256:
        return None, "crc32_tab[] has %d entries, expected 256" % len(vals)
    t = re.search(r"if\s*\(\s*lkp\s*==\s*(0x[0-9a-fA-F]+)\s*&&\s*wlm2009_stupid_crc32_typo\s*\)\s*lkp\s*=\s*(0x[0-9a-fA-F]+)\s*;", src)
    if not t:
        return None, "WLM2009 typo substitution not found in stun_crc32"
    body = re.search(r"uint32_t\s+stun_crc32\s*\(.*?\n\}", src, re.S)
    shape = ["crc = 0xffffffff", "crc32_tab[(crc ^ *p++) & 0xFF]", "crc =  lkp ^ (crc >> 8)", "return crc ^ 0xffffffff"]
    for s in shape:
        if not body or re.sub(r"\s+", "", s) not in re.sub(r"\s+", "", body.group(0)):
            return None, "stun_crc32 no longer has the table-driven shape (%s)" % s
    text = "(* GENERATED from stun/stuncrc32.c by lib/tabgen.py - do not edit *)\nFrom Coq Require Import ZArith List.\nImport ListNotations.\nLocal Open Scope Z_scope.\n"
    text += "Definition crc32_tab : list Z := [\n " + ";\n ".join("; ".join(str(int(v, 16)) for v in vals[i:i + 8]) for i in range(0, 256, 8)) + "].\n"
    text += "Definition crc32_typo_from : Z := %d.\nDefinition crc32_typo_to : Z := %d.\n" % (int(t.group(1), 16), int(t.group(2), 16))
    vlib.write_if_changed(os.path.join(vlib.COQ, "Gen", "Crc32Tab.v"), text)
    return {"entries": 256}, ""


def utf8_skip_table():
    """coq/Gen/Utf8Skip.v from stun/stun5389.c: utf8_skip_data[256] and the shape of stun_message_append_software (at most 128 characters,
    whole UTF-8 sequences, the BYTE count ptr - software is what gets appended)."""
    src = open(os.path.join(vlib.REPO, "stun/stun5389.c")).read()
    m = re.search(r"static\s+const\s+char\s+utf8_skip_data\s*\[\s*256\s*\]\s*=\s*\{(.*?)\};", src, re.S)
    if not m:
        return None, "utf8_skip_data[256] not found in stun/stun5389.c"
    vals = re.findall(r"\d+", m.group(1))
    if len(vals) != 256:
        return None, "utf8_skip_data[] has %d entries, expected 256" % len(vals)
    body = re.search(r"StunMessageReturn\s+stun_message_append_software\s*\(.*?\n\}", src, re.S)
    flat = re.sub(r"\s+", "", body.group(0)) if body else ""
    shape = ["#define next_utf8_char(p) (char *)((p) + utf8_skip_data[*(const unsigned char *)(p)])"]
    if re.sub(r"\s+", "", shape[0].replace(" ", "")) not in re.sub(r"\s+", "", src.replace("\\\n", "")):
        return None, "next_utf8_char no longer has the modelled definition"
    for st in ["if (software == NULL) software = PACKAGE_STRING;", "ptr = software; while (*ptr && len < 128) { ptr = next_utf8_char (ptr); len++; }",
               "return stun_message_append_bytes (msg, STUN_ATTRIBUTE_SOFTWARE, software, ptr - software);"]:
        if re.sub(r"\s+", "", st) not in flat:
            return None, "stun_message_append_software no longer contains the modelled statement `%s`" % st
    text = "(* GENERATED from stun/stun5389.c by lib/tabgen.py - do not edit *)\nFrom Coq Require Import ZArith List.\nImport ListNotations.\nLocal Open Scope Z_scope.\n"
    text += "Definition utf8_skip_data : list nat := [\n " + ";\n ".join("; ".join(vals[i:i + 32]) for i in range(0, 256, 32)) + "]%nat.\n"
    text += "Definition SOFTWARE_MAX_CHARS : nat := 128%nat.\n"
    vlib.write_if_changed(os.path.join(vlib.COQ, "Gen", "Utf8Skip.v"), text)
    return {"entries": 256}, ""


def rfc4571_wake_shape():
    """the statements of agent_consume_next_rfc4571_chunk (agent/agent.c) and component_source_prepare (agent/component.c) that
    coq/Data/FramingModel.v next_frame / consume model for rfc4571_wakeup_needed, verbatim up to white space."""
    src = open(os.path.join(vlib.REPO, "agent/agent.c")).read()
    m = re.search(r"\nagent_consume_next_rfc4571_chunk\s*\(.*?\n\}\n", src, re.S)
    if not m:
        return None, "agent_consume_next_rfc4571_chunk not found in agent/agent.c"
    flat = re.sub(r"\s+", "", m.group(0))
    stmts = ["fully_consumed = bytes_copied == bytes_unconsumed || !agent->bytestream_tcp;",
             "component->rfc4571_frame_offset += component->rfc4571_frame_size; component->rfc4571_frame_size = 0; component->rfc4571_consumed_size = 0;",
             "headroom = nice_component_compute_rfc4571_headroom (component); if (headroom >= sizeof (guint16)) {",
             "component->rfc4571_frame_size = sizeof (guint16) + ((guint) component->rfc4571_buffer[ component->rfc4571_frame_offset] << 8 | "
             "component->rfc4571_buffer[component->rfc4571_frame_offset + 1]); have_whole_next_frame = headroom >= component->rfc4571_frame_size; "
             "} else { have_whole_next_frame = FALSE; } component->rfc4571_wakeup_needed = have_whole_next_frame; } else { component->rfc4571_wakeup_needed = TRUE; }"]
    for st in stmts:
        if re.sub(r"\s+", "", st) not in flat:
            return None, "agent_consume_next_rfc4571_chunk no longer contains the modelled statement `%s`" % st
    comp = re.sub(r"\s+", "", open(os.path.join(vlib.REPO, "agent/component.c")).read())
    if re.sub(r"\s+", "", "if (component->rfc4571_wakeup_needed) { component->rfc4571_wakeup_needed = FALSE; skip_poll = TRUE; goto done; }") not in comp:
        return None, "component_source_prepare no longer reports ready (once) when rfc4571_wakeup_needed is set"
    n = len(re.findall(r"rfc4571_wakeup_needed\s*=", src))
    if n != 2:
        return None, "rfc4571_wakeup_needed is assigned %d times in agent/agent.c, the model knows 2" % n
    return {"statements": len(stmts) + 1}, ""


def lookup_shape():
    """the statements of agent/agent.c and agent/discovery.c that coq/Agent/LookupModel.v models (completion bookkeeping of a gathering run with server
    names to resolve), verbatim up to white space: both resolver callbacks end in the common tail, a failed lookup reaches it too, the completion
    test of agent_gathering_done, the once-per-stream announcement, discovery_schedule, the end of the discovery tick."""
    flat = lambda t: re.sub(r"\s+", "", t)
    ag = open(os.path.join(vlib.REPO, "agent/agent.c")).read()
    di = open(os.path.join(vlib.REPO, "agent/discovery.c")).read()

    def body(src, name):
        m = re.search(r"\n" + name + r"\s*\(.*?\n\}\n", src, re.S)
        return flat(m.group(0)) if m else None
    want = {
        "stun_server_resolved_cb": (ag, [
            "agent->stun_resolving_list = g_slist_remove_all (agent->stun_resolving_list, data);",
            "if (addresses == NULL) {", "g_clear_error (&error);", "agent_lock (agent); goto finish; }",
            "finish: if (agent->discovery_unsched_items) discovery_schedule (agent); else agent_gathering_done (agent); agent_unlock_and_emit (agent); done:"]),
        "turn_server_resolved_cb": (ag, [
            "if (addresses == NULL) {", "turn->resolution_failed = TRUE;", "goto finish; }",
            "finish: if (agent->discovery_unsched_items) discovery_schedule (agent); else agent_gathering_done (agent); done: agent_unlock_and_emit (agent);"]),
        "void agent_gathering_done": (ag, [
            "if (nice_component_resolving_turn (component)) { dns_resolution_ongoing = TRUE; continue; }",
            "if (agent->discovery_timer_source == NULL && !upnp_running && !dns_resolution_ongoing && agent->stun_resolving_list == NULL) agent_signal_gathering_done (agent); }"]),
        "void agent_signal_gathering_done": (ag, [
            "if (stream->gathering) { stream->gathering = FALSE; agent_queue_signal (agent, signals[SIGNAL_CANDIDATE_GATHERING_DONE], stream->id); }"]),
        "void discovery_schedule": (di, [
            "if (agent->discovery_unsched_items > 0) { if (agent->discovery_timer_source == NULL) {", "gboolean res = priv_discovery_tick_unlocked (agent); if (res == TRUE) {",
            "agent_timeout_add_with_context (agent, &agent->discovery_timer_source,"]),
    }
    n = 0
    for fn, (src, stmts) in want.items():
        b = body(src, fn)
        if b is None:
            return None, "%s not found" % fn
        pos = 0
        for st in stmts:
            k = b.find(flat(st), pos)
            if k < 0:
                return None, "%s no longer contains the modelled statement `%s` (in this order)" % (fn, st)
            pos = k + 1; n += 1
    comp = flat(open(os.path.join(vlib.REPO, "agent/component.c")).read())
    if flat("if (turn->resolution_failed) continue; if (!nice_address_is_valid (&turn->server)) return TRUE;") not in comp:
        return None, "nice_component_resolving_turn no longer skips servers whose resolution failed"
    return {"statements": n}, ""


def strerror_table():
    """coq/Gen/StunErrTab.v from stun_strerror() in stun/stunmessage.c: (code, phrase) list + default phrase."""
    import sys
    sys.path.insert(0, os.path.join(vlib.ROOT, "tools"))
    import c2v
    src = open(os.path.join(vlib.REPO, "stun/stunmessage.c")).read()
    m = re.search(r"const char \*stun_strerror \(StunError code\)\s*\{(.*?)\n\}", src, re.S)
    if not m:
        return None, "stun_strerror not found"
    body = m.group(1)
    ents = re.findall(r"\{\s*(STUN_ERROR_[A-Z_0-9]+)\s*,\s*\"([^\"]*)\"\s*\}", body)
    d = re.search(r"const char \*str = \"([^\"]*)\";", body)
    if not ents or not d:
        return None, "stun_strerror table shape changed"
    cfl = [f for f in vlib.repo_cflags() if f != "-w"]
    try:
        vals = c2v.probe_constants([os.path.join(vlib.REPO, "stun/stunmessage.h")], {e[0] for e in ents}, cfl)
    except c2v.TranslateError as e:
        return None, str(e)
    def bl(s):
        return "[" + "; ".join(str(b) for b in s.encode()) + "]"
    text = "(* GENERATED from stun_strerror() in stun/stunmessage.c by lib/tabgen.py - do not edit *)\nFrom Coq Require Import ZArith List.\nImport ListNotations.\nLocal Open Scope Z_scope.\n"
    text += "Definition strerror_tab : list (Z * list Z) := [\n " + ";\n ".join("(%d, %s)" % (vals[n], bl(p)) for n, p in ents) + "].\n"
    text += "Definition strerror_default : list Z := %s.\n" % bl(d.group(1))
    vlib.write_if_changed(os.path.join(vlib.COQ, "Gen", "StunErrTab.v"), text)
    return {"entries": len(ents)}, ""


def component_state_tables():
    """coq/Gen/CompState.v from agent_signal_component_state_change() (agent/agent.c), docs/reference/libnice/states.gv
    and the inventory of call sites of the choke point (function name + requested state expression)."""
    names = ["DISCONNECTED", "GATHERING", "CONNECTING", "CONNECTED", "READY", "FAILED"]
    src = open(os.path.join(vlib.REPO, "agent/agent.c")).read()
    m = re.search(r"void agent_signal_component_state_change \(.*?\n\}\n", src, re.S)
    if not m:
        return None, "agent_signal_component_state_change not found"
    body = m.group(0)
    flat = re.sub(r"/\*.*?\*/", " ", body, flags=re.S)
    flat = re.sub(r"\s+", " ", flat)
    for need in ["old_state = component->state;", "if (new_state == old_state) { return; }", "component->state = new_state;",
                 "agent_queue_signal (agent, signals[SIGNAL_COMPONENT_STATE_CHANGED], stream_id, component_id, new_state);"]:
        if need not in flat:
            return None, "choke point no longer has the expected shape: missing `%s`" % need
    a = re.search(r"g_assert \((.*?)\); #undef TRANSITION", flat)
    if not a:
        return None, "whitelist assertion not found in the choke point"
    expr = a.group(1)
    pairs = re.findall(r"TRANSITION \((\w+), (\w+)\)", expr)
    anyt = re.findall(r"\(new_state == NICE_COMPONENT_STATE_(\w+)\)", expr)
    rest = re.sub(r"TRANSITION \(\w+, \w+\)|\(new_state == NICE_COMPONENT_STATE_\w+\)|\|\||\s", "", expr)
    if rest.strip("()"):
        return None, "whitelist assertion contains something other than TRANSITION(..) / (new_state == X) disjuncts: %s" % rest[:80]
    if not (flat.index("if (new_state == old_state)") < flat.index("g_assert (") < flat.index("component->state = new_state;")):
        return None, "choke point: same-state return / assertion / assignment are no longer in this order"
    gv = open(os.path.join(vlib.REPO, "docs/reference/libnice/states.gv")).read()
    edges = re.findall(r"^\s*(\w+)\s*->\s*(\w+)", gv, re.M)
    for x, y in pairs + edges:
        if x not in names or y not in names:
            return None, "unknown state name %s/%s" % (x, y)
    # call sites
    sites = []
    for f in ("agent/agent.c", "agent/conncheck.c", "agent/stream.c", "agent/component.c", "agent/discovery.c"):
        txt = open(os.path.join(vlib.REPO, f)).read()
        for mm in re.finditer(r"agent_signal_component_state_change\s*\(([^;]*?)\)\s*;", txt, re.S):
            if "NiceComponentState new_state" in mm.group(1):
                continue
            args = [x.strip() for x in re.sub(r"\s+", " ", mm.group(1)).rsplit(",", 1)]
            # enclosing function: last "name (" at line start before the match
            head = txt[:mm.start()]
            fn = re.findall(r"^(\w[\w_]*)\s*\((?:[^;{]|\n)*?\)\s*\{", head, re.M)
            # the guard directly in front of the call: text between the previous statement end and the call
            pre = re.sub(r"/\*.*?\*/", " ", head[-600:], flags=re.S)
            pre = re.sub(r"\s+", " ", pre)
            cut = max(pre.rfind(";"), pre.rfind("}"))
            guard = pre[cut + 1:].strip()
            if guard.startswith("{"):
                guard = guard[1:].strip()
            if guard == "" or guard == "{":
                # call is the first statement of a block: take the block's own head
                blk = pre[:cut + 1] if cut >= 0 else pre
                mm2 = re.search(r"((?:else\s+)?if\s*\(.*\)|else)\s*\{\s*$", pre[:pre.rfind("{") + 1]) if "{" in pre else None
                guard = mm2.group(1) if mm2 else ""
            sites.append((f, fn[-1] if fn else "?", args[-1], guard[-160:]))
    def cs(x): return x
    text = "(* GENERATED from agent/agent.c, docs/reference/libnice/states.gv by lib/tabgen.py - do not edit *)\nFrom Coq Require Import List String.\nImport ListNotations.\n"
    text += "Inductive cstate := " + " | ".join(names) + ".\n"
    text += "Definition whitelist_pairs : list (cstate * cstate) := [" + "; ".join("(%s, %s)" % p for p in pairs) + "].\n"
    text += "Definition whitelist_any_target : list cstate := [" + "; ".join(anyt) + "].\n"
    text += "Definition doc_edges : list (cstate * cstate) := [" + "; ".join("(%s, %s)" % p for p in edges) + "].\n"
    text += "Local Open Scope string_scope.\nDefinition call_sites : list (string * string * string) := [\n " + ";\n ".join('("%s", "%s", "%s")' % s[:3] for s in sites) + "].\n"
    text += "Definition call_site_guards : list string := [\n " + ";\n ".join('"%s"' % s[3].replace('"', "'") for s in sites) + "].\n"
    vlib.write_if_changed(os.path.join(vlib.COQ, "Gen", "CompState.v"), text)
    return {"pairs": pairs, "any": anyt, "edges": edges, "sites": sites}, ""


def consent_tables():
    """coq/Gen/Consent.v: the timer constants of agent/agent-priv.h plus a shape check of the consent-expiry and keepalive
    re-arming arithmetic of agent/conncheck.c (the exact statements coq/Agent/ConsentModel.v models)."""
    hdr = open(os.path.join(vlib.REPO, "agent/agent-priv.h")).read()
    consts = {}
    for n in ("TA_DEFAULT", "TR_DEFAULT", "CONSENT_DEFAULT", "CONSENT_TIMEOUT", "MIN_CONSENT_INTERVAL", "KEEPALIVE_TIMEOUT"):
        m = re.search(r"#define\s+NICE_AGENT_TIMER_%s\s+(\d+)" % n, hdr)
        if not m:
            return None, "NICE_AGENT_TIMER_%s not found in agent/agent-priv.h" % n
        consts[n] = int(m.group(1))
    src = open(os.path.join(vlib.REPO, "agent/conncheck.c")).read()
    flat = re.sub(r"/\*.*?\*/", " ", src, flags=re.S)
    flat = re.sub(r"\s+", " ", flat)
    need = [
        "if (agent->consent_freshness) { consent_timeout = NICE_AGENT_TIMER_CONSENT_TIMEOUT * 1000; } else { consent_timeout = NICE_AGENT_TIMER_KEEPALIVE_TIMEOUT* 1000; }",
        "if (now - pair->remote_consent.last_received > consent_timeout) {",
        "pair->remote_consent.have = FALSE;",
        "guint64 delay = (consent_timeout - (now - pair->remote_consent.last_received)) / 1000;",
        "\"Pair remote consent\", delay, priv_conn_remote_consent_tick_agent_locked, pair);",
        "double modifier = g_random_double() * 0.4 + 0.8;",
        "guint64 delay = 1000 * MAX((guint64) ((NICE_AGENT_TIMER_CONSENT_DEFAULT) * modifier), NICE_AGENT_TIMER_MIN_CONSENT_INTERVAL);",
        "p->keepalive.next_tick = now + delay;",
        "p->keepalive.next_tick = now + 1000 * NICE_AGENT_TIMER_TR_DEFAULT;",
        "component->selected_pair.remote_consent.last_received = now;",
        # keepalive tick re-arming (coq/Agent/KeepaliveModel.v)
        "if (agent->consent_freshness) { min_next_tick = now + 1000 * NICE_AGENT_TIMER_MIN_CONSENT_INTERVAL; } else { min_next_tick = now + 1000 * NICE_AGENT_TIMER_TR_DEFAULT; }",
        "if (p->keepalive.next_tick) { if (p->keepalive.next_tick < min_next_tick) min_next_tick = p->keepalive.next_tick; if (now < p->keepalive.next_tick) continue; }",
        "next_timer_tick = now + agent->timer_ta * 1000; goto done;",
        "next_timer_tick = min_next_tick; done:",
        "\"Connectivity keepalive timeout\", (next_timer_tick - now)/ 1000, priv_conn_keepalive_tick_agent_locked, NULL);",
        "if (uname_len > 0) {",
    ]
    for n in need:
        if n not in flat:
            return None, "agent/conncheck.c no longer contains the modelled statement `%s`" % n
    text = "(* GENERATED from agent/agent-priv.h (shape of agent/conncheck.c checked) by lib/tabgen.py - do not edit *)\nFrom Coq Require Import ZArith.\nLocal Open Scope Z_scope.\n"
    for k, v in consts.items():
        text += "Definition T_%s : Z := %d.\n" % (k, v)
    vlib.write_if_changed(os.path.join(vlib.COQ, "Gen", "Consent.v"), text)
    return consts, ""


def cred_tables():
    """coq/Gen/IceChars.v: the character table of nice_rng_generate_bytes_print (random/random.c), the default credential
    lengths of agent/stream.h and a shape check of nice_stream_initialize_credentials / nice_stream_restart (agent/stream.c)."""
    src = open(os.path.join(vlib.REPO, "random/random.c")).read()
    m = re.search(r"nice_rng_generate_bytes_print \(NiceRNG \*rng, guint len, gchar \*buf\)\s*\{(.*?)\n\}", src, re.S)
    if not m:
        return None, "nice_rng_generate_bytes_print not found"
    body = m.group(1)
    t = re.search(r"const gchar \*chars =\s*((?:\"[^\"]*\"\s*)+);", body)
    if not t:
        return None, "character table not found in nice_rng_generate_bytes_print"
    chars = "".join(re.findall(r"\"([^\"]*)\"", t.group(1)))
    flat = re.sub(r"\s+", " ", body)
    if "for (i = 0; i < len; i++) buf[i] = chars[nice_rng_generate_int (rng, 0, strlen (chars))];" not in flat:
        return None, "nice_rng_generate_bytes_print no longer has the modelled loop"
    hdr = open(os.path.join(vlib.REPO, "agent/stream.h")).read()
    mu = re.search(r"#define NICE_STREAM_DEF_UFRAG\s+(\d+) \+ 1", hdr); mp = re.search(r"#define NICE_STREAM_DEF_PWD\s+(\d+) \+ 1", hdr)
    if not mu or not mp:
        return None, "NICE_STREAM_DEF_UFRAG / NICE_STREAM_DEF_PWD not found"
    st = re.sub(r"/\*.*?\*/", " ", open(os.path.join(vlib.REPO, "agent/stream.c")).read(), flags=re.S)
    st = re.sub(r"\s+", " ", st)
    for need in ["nice_rng_generate_bytes_print (rng, NICE_STREAM_DEF_UFRAG - 1, stream->local_ufrag);",
                 "nice_rng_generate_bytes_print (rng, NICE_STREAM_DEF_PWD - 1, stream->local_password);",
                 "stream->remote_ufrag[0] = 0; stream->remote_password[0] = 0;",
                 "conn_check_prune_stream (agent, stream); stream->initial_binding_request_received = FALSE; nice_stream_initialize_credentials (stream, agent->rng);",
                 "nice_component_restart (component, agent); agent_signal_component_state_change (agent, stream->id, component->id, NICE_COMPONENT_STATE_GATHERING);"]:
        if need not in st:
            return None, "agent/stream.c no longer contains the modelled statement `%s`" % need
    mv = re.search(r"static bool conncheck_stun_validater \(.*?\n\}", open(os.path.join(vlib.REPO, "agent/conncheck.c")).read(), re.S)
    if not mv:
        return None, "conncheck_stun_validater not found in agent/conncheck.c"
    vb = re.sub(r"\s+", " ", re.sub(r"/\*.*?\*/", " ", mv.group(0), flags=re.S))
    for need in ["if (cand->username) ufrag = cand->username; else ufrag = data->stream->local_ufrag; ufrag_len = ufrag? strlen (ufrag) : 0;",
                 "if (ufrag_len > 0 && username_len >= ufrag_len && memcmp (username, ufrag, ufrag_len) == 0) {",
                 "if (cand->password) pass = cand->password; else if (data->stream && data->stream->local_password[0]) pass = data->stream->local_password;",
                 "if (pass) { *password = (uint8_t *) pass; *password_len = strlen (pass);",
                 "} return FALSE; }"]:
        if need not in vb:
            return None, "conncheck_stun_validater (agent/conncheck.c) no longer contains the modelled statement `%s`" % need
    if vb.count("return TRUE;") != 1:
        return None, "conncheck_stun_validater (agent/conncheck.c) has another accepting path than the modelled one"
    text = "(* GENERATED from random/random.c, agent/stream.h (shape of agent/stream.c checked) by lib/tabgen.py - do not edit *)\nFrom Coq Require Import ZArith List.\nImport ListNotations.\nLocal Open Scope Z_scope.\n"
    text += "Definition ice_chars : list Z := [%s].\n" % "; ".join(str(ord(c)) for c in chars)
    text += "Definition DEF_UFRAG_LEN : nat := %s.\nDefinition DEF_PWD_LEN : nat := %s.\n" % (mu.group(1), mp.group(1))
    vlib.write_if_changed(os.path.join(vlib.COQ, "Gen", "IceChars.v"), text)
    return {"chars": chars, "ufrag": int(mu.group(1)), "pwd": int(mp.group(1))}, ""


def select_shape():
    """shape check for coq/Agent/SelectModel.v: conn_check_update_selected_pair replaces the selected pair only by a strictly higher
    priority; nice_component_restart resets that priority to 0."""
    cc = re.sub(r"\s+", " ", re.sub(r"/\*.*?\*/", " ", open(os.path.join(vlib.REPO, "agent/conncheck.c")).read(), flags=re.S))
    cp = re.sub(r"\s+", " ", re.sub(r"/\*.*?\*/", " ", open(os.path.join(vlib.REPO, "agent/component.c")).read(), flags=re.S))
    m = re.search(r"void conn_check_update_selected_pair \(NiceAgent \*agent, NiceComponent \*component, CandidateCheckPair \*pair\) \{(.*?)\} /\*|void conn_check_update_selected_pair \(NiceAgent \*agent, NiceComponent \*component, CandidateCheckPair \*pair\) \{(.*?)\n", cc)
    need_cc = ["g_assert (pair->nominated); if (pair->priority > component->selected_pair.priority) {", "cpair.priority = pair->priority;",
               "nice_component_update_selected_pair (agent, component, &cpair);"]
    for n in need_cc:
        if n not in cc:
            return None, "agent/conncheck.c no longer contains the modelled statement `%s`" % n
    for n in ["cmp->selected_pair.priority = 0;", "component->selected_pair.priority = pair->priority;"]:
        if n not in cp:
            return None, "agent/component.c no longer contains the modelled statement `%s`" % n
    return {"ok": True}, ""
