import sys, random, zlib, struct
sys.path.insert(0,'/verif/lib'); sys.path.insert(0,'/verif/props')
import vlib, sim_common as sc
sim,o = sc.build_sim()

def fake_error(tid_hex, code):
    tid = bytes.fromhex(tid_hex)
    attrs = struct.pack(">HHBBBB", 0x0009, 4, 0, 0, code // 100, code % 100)
    hdr = struct.pack(">HHI", 0x0111, len(attrs) + 8, 0x2112A442) + tid
    crc = (zlib.crc32(hdr + attrs) & 0xffffffff) ^ 0x5354554e
    return (hdr + attrs + struct.pack(">HHI", 0x8028, 4, crc)).hex()

def scenario(inj, total=70000, step=250):
    """inj: list of (t_ms, hex) to inject from agent 1's address to agent 0's, in time order"""
    rng = random.Random(1)
    ops = sc.two_agents(rng, 0, (32, 32), (1, 0), (("10.0.0.1",), ("10.0.1.1",)), 1)
    ops.append("net,0,0,5,5,3")
    ops += ["gather,0,1", "gather,1,1", "run,10", "creds,0,1,1", "creds,1,0,1", "cands,0,1,1,1", "cands,1,0,1,1", "run,6000"]
    ops.append("hole,10.0.1.1,10.0.0.1,on")      # nothing from agent 1 reaches agent 0 any more
    t = 6010; inj = list(inj)
    while t < total:
        ops.append("run,%d" % step); t += step
        while inj and inj[0][0] <= t:
            ops += ["hole,10.0.1.1,10.0.0.1,off", "inject,10.0.1.1,%d,10.0.0.1,%d,%s" % (PORT1, PORT0, inj.pop(0)[1]), "hole,10.0.1.1,10.0.0.1,on"]
        if t % 5000 < step:
            ops.append("send,0,1,1,32,7")
    ops += ["run,100"] + sc.final_queries(1)
    return "rep " + " ".join(ops)

def run(line):
    rc, so, se = vlib.run_lines(sim, line + "\n")
    return sc.parse_trace(so.strip().split("\n")[0])[1]

PORT0 = PORT1 = 0
evs = run(scenario([]))
sel = [e for e in evs if e.kind == "sig" and e.f[0] == "0" and e.f[1] == "selected-pair"][0]
PORT0 = int(sel.f[4].split(":")[1]); PORT1 = int(sel.f[5].split(":")[1])
def summary(evs, tag):
    failed = [e.t for e in evs if e.kind == "sig" and e.f[0] == "0" and e.f[1] == "state" and e.f[4] == "FAILED"]
    sends = [(e.t, e.f[-1], e.f[-2]) for e in evs if e.kind == "api" and e.f[0] == "0" and e.f[1] == "send"]
    lastans = [e.t for e in evs if e.kind == "pkt" and e.f[0] == sel.f[5] and e.f[1] == sel.f[4] and e.f[2] == "ok" and "c2" in e.f]
    print(tag, "agent 0 FAILED at", failed, "| last genuine answer delivered", max(lastans) if lastans else None)
    print("   sends:", sends)
    print("   final state:", [e for e in evs if e.kind == "api" and e.f[0] == "0" and e.f[1] == "get_state"])
summary(evs, "CONTROL (no injection):")

def checks(evs):
    return [(e.t, sc_tid(e)) for e in evs if e.kind == "pkt" and "c0" in e.f and e.f[0] == sel.f[4] and e.f[1] == sel.f[5] and e.t > 6010]
def sc_tid(e):
    return [w for w in e.f if w.startswith("tid=")][0][4:]

for code in (401, 400, 500):
    inj = []
    for it in range(40):
        evs = run(scenario(inj))
        cs_ = checks(evs)
        if len(cs_) <= len(inj):
            break
        # keep the injections already fixed (their checks are reproduced identically), add the next check
        ok = all(cs_[i][1] == inj_t for i, (_t, _h, inj_t) in enumerate(inj))
        if not ok:
            print("  (transaction ids moved after an injection; re-deriving)"); 
        t, tid = cs_[len(inj)]
        inj.append((t + 20, fake_error(tid, code), tid))
        if t > 66000: break
    evs = run(scenario(inj))
    inj_seen = [e for e in evs if e.kind == "pkt" and "c3" in e.f and e.f[1] == sel.f[4]]
    print("code %d: %d forged unauthenticated error responses injected (no MESSAGE-INTEGRITY), e.g. %s" % (code, len(inj), inj_seen[:1]))
    summary(evs, "WITH forged %d answers:" % code)
