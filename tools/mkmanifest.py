#!/usr/bin/env python3
"""Regenerate MANIFEST.json from the META dict of every props/C??.py and props/not_applicable.json."""
import importlib, json, os, sys
ROOT = os.path.dirname(os.path.dirname(os.path.abspath(__file__)))
sys.path.insert(0, os.path.join(ROOT, "lib")); sys.path.insert(0, os.path.join(ROOT, "props"))
ids = [l.strip() for l in open(os.path.join(ROOT, "props", "ENABLED")) if l.strip() and not l.startswith("#")]
all_ids = [json.loads(l)["id"] for l in open(os.path.join(ROOT, "properties.jsonl"))]
checks = []
for pid in ids:
    m = importlib.import_module(pid)
    meta = m.META
    checks.append({
        "property_id": pid,
        "quick_cmd": "./check %s --tier quick" % pid,
        "thorough_cmd": "./check %s --tier thorough" % pid,
        "evidence_file": "evidence/%s.json" % pid,
        "replay_cmd_template": "./check %s --replay {path}" % pid,
        "engine": "coq-proof+correspondence",
        "level_claimed": {"category": "proof", "text": meta["text"], "design_ref": meta.get("design_ref", "DESIGN.md §3 " + pid)},
        "level_note": meta["note"],
        "technique": meta["technique"],
    })
na = []
nap = os.path.join(ROOT, "props", "not_applicable.json")
reasons = json.load(open(nap)) if os.path.exists(nap) else {}
for pid in all_ids:
    if pid not in ids:
        na.append({"property_id": pid, "reason": reasons.get(pid, "not yet built: no Coq model/theorem for this property is wired into ./check at this commit (see DESIGN.md §3 for the planned approach)")})
man = {
    "version": 1,
    "setup_cmd": "./check setup",
    "hooks": {"guard": "LIBNICE_VERIF", "enable": "harnesses compile /repo's sources directly with -DLIBNICE_VERIF (no hook is currently needed: private headers, an interposed clock_gettime and a replacement nice_udp_bsd_socket_new give all observability)",
              "baseline_off_cmd": "meson test -C /repo/_build", "source_commits": [], "add_only": True},
    "engines": [{"name": "coq-proof+correspondence", "path": "check",
                 "serves_properties": ids,
                 "kind_free_text": "Coq 8.16 theorems over executable Gallina models (coq/), re-checked on every run (full .vo, Print Assumptions); models tied to /repo's working tree by a C-to-Gallina translator (tools/c2v.py, coq/Gen regenerated per run) and by differential execution of the extracted models against harnesses compiled from /repo's sources under ASan/UBSan"}],
    "checks": checks,
    "not_applicable": na,
    "notes": "See DESIGN.md. known_findings.json lists genuine defects (fixed or recorded)."
}
json.dump(man, open(os.path.join(ROOT, "MANIFEST.json"), "w"), indent=1)
print("MANIFEST.json: %d checks, %d not claimed" % (len(checks), len(na)))
