#!/usr/bin/env python3
"""tools/ptcp_diff.py '<case line>' : run model and implementation on one case and show the first differing token."""
import sys, re, subprocess, os
sys.path.insert(0,'/verif/lib'); sys.path.insert(0,'/verif/props')
import vlib
line=sys.argv[1]
exe_m, exe_i = sys.argv[2] if len(sys.argv)>2 else '/verif/build/ptcp_model', sys.argv[3] if len(sys.argv)>3 else '/verif/build/ptcp_h'
rc,mo,me=vlib.run_lines(exe_m,line+"\n"); rc2,io,ie=vlib.run_lines(exe_i,line+"\n")
TOK=re.compile(r"\[[^\]]*\]|\S+")
mt=TOK.findall(mo); it=TOK.findall(io)
ops=line.split()[3:]
k=0
for a,b in zip(mt,it):
    if a!=b: break
    k+=1
print("first difference at token", k, "of", len(mt), len(it))
print("context model:", " ".join(mt[max(0,k-6):k+3]))
print("context impl :", " ".join(it[max(0,k-6):k+3]))
# which op: count op tokens (non-event, non-summary) before k
nop=sum(1 for t in mt[1:k+1] if not t.startswith('[') and not re.match(r'^(P\d+=|O$|R$|W$|C\d+$)',t))
print("op index", nop-1, ops[max(0,nop-3):nop+1])
print(ie[-800:])
