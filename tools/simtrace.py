#!/usr/bin/env python3
"""print the trace stored in a sim replay file: simtrace.py <replay.json> [substring filters…] (default: all but dig)"""
import json, sys
r = json.load(open(sys.argv[1]))["replay"]
print("CASE:", r["case"]); print("WHY:", r.get("why"))
flt = sys.argv[2:]
for e in r["impl"].split(" | ")[1:]:
    if flt and not any(f in e for f in flt):
        continue
    if not flt and " dig " in e:
        continue
    print(e[:260])
