#!/usr/bin/env python3
"""tools/seeded_confirm.py <src dir>: for every <ID>-<n>/ confirm in a scratch worktree that the change applies, builds, passes the 41 tests,
and (when a demo.sh exists) that the demonstration output differs between the unchanged and the changed tree. Writes build/seeded_confirm.json."""
import sys, os, json, subprocess, glob
SRC = sys.argv[1]; only = sys.argv[2:]
WT = "/tmp/seedconf"
out_json = "/verif/build/seeded_confirm.json"
res = json.load(open(out_json)) if os.path.exists(out_json) else {}
def sh(cmd, timeout=900, **kw):
    try:
        return subprocess.run(cmd, shell=True, stdout=subprocess.PIPE, stderr=subprocess.STDOUT, text=True, errors="replace", timeout=timeout, **kw)
    except subprocess.TimeoutExpired as e:
        class R: pass
        r = R(); r.returncode = 124; r.stdout = (e.stdout or b"").decode(errors="replace") if isinstance(e.stdout, bytes) else (e.stdout or ""); return r
sh("git -C /repo worktree remove --force %s; git -C /repo worktree prune" % WT)
sh("git -C /repo worktree add -q %s HEAD" % WT)
b = sh("cd %s && meson setup _build >/dev/null 2>&1 && ninja -C _build 2>&1 | tail -1" % WT)
for d in sorted(glob.glob(os.path.join(SRC, "C*-*"))):
    name = os.path.basename(d)
    if only and name not in only: continue
    patch = os.path.join(d, "patch.diff")
    if not os.path.exists(patch) or name in res: continue
    r = {}
    sh("git -C %s checkout -- ." % WT)
    demo = os.path.join(d, "demo.sh")
    if os.path.exists(demo):
        o = sh("cd %s && bash ./demo.sh %s %s/_build" % (d, WT, WT), timeout=400)
        r["demo_original_rc"] = o.returncode; orig = o.stdout
    a = sh("git -C %s apply %s" % (WT, patch))
    r["applies"] = a.returncode == 0
    if not r["applies"]:
        res[name] = r; continue
    bb = sh("cd %s && ninja -C _build 2>&1 | tail -3" % WT)
    r["builds"] = bb.returncode == 0 and "FAILED" not in bb.stdout
    t = sh("cd %s && meson test -C _build 2>&1 | grep -E '^(Ok|Fail|Timeout):'" % WT, timeout=1500)
    r["tests"] = " ".join(t.stdout.split())
    r["tests_pass"] = "Ok: 41" in r["tests"] and "Fail: 0" in r["tests"]
    if not r["tests_pass"]:      # timing-sensitive tests: one retry
        t = sh("cd %s && meson test -C _build 2>&1 | grep -E '^(Ok|Fail|Timeout):'" % WT, timeout=1500)
        r["tests_retry"] = " ".join(t.stdout.split()); r["tests_pass"] = "Ok: 41" in r["tests_retry"] and "Fail: 0" in r["tests_retry"]
    if os.path.exists(demo):
        o = sh("cd %s && bash ./demo.sh %s %s/_build" % (d, WT, WT), timeout=400)
        r["demo_mutated_rc"] = o.returncode
        r["demo_differs"] = (o.stdout != orig) or (o.returncode != r["demo_original_rc"])
    res[name] = r
    print(name, r, flush=True)
    json.dump(res, open(out_json, "w"), indent=1)
sh("git -C /repo worktree remove --force %s; git -C /repo worktree prune" % WT)
