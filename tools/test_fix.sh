#!/bin/bash
# tools/test_fix.sh <commit> <check id>...  : reverts one fix commit in /repo's working tree, runs the checks, restores.
c=$1; shift
cd /repo && git revert -n $c >/dev/null 2>&1 && git reset -q && cd /verif || { echo "revert failed"; cd /repo; git checkout -- .; exit 2; }
for p in "$@"; do echo "== $p with $c reverted"; ./check $p 2>&1 | grep -E "^VIOLATION|OK tier|KNOWN" | head -3; done
cd /repo && git checkout -- . && git status --short | head -3
