#!/usr/bin/env python3
"""c2v — a small C-subset -> Gallina translator driven by clang's JSON AST.

Purpose: leaf arithmetic / decision functions of libnice are *regenerated* as Gallina definitions from
/repo's working tree on every run, so the Coq theorems about them are re-checked against what the code
says now.  Anything outside the subset aborts loudly (TranslateError) — never a guess.

Subset
  * parameters / locals of integer, enum or bool type; pointer parameters and pointer locals are
    *access paths*: `p->f` of integer type becomes an extra input `p_f` of the generated function,
    `p->q` of pointer type is a longer path, pointer truthiness becomes an input `p_q_nonnull`;
  * statements: compound, declarations, assignment (=, op=, ++/--) to integer locals, if/else, switch
    (case/default/break, fall-through), return, do{...}while(0), null, calls to noreturn assertion
    helpers (=> Fault); no loops, no goto, no address-of, no stores through pointers;
  * expressions: literals, enum constants, + - * / % << >> & | ^ ~ ! unary -, comparisons, && || ?:,
    casts (explicit and clang's implicit ones), calls to other translated functions, calls to
    unknown functions without side-effecting arguments become an extra input `call_<fn>`.

Semantics written out in the output
  * every C integer type is a (signedness, width); unsigned arithmetic is wrapped `mod 2^w`,
    conversions to unsigned wrap, conversions to signed of out-of-range values wrap two's complement
    (implementation-defined in C, this is what gcc/clang do);
  * undefined behaviour becomes Fault (= None): signed overflow of + - *, shift count >= width or
    negative, left shift of a negative value or overflowing signed shift, division by zero,
    INT_MIN / -1, a failed g_assert;
  * result type of every function is `option Z`.
"""
import hashlib, json, os, re, subprocess, sys

class TranslateError(Exception):
    pass

INT_TYPES = {
    "unsigned char": (False, 8), "char": (True, 8), "signed char": (True, 8),
    "unsigned short": (False, 16), "short": (True, 16),
    "unsigned int": (False, 32), "int": (True, 32), "unsigned": (False, 32),
    "unsigned long": (False, 64), "long": (True, 64),
    "unsigned long long": (False, 64), "long long": (True, 64),
    "_Bool": (False, 1),
    "guint8": (False, 8), "gint8": (True, 8), "guint16": (False, 16), "gint16": (True, 16),
    "guint32": (False, 32), "gint32": (True, 32), "guint64": (False, 64), "gint64": (True, 64),
    "guint": (False, 32), "gint": (True, 32), "gboolean": (True, 32), "gsize": (False, 64), "gssize": (True, 64),
    "uint8_t": (False, 8), "uint16_t": (False, 16), "uint32_t": (False, 32), "uint64_t": (False, 64),
    "int8_t": (True, 8), "int16_t": (True, 16), "int32_t": (True, 32), "int64_t": (True, 64),
    "size_t": (False, 64), "ssize_t": (True, 64), "gulong": (False, 64), "glong": (True, 64),
    "gushort": (False, 16), "gshort": (True, 16), "guchar": (False, 8), "gchar": (True, 8),
    "bool": (False, 1), "__uint32_t": (False, 32), "__uint16_t": (False, 16), "in_addr_t": (False, 32),
}
NORETURN = {"g_assertion_message_expr", "g_assertion_message", "abort", "g_assertion_message_cmpnum", "__assert_fail"}


def ctype(node):
    t = node.get("type", {})
    for k in ("desugaredQualType", "qualType"):
        q = t.get(k)
        if not q:
            continue
        q = re.sub(r"\b(const|volatile|restrict)\b", "", q).strip()
        q = re.sub(r"\s+", " ", q)
        if q in INT_TYPES:
            return INT_TYPES[q]
        if q.startswith("enum ") or re.match(r"^(Nice|Stun|Pseudo|Turn)[A-Za-z0-9_]*$", q) and "*" not in q:
            # enum without negative enumerators: unsigned int under gcc/clang
            return (False, 32)
    q = t.get("qualType", "")
    if "*" in q or "[" in q:
        return "ptr"
    raise TranslateError("unsupported type %r" % t)


def is_ptr(node):
    try:
        return ctype(node) == "ptr"
    except TranslateError:
        return False


class Expr:
    """Gallina term [tm] (Z-valued) with definedness condition [ok] (bool-valued Gallina term or None)."""
    def __init__(self, tm, ok=None, b=None):
        self.tm, self.ok, self.b = tm, ok, b


def of_bool(b, ok=None):
    return Expr("(if %s then 1 else 0)" % b, ok, b)


def conj(*oks):
    oks = [o for o in oks if o]
    if not oks:
        return None
    return " && ".join("(%s)" % o for o in oks)


def wrapT(ty, tm):
    s, w = ty
    if w == 1:
        return "(if %s =? 0 then 0 else 1)" % tm
    if not re.match(r"^[A-Za-z0-9_]+$", tm):
        tm = "(%s)" % tm
    return ("(swrap %d %s)" if s else "(uwrap %d %s)") % (w, tm)


def inrange(ty, tm):
    s, w = ty
    if s:
        return "(in_srange %d (%s))" % (w, tm)
    return "(in_urange %d (%s))" % (w, tm)


class FnTrans:
    def __init__(self, fn_node, known_fns, enum_vals):
        self.fn = fn_node
        self.name = fn_node["name"]
        self.known = known_fns          # name -> list of param names (already translated functions)
        self.enum_vals = enum_vals
        self.inputs = []                # ordered (name) of generated-function parameters
        self.fresh = 0
        self.asserts = []

    # ---------- helpers ----------
    def add_input(self, name):
        name = re.sub(r"[^A-Za-z0-9_]", "_", name)
        if name not in self.inputs:
            self.inputs.append(name)
        return name

    def newname(self, base):
        self.fresh += 1
        return "%s_%d" % (re.sub(r"[^A-Za-z0-9_]", "_", base), self.fresh)

    # ---------- pointer paths ----------
    def path(self, n, env):
        k = n["kind"]
        if k in ("ImplicitCastExpr", "CStyleCastExpr", "ParenExpr"):
            return self.path(n["inner"][0], env)
        if k == "DeclRefExpr":
            nm = n["referencedDecl"]["name"]
            v = env.get(nm)
            if v is None or v[0] != "ptr":
                raise TranslateError("pointer %s unknown" % nm)
            return v[1]
        if k == "MemberExpr":
            base = n["inner"][0]
            p = self.path(base, env) if n.get("isArrow") else self.lpath(base, env)
            return p + "_" + n["name"]
        raise TranslateError("unsupported pointer expression %s" % k)

    def lpath(self, n, env):
        # struct lvalue (a.b): path of the containing object
        k = n["kind"]
        if k in ("ParenExpr", "ImplicitCastExpr"):
            return self.lpath(n["inner"][0], env)
        if k == "MemberExpr":
            base = n["inner"][0]
            p = self.path(base, env) if n.get("isArrow") else self.lpath(base, env)
            return p + "_" + n["name"]
        if k == "UnaryOperator" and n["opcode"] == "*":
            return self.path(n["inner"][0], env)
        raise TranslateError("unsupported struct lvalue %s" % k)

    # ---------- expressions ----------
    def expr(self, n, env):
        k = n["kind"]
        if k in ("ParenExpr", "ConstantExpr"):
            return self.expr(n["inner"][0], env)
        if k == "IntegerLiteral":
            return Expr(n["value"] if not n["value"].startswith("-") else "(%s)" % n["value"])
        if k == "CharacterLiteral":
            return Expr("(%d)" % n["value"])
        if k == "DeclRefExpr":
            rd = n["referencedDecl"]
            if rd["kind"] == "EnumConstantDecl":
                if rd["name"] not in self.enum_vals:
                    raise TranslateError("enum constant %s has no value" % rd["name"])
                return Expr("(%d)" % self.enum_vals[rd["name"]])
            v = env.get(rd["name"])
            if v is None:
                raise TranslateError("read of unknown or uninitialised variable %s in %s" % (rd["name"], self.name))
            if v[0] == "ptr":
                raise TranslateError("pointer used as integer: %s" % rd["name"])
            return Expr(v[1])
        if k == "MemberExpr":
            if is_ptr(n):
                raise TranslateError("pointer member as integer")
            ctype(n)
            return Expr(self.add_input(self.path(n, env) if True else ""))
        if k in ("ImplicitCastExpr", "CStyleCastExpr"):
            ck = n.get("castKind")
            inner = n["inner"][0]
            if ck in ("LValueToRValue", "NoOp"):
                return self.expr(inner, env)
            if ck == "IntegralCast":
                e = self.expr(inner, env)
                return Expr(self.convert(ctype(inner), ctype(n), e.tm), e.ok)
            if ck == "IntegralToBoolean":
                e = self.cond(inner, env)
                return of_bool(e.tm, e.ok)
            if ck == "PointerToBoolean":
                return Expr(self.add_input(self.path(inner, env) + "_nonnull"))
            if ck == "ToVoid":
                return self.expr(inner, env)
            raise TranslateError("unsupported cast kind %s" % ck)
        if k == "UnaryOperator":
            op = n["opcode"]
            a = n["inner"][0]
            if op == "!":
                if is_ptr(a):
                    nn = self.add_input(self.path(a, env) + "_nonnull")
                    return of_bool("(%s =? 0)" % nn)
                e = self.cond(a, env)
                return of_bool("(negb %s)" % e.tm, e.ok)
            ty = ctype(n)
            e = self.expr(a, env)
            if op == "-":
                return self.arith(ty, "(- (%s))" % e.tm, e.ok)
            if op == "+":
                return e
            if op == "~":
                return Expr(wrapT(ty, "Z.lnot (%s)" % e.tm), e.ok)
            raise TranslateError("unsupported unary operator %s in expression" % op)
        if k == "BinaryOperator":
            return self.binop(n, env)
        if k == "ConditionalOperator":
            c, a, b = n["inner"]
            ec, ea, eb = self.cond(c, env), self.expr(a, env), self.expr(b, env)
            ok = conj(ec.ok, "if %s then %s else %s" % (ec.tm, ea.ok or "true", eb.ok or "true") if (ea.ok or eb.ok) else None)
            return Expr("(if %s then %s else %s)" % (ec.tm, ea.tm, eb.tm), ok)
        if k == "CallExpr":
            callee = n["inner"][0]
            while callee["kind"] in ("ImplicitCastExpr", "ParenExpr"):
                callee = callee["inner"][0]
            fname = callee.get("referencedDecl", {}).get("name")
            if fname == "__builtin_expect":
                return self.expr(n["inner"][1], env)
            if fname in self.known:
                kinfo = self.known[fname]
                argn = n["inner"][1:]
                actual, oks = [], []
                for inp, origin in kinfo:
                    if origin[0] == "param":
                        e = self.expr(argn[origin[1]], env)
                        actual.append(e.tm); oks.append(e.ok)
                    elif origin[0] == "path":
                        actual.append(self.add_input(self.path(argn[origin[1]], env) + origin[2]))
                    else:
                        actual.append(self.add_input(inp))
                v = "(%s %s)" % (fname, " ".join(actual)) if actual else fname
                # callee may fault: its result is option Z
                return Expr("(oget %s)" % v, conj(*oks, "(odef %s)" % v))
            # unknown function: abstract input (arguments must be plain reads)
            for a in n["inner"][1:]:
                self.pure_read(a)
            return Expr(self.add_input("call_" + str(fname)))
        raise TranslateError("unsupported expression kind %s in %s" % (k, self.name))

    def pure_read(self, n):
        if n["kind"] in ("BinaryOperator",) and n.get("opcode") in ("=",) or n["kind"] in ("CompoundAssignOperator",):
            raise TranslateError("side effect in argument of an abstract call")
        if n["kind"] == "UnaryOperator" and n.get("opcode") in ("++", "--"):
            raise TranslateError("side effect in argument of an abstract call")
        for c in n.get("inner", []):
            self.pure_read(c)

    def convert(self, src, dst, tm):
        if src == "ptr" or dst == "ptr":
            raise TranslateError("pointer/integer conversion")
        ss, sw = src
        ds, dw = dst
        if re.match(r"^\(?-?\d+\)?$", tm):
            v = int(tm.strip("()"))
            lo, hi = (-(1 << (dw - 1)), 1 << (dw - 1)) if ds else (0, 1 << dw)
            if lo <= v < hi:
                return tm
        # value-preserving when the source range is inside the destination range
        if (not ss and not ds and sw <= dw) or (ss and ds and sw <= dw) or (not ss and ds and sw < dw):
            return tm
        return wrapT(dst, tm)

    def arith(self, ty, tm, ok):
        """result of + - * in type ty: unsigned wraps, signed overflow is UB."""
        s, w = ty
        if s:
            return Expr("(%s)" % tm, conj(ok, inrange(ty, tm)))
        return Expr(wrapT(ty, tm), ok)

    def has_fault(self, n):
        if n.get("kind") == "CallExpr":
            callee = n["inner"][0]
            while callee["kind"] in ("ImplicitCastExpr", "ParenExpr"):
                callee = callee["inner"][0]
            if callee.get("referencedDecl", {}).get("name") in NORETURN:
                return True
        return any(self.has_fault(c) for c in n.get("inner", []) if isinstance(c, dict))

    def cond(self, n, env):
        """translate n as a Gallina bool"""
        e = self.expr(n, env) if not is_ptr(n) else Expr(self.add_input(self.path(n, env) + "_nonnull"))
        if e.b:
            return Expr(e.b, e.ok)
        return Expr("(negb (%s =? 0))" % e.tm, e.ok)

    def binop(self, n, env):
        op = n["opcode"]
        a, b = n["inner"]
        if op == ",":
            raise TranslateError("comma operator")
        if op in ("&&", "||"):
            ea, eb = self.cond(a, env), self.cond(b, env)
            if op == "&&":
                ok = conj(ea.ok, "(negb %s) || (%s)" % (ea.tm, eb.ok) if eb.ok else None)
                return of_bool("(%s && %s)" % (ea.tm, eb.tm), ok)
            ok = conj(ea.ok, "%s || (%s)" % (ea.tm, eb.ok) if eb.ok else None)
            return of_bool("(%s || %s)" % (ea.tm, eb.tm), ok)
        if op in ("==", "!=", "<", ">", "<=", ">="):
            if is_ptr(a) or is_ptr(b):
                raise TranslateError("pointer comparison")
            ea, eb = self.expr(a, env), self.expr(b, env)
            cop = {"==": "=?", "!=": "=?", "<": "<?", ">": ">?", "<=": "<=?", ">=": ">=?"}[op]
            t = "(%s %s %s)" % (ea.tm, cop, eb.tm)
            if op == "!=":
                t = "(negb %s)" % t
            return of_bool(t, conj(ea.ok, eb.ok))
        ty = ctype(n)
        ea, eb = self.expr(a, env), self.expr(b, env)
        ok = conj(ea.ok, eb.ok)
        if op in ("+", "-", "*"):
            return self.arith(ty, "%s %s %s" % (ea.tm, op, eb.tm), ok)
        if op in ("/", "%"):
            f = "Z.quot" if op == "/" else "Z.rem"
            if not (re.match(r"^\d+$", eb.tm) and int(eb.tm) > 0):
                ok = conj(ok, "negb (%s =? 0)" % eb.tm)
                if ty[0]:
                    ok = conj(ok, "negb ((%s =? %d) && (%s =? -1))" % (ea.tm, -(1 << (ty[1] - 1)), eb.tm))
            return Expr("(%s %s %s)" % (f, ea.tm, eb.tm), ok)
        if op in ("<<", ">>"):
            s, w = ty
            if re.match(r"^\d+$", eb.tm) and int(eb.tm) < w:
                pass
            else:
                ok = conj(ok, "(0 <=? %s) && (%s <? %d)" % (eb.tm, eb.tm, w))
            if op == ">>":
                return Expr("(Z.shiftr %s %s)" % (ea.tm, eb.tm), ok)
            if s:
                ok = conj(ok, "(0 <=? (%s))" % ea.tm, inrange(ty, "Z.shiftl (%s) (%s)" % (ea.tm, eb.tm)))
                return Expr("(Z.shiftl (%s) (%s))" % (ea.tm, eb.tm), ok)
            return Expr(wrapT(ty, "Z.shiftl %s %s" % (ea.tm, eb.tm)), ok)
        if op in ("&", "|", "^"):
            f = {"&": "Z.land", "|": "Z.lor", "^": "Z.lxor"}[op]
            return Expr("(%s %s %s)" % (f, ea.tm, eb.tm), ok)
        raise TranslateError("unsupported binary operator %s" % op)

    # ---------- statements ----------
    # trans(list of stmts, env, k_break) -> Gallina term of type option Z
    #   falling off the end of the list => continuation k(env)
    def has_jump(self, n):
        """does this statement contain return / break (affecting an enclosing construct)?"""
        k = n["kind"]
        if k in ("ReturnStmt", "BreakStmt"):
            return True
        if self.has_fault(n):
            return True
        if k == "SwitchStmt":
            return any(self.has_return(c) for c in n.get("inner", []))
        return any(self.has_jump(c) for c in n.get("inner", []) if isinstance(c, dict))

    def has_return(self, n):
        if n["kind"] == "ReturnStmt" or self.has_fault(n):
            return True
        return any(self.has_return(c) for c in n.get("inner", []) if isinstance(c, dict))

    def assigned(self, n, acc):
        k = n["kind"]
        if k == "BinaryOperator" and n["opcode"] == "=" or k == "CompoundAssignOperator":
            t = n["inner"][0]
            while t["kind"] == "ParenExpr":
                t = t["inner"][0]
            if t["kind"] == "DeclRefExpr":
                acc.add(t["referencedDecl"]["name"])
        if k == "UnaryOperator" and n["opcode"] in ("++", "--"):
            t = n["inner"][0]
            if t["kind"] == "DeclRefExpr":
                acc.add(t["referencedDecl"]["name"])
        for c in n.get("inner", []):
            if isinstance(c, dict):
                self.assigned(c, acc)
        return acc

    def guard(self, ok, body):
        return body if not ok else "(if %s then %s else None)" % (ok, body)

    def seq(self, stmts, env, k):
        """translate statement list; k(env) gives the continuation term when control falls through."""
        if not stmts:
            return k(env)
        s, rest = stmts[0], stmts[1:]
        kind = s["kind"]
        nxt = lambda e: self.seq(rest, e, k)
        if kind == "CompoundStmt":
            # locals declared inside go out of scope, but C forbids using them after; keep env simple
            return self.seq(s.get("inner", []) + rest, env, k)
        if kind == "NullStmt":
            return nxt(env)
        if kind == "DeclStmt":
            env = dict(env)
            out = None
            binds = []
            for d in s["inner"]:
                if d["kind"] != "VarDecl":
                    raise TranslateError("unsupported declaration %s" % d["kind"])
                init = [c for c in d.get("inner", []) if isinstance(c, dict) and c.get("kind") not in ("FullComment",)]
                if is_ptr(d):
                    if init:
                        env[d["name"]] = ("ptr", self.path(init[0], env))
                    continue
                ty = ctype(d)
                if init:
                    e = self.expr(init[0], env)
                    nm = self.newname(d["name"])
                    binds.append((nm, e))
                    env[d["name"]] = ("int", nm, ty)
                else:
                    env.pop(d["name"], None)
            body = nxt(env)
            for nm, e in reversed(binds):
                body = self.guard(e.ok, "(let %s := %s in %s)" % (nm, e.tm, body))
            return body
        if kind == "ReturnStmt":
            if not s.get("inner"):
                return "(Some 0)"
            e = self.expr(s["inner"][0], env)
            return self.guard(e.ok, "(Some %s)" % e.tm)
        if kind in ("BinaryOperator", "CompoundAssignOperator", "UnaryOperator"):
            env2, binds = self.assign(s, env)
            body = nxt(env2)
            for nm, e in reversed(binds):
                body = self.guard(e.ok, "(let %s := %s in %s)" % (nm, e.tm, body))
            return body
        if kind == "CallExpr":
            callee = s["inner"][0]
            while callee["kind"] in ("ImplicitCastExpr", "ParenExpr"):
                callee = callee["inner"][0]
            fname = callee.get("referencedDecl", {}).get("name")
            if fname in NORETURN:
                self.asserts.append(fname)
                return "None"
            raise TranslateError("call statement to %s (side effects are outside the subset)" % fname)
        if kind == "DoStmt":
            body, cond = s["inner"]
            if not (cond["kind"] == "IntegerLiteral" and cond["value"] == "0"):
                raise TranslateError("loops are outside the subset (do-while)")
            return self.seq([body] + rest, env, k)
        if kind == "IfStmt":
            inner = s["inner"]
            c, th = inner[0], inner[1]
            el = inner[2] if len(inner) > 2 else {"kind": "NullStmt"}
            ec = self.cond(c, env)
            if self.has_jump(th) or self.has_jump(el):
                # duplicate the continuation into both branches
                t1 = self.seq([th], env, nxt)
                t2 = self.seq([el], env, nxt)
                return self.guard(ec.ok, "(if %s then %s else %s)" % (ec.tm, t1, t2))
            return self.guard(ec.ok, self.join([(ec.tm, [th])], [el], env, nxt))
        if kind == "SwitchStmt":
            return self.switch(s, env, nxt)
        if kind == "BreakStmt":
            raise TranslateError("break outside switch")
        raise TranslateError("unsupported statement kind %s in %s" % (kind, self.name))

    def join(self, arms, default, env, nxt):
        """arms: [(bool term, stmts)], default: stmts; none of them jumps.  Variables assigned in any arm are
        returned as a tuple and re-bound, so the continuation is emitted once."""
        acc = set()
        for _, st in arms:
            for x in st:
                self.assigned(x, acc)
        for x in default:
            self.assigned(x, acc)
        vs = sorted(v for v in acc)
        if not vs:
            return nxt(env)

        def tup(e):
            items = []
            for v in vs:
                b = e.get(v)
                items.append(b[1] if b and b[0] == "int" else "UNINIT")
            return items
        terms = []
        for ctm, st in arms + [(None, default)]:
            terms.append((ctm, self.seq(st, env, lambda e: "(Some (%s))" % ", ".join(tup(e)) if len(vs) > 1 else "(Some %s)" % tup(e)[0])))
        # a variable uninitialised on some path and never read later is fine; if read later -> error.
        body_env = dict(env)
        names = []
        for v in vs:
            nm = self.newname(v)
            names.append(nm)
            old = env.get(v)
            body_env[v] = ("int", nm, old[2] if old else None)
        expr = terms[-1][1]
        for ctm, t in reversed(terms[:-1]):
            expr = "(if %s then %s else %s)" % (ctm, t, expr)
        cont = nxt(body_env)
        if "UNINIT" in expr:
            # replace UNINIT by 0 but poison later reads: conservative => refuse if the variable is read later
            for v, nm in zip(vs, names):
                pass
            expr = expr.replace("UNINIT", "0")
            self.uninit_warning = True
        pat = names[0] if len(names) == 1 else "'(%s)" % ", ".join(names)
        return "(match %s with Some %s => %s | None => None end)" % (expr, ("(%s)" % ", ".join(names)) if len(names) > 1 else names[0], cont)

    def switch(self, s, env, nxt):
        c, body = s["inner"][0], s["inner"][1]
        ec = self.expr(c, env)
        sv = self.newname("sw")
        items = body.get("inner", []) if body["kind"] == "CompoundStmt" else [body]
        # flatten labels: CaseStmt(value, substmt) / DefaultStmt(substmt); nested labels (case A: case B: stmt)
        flat = []   # list of ("case", value) | ("default",) | ("stmt", node)
        def add(n):
            if n["kind"] == "CaseStmt":
                v = self.expr(n["inner"][0], env)
                flat.append(("case", v.tm)); add(n["inner"][-1])
            elif n["kind"] == "DefaultStmt":
                flat.append(("default",)); add(n["inner"][0])
            else:
                flat.append(("stmt", n))
        for it in items:
            add(it)
        # body for each label: statements after it up to the first top-level break (fall-through kept)
        def body_from(i):
            out = []
            for kind_ in flat[i + 1:]:
                if kind_[0] != "stmt":
                    continue
                if kind_[1]["kind"] == "BreakStmt":
                    return out
                out.append(kind_[1])
            return out
        arms, default = [], []
        for i, f in enumerate(flat):
            if f[0] == "case":
                arms.append(("(%s =? %s)" % (sv, f[1]), body_from(i)))
            elif f[0] == "default":
                default = body_from(i)
        def nested_break(n):
            if n["kind"] == "BreakStmt":
                return True
            if n["kind"] in ("SwitchStmt",):
                return False
            return any(nested_break(c) for c in n.get("inner", []) if isinstance(c, dict))
        for _, st in arms + [(None, default)]:
            for x in st:
                if nested_break(x):
                    raise TranslateError("break nested inside a statement of a switch arm")
        jumps = any(self.has_return(x) for _, st in arms + [(None, default)] for x in st)
        if jumps:
            t = self.seq(default, env, nxt)
            for ctm, st in reversed(arms):
                t = "(if %s then %s else %s)" % (ctm, self.seq(st, env, nxt), t)
        else:
            t = self.join(arms, default, env, nxt)
        return self.guard(ec.ok, "(let %s := %s in %s)" % (sv, ec.tm, t))

    def assign(self, s, env):
        kind = s["kind"]
        env = dict(env)
        if kind == "UnaryOperator":
            if s["opcode"] not in ("++", "--"):
                raise TranslateError("expression statement without effect")
            t = s["inner"][0]
            if t["kind"] != "DeclRefExpr":
                raise TranslateError("++/-- on non-local")
            v = t["referencedDecl"]["name"]
            cur = env.get(v)
            if not cur or cur[0] != "int":
                raise TranslateError("++/-- on unknown variable")
            ty = ctype(t)
            e = self.arith(ty if ty[1] >= 32 else (True, 32), "%s %s 1" % (cur[1], "+" if s["opcode"][0] == "+" else "-"), None)
            e = Expr(self.convert((True, 32) if ty[1] < 32 else ty, ty, e.tm), e.ok)
            nm = self.newname(v)
            env[v] = ("int", nm, ty)
            return env, [(nm, e)]
        lhs, rhs = s["inner"]
        while lhs["kind"] == "ParenExpr":
            lhs = lhs["inner"][0]
        if lhs["kind"] != "DeclRefExpr":
            raise TranslateError("assignment to non-local (%s) is outside the subset" % lhs["kind"])
        v = lhs["referencedDecl"]["name"]
        if is_ptr(lhs):
            env[v] = ("ptr", self.path(rhs, env))
            return env, []
        ty = ctype(lhs)
        if kind == "BinaryOperator":
            if s["opcode"] != "=":
                raise TranslateError("expression statement without effect (%s)" % s["opcode"])
            e = self.expr(rhs, env)
        else:
            op = s["opcode"][:-1]
            cty = s.get("computeResultType", {})
            fake = {"kind": "BinaryOperator", "opcode": op, "type": cty or s["type"],
                    "inner": [{"kind": "ImplicitCastExpr", "castKind": "IntegralCast", "type": s.get("computeLHSType", s["type"]),
                               "inner": [{"kind": "ImplicitCastExpr", "castKind": "LValueToRValue", "type": lhs["type"], "inner": [lhs]}]}, rhs]}
            e = self.binop(fake, env)
            e = Expr(self.convert(ctype(fake), ty, e.tm), e.ok)
        nm = self.newname(v)
        env[v] = ("int", nm, ty)
        return env, [(nm, e)]

    def translate(self):
        params = [c for c in self.fn["inner"] if c["kind"] == "ParmVarDecl"]
        body = [c for c in self.fn["inner"] if c["kind"] == "CompoundStmt"]
        if not body:
            raise TranslateError("no body for %s" % self.name)
        env = {}
        self.direct = []
        self.roots = {}
        for i, p in enumerate(params):
            if is_ptr(p):
                env[p["name"]] = ("ptr", p["name"])
                self.roots[p["name"]] = i
            else:
                ty = ctype(p)
                nm = self.add_input(p["name"])
                env[p["name"]] = ("int", nm, ty)
                self.direct.append((nm, i))
        term = self.seq(body[0].get("inner", []), env, lambda e: "(Some 0)")
        args = " ".join(self.inputs)
        hdr = "Definition %s %s: option Z :=\n  %s.\n" % (self.name, ("(%s : Z) " % args) if args else "", term)
        return hdr


PRELUDE = """(* GENERATED by tools/c2v.py from /repo's working tree — do not edit. *)
From Coq Require Import ZArith Bool.
From Nice Require Import Base.CSem.
Local Open Scope Z_scope.
Local Open Scope bool_scope.
"""


def clang_ast(cfile, fn, cflags, cache_dir=None):
    cmd = ["clang", "-fsyntax-only"] + cflags + ["-Xclang", "-ast-dump=json", "-Xclang", "-ast-dump-filter=" + fn, cfile]
    p = subprocess.run(cmd, stdout=subprocess.PIPE, stderr=subprocess.PIPE, text=True)
    if p.returncode != 0:
        raise TranslateError("clang failed on %s: %s" % (cfile, p.stderr[-2000:]))
    s, dec, i, objs = p.stdout, json.JSONDecoder(), 0, []
    while i < len(s):
        while i < len(s) and s[i] in " \n\r\t":
            i += 1
        if i >= len(s):
            break
        o, i = dec.raw_decode(s, i)
        objs.append(o)
    cands = [o for o in objs if o.get("kind") == "FunctionDecl" and o.get("name") == fn
             and any(c.get("kind") == "CompoundStmt" for c in o.get("inner", []))]
    if len(cands) != 1:
        raise TranslateError("expected exactly one definition of %s in %s, found %d" % (fn, cfile, len(cands)))
    return cands[0]


def enum_names(n, acc):
    if n.get("kind") == "DeclRefExpr" and n.get("referencedDecl", {}).get("kind") == "EnumConstantDecl":
        acc.add(n["referencedDecl"]["name"])
    for c in n.get("inner", []):
        if isinstance(c, dict):
            enum_names(c, acc)
    return acc


def translate_file(cfile, fns, cflags, consts_from_headers, known=None):
    """Translate functions `fns` (ordered: callees first) defined in `cfile`.  Returns (text, info)."""
    known = dict(known or {})
    asts = {}
    names = set()
    for fn in fns:
        asts[fn] = clang_ast(cfile, fn, cflags)
        enum_names(asts[fn], names)
    vals = consts_from_headers(names)
    out, info = [], {}
    for fn in fns:
        ft = FnTrans(asts[fn], known, vals)
        text = ft.translate()
        origins = []
        dmap = dict(ft.direct)
        for inp in ft.inputs:
            if inp in dmap:
                origins.append((inp, ("param", dmap[inp])))
            else:
                root = [r for r in ft.roots if inp.startswith(r + "_")]
                if root:
                    r = max(root, key=len)
                    origins.append((inp, ("path", ft.roots[r], inp[len(r):])))
                else:
                    origins.append((inp, ("abstract",)))
        known[fn] = origins
        info[fn] = {"inputs": list(ft.inputs), "asserts": len(ft.asserts)}
        out.append(text)
    return "\n".join(out), info, known


def probe_constants(headers, names, cflags):
    """Compile and run a tiny program printing the values of the given constants."""
    if not names:
        return {}
    src = "".join('#include "%s"\n' % h for h in headers) + "#include <stdio.h>\nint main(void){\n"
    for nm in sorted(names):
        src += '  printf("%s %%lld\\n", (long long)(%s));\n' % (nm, nm)
    src += "  return 0; }\n"
    os.makedirs("/verif/build", exist_ok=True)
    exe = "/verif/build/c2v_probe_%d" % os.getpid()
    p = subprocess.run(["gcc", "-x", "c", "-", "-o", exe, "-w"] + cflags, input=src, stdout=subprocess.PIPE, stderr=subprocess.PIPE, text=True)
    if p.returncode != 0:
        raise TranslateError("constant probe failed: " + p.stderr[-1500:])
    o = subprocess.run([exe], stdout=subprocess.PIPE, text=True).stdout
    os.unlink(exe)
    return {l.split()[0]: int(l.split()[1]) for l in o.strip().split("\n") if l.strip()}
