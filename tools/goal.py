#!/usr/bin/env python3
"""tools/goal.py coq/Dir/File.v LINE  -- show the proof state just before LINE (1-based)."""
import sys, subprocess, os, tempfile
f, n = sys.argv[1], int(sys.argv[2])
lines = open(f).read().split("\n")[:n-1]
d = tempfile.mkdtemp(dir="/verif/build")
p = os.path.join(d, "G.v")
open(p, "w").write("\n".join(lines) + "\nShow.\n")
r = subprocess.run(["coqc", "-Q", "/verif/coq", "Nice", "-w", "-all", p], stdout=subprocess.PIPE, stderr=subprocess.STDOUT, text=True, timeout=300)
print(r.stdout[-int(sys.argv[3]) if len(sys.argv) > 3 else -3500:])
import shutil; shutil.rmtree(d)
