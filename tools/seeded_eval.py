#!/usr/bin/env python3
"""tools/seeded_eval.py <dir with <ID>-<n>/patch.diff …> [ids…]: apply each seeded change to a scratch worktree of /repo,
run the owning check against it (VERIF_REPO), record whether it is caught.  Results: build/seeded_results.json"""
import sys, os, json, subprocess, glob, shutil
ROOT = "/verif"; SRC = sys.argv[1]; only = sys.argv[2:]
WT = os.environ.get("SEEDED_WT", "/tmp/seedeval")
res = {}
out_json = os.environ.get("SEEDED_RESULTS") or os.path.join(ROOT, "build", "seeded_results.json")
if os.path.exists(out_json):
    res = json.load(open(out_json))
enabled = open(os.path.join(ROOT, "props", "ENABLED")).read().split()
def sh(cmd, **kw):
    return subprocess.run(cmd, shell=True, stdout=subprocess.PIPE, stderr=subprocess.STDOUT, text=True, errors="replace", **kw)
for d in sorted(glob.glob(os.path.join(SRC, "C*-*"))):
    name = os.path.basename(d)
    if only and name not in only and name.split("-")[0] not in only:
        continue
    pid = name.split("-")[0]
    patch = os.path.join(d, "patch.diff")
    if not os.path.exists(patch) or not os.path.exists(os.path.join(d, "meta.json")):
        continue
    if name in res and res[name].get("final"):
        continue
    if pid not in enabled and not os.path.exists(os.path.join(ROOT, "props", pid + ".py")):
        res[name] = {"status": "no-check-yet"}; continue
    sh("git -C /repo worktree remove --force %s; git -C /repo worktree prune" % WT)
    r = sh("git -C /repo worktree add -q %s HEAD" % WT)
    a = sh("git -C %s apply %s" % (WT, patch))
    if a.returncode != 0:
        res[name] = {"status": "patch-does-not-apply", "log": a.stdout[-500:]}; continue
    env = dict(os.environ, VERIF_REPO=WT)
    c = sh("cd %s && timeout 2400 ./check %s" % (ROOT, pid), env=env)
    viol = [l for l in c.stdout.split("\n") if l.startswith("VIOLATION")]
    why = [l[:300] for l in c.stdout.split("\n") if l.startswith("[%s]" % pid)][:4]
    res[name] = {"status": "caught" if (c.returncode != 0 and viol) else "missed", "rc": c.returncode, "violations": viol[:3], "why": why, "final": True,
                 "no_failing_input": all("no-failing-input-found" in v for v in viol) if viol else None}
    # keep the replay files of this run apart
    for v in viol[:3]:
        rp = v.split("replay=")[1].split()[0]
        src = os.path.join(ROOT, rp)
        if os.path.exists(src):
            os.makedirs(os.path.join(ROOT, "build", "seeded_replays", name), exist_ok=True)
            shutil.move(src, os.path.join(ROOT, "build", "seeded_replays", name, os.path.basename(rp)))
    print(name, res[name]["status"], res[name].get("violations", [])[:1], flush=True)
    json.dump(res, open(out_json, "w"), indent=1)
sh("git -C /repo worktree remove --force %s; git -C /repo worktree prune" % WT)
json.dump(res, open(out_json, "w"), indent=1)
