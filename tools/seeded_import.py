#!/usr/bin/env python3
"""tools/seeded_import.py <src dir> [names…]: copy confirmed seeded changes (<ID>-<n>/ with patch.diff, demo*, out-*, meta.json) into
/verif/seeded/, adding our confirmation (build/seeded_confirm.json) and the detection result (build/seeded_results.json) to meta.json,
then regenerate the table of DESIGN.md §9.5 between the markers <!-- SEEDED-TABLE --> … <!-- /SEEDED-TABLE -->."""
import sys, os, json, glob, shutil
ROOT = "/verif"
HISTORY = json.load(open(os.path.join(ROOT, "seeded", "HISTORY.json"))) if os.path.exists(os.path.join(ROOT, "seeded", "HISTORY.json")) else {}
conf = json.load(open(os.path.join(ROOT, "build", "seeded_confirm.json")))
res = json.load(open(os.path.join(ROOT, "build", "seeded_results.json")))


def imp(src, only):
    for d in sorted(glob.glob(os.path.join(src, "C*-*"))):
        name = os.path.basename(d)
        if only and name not in only:
            continue
        if not os.path.exists(os.path.join(d, "meta.json")) or not os.path.exists(os.path.join(d, "patch.diff")):
            continue
        c = conf.get(name)
        if not c or not (c.get("applies") and c.get("builds") and c.get("tests_pass")):
            print("skip (not confirmed):", name, c); continue
        dst = os.path.join(ROOT, "seeded", name)
        os.makedirs(dst, exist_ok=True)
        for f in os.listdir(d):
            p = os.path.join(d, f)
            if os.path.isfile(p) and os.path.getsize(p) < 400000:
                shutil.copy(p, os.path.join(dst, f))
        m = json.load(open(os.path.join(dst, "meta.json")))
        m["confirmed_by_verif"] = {k: c.get(k) for k in ("applies", "builds", "tests", "tests_pass", "demo_differs")}
        oo, om = os.path.join(dst, "out-original.txt"), os.path.join(dst, "out-mutated.txt")
        if os.path.exists(oo) and os.path.exists(om):
            # the author's own recorded runs of the demonstration on both trees (our re-run uses one calling convention and does not fit every demo.sh;
            # the behavioural difference is in any case re-established by the owning check: OK on /repo, VIOLATION on the changed tree)
            m["confirmed_by_verif"]["recorded_demo_outputs_differ"] = open(oo, errors="replace").read() != open(om, errors="replace").read()
        json.dump(m, open(os.path.join(dst, "meta.json"), "w"), indent=1)


def table():
    rows = []
    for d in sorted(glob.glob(os.path.join(ROOT, "seeded", "C*-*")), key=lambda x: (os.path.basename(x).split("-")[0], int(os.path.basename(x).split("-")[1]))):
        name = os.path.basename(d)
        m = json.load(open(os.path.join(d, "meta.json")))
        r = res.get(name, {})
        st = r.get("status", "not evaluated")
        if st == "caught":
            st = "caught, corr." if r.get("no_failing_input") else "caught, input"
        elif st == "missed":
            st = "**missed**"
        m["detection"] = {"check": name.split("-")[0], "status": r.get("status"), "violation_lines": r.get("violations"), "why": r.get("why"),
                          "no_failing_input_found": r.get("no_failing_input"), "history": HISTORY.get(name, "")}
        json.dump(m, open(os.path.join(d, "meta.json"), "w"), indent=1)
        title = m.get("title", "").replace("|", "/")
        rows.append("| %s | %s | %s | %s |" % (name, title[:170] + ("…" if len(title) > 170 else ""), st, HISTORY.get(name, "")))
    return "| change | what it does | final result | history |\n|---|---|---|---|\n" + "\n".join(rows) + "\n"


if __name__ == "__main__":
    if len(sys.argv) > 1:
        imp(sys.argv[1], sys.argv[2:])
    t = table()
    p = os.path.join(ROOT, "DESIGN.md")
    s = open(p).read()
    a, b = "<!-- SEEDED-TABLE -->\n", "<!-- /SEEDED-TABLE -->"
    if a in s and b in s:
        s = s[:s.index(a) + len(a)] + t + s[s.index(b):]
        open(p, "w").write(s)
        print("DESIGN.md table regenerated (%d rows)" % (t.count("\n") - 2))
    else:
        print(t)
