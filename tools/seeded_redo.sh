#!/bin/sh
# tools/seeded_redo.sh <dir> <names…>: forget earlier results for the names and evaluate them again
d=$1; shift
python3 - "$@" <<'PY'
import json,sys
p='/verif/build/seeded_results.json'; r=json.load(open(p))
for n in sys.argv[1:]: r.pop(n,None)
json.dump(r,open(p,'w'),indent=1)
PY
exec python3 /verif/tools/seeded_eval.py "$d" "$@"
