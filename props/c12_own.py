"""C12 — tie of coq/Agent/OwnModel.v (reference graph of a component) to the real removal functions of libnice through harness/own_h.c.

own_tie(chk) generates structured component states, runs the REAL function on a fabricated NiceAgent/NiceComponent (ASan+UBSan,
G_SLICE=always-malloc, LeakSanitizer at exit), evaluates the model on the same inputs inside Coq (vm_compute) and compares what is left
in every container and every reference.  The default states satisfy the hypotheses of the theorems of coq/Agent/OwnProofs.v (so the model
predicts: no fault, nothing dangling); own_tie(chk, refuted=True) also runs the states kept as `..._refuted` in OwnProofs.v, one process
each, and reports each as a violation with the state as replay (they are genuine defects of libnice, see REFUTED below)."""
import concurrent.futures as cf
import vlib

CHUNK = 400


# ------------------------------------------------------------------ states
class St:
    """socks: [(id, base|None, attached)] in creation (= socket_sources) order; lc: [(id, sock, relay)]; rc: [(id, sock|None)];
    fc: foreign candidates [(id, sock|None)]; turn: (id, sock)|None; pairs: [(id, comp, l, r, sock, state, nom, valid, prio)];
    trig: [pair]; ic: [(id, sock)]; dc: [(id, sock)]; rf: [(id, sock, cand, lists)]; sel: (l|None, r|None, prio); cstate"""

    def __init__(self):
        self.socks, self.lc, self.rc, self.fc, self.turn, self.pairs, self.trig = [], [], [], [], None, [], []
        self.ic, self.dc, self.rf, self.sel, self.cstate = [], [], [], (None, None, 0), 0

    def tokens(self):
        o = lambda x: "-" if x is None else str(x)
        t = []
        for (i, b, a) in self.socks:
            t.append("K%d:%s" % (i, o(b)) if a else "Z%d" % i)
        t += ["L%d:%d:%d" % c for c in self.lc] + ["R%d:%s" % (i, o(k)) for i, k in self.rc] + ["E%d:%s" % (i, o(k)) for i, k in self.fc]
        if self.turn:
            t.append("U%d:%d" % self.turn)
        t += ["P%d:%d:%d:%d:%d:%d:%d:%d:%d" % p for p in self.pairs] + ["T%d" % p for p in self.trig]
        t += ["I%d:%d" % x for x in self.ic] + ["D%d:%d" % x for x in self.dc] + ["F%d:%d:%d:%d" % x for x in self.rf]
        t.append("X%s:%s:%d" % (o(self.sel[0]), o(self.sel[1]), self.sel[2]))
        t.append("C%d" % self.cstate)
        return " ".join(t)

    def coq(self):
        oz = lambda x: "None" if x is None else "(Some %d)" % x
        b = lambda x: "true" if x else "false"
        ls = lambda xs: "[" + "; ".join(xs) + "]"
        cands = ["{| c_id := %d; c_sock := %s; c_relay := %s |}" % (i, oz(k), b(r)) for i, k, r in self.lc]
        cands += ["{| c_id := %d; c_sock := %s; c_relay := false |}" % (i, oz(k)) for i, k in self.rc + self.fc]
        if self.turn:
            cands.append("{| c_id := %d; c_sock := Some %d; c_relay := true |}" % self.turn)
        return ("{| socks := %s; cands := %s; pairs := %s; refrs := %s; lcands := %s; rcands := %s; sources := %s; ichecks := %s; sel_l := %s; sel_r := %s; "
                "sel_prio := %d; turn_cand := %s; clist := %s; trig := %s; discs := %s; rlist := %s; pruning := %s; cstate := %d; cid := 1; fault := 0 |}") % (
            ls("{| sk_id := %d; sk_base := %s |}" % (i, oz(bs)) for i, bs, a in self.socks), ls(cands),
            ls("{| p_id := %d; p_comp := %d; p_local := %d; p_remote := %d; p_sock := %d; p_state := %d; p_nominated := %s; p_valid := %s; p_prio := %d |}"
               % (p[0], p[1], p[2], p[3], p[4], p[5], b(p[6]), b(p[7]), p[8]) for p in self.pairs),
            ls("{| r_id := %d; r_sock := %d; r_cand := %d |}" % (r[0], r[1], r[2]) for r in self.rf),
            ls(str(c[0]) for c in self.lc), ls(str(c[0]) for c in self.rc), ls(str(i) for i, bs, a in self.socks if a),
            ls("{| i_id := %d; i_sock := %d |}" % x for x in self.ic), oz(self.sel[0]), oz(self.sel[1]), self.sel[2],
            oz(self.turn[0] if self.turn else None), ls(str(p[0]) for p in self.pairs), ls(str(p) for p in self.trig),
            ls("{| d_id := %d; d_sock := %d |}" % x for x in self.dc), ls(str(r[0]) for r in self.rf if r[3] & 1), ls(str(r[0]) for r in self.rf if r[3] & 2), self.cstate)

    # helpers for the hypotheses of the theorems
    def base_of(self, k):
        return next(b for i, b, a in self.socks if i == k)

    def based_on(self, k, ns):
        return k == ns or self.base_of(k) == ns

    def lsock(self, c):
        return self.turn[1] if self.turn and self.turn[0] == c else next(k for i, k, r in self.lc if i == c)


OPS = {"rs": "OpRemoveSocket %d", "td": "OpTeardown", "dp": "OpDiscPrune %d", "rp": "OpRefreshPruneSocket %d", "rc": "OpRefreshPruneCand %d",
       "cp": "OpConnCheckPrune %d", "ds": "OpDetach %d", "cs": "OpClearSelected", "ps": "OpPruneStream"}


def gen_state(rng, kind):
    """a state within the hypotheses of OwnProofs.v: every TURN (layered) socket is the sockptr of exactly one local candidate and of nothing else
    but pairs / incoming checks / discoveries; refreshes sit on plain sockets and refresh local candidates; pairs of another component and the
    candidates of another component stay on sockets that are not attached to this component."""
    s = St()
    nbase = rng.choice([1, 1, 2, 2, 3])
    nwrap = rng.choice([0, 0, 1, 1, 2]) if nbase < 3 else rng.choice([0, 1, 2])
    sid = 0
    bases, wraps = [], []
    for _ in range(nbase):
        s.socks.append((sid, None, True)); bases.append(sid); sid += 1
        while len(wraps) < nwrap and rng.random() < 0.5:
            s.socks.append((sid, rng.choice(bases), True)); wraps.append(sid); sid += 1
    while len(wraps) < nwrap:
        s.socks.append((sid, rng.choice(bases), True)); wraps.append(sid); sid += 1
    foreign = None
    if rng.random() < 0.5:
        foreign = sid; s.socks.insert(rng.randrange(len(s.socks) + 1), (sid, None, False)); sid += 1
    if rng.random() < 0.2:          # a relay candidate parked in cmp->turn_candidate (after nice_agent_forget_relays) with its own TURN socket
        s.socks.append((sid, rng.choice(bases), True)); s.turn = (9, sid); sid += 1
    cidn = 10
    locs = [(w, 1) for w in wraps] + [(rng.choice(bases), 0) for _ in range(rng.choice([0, 1, 2, 3, 4]) if wraps or rng.random() < 0.9 else 0)]
    locs = locs[:6]
    rng.shuffle(locs)
    for k, r in locs:
        s.lc.append((cidn, k, r)); cidn += 1
    for _ in range(rng.choice([0, 1, 2, 3, 4, 6])):
        s.rc.append((cidn, rng.choice(bases) if rng.random() < 0.35 else None)); cidn += 1
    if foreign is not None or rng.random() < 0.3:
        for _ in range(rng.choice([1, 2])):
            s.fc.append((cidn, foreign if foreign is not None and rng.random() < 0.6 else None)); cidn += 1
    att = bases + wraps + ([s.turn[1]] if s.turn else [])
    pid = 30
    if s.lc and s.rc:
        for _ in range(rng.choice([0, 1, 2, 3, 5, 8, 10])):
            l = rng.choice(s.lc); r = rng.choice(s.rc)
            k = l[1] if rng.random() < 0.75 else (r[1] if r[1] is not None and rng.random() < 0.6 else rng.choice(att))
            s.pairs.append((pid, 1, l[0], r[0], k, rng.choice([1, 2, 3, 3, 4, 5, 6]), int(rng.random() < 0.35), int(rng.random() < 0.5), rng.randrange(1, 200))); pid += 1
    if len(s.fc) >= 1 and foreign is not None:
        for _ in range(rng.choice([0, 1, 2])):
            s.pairs.insert(rng.randrange(len(s.pairs) + 1), (pid, 2, rng.choice(s.fc)[0], rng.choice(s.fc)[0], foreign, rng.choice([1, 2, 3, 5]), int(rng.random() < 0.5), int(rng.random() < 0.5), rng.randrange(1, 200))); pid += 1
    s.pairs = s.pairs[:10]
    s.trig = [p[0] for p in s.pairs if rng.random() < 0.25]
    rng.shuffle(s.trig)
    if s.lc and s.rc and rng.random() < 0.7:
        l = rng.choice(s.lc); r = rng.choice(s.rc)
        s.sel = (s.turn[0] if s.turn and rng.random() < 0.5 else l[0], r[0], rng.randrange(1, 200))
    s.ic = [(40 + i, rng.choice(att)) for i in range(rng.choice([0, 0, 1, 2, 3]))]
    s.dc = [(50 + i, rng.choice(att + ([foreign] if foreign is not None else []))) for i in range(rng.choice([0, 0, 1, 2, 3]))]
    if s.lc:
        for i in range(rng.choice([0, 0, 1, 2, 3])):
            c = rng.choice(s.lc)
            s.rf.append((60 + i, s.base_of(c[1]) if c[2] else rng.choice(bases), c[0], rng.choice([1, 1, 1, 3, 3, 2])))
    s.cstate = rng.choice([0, 1, 2, 3, 4, 4, 5])
    return s, bases, wraps, foreign


def assert_safe(s, ns):
    """the hypothesis AssertSafe of OwnProofs.v: g_assert (priority > 0) of priv_prune_pending_checks cannot be reached"""
    nominated = any(p[1] == 1 and p[6] and p[7] for p in s.pairs)
    if not nominated:
        return True
    if s.sel[2] <= 0:
        return False
    if ns is None:
        return True
    if s.sel[0] is not None and not s.based_on(s.lsock(s.sel[0]), ns):
        return True
    return not any(b == ns for i, b, a in s.socks)


def gen_case(rng, i):
    r = rng.random()
    kind = "rs" if r < 0.62 else "td" if r < 0.72 else rng.choice(["dp", "rp", "rc", "cp", "cp", "ds", "cs", "ps"])
    for _ in range(200):
        s, bases, wraps, foreign = gen_state(rng, kind)
        att = bases + wraps + ([s.turn[1]] if s.turn else [])
        arg = None
        if kind == "rs":
            q = rng.random()
            arg = rng.choice(bases) if q < 0.75 else (rng.choice(wraps) if wraps and q < 0.93 else (foreign if foreign is not None else rng.choice(bases)))
            if rng.random() < 0.5 and s.lc and s.rc:      # aim the selected pair at the socket that goes away
                ls = [c for c in s.lc if s.based_on(c[1], arg)]; rs_ = [c for c in s.rc if c[1] == arg]
                l = rng.choice(ls) if ls and rng.random() < 0.7 else rng.choice(s.lc)
                r_ = rng.choice(rs_) if rs_ and rng.random() < 0.5 else rng.choice(s.rc)
                s.sel = (l[0], r_[0], rng.randrange(1, 200))
            if not assert_safe(s, arg) or (s.turn and s.based_on(s.turn[1], arg)):
                continue
        elif kind == "td":
            if any(r_[1] == foreign for r_ in s.rf):
                continue
        elif kind in ("dp", "rp", "cp"):
            arg = rng.choice(att + ([foreign] if foreign is not None else []))
            if kind == "cp" and not assert_safe(s, None):
                continue
        elif kind == "rc":
            if not s.lc:
                continue
            arg = rng.choice(s.lc)[0]
        elif kind == "ds":
            # detaching alone is only sound for a socket nothing else points to (incoming checks are dropped by the function itself)
            free = [k for k in att if not any(c[1] == k for c in s.lc) and not any(c[1] == k for c in s.rc) and not any(p[4] == k for p in s.pairs)
                    and not any(d[1] == k for d in s.dc) and not any(r_[1] == k for r_ in s.rf) and not any(b == k for i_, b, a in s.socks)
                    and not (s.turn and s.turn[1] == k)]
            if not free:
                continue
            arg = rng.choice(free)
        sel_on = "none" if s.sel[0] is None else ("on-removed" if kind == "rs" and (s.based_on(s.lsock(s.sel[0]), arg) or
                 any(c[0] == s.sel[1] and c[1] == arg for c in s.rc)) else "elsewhere")
        meta = {"kind": "own-%s%s" % (kind, ("-sel-" + sel_on) if kind == "rs" else ""),
                "prflx_on_removed": kind == "rs" and any(c[1] == arg for c in s.rc), "relay_on_removed": kind == "rs" and any(b == arg for i_, b, a in s.socks)}
        op = kind + ("" if arg is None else ":%d" % arg)
        return {"id": "o%d" % i, "op": op, "coq_op": OPS[kind] % arg if arg is not None else OPS[kind], "st": s, "meta": meta}
    raise RuntimeError("generator could not satisfy the hypotheses")


# ------------------------------------------------------------------ comparison inside Coq
def parse_obs(line):
    """harness line -> the list of lists OwnModel.observe yields"""
    f = dict(x.split("=", 1) for x in line.split(" ")[1:])
    if f["f"] != "0":
        return [[2]]
    nums = lambda t: [int(y) for x in t.split(",") if x for y in x.split(":")]
    return [[0, int(f["c"])], nums(f["K"]), nums(f["L"]), nums(f["R"]), nums(f["U"]), [int(x) for x in f["X"].split(":")], nums(f["P"]), nums(f["T"]),
            nums(f["I"]), nums(f["S"]), nums(f["D"]), nums(f["F"]), nums(f["Q"])]


def coq_obs(o):
    return "[" + "; ".join("[" + "; ".join("(%d)" % x for x in l) + "]" for l in o) + "]"


def coq_compare(cases, outs):
    """returns (ok, text, verdicts): the model's observation of every case equals what the harness printed"""
    items = ["(%s, %s, %s)" % (c["st"].coq(), c["coq_op"], coq_obs(parse_obs(o))) for c, o in zip(cases, outs)]
    body = ("From Coq Require Import ZArith List Bool.\nImport ListNotations.\nLocal Open Scope Z_scope.\n"
            "Definition cases : list (state * op * list (list Z)) := [%s].\n"
            "Definition res := map (fun c => let '(s, o, e) := c in let s' := run_op s o in (obs_eqb (observe s') e, verdict s', observe s')) cases.\n"
            "Definition nbad := length (filter (fun r => negb (fst (fst r))) res).\n"
            "Fixpoint first_bad (i : nat) (l : list (bool * Z * list (list Z))) := match l with [] => None | r :: t => if fst (fst r) then first_bad (S i) t else Some (i, snd r) end.\n"
            "Eval vm_compute in (nbad, first_bad 0 res).\nEval vm_compute in map (fun r => snd (fst r)) res.\n") % ";\n".join(items)
    rc, out = vlib.coq_eval(["Nice.Agent.OwnModel"], body, timeout=900)
    flat = out.replace("\n", " ")
    while "  " in flat:
        flat = flat.replace("  ", " ")
    ok = rc == 0 and "(0%nat, None)" in flat
    verd = []
    if rc == 0 and "= [" in flat:
        tail = flat.rsplit("= [", 1)[1].split("]", 1)[0]
        verd = [int(x.strip().replace("(", "").replace(")", "")) for x in tail.split(";") if x.strip()]
    return ok, out, verd


def build(chk):
    srcs = [s for s in vlib.AGENT_SRCS + vlib.SOCKET_SRCS + vlib.STUN_SRCS + ["agent/agent-enum-types.c"] if s != "agent/component.c"]
    objs, l = vlib.repo_objects(srcs)
    if not objs:
        chk.broken_obligation("impl-build-own", l[-2000:]); return None
    impl, o = vlib.link("own_h", ["own_h.c"], objs)
    if not impl:
        chk.broken_obligation("impl-build-own", o[-2000:]); return None
    return impl


LEAKS = dict(ASAN_OPTIONS="detect_leaks=1:abort_on_error=0:allocator_may_return_null=1", LSAN_OPTIONS="max_leaks=4")


def own_tie(chk, refuted=False, n=None):
    impl = build(chk)
    if not impl:
        return
    n = n or (2400 if chk.tier == "quick" else 24000)
    cases = [gen_case(chk.rng, i) for i in range(n)]
    lines = ["%s %s %s\n" % (c["id"], c["op"], c["st"].tokens()) for c in cases]
    outs, errs = vlib.run_sharded(impl, lines, timeout=900, env=LEAKS)
    nsh = vlib.NPROC
    complete = lambda o: o is not None and (" Q=" in o or o.endswith(" f=A"))
    nviol = 0
    for sh in sorted({idx % nsh for idx, rc, se in errs}):
        # a sanitizer abort loses the buffered lines of the whole shard: run its cases again, one process each
        ids = list(range(sh, len(cases), nsh))
        o1, e1 = vlib.run_sharded(impl, [lines[i] for i in ids], nshards=len(ids), timeout=300, env=LEAKS)
        for k, i in enumerate(ids):
            outs[i] = o1[k]
        for k, rc, se in e1:
            idx = ids[k]
            c = cases[idx]
            nviol += 1
            if nviol > 3:
                continue
            leak = "LeakSanitizer" in se
            chk.violation({"kind": "own-leak" if leak else "own-crash", "op": c["op"], "case": lines[idx].strip(), "rc": rc, "stderr": se[-3000:]},
                          "ownership harness: %s on case: %s\n%s" % ("memory leaked" if leak else "sanitizer report / abort / failed assertion (rc=%s)" % rc,
                                                                     lines[idx].strip()[:400], se[-1500:]))
    if nviol:
        chk.cov["correspondence"]["ownership-crashes"] = nviol
    good = [(c, o) for c, o in zip(cases, outs) if complete(o) and o.split(" ")[0] == c["id"]]
    if len(good) < len(cases) - nviol:
        chk.broken_obligation("own-harness", "only %d of %d cases produced a line" % (len(good), len(cases)))
    chunks = [good[i:i + CHUNK] for i in range(0, len(good), CHUNK)]
    agreed = 0
    with cf.ThreadPoolExecutor(8) as ex:
        results = list(ex.map(lambda ch: coq_compare([c for c, _ in ch], [o for _, o in ch]), chunks))
    for ch, (ok, out, verd) in zip(chunks, results):
        for c, o in ch:
            chk.count_case(c["op"] + " " + c["st"].tokens(), True, c["meta"]["kind"])
            for k in ("prflx_on_removed", "relay_on_removed"):
                if c["meta"][k]:
                    d = chk.cov["input_distribution"]; d["own-" + k] = d.get("own-" + k, 0) + 1
        if not ok:
            chk.broken_obligation("correspondence:ownership", "OwnModel and the removal functions of agent/component.c, discovery.c, conncheck.c disagree:\n" + out[-1800:])
            continue
        if verd and any(v != 0 for v in verd):
            k = next(i for i, v in enumerate(verd) if v != 0)
            chk.broken_obligation("correspondence:ownership", "the model predicts fault/dangling (%d) for a state within the hypotheses of the theorems, the harness ran clean: %s %s"
                                  % (verd[k], ch[k][0]["op"], ch[k][0]["st"].tokens()))
            continue
        agreed += len(ch)
    chk.cov["traces_validated_against_impl"] += agreed
    chk.cov["correspondence"]["ownership"] = {"cases": len(cases), "agreed": agreed, "harness": "harness/own_h.c", "model": "coq/Agent/OwnModel.v"}
    if good:
        chk.sample({"case": lines[0].strip()[:300], "impl": (outs[0] or "")[:300]})
    if refuted:
        own_refuted(chk, impl)


# ------------------------------------------------------------------ states outside the hypotheses: genuine defects (OwnProofs.v `_refuted`)
def _st(**kw):
    s = St()
    for k, v in kw.items():
        setattr(s, k, v)
    return s


# the same four states as w1..w4 of coq/Agent/OwnProofs.v (Properties_C12.v: C12_remove_socket_*_refuted)
REFUTED = [
    ("w1-shared-turn-socket", "rs:0", "OpRemoveSocket 0", _st(socks=[(0, None, True), (1, 0, True)], lc=[(10, 0, 0), (11, 1, 1), (12, 1, 0)]),
     "nice_component_remove_socket frees the TURN socket with its relayed candidate, then calls nice_socket_is_based_on on the freed socket for the "
     "local peer-reflexive candidate discovered through it (heap-use-after-free, socket/socket.c:271)"),
    ("w2-prflx-on-turn-socket", "rs:0", "OpRemoveSocket 0", _st(socks=[(0, None, True), (1, 0, True)], lc=[(10, 0, 0), (11, 1, 1)], rc=[(20, 1)]),
     "a remote peer-reflexive candidate learnt on a TURN socket keeps its sockptr after the socket under it is removed (dangling pointer left in "
     "cmp->remote_candidates; libnice itself only compares it, the harness dereferences it)"),
    ("w3-turn-candidate", "rs:0", "OpRemoveSocket 0", _st(socks=[(0, None, True), (1, None, True), (2, 0, True)], lc=[(10, 0, 0), (11, 1, 0)], rc=[(20, None)],
                                                            turn=(9, 2), sel=(9, 20, 50)),
     "cmp->turn_candidate (parked by nice_component_clean_turn_servers, still the selected local candidate) is not on local_candidates: its TURN socket stays "
     "attached over the freed base socket (next send through the selected pair / next nice_socket_is_based_on on it reads freed memory)"),
    ("w4-assert-priority", "rs:0", "OpRemoveSocket 0", _st(socks=[(0, None, True), (1, None, True), (2, 0, True)], lc=[(10, 0, 0), (11, 1, 0), (12, 2, 1)],
                                                             rc=[(20, None), (21, None)], pairs=[(30, 1, 12, 20, 2, 3, 1, 1, 100), (31, 1, 11, 21, 1, 3, 1, 1, 90)],
                                                             sel=(12, 20, 100), cstate=4),
     "selected pair on a relayed candidate whose base socket is removed while another nominated pair lives on another socket: the selected pair is cleared "
     "(priority 0) before conn_check_prune_socket (TURN socket) -> priv_prune_pending_checks: g_assert (priority > 0) aborts"),
]


def own_refuted(chk, impl):
    for name, op, coq_op, s, expect in REFUTED:
        line = "%s %s %s\n" % (name, op, s.tokens())
        rc, so, se = vlib.run_lines(impl, line, timeout=120)
        ok, out, verd = coq_compare([{"st": s, "coq_op": coq_op}], [so.strip() if so.strip() else name + " f=0 c=0 K= L= R= U= X=-1:-1:0 P= T= I= S= D= F= Q="])
        v = verd[0] if verd else None
        chk.count_case(line, True, "own-refuted")
        impl_fault = "assert" if " f=A" in so else ("asan" if "AddressSanitizer" in se else ("clean" if rc == 0 else "rc%d" % rc))
        if (v, impl_fault) not in ((2, "assert"), (1, "asan"), (4, "asan")):
            chk.broken_obligation("correspondence:ownership-refuted", "%s: model verdict %r, implementation %s\n%s" % (name, v, impl_fault, se[-800:]))
            continue
        chk.cov["traces_validated_against_impl"] += 1
        chk.violation({"kind": "own-refuted", "name": name, "op": op, "case": line.strip(), "model_verdict": v, "impl": impl_fault, "stderr": se[-2500:]},
                      "%s: %s (model verdict %d, implementation: %s) on: %s" % (name, expect, v, impl_fault, line.strip()))
