"""C14 — ICE restart issues fresh credentials and the session re-converges."""
import vlib, tabgen, sim_common as sc

COQ_TARGETS = ["Props/Properties_C14.vo"]
META = dict(
    text="proof (partial): Coq theorems over a model of nice_rng_generate_bytes_print / nice_stream_initialize_credentials / nice_stream_restart whose "
         "character table and lengths are read from random/random.c and agent/stream.h and whose modelled statements are checked to be present in "
         "agent/stream.c on every run: for EVERY sequence of RNG draws the new ufrag/password are well-formed per the ICE grammar; equal credentials force "
         "equal draws (freshness up to the RNG; the unconditional claim is probabilistic); a restart forgets remote credentials, remote candidates and "
         "all checks and announces every component GATHERING; the validater hands out the current password only. Re-convergence and the rejection of "
         "old-credential checks by the real agent are NOT proved: real agents run in the deterministic simulator with restarts (agent- or stream-wide, "
         "one side or both, 1..5 times, during gathering / signalling / mid-check / READY / data) under C01 network policies, oracles: credential "
         "grammar and freshness, GATHERING announcements, empty remote candidate list, no success answer to a check authenticated with pre-restart "
         "credentials, final convergence as in C01.",
    note="trusted: Coq kernel, the text extractor, sim.c. Partial: session level is counterexample search; freshness is up to the RNG.",
    technique="Coq proof of credential grammar/injectivity and restart state reset (tables regenerated from source) + deterministic simulation of restarts")
FINISH = dict(level="proof", trusted=["lib/tabgen.py::cred_tables", "harness/sim.c", "python oracles (props/sim_common.py)"],
              rule="restart programs as described in gen_restart; non-trivial = a component reaches READY after the last restart",
              assumptions=["UDP host candidates only", "GLib RNG seeded per scenario"])


def pregen():
    return tabgen.cred_tables()


def prebuild():
    s, o = sc.build_sim()
    return None if s else o


def oracle(line, evs, meta):
    return sc.oracle_restart(evs, meta) or sc.oracle_convergence(evs, meta.get("ncomp", 1), nat=meta.get("nat")) or sc.oracle_states(evs, None) or sc.oracle_data(evs)


def run(chk):
    gi, err = pregen()
    if gi is None:
        chk.broken_obligation("translator/table-extractor", err)
    chk.prove(["Props/Properties_C14.v"])
    n = 1200 if chk.tier == "quick" else 40000
    cases = [sc.gen_restart(chk.rng, i) for i in range(n)]
    sc.run_sim(chk, cases, oracle, "sim-C14")
    return chk.finish(**FINISH)


def replay(chk, path):
    import C11
    return C11.replay(chk, path)
