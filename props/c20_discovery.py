"""C20 - tie of coq/Agent/DiscoveryModel.v (discovery list, discovery tick, answer handlers, completion) to /repo.

discovery_shape()  : text tie.  agent/discovery.c, agent/conncheck.c, agent/agent.c, agent/discovery.h, stun headers are normalised
                     (comments, debug calls, white space) and every statement the model transcribes must still be there verbatim,
                     inside the right function and in the modelled order; the constants the theorems use are regenerated into
                     coq/Gen/Discovery.v.  Returns (info, "") or (None, "agent/discovery.c no longer contains the modelled statement `...`").
discovery_tie(chk) : differential tie.  harness/disc_h.c runs the real tick / schedule / answer path on a real agent with fabricated
                     discovery items, a scripted socket and an interposed clock; the same scripts are run through the model INSIDE Coq
                     (vm_compute) and every per-step snapshot (pending, done, request buffer, retransmission count, auth_retries,
                     next_tick, server, redirects of every item; unscheduled counter; timer source; stream->gathering; transmissions;
                     candidates; gathering-done signals) is compared there.  Scripts: random mixes plus directed storms (401/438 and
                     alternate-server answers around NICE_DISCOVERY_MAX_AUTH_RETRIES / NICE_DISCOVERY_MAX_REDIRECTS on STUN and TURN
                     items with and without siblings, timer firings around every deadline).
                     REGRESSION, every tier, implementation only (runs even when the text tie is broken): the endless-redirect server
                     (defect fixed by /repo 1878027) against STUN / TURN / TURN + sibling / STUN + TURN for longer than the proved bound
                     T(n) of C20_gathering_terminates: gathering must have completed, once; otherwise violation kind
                     `discovery-endless-redirect` with the script as replay.
"""
import os, re
import vlib

GEN = os.path.join(vlib.COQ, "Gen", "Discovery.v")


def _flat(rel):
    src = open(os.path.join(vlib.REPO, rel)).read()
    src = re.sub(r"/\*.*?\*/", " ", src, flags=re.S)
    src = re.sub(r"//[^\n]*", " ", src)
    src = re.sub(r"\b(?:nice_debug|nice_debug_verbose|stun_debug)\s*\((?:[^;\"]|\"(?:[^\"\\]|\\.)*\")*\)\s*;", " ", src)
    return re.sub(r"\s+", " ", src)


def _func(flat, head):
    """text of the function whose header starts with [head] (brace matching on the normalised text)"""
    k = flat.find(head)
    if k < 0:
        return None
    b = flat.find("{", k)
    d, j = 0, b
    while j < len(flat):
        if flat[j] == "{":
            d += 1
        elif flat[j] == "}":
            d -= 1
            if d == 0:
                return flat[k:j + 1]
        j += 1
    return None


TICK = [
    "int not_done = 0; int need_pacing = 0;",
    "for (i = agent->discovery_list; i ; i = i->next) { cand = i->data; if (cand->pending != TRUE) { cand->pending = TRUE; if (agent->discovery_unsched_items) --agent->discovery_unsched_items;",
    "if (nice_address_is_valid (&cand->server) && (cand->type == NICE_CANDIDATE_TYPE_SERVER_REFLEXIVE || cand->type == NICE_CANDIDATE_TYPE_RELAYED)) {",
    "if (buffer_len > 0 && agent_socket_send (cand->nicesock, &cand->server, buffer_len, (gchar *)cand->stun_buffer) >= 0) {",
    "stun_timer_start (&cand->timer, agent->stun_initial_timeout, agent->stun_max_retransmissions); } cand->next_tick = g_get_monotonic_time (); ++need_pacing; } else { cand->done = TRUE; cand->stun_message.buffer = NULL; cand->stun_message.buffer_len = 0; continue; } } else g_assert_not_reached (); ++not_done; } if (need_pacing) break; if (cand->done != TRUE) { gint64 now = g_get_monotonic_time (); if (cand->stun_message.buffer == NULL) { cand->done = TRUE; } else if (now >= cand->next_tick) { switch (stun_timer_refresh (&cand->timer)) { case STUN_USAGE_TIMER_RETURN_TIMEOUT: {",
    "stun_agent_forget_transaction (&cand->stun_agent, id); cand->done = TRUE; cand->stun_message.buffer = NULL; cand->stun_message.buffer_len = 0; break; } case STUN_USAGE_TIMER_RETURN_RETRANSMIT: { unsigned int timeout = stun_timer_remainder (&cand->timer);",
    "cand->next_tick = now + (timeout * 1000); ++not_done; ++need_pacing; break; } case STUN_USAGE_TIMER_RETURN_SUCCESS: { unsigned int timeout = stun_timer_remainder (&cand->timer); cand->next_tick = now + (timeout * 1000); ++not_done; break; } default: break; } } else { ++not_done; } } if (need_pacing) break; } if (not_done == 0) { discovery_free (agent); agent_gathering_done (agent); return FALSE; } return TRUE; }",
]
TICK_LOCKED = ["ret = priv_discovery_tick_unlocked (agent); if (ret == FALSE) { if (agent->discovery_timer_source != NULL) { g_source_destroy (agent->discovery_timer_source); g_source_unref (agent->discovery_timer_source); agent->discovery_timer_source = NULL; } } return ret; }"]
SCHEDULE = ["if (agent->discovery_unsched_items > 0) { if (agent->discovery_timer_source == NULL) { gboolean res = priv_discovery_tick_unlocked (agent); if (res == TRUE) { agent_timeout_add_with_context (agent, &agent->discovery_timer_source, \"Candidate discovery tick\", agent->timer_ta, priv_discovery_tick_agent_locked, NULL); } } } }"]
FREE = ["agent->discovery_list = NULL; agent->discovery_unsched_items = 0; if (agent->discovery_timer_source != NULL) { g_source_destroy (agent->discovery_timer_source); g_source_unref (agent->discovery_timer_source); agent->discovery_timer_source = NULL; } }"]
SRFLX = [
    "for (i = agent->discovery_list; i && trans_found != TRUE; i = i->next) { CandidateDiscovery *d = i->data; if (d->type == NICE_CANDIDATE_TYPE_SERVER_REFLEXIVE && d->stun_message.buffer) { stun_message_id (&d->stun_message, discovery_id); if (memcmp (discovery_id, response_id, sizeof(StunTransactionId)) == 0) { res = stun_usage_bind_process (resp, &sockaddr.addr, &socklen, &alternate.addr, &alternatelen);",
    "if (res == STUN_USAGE_BIND_RETURN_ALTERNATE_SERVER && d->redirects < NICE_DISCOVERY_MAX_REDIRECTS) { NiceAddress niceaddr; nice_address_set_from_sockaddr (&niceaddr, &alternate.addr); d->server = niceaddr; d->redirects++; d->pending = FALSE; agent->discovery_unsched_items++; } else if (res == STUN_USAGE_BIND_RETURN_ALTERNATE_SERVER) { d->stun_message.buffer = NULL; d->stun_message.buffer_len = 0; d->done = TRUE; trans_found = TRUE; } else if (res == STUN_USAGE_BIND_RETURN_SUCCESS) {",
    "discovery_add_server_reflexive_candidate (",
    "d->stun_message.buffer = NULL; d->stun_message.buffer_len = 0; d->done = TRUE; trans_found = TRUE; } else if (res == STUN_USAGE_BIND_RETURN_ERROR) { d->stun_message.buffer = NULL; d->stun_message.buffer_len = 0; d->done = TRUE; trans_found = TRUE; } } } } return trans_found; }",
]
RELAY = [
    "for (i = agent->discovery_list; i && trans_found != TRUE; i = i->next) { CandidateDiscovery *d = i->data; if (d->type == NICE_CANDIDATE_TYPE_RELAYED && d->stun_message.buffer) { stun_message_id (&d->stun_message, discovery_id); if (memcmp (discovery_id, response_id, sizeof(StunTransactionId)) == 0) { res = stun_usage_turn_process (resp,",
    "if (res == STUN_USAGE_TURN_RETURN_ALTERNATE_SERVER) { NiceAddress addr; nice_address_set_from_sockaddr (&addr, &alternate.addr); priv_handle_turn_alternate_server (agent, d, d->server, addr); trans_found = TRUE; } else if (res == STUN_USAGE_TURN_RETURN_RELAY_SUCCESS || res == STUN_USAGE_TURN_RETURN_MAPPED_SUCCESS) {",
    "relay_cand = discovery_add_relay_candidate (",
    "d->stun_message.buffer = NULL; d->stun_message.buffer_len = 0; d->done = TRUE; trans_found = TRUE; } else if (res == STUN_USAGE_TURN_RETURN_ERROR) {",
    "sent_realm = (uint8_t *) stun_message_find (&d->stun_message, STUN_ATTRIBUTE_REALM, &sent_realm_len); recv_realm = (uint8_t *) stun_message_find (resp, STUN_ATTRIBUTE_REALM, &recv_realm_len);",
    "if ((agent->compatibility == NICE_COMPATIBILITY_RFC5245 || agent->compatibility == NICE_COMPATIBILITY_OC2007 || agent->compatibility == NICE_COMPATIBILITY_OC2007R2) && stun_message_get_class (resp) == STUN_ERROR && stun_message_find_error (resp, &code) == STUN_MESSAGE_RETURN_SUCCESS && recv_realm != NULL && recv_realm_len > 0) { if ((code == STUN_ERROR_STALE_NONCE || (code == STUN_ERROR_UNAUTHORIZED && !(recv_realm_len == sent_realm_len && sent_realm != NULL && memcmp (sent_realm, recv_realm, sent_realm_len) == 0))) && d->auth_retries < NICE_DISCOVERY_MAX_AUTH_RETRIES) { d->auth_retries++; d->stun_resp_msg = *resp;",
    "d->pending = FALSE; agent->discovery_unsched_items++; } else { d->stun_message.buffer = NULL; d->stun_message.buffer_len = 0; d->done = TRUE; } } else if (d->pending) { d->stun_message.buffer = NULL; d->stun_message.buffer_len = 0; d->done = TRUE; } trans_found = TRUE; } } } } return trans_found; }",
]
ALT = [
    "GSList *i; if (disco->redirects >= NICE_DISCOVERY_MAX_REDIRECTS) { disco->stun_message.buffer = NULL; disco->stun_message.buffer_len = 0; disco->done = TRUE; return; } disco->redirects++; for (i = agent->discovery_list; i; i = i->next) { CandidateDiscovery *d = i->data; if (!d->done && d->type == disco->type && d->stream_id == disco->stream_id && d->turn->type == disco->turn->type && nice_address_equal (&d->server, &server)) {",
    "d->stun_message.buffer = NULL; d->stun_message.buffer_len = 0;",
    "d->server = alternate; d->turn->server = alternate; d->pending = FALSE; agent->discovery_unsched_items++;",
]
INBOUND = [
    "valid = stun_agent_validate (&component->stun_agent, &req, (uint8_t *) buf, len, conncheck_stun_validater, &validater_data);",
    "for (i = agent->discovery_list; i; i = i->next) { CandidateDiscovery *d = i->data; if (d->stream_id == stream->id && d->component_id == component->id && d->nicesock == nicesock) { valid = stun_agent_validate (&d->stun_agent, &req, (uint8_t *) buf, len, conncheck_stun_validater, &validater_data); if (valid == STUN_VALIDATION_UNMATCHED_RESPONSE || valid == STUN_VALIDATION_BAD_REQUEST) continue; discovery_msg = TRUE; break; } }",
    "if (valid == STUN_VALIDATION_NOT_STUN || valid == STUN_VALIDATION_INCOMPLETE_STUN || valid == STUN_VALIDATION_BAD_REQUEST) { return FALSE; }",
    "if (valid == STUN_VALIDATION_UNMATCHED_RESPONSE) { return TRUE; } if (valid != STUN_VALIDATION_SUCCESS) { return FALSE; }",
    "if (trans_found != TRUE) trans_found = priv_map_reply_to_discovery_request (agent, &req, from); if (trans_found != TRUE) trans_found = priv_map_reply_to_relay_request (agent, &req);",
]
# (the three other conjuncts are about UPnP and outstanding name lookups; the model's scope is servers given by address with no lookup outstanding,
# where they hold - lookups that fail or finish in either order are exercised by the simulator: fix a7c512a)
GDONE = ["if (agent->discovery_timer_source == NULL && !upnp_running && !dns_resolution_ongoing && agent->stun_resolving_list == NULL) agent_signal_gathering_done (agent); }"]
SIGDONE = ["for (i = agent->streams; i; i = i->next) { NiceStream *stream = i->data; if (stream->gathering) { stream->gathering = FALSE; agent_queue_signal (agent, signals[SIGNAL_CANDIDATE_GATHERING_DONE], stream->id); } } }"]
VALIDATE = [
    "if (sent_id_idx == STUN_AGENT_MAX_SAVED_IDS) { return STUN_VALIDATION_UNMATCHED_RESPONSE; }",
    "if (sent_id_idx != -1 && sent_id_idx < STUN_AGENT_MAX_SAVED_IDS) { agent->sent_ids[sent_id_idx].valid = FALSE; }",
]


def _ordered(body, needles, where, fn):
    pos = 0
    for n in needles:
        k = body.find(n, pos)
        if k < 0:
            if n in body:
                return "%s: `%s` is no longer where the model has it in %s (order of statements changed)" % (where, n[:160], fn)
            return "%s no longer contains the modelled statement `%s` (in %s)" % (where, n[:400], fn)
        pos = k + len(n)
    return None


def discovery_shape():
    """shape check for coq/Agent/DiscoveryModel.v + constants into coq/Gen/Discovery.v"""
    try:
        dc, cc, ac, sa = _flat("agent/discovery.c"), _flat("agent/conncheck.c"), _flat("agent/agent.c"), _flat("stun/stunagent.c")
        dh = open(os.path.join(vlib.REPO, "agent/discovery.h")).read()
        ah = open(os.path.join(vlib.REPO, "agent/agent-priv.h")).read()
        th = open(os.path.join(vlib.REPO, "stun/usages/timer.h")).read()
        mh = open(os.path.join(vlib.REPO, "stun/stunmessage.h")).read()
    except OSError as e:
        return None, "cannot read the sources the discovery model is tied to: %s" % e
    plan = [
        (dc, "agent/discovery.c", "static gboolean priv_discovery_tick_unlocked (NiceAgent *agent)", TICK),
        (dc, "agent/discovery.c", "static gboolean priv_discovery_tick_agent_locked (NiceAgent *agent, gpointer pointer)", TICK_LOCKED),
        (dc, "agent/discovery.c", "void discovery_schedule (NiceAgent *agent)", SCHEDULE),
        (dc, "agent/discovery.c", "void discovery_free (NiceAgent *agent)", FREE),
        (cc, "agent/conncheck.c", "static gboolean priv_map_reply_to_discovery_request (NiceAgent *agent, StunMessage *resp, const NiceAddress *server_address)", SRFLX),
        (cc, "agent/conncheck.c", "static gboolean priv_map_reply_to_relay_request (NiceAgent *agent, StunMessage *resp)", RELAY),
        (cc, "agent/conncheck.c", "static void priv_handle_turn_alternate_server (NiceAgent *agent, CandidateDiscovery *disco, NiceAddress server, NiceAddress alternate)", ALT),
        (cc, "agent/conncheck.c", "gboolean conn_check_handle_inbound_stun (NiceAgent *agent, NiceStream *stream, NiceComponent *component, NiceSocket *nicesock, const NiceAddress *from, gchar *buf, guint len)", INBOUND),
        (ac, "agent/agent.c", "void agent_gathering_done (NiceAgent *agent)", GDONE),
        (ac, "agent/agent.c", "void agent_signal_gathering_done (NiceAgent *agent)", SIGDONE),
        (sa, "stun/stunagent.c", "StunValidationStatus stun_agent_validate (StunAgent *agent, StunMessage *msg,", VALIDATE),
    ]
    for flat, where, head, needles in plan:
        body = _func(flat, head)
        if body is None:
            return None, "%s no longer contains the modelled function `%s`" % (where, head)
        err = _ordered(body, needles, where, head.split("(")[0].split()[-1])
        if err:
            return None, err
    # the tick must be the only place of discovery.c that sets ->done / ->pending on a discovery item
    tick = _func(dc, plan[0][2])
    if dc.count("cand->done = TRUE;") != tick.count("cand->done = TRUE;") or tick.count("cand->done = TRUE;") != 3:
        return None, "agent/discovery.c: `cand->done = TRUE;` is no longer set in exactly the three modelled places of priv_discovery_tick_unlocked"
    if len(re.findall(r"->pending = ", dc)) != 1:
        return None, "agent/discovery.c: ->pending is assigned somewhere else than the modelled `cand->pending = TRUE;`"
    # every assignment of ->done / ->pending of a CandidateDiscovery in conncheck.c is inside a modelled function
    owned = "".join(_func(cc, p[2]) for p in plan if p[1] == "agent/conncheck.c")
    for pat, cnt in (("d->done = TRUE;", 6), ("disco->done = TRUE;", 1), ("d->pending = FALSE;", 3), ("d->auth_retries++;", 1), ("d->redirects++;", 1), ("disco->redirects++;", 1), ("->redirects", 4)):
        if cc.count(pat) != owned.count(pat) or cc.count(pat) != cnt:
            return None, "agent/conncheck.c: `%s` occurs %d times (%d inside the modelled functions), the model transcribes %d" % (pat, cc.count(pat), owned.count(pat), cnt)
    for f in ("agent/agent.c",):
        if ac.count("if (agent->discovery_unsched_items) discovery_schedule (agent); else agent_gathering_done (agent);") < 2:
            return None, "agent/agent.c no longer contains the modelled statement `if (agent->discovery_unsched_items) discovery_schedule (agent); else agent_gathering_done (agent);` at the end of both gathering entry points"
    consts = {}
    for name, txt, pat in (("MAX_AUTH_RETRIES", dh, r"#define\s+NICE_DISCOVERY_MAX_AUTH_RETRIES\s+(\d+)"), ("MAX_REDIRECTS", dh, r"#define\s+NICE_DISCOVERY_MAX_REDIRECTS\s+(\d+)"), ("TA_DEFAULT", ah, r"#define\s+NICE_AGENT_TIMER_TA_DEFAULT\s+(\d+)"),
                           ("TIMER_DEFAULT_TIMEOUT", th, r"#define\s+STUN_TIMER_DEFAULT_TIMEOUT\s+(\d+)"), ("TIMER_DEFAULT_MAX_RETRANSMISSIONS", th, r"#define\s+STUN_TIMER_DEFAULT_MAX_RETRANSMISSIONS\s+(\d+)"),
                           ("ERR_TRY_ALTERNATE", mh, r"STUN_ERROR_TRY_ALTERNATE\s*=\s*(\d+)"), ("ERR_UNAUTHORIZED", mh, r"STUN_ERROR_UNAUTHORIZED\s*=\s*(\d+)"), ("ERR_STALE_NONCE", mh, r"STUN_ERROR_STALE_NONCE\s*=\s*(\d+)")):
        m = re.search(pat, txt)
        if not m:
            return None, "constant %s not found (pattern %s)" % (name, pat)
        consts[name] = int(m.group(1))
    if (consts["ERR_UNAUTHORIZED"], consts["ERR_STALE_NONCE"]) != (401, 438):
        return None, "STUN_ERROR_UNAUTHORIZED / STUN_ERROR_STALE_NONCE are no longer 401 / 438 (DiscoveryModel.auth_retry spells the numbers)"
    if "guint auth_retries;" not in re.sub(r"\s+", " ", dh) or "gboolean pending;" not in re.sub(r"\s+", " ", dh) or "gboolean done;" not in re.sub(r"\s+", " ", dh) or "gint64 next_tick;" not in re.sub(r"\s+", " ", dh) or "guint redirects;" not in re.sub(r"\s+", " ", dh):
        return None, "agent/discovery.h: CandidateDiscovery no longer has the modelled fields (next_tick, pending, done, auth_retries, redirects)"
    text = "(* GENERATED from agent/discovery.h, agent/agent-priv.h, stun/usages/timer.h, stun/stunmessage.h (shape of agent/discovery.c, agent/conncheck.c, agent/agent.c, stun/stunagent.c checked) by props/c20_discovery.py - do not edit *)\nFrom Coq Require Import ZArith.\nLocal Open Scope Z_scope.\n"
    for k, v in consts.items():
        text += "Definition D_%s : Z := %d.\n" % (k, v)
    vlib.write_if_changed(GEN, text)
    return consts, ""


# ----------------------------------------------------------------------------------------------------------------------
DRIVER = r"""
From Coq Require Import ZArith List Bool.
Import ListNotations.
Local Open Scope Z_scope.
Inductive which := Cur | Old | Bogus.
Inductive recipe := ROk | RInv | RGarb | RErr (code realm : Z) | RAlt (k : Z).
Inductive op := OStart (s u : Z) (fails : list nat) | OTick (s u : Z) (fails : list nat) | OAns (i : nat) (w : which) (r : recipe).
(* does the item's StunAgent validate this answer?  Server-reflexive discovery holds no key.  A TURN allocation holds the password:
   until the request carries REALM (and so MESSAGE-INTEGRITY) only 300/400/401/438 errors pass (stun_agent_validate ignores
   credentials for them); afterwards the harness signs its answers with the long-term key *)
Definition validated (it : item) (r : recipe) : bool :=
  match r with RGarb => false | _ =>
  match d_type it with Srflx => true | Relay =>
    negb (d_realm it =? 0) || match r with RErr c _ => (c =? 300) || (c =? 400) || (c =? 401) || (c =? 438) | RAlt _ => true | _ => false end end end.
Definition to_event (s : dstate) (o : op) : event :=
  match o with
  | OStart a b f => EStart {| sec := a; usec := b |} f
  | OTick a b f => ETick {| sec := a; usec := b |} f
  | OAns i w r =>
    match nth_error (ds_items s) i with
    | None => EAnswer i (-1) KInvalid
    | Some it =>
      let t := match w with Cur => if validated it r then d_tid it else -1 | _ => -1 end in
      EAnswer i t (match r with ROk => KSuccess | RInv => KInvalid | RGarb => KInvalid | RErr c rl => KError c rl | RAlt k => KAlternate k end)
    end
  end.
Definition b2z (b : bool) : Z := if b then 1 else 0.
Definition snap_item (it : item) := [b2z (d_pending it); b2z (d_done it); b2z (d_buf it); retrans (d_timer it); d_auth it; d_next it; d_srv it; d_redir it].
Definition cnt (f : out -> bool) (l : list out) : Z := Z.of_nat (length (filter f l)).
Definition snap (s : dstate) (o : list out) :=
  (map snap_item (ds_items s), [ds_unsched s; b2z (ds_timer s); b2z (ds_gathering s);
     cnt (fun e => match e with EvSend _ => true | _ => false end) o; cnt (fun e => match e with EvCand _ => true | _ => false end) o;
     cnt (fun e => match e with EvGatheringDone => true | _ => false end) o]).
Fixpoint trace (c : dcfg) (s : dstate) (acc : list out) (ops : list op) :=
  match ops with
  | [] => []
  | o :: r => let '(s1, o1) := step c s (to_event s o) in let acc1 := acc ++ o1 in snap s1 acc1 :: trace c s1 acc1 r
  end.
Fixpoint zl_eqb (a b : list Z) := match a, b with [], [] => true | x :: a', y :: b' => (x =? y) && zl_eqb a' b' | _, _ => false end.
Fixpoint zll_eqb (a b : list (list Z)) := match a, b with [], [] => true | x :: a', y :: b' => zl_eqb x y && zll_eqb a' b' | _, _ => false end.
Definition snap_eqb (a b : list (list Z) * list Z) := zll_eqb (fst a) (fst b) && zl_eqb (snd a) (snd b).
Fixpoint first_diff {A} (f : A -> A -> bool) (n : nat) (a b : list A) : option (nat * option A * option A) :=
  match a, b with
  | [], [] => None
  | x :: a', y :: b' => if f x y then first_diff f (S n) a' b' else Some (n, Some x, Some y)
  | x :: _, [] => Some (n, Some x, None)
  | [], y :: _ => Some (n, None, Some y)
  end.
Definition check (case : Z * (Z * Z * Z * Z) * list item * list op * list (list (list Z) * list Z)) :=
  let '(id, (T, N, A, R), its, ops, exp) := case in
  match first_diff snap_eqb 0 (trace {| c_T := T; c_N := N; c_maxauth := A; c_maxredir := R |} (init its) [] ops) exp with
  | None => None
  | Some d => Some (id, d)
  end.
"""


def _gen_case(rng, maxauth):
    """one script: (items, ops) in the harness' line syntax; times are monotone, ticks mostly Ta apart, answers anywhere"""
    n = rng.choice([1, 1, 2, 2, 3, 4, 6])
    items = []
    for _ in range(n):
        items.append("%s%d.%d" % (rng.choice("srr"), rng.choice([1, 1, 2]), rng.choice([1, 2, 2, 3])))
    T = rng.choice([500, 500, 200, 50, 7, 1]); N = rng.choice([3, 3, 1, 2, 4, 0])
    t = 100 * 1000000 + rng.choice([0, 999999, 123456, 500000])
    ops = ["S:%d:%d:%d" % (t // 1000000, t % 1000000, rng.choice([0, 0, 0, 1, 2, 5]))]
    style = rng.choice(["mixed", "silent", "auth", "redirect", "mixed", "authstorm", "authstorm", "redirstorm", "deadline", "redirbound", "redirbound"])
    if style == "redirbound":
        # directed: a redirect storm around NICE_DISCOVERY_MAX_REDIRECTS on a STUN or a TURN item, alone or with sibling items (same or
        # other group / server / kind), the timer firing between the answers; then time for everything else to time out
        items = rng.choice([["s1.1"], ["r1.2"], ["r1.2", "r1.2"], ["s1.1", "r1.2"], ["r1.2", "s1.1"], ["r1.2", "r1.2", "s1.1"], ["r1.2", "r2.2", "r1.3", "r1.2"], ["s1.1", "s1.1"]])
        n = len(items); T = rng.choice([500, 500, 200, 50]); N = rng.choice([3, 3, 2, 1])
        ops = ["S:%d:%d:0" % (t // 1000000, t % 1000000)]
        def tk(dt):
            nonlocal t
            t += dt; ops.append("T:%d:%d:0" % (t // 1000000, t % 1000000))
        for _ in range(rng.choice([0, n, n])):
            tk(20000)
        i = rng.choice([0, 0, n - 1])
        for k in range(rng.choice([4, 5, 6, 7, 50])):
            ops.append("A:%d:c:alt%d" % (i, 1 + (k + rng.randrange(2)) % 5))
            if rng.random() < 0.15:
                ops.append(ops[-1])
            if n > 1 and rng.random() < 0.25:
                ops.append("A:%d:c:%s" % (rng.randrange(n), rng.choice(["alt%d" % rng.randrange(1, 6), "e438.1", "ok", "e500.0"])))
            tk(rng.choice([20000, 20000, 20000, 40000]))
        for _ in range(rng.choice([0, 10, 140])):
            tk(rng.choice([20000, 20000, T * 1000]))
        return T, N, items, ops
    def tick(dt, fm=0):
        nonlocal t
        t += dt; ops.append("T:%d:%d:%d" % (t // 1000000, t % 1000000, fm))
    if style in ("authstorm", "redirstorm"):
        # directed: every item is started, then one item is answered round after round on its current transaction (more rounds than
        # NICE_DISCOVERY_MAX_AUTH_RETRIES), the timer firing in between; the others stay silent or get the odd answer
        for _ in range(n):
            tick(20000)
        i = rng.randrange(n)
        for k in range(rng.choice([4, 7, 9, 12])):
            if style == "authstorm":
                ops.append("A:%d:c:%s" % (i, rng.choice(["e438.1", "e438.1", "e438.2", "e401.%d" % (1 + k % 2), "e401.%d" % (1 + k % 2), "e401.1"])))
            else:
                ops.append("A:%d:c:alt%d" % (i, 1 + (k + rng.randrange(2)) % 5))
            if rng.random() < 0.2:
                ops.append(ops[-1])
            if rng.random() < 0.2:
                ops.append("A:%d:%s:%s" % (rng.randrange(n), rng.choice("cob"), rng.choice(["ok", "e500.0", "inv", "garb", "e438.1"])))
            tick(rng.choice([20000, 20000, 40000, 1000]))
            if rng.random() < 0.3:
                tick(20000)
        for _ in range(rng.choice([0, 3, 130])):
            tick(rng.choice([20000, T * 1000]))
        return T, N, items, ops
    if style == "deadline":
        # directed: silence, the timer firing around every deadline of the first item (1 ms before, at, 1 ms after, within the rounding)
        for k in range(rng.choice([6, 12, 30])):
            tick(rng.choice([T * 1000 - 1000, T * 1000 - 999, T * 1000, T * 1000 + 1, 2 * T * 1000 - 500, 999, 1000, 1001, T * 500, 20000]))
        return T, N, items, ops
    style = rng.choice(["mixed", "silent", "auth", "redirect", "mixed"])
    for _ in range(rng.choice([8, 20, 45, 90])):
        r = rng.random()
        if r < 0.5:
            t += rng.choice([20000, 20000, 20000, 20001, 19999, 1000, 0, 40000, T * 1000, T * 1000 - 1000, T * 1000 + 999, 250000, 2 * T * 1000, 37])
            ops.append("T:%d:%d:%d" % (t // 1000000, t % 1000000, rng.choice([0] * 12 + [1, 2, 4, 3, 255])))
        else:
            i = rng.randrange(n + (1 if rng.random() < 0.05 else 0))
            w = rng.choice("ccccccob")
            if style == "silent" and rng.random() < 0.8:
                continue
            if style == "auth":
                k = rng.choice(["e401.1", "e401.2", "e438.1", "e438.2", "e401.1", "e438.0", "e401.0", "ok"])
            elif style == "redirect":
                k = rng.choice(["alt%d" % rng.randrange(1, 6), "alt%d" % rng.randrange(1, 6), "e300.0", "ok", "e401.1"])
            else:
                k = rng.choice(["ok", "ok", "inv", "garb", "e400.0", "e401.1", "e401.2", "e401.0", "e438.1", "e438.0", "e403.1", "e437.0", "e486.2", "e500.0", "e300.0", "e300.1",
                                "alt%d" % rng.randrange(1, 6)])
            ops.append("A:%d:%s:%s" % (i, w, k))
            if rng.random() < 0.15:
                ops.append(ops[-1])     # duplicate
    return T, N, items, ops


def _coq_op(o):
    f = o.split(":")
    if f[0] in "ST":
        m = int(f[3]); fails = "; ".join("%d%%nat" % k for k in range(16) if (m >> k) & 1)
        return "%s %s %s [%s]" % ("OStart" if f[0] == "S" else "OTick", f[1], f[2], fails)
    k = f[3]
    if k == "ok": r = "ROk"
    elif k == "inv": r = "RInv"
    elif k == "garb": r = "RGarb"
    elif k.startswith("alt"): r = "(RAlt %s)" % k[3:]
    else:
        code, realm = k[1:].split("."); r = "(RErr %s %s)" % (code, realm)
    return "OAns %s%%nat %s %s" % (f[1], {"c": "Cur", "o": "Old", "b": "Bogus"}[f[2]], r)


def _coq_item(it):
    return "fresh_item %s %s %s" % ("Srflx" if it[0] == "s" else "Relay", it[1], it[3:])


def _coq_snap(s):
    f = s.split("|")
    its = [] if f[0] == "-" else ["[" + "; ".join(x.split(".")) + "]" for x in f[0].split("/")]
    return "([%s], [%s])" % ("; ".join(its), "; ".join(f[1:]))


def build_harness():
    srcs = [s for s in vlib.AGENT_SRCS + vlib.SOCKET_SRCS + vlib.STUN_SRCS + ["agent/agent-enum-types.c"] if s != "agent/discovery.c"]
    objs, l = vlib.repo_objects(srcs)
    if not objs:
        return None, l
    return vlib.link("disc_h", ["disc_h.c"], objs)


def run_cases(impl, cases, consts):
    """cases: list of (T, N, items, ops).  Returns (None, text) when the harness failed, else (n_disagreements_info, coq_output)"""
    txt = "".join("d%d %d %d %s %s\n" % (i, c[0], c[1], ",".join(c[2]), " ".join(c[3])) for i, c in enumerate(cases))
    rc, so, se = vlib.run_lines(impl, txt)
    outs = [l.split(" ", 1) for l in so.strip().split("\n")] if so.strip() else []
    if rc != 0 or len(outs) != len(cases):
        return None, (se or so)[-2500:], None
    items = []
    for i, (c, o_) in enumerate(zip(cases, outs)):
        snaps = o_[1].strip().split(";")
        items.append("(%d, (%d, %d, %d, %d), [%s], [%s], [%s])" % (i, c[0], c[1], consts["MAX_AUTH_RETRIES"], consts["MAX_REDIRECTS"], "; ".join(_coq_item(x) for x in c[2]), "; ".join(_coq_op(x) for x in c[3]),
                                                              "; ".join(_coq_snap(s) for s in snaps)))
    body = DRIVER + "Definition cases := [\n%s].\nDefinition bad := filter (fun r => match r with Some _ => true | None => false end) (map check cases).\n" % ";\n".join(items)
    body += "Eval vm_compute in (length bad, hd None bad).\n"
    rcq, out = vlib.coq_eval(["Nice.Timer.TimerModel", "Nice.Agent.DiscoveryModel"], body, timeout=1200)
    return rcq, out, outs


# the endless-redirect regression (defect fixed by /repo 1878027; coq: C20_gathering_terminates, C20_gathering_time_grows_with_redirect_limit): a server
# (and every server it names) answers each request of item 0 at once with 300 + ALTERNATE-SERVER, the timer fires every Ta; the script lasts
# longer than the proved bound T(n) for the default timer, so gathering MUST have completed (once) at its end
WITNESS_ITEMS = [["s1.1"], ["r1.2"], ["r1.2", "r1.2"], ["s1.1", "r1.2"]]


def bound_us(consts, n, G):
    """T(n) of C20_gathering_terminates for the default timer (N = 3), microseconds"""
    tx = 4000 * consts["TIMER_DEFAULT_TIMEOUT"] + 3 * (1000 + G)
    return n * ((consts["MAX_AUTH_RETRIES"] + 1) * (G + tx) + consts["MAX_REDIRECTS"] * n * tx)


def redirect_witness(consts, items):
    G = consts["TA_DEFAULT"] * 1000
    rounds = bound_us(consts, len(items), G) // G + 2
    ops = ["S:100:0:0"]; t = 100 * 1000000
    for k in range(rounds):
        ops.append("A:0:c:alt%d" % (1 + k % 5)); t += G; ops.append("T:%d:%d:0" % (t // 1000000, t % 1000000))
    return (consts["TIMER_DEFAULT_TIMEOUT"], consts["TIMER_DEFAULT_MAX_RETRANSMISSIONS"], items, ops)


FALLBACK = {"MAX_AUTH_RETRIES": 5, "MAX_REDIRECTS": 5, "TA_DEFAULT": 20, "TIMER_DEFAULT_TIMEOUT": 500, "TIMER_DEFAULT_MAX_RETRANSMISSIONS": 3}


def discovery_tie(chk):
    info, err = discovery_shape()
    if info is None:
        # the text tie is broken; the regression below needs no model and still says whether the defect is back
        chk.broken_obligation("translator/table-extractor", err)
    impl, o = build_harness()
    if not impl:
        chk.broken_obligation("impl-build-disc", o[-2000:]); return
    shape_ok = info is not None
    info = info or FALLBACK
    # regression first (every tier), on the implementation alone: the oracle is the property itself
    wit = [redirect_witness(info, its) for its in WITNESS_ITEMS]
    txt = "".join("w%d %d %d %s %s\n" % (i, c[0], c[1], ",".join(c[2]), " ".join(c[3])) for i, c in enumerate(wit))
    rc, so, se = vlib.run_lines(impl, txt)
    wouts = [l.split(" ", 1) for l in so.strip().split("\n")] if so.strip() else []
    if rc != 0 or len(wouts) != len(wit):
        chk.broken_obligation("disc-harness", (se or so)[-2500:]); return
    for c, o_ in zip(wit, wouts):
        snaps = o_[1].strip().split(";"); last = snaps[-1].split("|")
        chk.count_case("redirect-regression %s" % ",".join(c[2]), True, "discovery-redirect-regression")
        if not (last[0] == "-" and last[3] == "0" and last[6] == "1"):
            chk.violation({"kind": "discovery-endless-redirect", "items": c[2], "server": "300+ALTERNATE-SERVER to every request of item 0", "rounds": len(c[3]) // 2,
                           "script": " ".join(c[3][:40]) + " ... (answer, tick every %d ms)" % info["TA_DEFAULT"]},
                          "a server (and the servers it names) answering every request of a discovery with 300 + ALTERNATE-SERVER keeps candidate gathering open: %d s after the start "
                          "(proved bound T(%d) = %.3f s) list=%s gathering=%s, %s requests sent, candidate-gathering-done emitted %s times (items %s)"
                          % (len(c[3]) // 2 * info["TA_DEFAULT"] // 1000, len(c[2]), bound_us(info, len(c[2]), info["TA_DEFAULT"] * 1000) / 1e6, "freed" if last[0] == "-" else "alive", last[3], last[4], last[6], ",".join(c[2])))
            return
    if not shape_ok:
        return
    n = 400 if chk.tier == "quick" else 6000
    cases = wit[:2] + [_gen_case(chk.rng, info) for _ in range(n)]
    total = 0
    for lo in range(0, len(cases), 1000):
        part = cases[lo:lo + 1000]
        rcq, out, outs = run_cases(impl, part, info)
        if rcq is None:
            chk.broken_obligation("disc-harness", out); return
        flat = out.replace("\n", " ")
        if rcq == 0 and "(0%nat, None)" in re.sub(r"\s+", " ", flat):
            total += len(part)
            for c in part:
                chk.count_case("disc %d %s" % (len(c[2]), " ".join(c[3])[:200]), True, "discovery-script")
        else:
            chk.broken_obligation("correspondence:discovery", "DiscoveryModel and agent/discovery.c + agent/conncheck.c disagree (first differing case / step / model snapshot / implementation snapshot):\n" + out[-2500:])
            # implementation-side oracles, independent of the model: completion signalled at most once; no transmission, no candidate after completion
            for c, o_ in zip(part, outs):
                prev = None
                for k, s_ in enumerate(o_[1].strip().split(";")):
                    f = s_.split("|")
                    if int(f[6]) > 1:
                        chk.violation({"kind": "discovery", "case": " ".join(c[3]), "items": c[2]}, "candidate-gathering-done emitted %s times in one gathering run" % f[6]); return
                    if prev and prev[0] == "-" and (f[4] != prev[4] or f[5] != prev[5]):
                        chk.violation({"kind": "discovery", "case": " ".join(c[3]), "items": c[2]}, "a request was sent / a candidate added after gathering completed (step %d)" % k); return
                    prev = f
            return
    chk.cov["traces_validated_against_impl"] += total
