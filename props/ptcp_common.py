"""Generators and implementation-side oracles shared by the pseudo-TCP checks (C08, C09, C10).
One case = one program line for harness/ptcp_h.c / ocaml/ptcp_driver.ml (ops documented in ptcp_h.c)."""
import re, struct
import vlib

DRIVER = ["zutil_z.ml.in", "zutil_big.ml.in", "zutil_hex.ml.in", "ptcp_driver.ml"]
COQ_TARGETS_COMMON = ["Ptcp/Extract_Ptcp.vo"]


def build_model():
    return vlib.ocaml_build("ptcp_model", "ptcp_model", DRIVER)


def build_impl():
    return vlib.cc("ptcp_h", ["ptcp_h.c"], [], libs=())


def prebuild():
    m, o = build_model()
    return None if m else o


def gen_data(n, seed, base):
    return bytes(((seed * 31 + (base + i) * 7 + ((base + i) >> 8)) & 0xff) for i in range(n))


def cfg(rng, kind):
    rb = rng.choice([0, 0, 1024, 2000, 4096, 16384, 65535, 100000, 262144, 1048576]) if kind != "plain" else 0
    sb = rng.choice([0, 0, 1024, 4096, 30000, 200000]) if kind != "plain" else 0
    nd = rng.choice([1, 1, 0])
    ad = rng.choice([100, 100, 0, 1, 250, 500])
    fa = rng.choice([1, 1, 1, 0])
    ws = rng.choice([1, 1, 0])
    return "%d:%d:%d:%d:%d:%d" % (rb, sb, nd, ad, fa, ws)


def gen_straddle(rng, i):
    """honest network, partially accepted segment retransmitted whole: small receive buffer, stalled reader, the window update and the ACK of the
    partial acceptance are lost, the sender closes (its FIN flush ignores the window, see known finding) and later retransmits the whole segment"""
    conv = rng.choice([0, 7, rng.randrange(1 << 32)])
    rb = rng.choice([1024, 1024, 2000, 4096])
    ca = "0:0:1:%d:1:1:%d" % (rng.choice([100, 0]), conv)
    cb = "%d:0:1:%d:1:1:%d" % (rb, rng.choice([100, 0]), conv)
    seed = rng.randrange(1, 250)
    t = 1000
    ops = ["cA", "N", "N", "N"]
    ops.append("sA%d:%d" % (rb + rng.choice([100, 300, 600, 1000, 1284, 2000]), seed))
    ops.append("Q%d" % rng.choice([1, 2]))
    ops.append("rB%d" % rng.choice([100, 200, 400, 700]))
    ops += rng.choice([["X"], ["N"], ["X", "X"], []])
    ops.append("hA1")
    if rng.random() < 0.5:
        for _ in range(rng.randrange(1, 5)):
            ops.append(rng.choice(["N", "N", "X", "X", "D1"]))
    else:
        # the flushed segments arrive out of order, one is lost, others are duplicated by the network, the reader drains in between: the
        # out-of-order list then holds a right-trimmed copy and a later, longer copy of the same segment when the gap is filled
        for _ in range(rng.randrange(4, 16)):
            ops.append(rng.choice(["N", "N", "X", "D1", "D2", "D3", "U0", "U1", "U2", "U3", "rB%d" % rng.choice([500, 1000, 2000, 2000, 4000])]))
    for _ in range(rng.randrange(1, 4)):
        t += rng.choice([300, 1000, 3000, 6000]); ops += ["T%d" % t, "kA"]
        ops += [rng.choice(["N", "N", "X"]) for _ in range(rng.randrange(1, 4))]
        if rng.random() < 0.4:
            ops.append("rB%d" % rng.choice([50, 300, 1000]))
    ops += ["Q6", "rB200000", "rA200000", "Q4", "rB200000", "hB1", "Q6", "rA200000", "rB200000", "nA0", "nB0"]
    return "p%d %s %s %s" % (i, ca, cb, " ".join(ops)), "straddle"


def gen_finflush(rng, i):
    """honest network: the sender writes two to three receive buffers' worth and closes at once (its FIN flush puts everything on the wire, window or
    not), the segments are reordered, lost and duplicated by the network while the reader drains now and then: segments that only partly fit are
    saved right-trimmed, their duplicates later in full, and the out-of-order list is recovered over both when the gap is filled"""
    conv = rng.choice([0, 7, rng.randrange(1 << 32)])
    rb = rng.choice([2000, 3000, 4000, 4096, 5000])
    ca = "0:0:1:%d:1:1:%d" % (rng.choice([100, 0]), conv)
    cb = "%d:0:1:%d:1:1:%d" % (rb, rng.choice([100, 0]), conv)
    ops = ["cA", "N", "N", "N", "sA%d:%d" % (rng.choice([2, 3]) * rb + rng.choice([0, 500, 1000]), rng.randrange(1, 250)), "hA1"]
    for _ in range(rng.randrange(6, 22)):
        ops.append(rng.choice(["N", "N", "N", "X", "D1", "D2", "U0", "U1", "U2", "rB2000", "rB1000", "rB4000"]))
    t = 1000
    for _ in range(rng.randrange(1, 4)):
        t += rng.choice([300, 1000, 3000]); ops += ["T%d" % t, "kA"] + [rng.choice(["N", "N", "U0", "U1", "rB2000"]) for _ in range(rng.randrange(1, 6))]
    ops += ["Q6", "rB200000", "Q6", "rB200000", "hB1", "Q6", "rA200000", "rB200000", "nA0", "nB0"]
    return "f%d %s %s %s" % (i, ca, cb, " ".join(ops)), "finflush"


def gen_early(rng, i):
    """data that overtakes the connect segment: simultaneous open (or a passive side that answers and is established by the next segment), the
    connect segment of the side that becomes established first is lost, the data it sends straight away arrives at a peer still in
    SYN-SENT / LISTEN; the connect segment is retransmitted later. Honest network (loss and reordering only)."""
    conv = rng.choice([0, 7, rng.randrange(1 << 32)])
    ca = cfg(rng, "config") + ":%d" % conv
    cb = cfg(rng, "config") + ":%d" % conv
    seed = rng.randrange(1, 250)
    t = rng.choice([1000, 1000, 4294967295 - rng.randrange(0, 5000)])
    ops = ["T%d" % t, "cA", "cB", "N", rng.choice(["X", "X", "X", "U0"])]
    ops.append("sB%d:%d" % (rng.choice([1, 100, 1277, 1284, 3000, 8000, 30000]), seed))
    for _ in range(rng.randrange(1, 8)):
        ops.append(rng.choice(["N", "N", "N", "D1", "D2", "X"]))
    if rng.random() < 0.5:
        ops.append("sA%d:%d" % (rng.choice([1, 100, 3000]), seed))
    for _ in range(rng.randrange(1, 5)):
        t = (t + rng.choice([250, 300, 1000, 3000])) % (1 << 32) or 1
        ops += ["T%d" % t, "kB", "kA"] + [rng.choice(["N", "N", "N", "D1", "X"]) for _ in range(rng.randrange(1, 6))]
        if rng.random() < 0.4:
            ops.append("r%s%d" % (rng.choice("AB"), rng.choice([10, 1000, 200000])))
    ops += ["Q6", "rA200000", "rB200000", "Q6", "rA200000", "rB200000", "hA1", "Q4", "rB200000", "hB1", "Q6", "rA200000", "rB200000", "nA0", "nB0"]
    return "e%d %s %s %s" % (i, ca, cb, " ".join(ops)), "early"


def gen_heal(rng, i):
    """C09: an established connection, a total outage of 0..120 s (every packet lost, readers stalled, clocks served), then a network
    that delivers everything and readers that keep reading for 150 s, then a graceful close on both sides"""
    conv = rng.choice([0, 7, rng.randrange(1 << 32)])
    ca = cfg(rng, "config") + ":%d" % conv
    cb = cfg(rng, "config") + ":%d" % conv
    t = rng.choice([1000, 1000, 4294967295 - rng.randrange(0, 150000)])
    ops = ["T%d" % t, "cA", "N", "N", "N", "Q1"]
    seed = rng.randrange(1, 250)
    for _ in range(rng.randrange(1, 4)):
        ops.append("s%s%d:%d" % (rng.choice("AB"), rng.choice([1, 100, 1284, 5000, 30000]), seed))
    ops += ["Q2", "rA200000", "rB200000"]
    t = (t + 750) % (1 << 32) or 1
    for _ in range(rng.randrange(1, 3)):
        ops.append("s%s%d:%d" % (rng.choice("AB"), rng.choice([1, 100, 3000, 20000]), seed))
    dur = rng.choice([0, 500, 3000, 14000, 16000, 31000, 45000, 70000, 119000])
    el = 0
    while el < dur:
        st = rng.choice([250, 1000, 1000, 4000, 16000]); el += st; t = (t + st) % (1 << 32) or 1
        ops += ["T%d" % t, "kA", "kB", "Z"]
    # healed network, both readers read once per 10 s round: 60 s for the back-off ceiling, then at most one receive buffer per round and
    # direction can be handed over, so the number of rounds follows the amount of data (the property's bound: "the retransmission back-off
    # ceiling and the amount of data"); a fixed 150 s was too short for 20 000 bytes into a 2000-byte buffer (false alarm under VERIF_SEED=2)
    tot = {"A": 0, "B": 0}
    for o in ops:
        if o[0] == "s":
            tot[o[1]] += int(o[2:].split(":")[0])
    rbuf = {"A": int(ca.split(":")[0]) or 61440, "B": int(cb.split(":")[0]) or 61440}
    rounds = 15 + max(2 * tot["B"] // rbuf["A"], 2 * tot["A"] // rbuf["B"])
    for _ in range(rounds):
        ops += ["Q40", "rA200000", "rB200000"]
    # every segment that was in flight when the outage began is a retransmission: Karn's rule keeps the backed-off RTO (up to the 60 s ceiling) until
    # a segment sent once is acknowledged, and each of them waits for its own time-out - one more minute per segment of data (the property's bound is
    # "the back-off ceiling and the amount of data"; 3 of 20000 thorough-tier programs needed it)
    for _ in range(2 + max(tot["A"], tot["B"]) // 1284):
        ops += ["Q240", "rA200000", "rB200000"]
    # after the close the readers keep reading in rounds of 60 s (the back-off ceiling: data flushed past a closed window at close time is
    # retransmitted with whatever RTO the outage left behind; 20 s were too few, false alarm under VERIF_SEED=5)
    # the graceful close, for half of the cases with data written immediately before it (still unacknowledged when the FIN is queued: Nagle)
    # (FIN-ACK on both sides only: without it a close tears the connection down at once and nothing written later is owed to anybody)
    finack = ca.split(":")[4] == "1" and cb.split(":")[4] == "1"
    pre = lambda w: ["s%s%d:%d" % (w, rng.choice([1, 100, 1000, 3000]), seed)] if finack and rng.random() < 0.5 else []
    ops += pre("A") + ["hA1", "Q8", "rB200000"] + pre("B") + ["hB1", "Q8", "rA200000", "rB200000"] + ["Q240", "rA200000", "rB200000"] * 8 + ["nA0", "nB0"]
    return "h%d %s %s %s" % (i, ca, cb, " ".join(ops)), "heal"


def gen_case(rng, i, kinds):
    kind = rng.choice(kinds)
    if kind == "straddle":
        return gen_straddle(rng, i)
    if kind == "finflush":
        return gen_finflush(rng, i)
    if kind == "heal":
        return gen_heal(rng, i)
    if kind == "early":
        return gen_early(rng, i)
    conv = rng.choice([0, 7, 0xffffffff, rng.randrange(1 << 32)])
    ca = cfg(rng, kind) + ":%d" % conv
    cb = cfg(rng, kind) + ":%d" % (conv if kind != "foreign" or rng.random() < 0.3 else (conv + 1) % (1 << 32))
    ops = []
    t = 1000
    if kind == "wrap":
        t = 4294967295 - rng.randrange(0, 20000)
        ops.append("T%d" % t)

    def tick(dt=None):
        nonlocal t
        t = (t + (dt if dt is not None else rng.choice([1, 10, 50, 100, 101, 250, 1000, 1001, 4000, 16000]))) % (1 << 32)
        if t == 0:
            t = 1
        ops.append("T%d" % t)
    ops += ["cA", "N", "N", "N"] if rng.random() < 0.9 else ["cA", "cB", "N", "N", "N", "N"]
    seed = rng.randrange(1, 250)
    n = rng.randrange(5, 60)
    closed = False
    for _ in range(n):
        r = rng.random()
        w = rng.choice("AB")
        if r < 0.22:
            ops.append("s%s%d:%d" % (w, rng.choice([1, 10, 100, 180, 181, 1000, 1284, 1285, 3000, 8000, 30000, 70000, rng.randrange(1, 5000)]), seed))
        elif r < 0.36:
            ops.append("r%s%d" % (w, rng.choice([0, 1, 10, 100, 1000, 4096, 65536, 200000])))
        elif r < 0.62:
            ops.append(rng.choice(["N", "N", "N", "N", "X", "D%d" % rng.randrange(8), "U%d" % rng.randrange(6)]))
        elif r < 0.72:
            tick(); ops.append("k" + w)
            if rng.random() < 0.5:
                ops.append("k" + ("B" if w == "A" else "A"))
        elif r < 0.76:
            ops.append("n%s%d" % (w, rng.choice([0, 0, t + 10, t + 100000, 1])))
        elif r < 0.80 and kind in ("config", "mtu"):
            ops.append(rng.choice(["m%s%d" % (w, rng.choice([296, 297, 508, 1400, 1500, 9000, 65535, 1006, 4352])),
                                   "l%s%d" % (w, rng.choice([65535, 1500, 1006, 508, 296]))]))
        elif r < 0.86 and kind in ("hostile", "foreign"):
            ops.append(hostile_op(rng, w, conv))
        elif r < 0.90:
            ops.append("h%s%d" % (w, rng.choice([0, 1, 1, 2])))
        elif r < 0.92:
            ops.append("x%s%d" % (w, rng.choice([0, 0, 1])))
        else:
            ops.append("Q%d" % rng.randrange(1, 4))
    if kind in ("session", "plain", "config", "wrap", "zero-window") and rng.random() < 0.8:
        # graceful end: drain, close both sides, read everything
        ops += ["Q6", "rB200000", "rA200000", "hA1", "Q4", "rB200000", "hB1", "Q6", "rA200000", "rB200000", "nA0", "nB0"]
    return "p%d %s %s %s" % (i, ca, cb, " ".join(ops)), kind


def hostile_op(rng, w, conv):
    r = rng.random()
    if r < 0.12:
        # a recent packet re-delivered with its sequence number moved back: a segment that straddles rcv_nxt (partially duplicate data)
        return "j%s%d:4~%d" % (w, rng.randrange(0, 16), rng.choice([1, 2, 10, 100, 180, 500, 1000, 1283]))
    if r < 0.18:
        # an ACK whose timestamp echo is zero and whose window shrinks (a foreign implementation, or a clock reading 0)
        return "j%s%d:20=0,21=0,22=0,23=0,14=%d,15=%d" % (w, rng.randrange(0, 12), rng.choice([0, 0, 1, 4]), rng.choice([0, 1, 100, 255]))
    if r < 0.35:
        # mutate a recent packet: header field offsets 0-3 conv, 4-7 seq, 8-11 ack, 13 flags, 14-15 wnd, 16-23 ts, 24.. data/options
        muts = []
        for _ in range(rng.randrange(1, 4)):
            off = rng.choice([0, 3, 4, 5, 6, 7, 8, 9, 10, 11, 12, 13, 13, 14, 15, 16, 20, 24, 25, 26, 27, 28, 29, 30])
            val = rng.choice([0, 1, 2, 3, 4, 6, 7, 14, 15, 32, 127, 128, 200, 254, 255, rng.randrange(256)])
            muts.append("%d=%d" % (off, val))
        return "j%s%d:%s" % (w, rng.randrange(0, 12), ",".join(muts))
    n = rng.choice([0, 1, 4, 12, 16, 23, 23, 24, 25, 28, 31, 40, 100, rng.randrange(0, 200)])
    b = bytearray(rng.randrange(256) for _ in range(n))
    if 4 <= n < 24 and rng.random() < 0.85:
        # a datagram cut short inside the header, with the right conversation number (both entry points must drop it: the agent hands
        # datagrams over as a 24-byte header buffer plus a body buffer, whose length would be negative here)
        b[0:4] = struct.pack(">I", conv)
    if n >= 24 and rng.random() < 0.9:
        b[0:4] = struct.pack(">I", conv if rng.random() < 0.85 else rng.randrange(1 << 32))
        b[12] = 0
        b[13] = rng.choice([0, 0, 1, 2, 4, 3, 5, 6, 7, rng.randrange(256)])
        if rng.random() < 0.5:
            b[4:8] = struct.pack(">I", rng.choice([0, 7, 8, 307, 0x7fffffff, 0x80000000, 0xffffffff, rng.randrange(1 << 32)]))
            b[8:12] = struct.pack(">I", rng.choice([0, 7, 8, 307, 0x7fffffff, 0x80000000, 0xffffffff, rng.randrange(1 << 32)]))
        if b[13] & 2 and n > 24:
            # control segment: connect with a hostile option list
            b[24] = 0
            opts = bytearray()
            for _ in range(rng.randrange(0, 4)):
                k = rng.choice([0, 1, 2, 3, 3, 254, 77])
                if k in (0, 1):
                    opts.append(k)
                else:
                    ol = rng.choice([0, 1, 1, 2, 40, 255])
                    opts += bytes([k, ol]) + bytes(rng.choice([0, 1, 14, 15, 31, 32, 200, 255]) for _ in range(min(ol, 3)))
            if rng.random() < 0.3:
                opts.append(rng.choice([2, 3, 77, 254]))       # a dangling option kind as the very last byte: its length byte lies outside the packet
                b = b[:25] + opts                               # exactly sized: the packet ends with the option list
            else:
                b[25:] = opts[:max(0, n - 25)]
    return "i%s%s" % (w, bytes(b).hex() if b else "-")


# ------------------------------------------------------------------ output parsing
TOK = re.compile(r"\[[^\]]*\]|\S+")
SUM_FIELDS = ["state", "snd_una", "snd_nxt", "rcv_nxt", "snd_wnd", "rcv_wnd", "cwnd", "ssthresh", "rx_rto", "rto_base", "t_ack",
              "dup_acks", "mss", "sbuf", "rbuf", "nslist", "flags3", "swnd_scale", "rbuf_len", "rbuf_cap"]
RECV_FIN_STATES = {4, 7, 8, 9, 10}


def parse_out(out):
    """list of (op token, [events], [summaries])"""
    toks = TOK.findall(out)[1:]
    res = []
    for t in toks:
        if t.startswith("["):
            f = t[1:-1].split()
            res[-1][2].append(dict(zip(SUM_FIELDS, [int(x) if x.isdigit() else x for x in f])))
        elif re.match(r"^(P\d+=|O$|R$|W$|C\d+$)", t):
            res[-1][1].append(t)
        else:
            res.append((t, [], []))
    return res


ZERO_WINDOW_ABORT = ("zero-window probing gave up (ECONNABORTED) after 15 s without any segment from the peer, although the network delivered "
                     "everything again later and the reader kept reading")


def oracle(line, out, want=("C08", "C09", "C10"), want_window_sink=None):
    """Implementation-side oracles for the pseudo-TCP properties."""
    t = line.split()
    cfgs = [t[1].split(":"), t[2].split(":")]
    ops = t[3:]
    res = parse_out(out)
    if any("ABORT" in r[0] for r in res):
        return "an internal assertion of pseudotcp.c was reached (abort)" if "C10" in want or "C08" in want else None
    if len(res) != len(ops):
        return None
    same_conv = cfgs[0][6] == cfgs[1][6]
    written = [b"", b""]           # bytes accepted by send, per writer
    read = [b"", b""]              # bytes returned by recv, per reader
    wtotal = [0, 0]
    err_closed = [False, False]    # an error closure was reported to the owner (Closed callback)
    reads_shut = [False, False]    # the owner called shutdown(RD), shutdown(RDWR) or close
    graceful = [None, None]        # number of bytes written before the side's graceful shutdown(WR)/close
    hostile = any(o[0] in "ij" for o in ops) or not same_conv
    last_sum = [None, None]
    first_close = None
    last_nxt = [0, 0]
    wviol = want_window_sink if want_window_sink is not None else []
    now = 1000
    rbuf_len = [int(c[0]) or 61440 for c in cfgs]
    for op, (tok, evs, sums) in zip(ops, res):
        k = op[0]
        w = 1 if len(op) > 1 and op[1] == "B" else 0
        # first error closure of the run: zero-window probing that gives up after 15 s of silence?
        if first_close is None and any(re.match(r"^C\d+$", e) for e in evs):
            ce = [e for e in evs if re.match(r"^C\d+$", e)][0]
            prev = last_sum[w] if k in "csrhxknmlij" else None
            if k == "Q":
                # clocks served inside a composite round: the closing socket is not attributable, the condition of the known give-up is that a
                # sender was facing a closed window when the round began
                zw = [ls for ls in last_sum if ls and ls["snd_wnd"] == 0]
                prev = zw[0] if zw else None
            first_close = (ce, k, prev["snd_wnd"] if prev else None)
        if k in "csrhxknmlij" and sums:
            last_sum[w] = sums[-1]
            if "C09" in want and not hostile:
                # the window a socket advertises is its receive window shifted by its scale factor: with 64 KiB or more free the 16-bit field
                # cannot be zero (a zero there would stall the peer into zero-window probing - the known 15 s give-up must not mask that)
                for e in evs:
                    m = re.match(r"^P\d+=([0-9a-f]{48}):", e)
                    if m and int(m.group(1)[28:32], 16) == 0 and sums[-1]["rcv_wnd"] >= 65536 and sums[-1]["state"] in (2, 3):
                        return "a socket with %d bytes of receive window free advertised a zero window (%s)" % (sums[-1]["rcv_wnd"], e[:60])
        elif k == "Q" and len(sums) == 2:
            last_sum = [sums[0], sums[1]]
        if k == "T":
            now = int(op[1:])
        if k == "Q":
            now += 250 * int(op[1:])
        if k == "s":
            ln, seed = map(int, op[2:].split(":"))
            r = int(tok.split("=")[1].split(":")[0])
            if r > 0:
                written[w] += gen_data(r, seed, wtotal[w]); wtotal[w] += r
                if r > ln:
                    return "send accepted %d of %d bytes" % (r, ln)
        # Closed callbacks are attributed by the summaries that follow them: find which socket the op ran on
        if sums:
            who = None
            if k in "csrhxknmlij":
                who = w
            elif k in "NDU" and "=" in tok:
                who = None   # addressee unknown here; handled through the Q/N summaries below
            for e in evs:
                if e.startswith("C") and who is not None:
                    err_closed[who] = True
        if k in "NDUQ":
            # a Closed event during delivery: conservatively mark both (only weakens the EOS clause)
            if any(e.startswith("C") for e in evs):
                err_closed = [True, True]
        if k in "hx":
            if k == "x" or int(op[2:]) in (0, 2):
                reads_shut[w] = True
        if k in "hx" and ("C08" in want or "C09" in want):
            how = int(op[2:])
            if (k == "h" and how in (1, 2)) or (k == "x" and how == 0):
                if graceful[w] is None:
                    graceful[w] = len(written[w])
            if k == "x" and how == 1:
                err_closed = [True, True]     # forced close: RST, no EOS guarantee for the peer
        if k == "r":
            parts = tok.split("=")[1].split(":")
            r = int(parts[0]); data = bytes.fromhex(parts[2]) if len(parts) > 2 and parts[2] != "-" else b""
            n = int(op[2:])
            if r > 0:
                read[w] += data
                if "C08" in want and not hostile:
                    src = written[1 - w]
                    if read[w] != src[:len(read[w])]:
                        return "bytes read by %s are not a prefix of the bytes written by its peer (after %d bytes)" % ("AB"[w], len(read[w]) - r)
            if r == 0 and n > 0 and "C08" in want and not hostile and not err_closed[w] and cfgs[w][4] == "1" and cfgs[1 - w][4] == "1":
                # end of stream: every byte written before the peer's graceful close must have been read,
                # unless this side shut its own reading down
                # (whether the reader shut its own reading down is taken from the calls it made, not from the socket's flag: a shutdown(WR)
                # that also sets shutdown_reads must not excuse the early end-of-stream it causes)
                if not reads_shut[w]:
                    g = graceful[1 - w]
                    if g is None:
                        return "end-of-stream reported to %s although its peer never closed" % "AB"[w]
                    if len(read[w]) < g:
                        return "end-of-stream reported to %s after %d of %d bytes written before the peer's graceful close" % ("AB"[w], len(read[w]), g)
        for sm in sums:
            if "C10" in want and isinstance(sm.get("rbuf_len"), int) and isinstance(sm.get("rbuf_cap"), int) and sm["rbuf_len"] != sm["rbuf_cap"]:
                return ("the receive-buffer size the socket works with (rcv-buf, window arithmetic: %d) differs from the capacity of its receive FIFO (%d): "
                        "the advertised window no longer describes the space that exists" % (sm["rbuf_len"], sm["rbuf_cap"]))
            if "C10" in want:
                if isinstance(sm.get("rbuf"), int) and sm["rbuf"] > max(rbuf_len) * 2 + 70000:
                    return "receive buffer holds %d bytes" % sm["rbuf"]
        if k == "n" and "C09" in want:
            v = tok.split("=")[1]
            st = sums[-1]["state"] if sums else None
            if v == "F":
                if st is not None and st != 4 and cfgs[w][4] == "1" and sums[-1]["flags3"] and str(sums[-1]["flags3"]).zfill(3)[1] == "0":
                    return "get_next_clock names no deadline although the socket is not closed (state %s)" % st
            else:
                dl = int(v)
                if st is not None and st != 4 and not (dl <= (now + 4000) % (1 << 33) or dl <= now + 60000 and st == 4):
                    if dl > now + 4000:
                        return "next deadline %d is more than 4000 ms after now %d" % (dl, now)
        if "C10W" in want and sums and not hostile:
            # new data must end at or before snd_una + snd_wnd (values after the op: the ACK processing that updates
            # them precedes the sending inside one call).  Retransmissions and zero-length segments are exempt.
            emit_sum = {}
            if k in "csrhxknm":
                emit_sum[w] = sums[-1]
            elif k == "Q" and len(sums) == 2:
                emit_sum = {0: sums[0], 1: sums[1]}
            for e in evs:
                if not e.startswith("P"):
                    continue
                hdr, ln, _dg = e.split("=")[1].split(":")
                ln = int(ln); seq = int(hdr[8:16], 16); flags = int(hdr[26:28], 16)
                if ln == 0 or flags & 2:
                    continue
                for who, sm in emit_sum.items():
                    if k in "csrhxknm" and who != w:
                        continue
                    if k == "Q":
                        continue     # emitter not attributable inside a composite op
                    prev_nxt = last_nxt[who]
                    is_new = ((seq + ln - prev_nxt) % (1 << 32)) < (1 << 31) and (seq + ln - prev_nxt) % (1 << 32) != 0 if prev_nxt is not None else True
                    over = ((seq + ln) - (sm["snd_una"] + sm["snd_wnd"])) % (1 << 32)
                    if is_new and 0 < over < (1 << 31):
                        fin_ctx = k in "hx" or sm["state"] in (5, 7, 8, 10, 4)
                        wviol.append({"kind": "window-exceeded", "fin_flush": bool(fin_ctx), "op": op, "seq": seq, "len": ln,
                                      "snd_una": sm["snd_una"], "snd_wnd": sm["snd_wnd"]})
        for sm_i, sm in enumerate(sums):
            pass
        if sums and k in "csrhxknmlij":
            last_nxt[w] = sums[-1]["snd_nxt"]
        elif k == "Q" and len(sums) == 2:
            last_nxt = [sums[0]["snd_nxt"], sums[1]["snd_nxt"]]
        elif k in "NDU" and sums:
            pass
        if not same_conv and k in "NDU" and "C10" in want:
            # packets of a foreign conversation change nothing and produce nothing
            if tok.endswith("=1") or any(e.startswith("P") for e in evs):
                return "a packet with a foreign conversation number was processed"
    if "C09" in want and t[0].startswith("h") and not hostile:
        # the network healed for 150 s with both readers reading: everything written must have arrived, and no error closure
        if any(err_closed):
            if first_close and first_close[0] == "C103" and first_close[1] in ("k", "Q") and first_close[2] == 0:
                return ZERO_WINDOW_ABORT
            return "an error closure was reported although the outage lasted at most 120 s and the network then delivered everything"
        if cfgs[0][4] == "1" and cfgs[1][4] == "1" and all(g is not None for g in graceful) and all(ls is not None for ls in last_sum):
            for w in (0, 1):
                if last_sum[w]["state"] not in (4, 8):
                    return ("both sides closed gracefully on a network that delivers everything, yet 8 minutes later socket %s is in state %s (not CLOSED / TIME-WAIT) "
                            "and no error closure was reported" % ("AB"[w], last_sum[w]["state"]))
        for w in (0, 1):
            if read[w] != written[1 - w]:
                return "%d of the %d bytes written by %s were readable after the network had healed (150 s plus two 10 s reading rounds per receive buffer of data)" % (len(read[w]), len(written[1 - w]), "AB"[1 - w])
    return None

def nontrivial(line, out):
    return out is not None and " O" in out


TRUSTED = [
    "hand-written bit-exact model coq/Ptcp/PtcpModel.v of agent/pseudotcp.c (state machine, FIFOs, queues, RTT/RTO, congestion control, "
    "NewReno, delayed ACKs, FIN-ACK, options, MTU steps), tied on every run by differential execution: extracted model (ExtrOcamlBasic only, "
    "Z inductive) vs harness/ptcp_h.c which #includes /repo's pseudotcp.c (ASan+UBSan, virtual clock via pseudo_tcp_socket_set_time); every "
    "emitted packet (header bytes, payload length + digest), return value, callback and a 20-field digest of the private state are compared",
    "coq-record-update (RecordSet) for record updates in the model; OCaml 4.13.1; gcc 12",
    "not modelled: the real clock (time 0 selects it), GObject property plumbing, WR_FAIL from the write callback (only WR_TOO_LARGE via a size "
    "limit), notify_message (two-buffer variant), MTU values below 296",
]


def run_ptcp(chk, props_v, kinds, want, nq, nt, what):
    chk.prove([props_v], COQ_TARGETS_COMMON)
    model, o = build_model()
    if not model:
        chk.broken_obligation("extract-build", o[-2000:])
    impl, o = build_impl()
    if not impl:
        chk.broken_obligation("impl-build", o[-3000:])
    if not impl:
        return
    n = nq if chk.tier == "quick" else nt
    cases = CORPUS + [gen_case(chk.rng, i, kinds) for i in range(n)]
    wv = []

    def orc(line, out):
        sink = []
        r = oracle(line, out, want, sink)
        for v in sink[:1]:
            v["case"] = line
            wv.append(v)
        return r
    # fresh heap memory reads as zero in the harness (ASan fills it with 0xbe otherwise): the model reads positions of the receive FIFO that were never
    # written as zero, the real FIFO hands out whatever malloc left there - which only a hostile segment can make visible (the out-of-order list then
    # claims bytes that were never stored; recorded in DESIGN 9.6); with a zero fill the two agree and every other difference still shows
    env = {"ASAN_OPTIONS": "detect_leaks=0:abort_on_error=0:allocator_may_return_null=1:malloc_fill_byte=0:max_malloc_fill_size=268435456"}
    vlib.correspond(chk, cases, model or impl, impl, oracle=orc, what=what if model else what + "-oracle-only", nontrivial=nontrivial, timeout=1500, env=env)
    seen = set()
    for v in wv:
        key = (v["fin_flush"],)
        if key in seen:
            continue
        seen.add(key)
        chk.violation(v, "pseudo-TCP transmitted new data beyond the window advertised to it: seq %d len %d, snd_una %d snd_wnd %d (%s)\n case: %s"
                      % (v["seq"], v["len"], v["snd_una"], v["snd_wnd"], "FIN flush" if v["fin_flush"] else "ordinary send", v["case"][:600]))


# minimised triggers of the defects found so far; they run first
CORPUS = [
    # premature end-of-stream: FIN out of order + duplicate of an old segment whose length equals the gap
    ("k0 0:0:1:100:1:1:7 0:0:1:100:1:1:7 cA N N N sA100:5 N sA100:5 X hA1 N U1 rB1000 rB1000", "corpus"),
    # window scale 200 from the peer, then an ACK
    ("k1 0:0:1:100:1:1:7 0:0:1:100:1:1:7 cA iA0000000700000000000000000002f000000003e800000000000301c8fe0100 N N sA100:5 N N", "corpus"),
    # FIN flush beyond the window (known finding)
    ("k2 0:0:1:100:1:1:7 1024:0:1:100:1:1:7 cA N N N sA3000:5 hA1", "corpus"),
    # shutdown while the write callback rejects everything
    ("k3 0:0:1:100:1:1:7 0:0:1:100:1:1:7 cA N N N lA30 sA100:9 hA1 Q2 lB30 hB1 Q1", "corpus"),
    # a connect segment without window-scale option once more than 60 KiB sit in a scaled receive buffer (fix 4e3dfae: was an assertion)
    ("k5 1048576:0:1:0:0:1:4294967295 262144:0:0:250:1:1:4294967295 cA N N N sB100:249 T1050 kA T1100 kA rB10 iAffffffff4a4b8764000000080000f016fe8b0b8703c22000b52016e7916f2f5e1f454613c2a260926970b520dac8bd330eb5b815e16357e1f345d7c0d1537c272b44e2a4135261e8c208e91b619c8dd0e690dfd49b76d5cb6188fdda5971ca6c27f63c2e rA0 U4 sB70000:249 N xB0 Q2 D2 U0 U3 T5100 kB D1 T9100 kA kB hA2 jA13:4~1000 Q2 X iAffffffffdccc4675b73f8e930003bce00dcb8b72b43fb85d0001 N", "corpus"),
    ("k6 1048576:0:1:0:0:1:7 0:0:1:100:1:1:7 cA N N N sB70000:5 Q3 iA0000000700000000000000000002100000000000000000000001 Q1 rA200000", "corpus"),
    # LAST-ACK: clock notifications, then an ACK two past the send buffer (fix 228ddd4: a new FIN was queued on every notification)
    ("k7 0:0:1:100:1:1:7 0:0:1:100:1:1:7 cA N N sA10:1 N rB10 hA1 N N hB1 T2000 kB T3000 kB iB0000000700000012000000090000f00000000bb800000000", "corpus"),
    # hostile segments make the out-of-order list claim bytes that were never stored: recv hands out never-written FIFO positions (zero in the model)
    ("k8 100000:4096:1:500:0:1:7 1048576:200000:0:250:1:1:7 cA N N N iA00000007e7614c6a65e9380eb17f27b6ab2fc410b5147d sA8000:143 N iAe5 sB180:143 rA200000 X N N X rA0 sA1:143 nA1 N N sA181:143 iA00000007 hA2 rB100 N sA181:143 N sA4163:143 D0 rB1 sB30000:143 T1100 kB X N sA8000:143 N X X iB00000007ffffffff0000000800aa289e188787a30a37d15000 sA1285:143 N N sA3000:143 sA1284:143 sA180:143 jB10:4~2 rB200000", "corpus"),
    # graceful close with the FIN ahead of data the peer's window could not take: the segment that later completes the stream up to the FIN was
    # acknowledged with a DELAYED ack, the socket left TIME-WAIT first, the closer stayed in CLOSING and was reset a minute later (fix 6cefc93)
    ("hK9 2000:30000:1:0:1:1:7 2000:1024:0:500:1:1:7 T1000 cA N N N Q1 sA3000:12 hA1 Q8 rB200000 sB3000:12 hB1 Q8 rA200000 rB200000 " + "Q240 rA200000 rB200000 " * 4 + "nA0 nB0", "corpus"),
    # ACK of our FIN while in NewReno recovery
    ("k4 0:0:0:500:1:1:4294967295 0:0:1:1:0:1:4294967295 cA N N N T1101 kB kA rB100 sB1284:26 Q2 rA1000 X Q2 hB0 T1202 kA kB hA2 sA4543:26 sA1:26 hA1 D0 sB3000:26 U1 N sB4425:26 hB0 X rB0 rA65536 sB1:26 sA1:26 hB2 sB1:26 sB1284:26 T17202 kB kA T33202 kB kA sB2798:26 sB10:26 hB0 sB1284:26 hB2 Q2 N D5 hB2 rA10 N Q1 N X rA0", "corpus"),
]


def replay_ptcp(chk, path):
    import json
    r = json.load(open(path))["replay"]
    impl, o = build_impl()
    rc, so, se = vlib.run_lines(impl, r.get("case", "") + "\n")
    print("impl:", so.strip()[:3000], "\nstderr:", se[-1500:], "\noracle:", oracle(r.get("case", ""), so.strip()))
    return 0
