"""C05 — no byte string makes the STUN message code misbehave."""
import vlib, stun_common as sc

COQ_TARGETS = ["Props/Properties_C05.vo"] + sc.COQ_TARGETS_COMMON
META = dict(
    text='Coq theorems (Props/Properties_C05.v): in the model every buffer access is a checked read and every assert an explicit Fault; proved for ALL byte strings < 2^16, all compat modes/flags/agent states/validaters: the length checks, the vectored pre-check for any split incl. empty buffers, and the whole of stun_agent_validate never fault; every extent a lookup returns lies inside the packet; every typed accessor never faults on a validated message. Runtime residue (usage-level bind/ice/turn processing, reply construction for output sizes 0..1300, silent over-reads) is executed under ASan/UBSan on exactly-sized heap buffers as part of the tie.',
    note='trusted: Coq kernel; extraction (ExtrOcamlBasic only); the hand-written STUN models, tied to stun/*.c by sampling (differential execution under ASan/UBSan), not by proof; Gallina SHA-1/HMAC/MD5/CRC-32 specifications; gnutls; the python oracle. Usage-level functions have no Coq model (ASan exploration only). Uninitialised-variable reads (error_code in stun_agent_validate) are not visible to ASan/UBSan.',
    technique='Coq no-Fault proof over checked-access model + ASan/UBSan differential execution')

FINISH = dict(level="proof", trusted=sc.TRUSTED, rule='programs: hostile byte strings (STUN-like headers, hostile attribute tilings, lengths 0..300), corrupted authentic messages, length-check inputs, vectors with empty buffers; plus usage-level ASan runs (process functions, reply construction with output sizes 0..1300, request builders). non-trivial = passes the first-two-bits test',
              assumptions=["byte strings shorter than 2^16 (uint16 length arithmetic of stun_message_length wraps beyond)", "bytes are 0..255"])

KINDS = "hostile,auth,lenchk,resp,split-exhaustive".split(",")
pregen = sc.pregen
prebuild = sc.prebuild


def usage_cases(rng, n):
    import stun_gen as g
    cs = []
    for i in range(n):
        compat, flags = sc.pick_cfg(rng)
        user = rng.choice([b"ab:cd", b"ab:cd", b"x" * 40 + b":y", b"u" * 120 + b":" + b"v" * 79]); key = b"pw"
        r = rng.random()
        if r < 0.4:
            m = sc.valid_msg(rng, compat, flags, cls=rng.choice([0, 2, 3]), method=rng.choice([1, 3, 4, 8]), key=key if rng.random() < 0.7 else None,
                             user=user, realm=b"realm" if flags & g.F_LONG else None, nattr=rng.randrange(0, 4)).raw()
            b = m if rng.random() < 0.6 else sc.mutate(rng, m)
        else:
            b = g.unhx_case = None
            line, _k = sc.gen_case(rng, i, ["hostile"])
            b = bytes.fromhex(line.split()[-1]) if line.split()[-1] != "-" else b""
        cap = rng.choice([0, 1, 19, 20, 24, 28, 44, 60, 64, 80, 100, 120, 160, 200, 235, 236, 300, 576, 1280, 1300, rng.randrange(0, 1301)])
        cs.append(("u%d %d %d %d %d %d %s %s" % (i, compat, flags, rng.randrange(0, 4), rng.randrange(0, 5), cap,
                                              sc.vtable([(user, key), (b"", b"x")]), g.hx(b)), "usage"))
    return cs


def usage_oracle(line, out):
    if "ABORT" in out:
        return "an internal assertion / abort() was reached in a usage-level function"
    cap = int(line.split()[5])
    if " rm=0" in out:
        return "the reply's mapped address does not read back as the source address it was built from"
    if " ru=0" in out:
        return "the reply reported as complete does not echo the request's USERNAME"
    if " rw=0" in out or " uw=0" in out:
        return "a reply builder reported a length for bytes that are not a complete well-formed STUN message (%s)" % " ".join(w for w in out.split() if w.startswith(("rp=", "rw=", "ue=", "uw=")))
    for w in out.split():
        if w.startswith(("rp=", "ue=", "tc=", "tr=")):
            n = int(w.split("=")[1].split(":")[-1])
            if n > cap:
                return "a builder reported %d bytes for a %d-byte output buffer (%s)" % (n, cap, w)
        if w.startswith("c="):
            for x in w[2:].split(","):
                if int(x) > cap:
                    return "a request builder reported %s bytes for a %d-byte buffer" % (x, cap)
    return None


def extra(chk):
    impl, o = vlib.cc("stun_usage_h", ["stun_usage_h.c"], vlib.STUN_SRCS)
    if not impl:
        chk.broken_obligation("impl-build-usage", o[-2000:])
        return
    cases = usage_cases(chk.rng, 1500 if chk.tier == "quick" else 60000)
    vlib.correspond(chk, cases, impl, impl, oracle=usage_oracle, what="stun-usage-asan")


def run(chk):
    sc.run_stun(chk, "Props/Properties_C05.v", KINDS, ("C05",), 3000, 200000, "stun-C05")
    extra(chk)
    return chk.finish(**FINISH)


def replay(chk, path):
    return sc.replay_stun(chk, path)
