"""C09 — pseudo-TCP (see DESIGN.md §3 C09)."""
import vlib, ptcp_common as pc

COQ_TARGETS = ["Props/Properties_C09.vo"] + pc.COQ_TARGETS_COMMON
META = dict(
    text='proof (partial): Coq theorems: while the socket is not CLOSED and no legacy shutdown is pending, get_next_clock returns a deadline at most 4000 ms after now (1 ms in TIME-WAIT) and leaves the state untouched, for every state and every timeout argument (no 32-bit wrap of now+4000 assumed in the statement). The error-or-success dichotomy, the armed-timer invariant and the completion bound after healing are NOT proved; the correspondence runs (lossy/duplicating/reordering schedules, zero windows, clock values on both sides of the 2^32 wrap, Nagle, ack delays, buffers 1 KiB..1 MiB, MTU steps) act as counterexample search with a deadline oracle.',
    note='trusted: as C08. Partial: liveness clauses are exploration only. Near the 32-bit clock wrap get_next_clock returns the wrapped 32-bit instant (documented in DESIGN.md as an observation).',
    technique='Coq proof of the deadline clause over executable model (partial) + differential correspondence')

FINISH = dict(level="proof", trusted=pc.TRUSTED, rule='as C08 plus zero-window and MTU-step programs; get_next_clock queried with timeouts 0, past, near, far',
              assumptions=["clock never reports 0 (reserved by the implementation for 'use the real clock')", "MTU advice >= 296"])

KINDS = "session,config,wrap,zero-window,mtu,heal,heal".split(",")
prebuild = pc.prebuild


def run(chk):
    pc.run_ptcp(chk, "Props/Properties_C09.v", KINDS, tuple("C09".split(",")), 700, 30000, "ptcp-C09")
    return chk.finish(**FINISH)


def replay(chk, path):
    return pc.replay_ptcp(chk, path)
