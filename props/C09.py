"""C09 — pseudo-TCP (see DESIGN.md §3 C09)."""
import vlib, ptcp_common as pc

COQ_TARGETS = ["Props/Properties_C09.vo"] + pc.COQ_TARGETS_COMMON
META = dict(
    text='proof (partial): Coq theorems over the bit-exact model for ALL operation sequences: TIMER-ARMED invariant — in every reachable state with unacknowledged segments in flight the retransmission timer is armed, get_next_clock names it and notify_clock at that instant retransmits or closes with an error; a closed peer window is probed or the connection aborted after 15 s; a pending delayed ACK is flushed; NEVER HANGS SILENTLY — from any reachable state that is not closed and has something outstanding, if no packet arrives and the owner follows the clock interface, the socket is CLOSED with an error event after at most 9216 rounds (explicit decreasing measure, no-wrap hypothesis on the 32-bit clock stated); back-off shape min(cap, rto*2^k) with cap 60 s established / 1 s connecting; a reader that drains a closed window by at least min(rbuf/2, mss) makes the socket send a window update (withheld when Nagle holds back a pending segment: refuted witness, DESIGN 9.6). Completion after the network heals is NOT a theorem. Earlier: while the socket is not CLOSED and no legacy shutdown is pending, get_next_clock returns a deadline at most 4000 ms after now (1 ms in TIME-WAIT) and leaves the state untouched, for every state and every timeout argument (no 32-bit wrap of now+4000 assumed in the statement). The error-or-success dichotomy, the armed-timer invariant and the completion bound after healing are NOT proved; the correspondence runs (lossy/duplicating/reordering schedules, zero windows, clock values on both sides of the 2^32 wrap, Nagle, ack delays, buffers 1 KiB..1 MiB, MTU steps) act as counterexample search with a deadline oracle.',
    note='trusted: as C08. Partial: liveness clauses are exploration only. Near the 32-bit clock wrap get_next_clock returns the wrapped 32-bit instant (documented in DESIGN.md as an observation).',
    technique='Coq proofs of the timer-armed invariant and of silence-implies-error-closure (decreasing measure) over the executable model for all operation sequences (partial) + differential correspondence + healing scenarios with a completion oracle')

FINISH = dict(level="proof", trusted=pc.TRUSTED, rule='as C08 plus zero-window and MTU-step programs; get_next_clock queried with timeouts 0, past, near, far',
              assumptions=["clock never reports 0 (reserved by the implementation for 'use the real clock')", "MTU advice >= 296"])

KINDS = "session,config,wrap,zero-window,mtu,heal,heal".split(",")
prebuild = pc.prebuild


def run(chk):
    pc.run_ptcp(chk, "Props/Properties_C09.v", KINDS, tuple("C09".split(",")), 700, 30000, "ptcp-C09")
    return chk.finish(**FINISH)


def replay(chk, path):
    return pc.replay_ptcp(chk, path)
