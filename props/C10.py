"""C10 — pseudo-TCP (see DESIGN.md §3 C10)."""
import vlib, ptcp_common as pc

COQ_TARGETS = ["Props/Properties_C10.vo"] + pc.COQ_TARGETS_COMMON
META = dict(
    text="proof (partial): Coq theorems: a packet with a different conversation number leaves the socket state and outputs exactly unchanged (any state, any bytes); packets shorter than 24 or longer than 65532 bytes only set the error code; the receive FIFO cannot be overrun — for every sequence of offset writes (any payload, any peer-chosen offset), commits and reads the readable data stays within the capacity and no stored extent ends beyond the free space, a single write stores at most what fits, uncovered positions read as zero. 'No Fault for any byte string in any state' is NOT proved in Coq; it rests on the bit-exact correspondence under ASan/UBSan with a hostile stream (mutated legitimate packets, random headers, sequence/ack anywhere in the 32-bit space, every flag byte, hostile option lists with scale factors up to 255) where a failed g_assert on either side is an explicit ABORT token. The window clause is refuted for the unchanged code by a vm_compute witness (FIN flush) and listed as a known finding; any other window excess is reported.",
    note="trusted: as C08. Partial: no-Fault is established by sampling + sanitizers, not by proof. Known finding: attempt_send(sfFin) ignores the peer's window.",
    technique='Coq proof of foreign/malformed no-op + refutation witness; differential correspondence under sanitizers + window oracle')

FINISH = dict(level="proof", trusted=pc.TRUSTED, rule='as C08 plus hostile ops: raw injected packets (random / structured headers, control segments with hostile option lists), mutated copies of legitimate packets (any header byte), foreign conversation numbers',
              assumptions=["clock never reports 0 (reserved by the implementation for 'use the real clock')", "MTU advice >= 296"])

KINDS = "hostile,foreign,hostile,session,zero-window".split(",")
prebuild = pc.prebuild


def run(chk):
    pc.run_ptcp(chk, "Props/Properties_C10.v", KINDS, tuple("C10,C10W".split(",")), 1200, 60000, "ptcp-C10")
    return chk.finish(**FINISH)


def replay(chk, path):
    return pc.replay_ptcp(chk, path)
