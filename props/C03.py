"""C03 — Only authenticated peers influence the agent or reach the application."""
import vlib, sim_common as sc, stun_common

COQ_TARGETS = ["Props/Properties_C03.vo"] + stun_common.COQ_TARGETS_COMMON
META = dict(
    text="proof (partial): Coq theorems over the bit-exact stun_agent_validate model (tied to the code by the C04-C07 differential "
         "harness, re-run here on authentication cases): an accepted request carries a MESSAGE-INTEGRITY equal to HMAC-SHA1 under the password bound "
         "to its USERNAME; an accepted response answers an outstanding transaction and is authenticated under the key that request was sent with "
         "(400/401/438/300 errors excepted, as RFC 5389 says); an unsolicited response is never accepted; a rejected message leaves the agent's "
         "transaction table untouched; and over a model of the source-address gate (nice_component_add_valid_candidate / "
         "_verify_remote_candidate, tied by differential execution evaluated inside Coq): for every history a datagram is delivered only if its "
         "source completed an authenticated check before. The conncheck.c glue between these kernels (what each validation status leads to) is not "
         "modelled: it is explored by running real agents in the deterministic simulator against a built-in attacker that knows every username, "
         "sees every transaction id and spoofs any source but knows no password, with the no-influence oracles of props/sim_common.py.",
    note="trusted: Coq kernel, extraction of the STUN model, harnesses, simulator. Partial: agent glue by counterexample search only.",
    technique="Coq proofs (HMAC-binding of accepted STUN requests/responses, gate invariant over all histories) + differential ties + simulated attacker")
FINISH = dict(level="proof", trusted=["coq/Stun/StunAgentModel.v tied to stun/stunagent.c (extracted model vs harness/stun_h.c)",
                                      "coq/Agent/GateModel.v tied to agent/component.c (harness/gate_h.c, compared inside Coq)",
                                      "harness/sim.c attacker + python oracles"],
              rule="attacker kinds: random bytes, RTP-like, requests with correct USERNAME and missing / wrong-key / wrong-length MESSAGE-INTEGRITY (USE-CANDIDATE, "
                   "ICE-CONTROLLING with maximal tie-breaker, ICE-CONTROLLED with minimal), forged success / 487 / 403 responses re-using snooped transaction ids, "
                   "indications; from its own or spoofed peer addresses; every 2..50 ms from gathering to READY",
              assumptions=["RFC 5245 compatibility mode in the simulator; the other modes' validation flags are covered by the theorem hypotheses only",
                           "the attacker does not forge 400/401 errors with a correct transaction id (needs an on-path observer; RFC 5389 leaves them unauthenticated)"])


pregen = stun_common.pregen


def prebuild():
    r = stun_common.prebuild()
    if r:
        return r
    s, o = sc.build_sim()
    return None if s else o


def gate_tie(chk):
    objs, l = vlib.repo_objects(vlib.AGENT_SRCS + vlib.SOCKET_SRCS + vlib.STUN_SRCS + ["agent/agent-enum-types.c"])
    if not objs:
        chk.broken_obligation("impl-build-gate", l[-2000:]); return
    impl, o = vlib.link("gate_h", ["gate_h.c"], objs)
    if not impl:
        chk.broken_obligation("impl-build-gate", o[-2000:]); return
    rng = chk.rng
    cases = []
    for i in range(120 if chk.tier == "quick" else 1500):
        naddr = rng.choice([2, 4, 8, 70])
        ops = []
        for _ in range(rng.choice([3, 10, 40, 130])):
            if rng.random() < 0.5:
                ops.append("A%d:%d" % (rng.choice([0, 0, 0, 1, 2, 3]), rng.randrange(naddr)))
            else:
                ops.append("D%d:%d" % (rng.choice([0, 0, 1, 2, 3, 4, 5, 6]), rng.randrange(naddr)))
        cases.append(ops)
    # boundary: more than 51 distinct sources, then the oldest ones again
    cases.append(["A0:%d" % k for k in range(60)] + ["D0:%d" % k for k in range(60)] + ["A0:0", "D0:0", "D0:9"])
    txt = "".join("g%d %s\n" % (i, " ".join(c)) for i, c in enumerate(cases))
    rc, so, se = vlib.run_lines(impl, txt)
    outs = [l.split(" ") for l in so.strip().split("\n")]
    if rc != 0 or len(outs) != len(cases):
        chk.broken_obligation("gate-harness", (se or so)[-1500:]); return
    TCPISH = (1, 5)   # NICE_SOCKET_TYPE_TCP_BSD = 1, NICE_SOCKET_TYPE_UDP_TURN = 5
    items = []
    for c, o_ in zip(cases, outs):
        ops = []
        for op in c:
            x, y = op[1:].split(":")
            ops.append("Auth {| c_tr := %s; c_addr := %s |}" % (x, y) if op[0] == "A" else "Data %s %s" % ("true" if int(x) in TCPISH else "false", y))
        exp_out = "[" + "; ".join(("None" if op[0] == "A" else "Some %s" % ("true" if b == "1" else "false")) for op, b in
                                  zip(c, _interleave(c, o_[1]))) + "]"
        fin = "[" + "; ".join("{| c_tr := %s; c_addr := %s |}" % tuple(x.split(":")) for x in o_[2].split(",") if x) + "]"
        items.append("([%s], (%s, %s))" % ("; ".join(ops), exp_out, fin))
        chk.count_case("gate %d ops" % len(c), True, "gate")
    body = ("From Coq Require Import ZArith List Bool.\nImport ListNotations.\nLocal Open Scope Z_scope.\n"
            "Definition cand_eqb (a b : cand) := (c_tr a =? c_tr b) && (c_addr a =? c_addr b).\n"
            "Fixpoint leqb {A} (f : A -> A -> bool) (x y : list A) := match x, y with [], [] => true | a :: x', b :: y' => f a b && leqb f x' y' | _, _ => false end.\n"
            "Definition obeq (a b : option bool) := match a, b with None, None => true | Some u, Some v => Bool.eqb u v | _, _ => false end.\n"
            "Definition cases := [%s].\n"
            "Definition bad := filter (fun c => let '(ops, (eo, el)) := c in let '(l, o) := grun [] ops in negb (leqb obeq o eo && leqb cand_eqb l el)) cases.\n"
            "Eval vm_compute in (length bad, match bad with c :: _ => Some (fst c, grun [] (fst c)) | [] => None end).\n") % ";\n".join(items)
    rcq, out = vlib.coq_eval(["Nice.Agent.GateModel"], body)
    if rcq == 0 and "(0%nat, None)" in out.replace("\n", " ").replace("  ", " "):
        chk.cov["traces_validated_against_impl"] += len(items)
    else:
        chk.broken_obligation("correspondence:gate", "GateModel and agent/component.c disagree:\n" + out[-1800:])
        # search for a failing input against the property itself: a datagram delivered whose source never passed a check
        for c, o_ in zip(cases, outs):
            seen = set(); k = 0
            for op in c:
                x, y = op[1:].split(":")
                if op[0] == "A":
                    seen.add(y)
                else:
                    if o_[1][k] == "1" and y not in seen:
                        chk.violation({"kind": "gate", "case": " ".join(c)}, "a datagram from address %s was passed to the application before any authenticated check from it (%s)" % (y, " ".join(c)[:300]))
                        return
                    k += 1


def _interleave(ops, bits):
    it = iter(bits if bits != "-" else "")
    return [next(it) if op[0] == "D" else None for op in ops]


def oracle(line, evs, meta):
    r = sc.oracle_no_attacker_influence(evs, meta)
    if r:
        return r
    if meta.get("kind") == "atk-conv":
        return sc.oracle_convergence(evs, meta.get("ncomp", 1)) or sc.oracle_states(evs, None)
    return None


def run(chk):
    stun_common.run_stun(chk, "Props/Properties_C03.v", ["auth", "resp", "hostile"], ("C04",), 600, 30000, "stun-C03")
    gate_tie(chk)
    n = 800 if chk.tier == "quick" else 40000
    cases = [sc.gen_attack(chk.rng, i) for i in range(n)]
    sc.run_sim(chk, cases, oracle, "sim-C03")
    return chk.finish(**FINISH)


def replay(chk, path):
    import C11
    return C11.replay(chk, path)
