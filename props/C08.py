"""C08 — pseudo-TCP (see DESIGN.md §3 C08)."""
import vlib, ptcp_common as pc

COQ_TARGETS = ["Props/Properties_C08.vo"] + pc.COQ_TARGETS_COMMON
META = dict(
    text="proof (partial): SENDER HONESTY is proved at socket level over the bit-exact model for ALL sequences of the eleven socket operations (connect, send, recv, notify_packet with ANY bytes, notify_clock, notify_mtu, shutdown, close, buffer sizes): every data packet the socket ever emits — first transmission, retransmission or MTU-driven re-segmentation — carries exactly the slice of the bytes accepted by send() at its sequence number (no-wrap hypothesis: fewer than 2^31-8 bytes written; conditional on no Fault, which is C10's business); RECEIVER SOUNDNESS: for every arrival order, duplication and overlap of segments that are honest w.r.t. the peer's stream the bytes handed out by recv are a prefix of that stream (process() walked phase by phase); COMPOSITION: two sockets connected by a network that only delivers packets the other socket emitted earlier (any subset, order, multiplicity) and arbitrary application operations: the bytes read from each side are a prefix of the bytes written to the other, under explicit hypotheses that are NOT derived — every emitted connect segment carries the connect message whole and every FIN sits at the end of the queued stream (what MTU >= 123 and a peer window >= 7 give), no connect segment echoes a timestamp ahead of the receiver's clock, receive buffers >= 7 bytes, fewer than 2^31-10 bytes per direction; two refuted witnesses show the first two are necessary (DESIGN 9.6); once the peer's FIN is consumed, read ++ buffered = everything the peer wrote (end-of-stream, partial); and the building blocks: Coq theorems on the bit-exact executable model of pseudotcp.c prove the data-path building blocks for all inputs (receive-side reassembly delivers exactly the stream's bytes for EVERY arrival order, duplication and overlap of consistent segments that cover the committed range, also lifted to the receive FIFO commit; every emitted payload is the slice [offset, offset+len) of the send buffer; an in-sequence segment that fits is appended to the receive FIFO exactly, whatever stale out-of-order extents exist). The two-socket theorem 'bytes read are a prefix of bytes written, EOS only after everything before the graceful close was read, under every loss/dup/reorder/delay schedule' is stated in DESIGN.md but NOT proved; for that clause the check relies on the model=code correspondence (every packet, callback, return value and a 20-field state digest compared on generated schedules) and an implementation-side prefix/EOS oracle as counterexample search.",
    note='trusted: Coq kernel, extraction, the hand-written model (tied by sampling), harness with virtual clock. Partial: the prefix/EOS theorem itself is not machine-checked; fewer than 2^31 bytes per direction assumed by the oracle.',
    technique='Coq lemmas over bit-exact executable model (partial) + differential correspondence + prefix/EOS oracle')

FINISH = dict(level="proof", trusted=pc.TRUSTED, rule='two-socket programs: connect, sends of 1..70000 bytes, reads of 0..200000, deliver-next / drop / reorder / duplicate of any emitted packet, clock steps 1 ms..16 s, shutdown/close at any point, final drain; configs: buffers 1 KiB..1 MiB, Nagle, ack delay 0..500, FIN-ACK on either side, window scaling on/off, clocks across the 2^32 wrap; non-trivial = connection reaches ESTABLISHED',
              assumptions=["clock never reports 0 (reserved by the implementation for 'use the real clock')", "MTU advice >= 296"])

KINDS = "session,plain,config,wrap,zero-window,mtu,straddle,early,finflush,finflush".split(",")
prebuild = pc.prebuild


def run(chk):
    pc.run_ptcp(chk, "Props/Properties_C08.v", KINDS, tuple("C08".split(",")), 900, 30000, "ptcp-C08")
    return chk.finish(**FINISH)


def replay(chk, path):
    return pc.replay_ptcp(chk, path)
