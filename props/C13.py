"""C13 — Keepalives keep the pair warm; sending stops when consent is lost or revoked."""
import vlib, tabgen, sim_common as sc

COQ_TARGETS = ["Props/Properties_C13.vo"]
META = dict(
    text="proof (partial): Coq theorems over a model of the consent-expiry tick and keepalive re-arming arithmetic of conncheck.c whose constants are "
         "read from agent/agent-priv.h and whose modelled statements are checked to be present in the source on every run: for every "
         "sequence of dispatch latencies the self re-arming tick announces FAILED strictly after last_answer + 30 s and at most the dispatch latency later, never "
         "earlier; consent checks are re-armed 4..6 s ahead; the send gate equals the consent flag. Session-level behaviour (which answers refresh "
         "consent, 403 handling and generation, the gate's GError, silence bound on the selected pair over idle sessions of several hundred "
         "seconds) is NOT proved: real agents run in the deterministic simulator over blackout start/duration/direction, revocation "
         "moment (before selection, during checks, READY) and idle sessions, with the expiry interval of the theorem, the 403 rules and the keepalive period as oracles.",
    note="trusted: Coq kernel, the text extractor, sim.c. Partial: session level is counterexample search.",
    technique="Coq proof of consent-expiry detection bounds over all dispatch latencies (constants regenerated from source) + deterministic simulation with timing oracles")
FINISH = dict(level="proof", trusted=["lib/tabgen.py::consent_tables (constants + statement shape check)", "harness/sim.c virtual clock", "python timing oracles"],
              rule="scenarios: loss-free convergence with fixed one-way delay 1..50 ms, then blackout (one or both directions, 8 s .. forever, starting 0..11 s after READY), "
                   "local revocation (before signalling, during checks, 4..21 s after READY), or idle for up to 14 minutes; 1..2 components; consent freshness per agent; probes via the send API",
              assumptions=["answers counted by the oracle: STUN success responses delivered on the selected pair", "keepalive slack 60 ms (Ta pacing across components)"])


def pregen():
    import c13_session
    gi, err = tabgen.consent_tables()
    if gi is None:
        return gi, err
    gi2, err2 = c13_session.consent_session_shape()      # statements the session model depends on + coq/Gen/ConsentSession.v
    if gi2 is None:
        return gi2, err2
    return gi, ""


def prebuild():
    s, o = sc.build_sim()
    return None if s else o


TRACES = []


def oracle(line, evs, meta):
    if len(TRACES) < 1500:
        TRACES.append((evs, meta))      # replayed through the Coq session model afterwards (c13_session.session_tie)
    return sc.oracle_consent(evs, meta) or sc.oracle_states(evs, None)


def run(chk):
    gi, err = pregen()
    if gi is None:
        chk.broken_obligation("translator/table-extractor", err)
    chk.prove(["Props/Properties_C13.v"])
    n = 400 if chk.tier == "quick" else 8000
    cases = [sc.gen_consent(chk.rng, i) for i in range(n)]
    del TRACES[:]
    sc.run_sim(chk, cases, oracle, "sim-C13")
    import c13_session
    c13_session.session_tie(chk, TRACES)
    return chk.finish(**FINISH)


def replay(chk, path):
    import C11
    return C11.replay(chk, path)
