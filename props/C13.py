"""C13 — Keepalives keep the pair warm; sending stops when consent is lost or revoked."""
import vlib, tabgen, sim_common as sc

COQ_TARGETS = ["Props/Properties_C13.vo"]
META = dict(
    text="Coq theorems (Props/Properties_C13.v, 24) over (a) the consent-expiry tick and keepalive re-arming arithmetic of conncheck.c (constants read from "
         "agent/agent-priv.h): for every sequence of dispatch latencies FAILED is announced strictly after last_answer + 30 s and at most the dispatch latency "
         "later, never earlier; consent checks are re-armed 4..6 s ahead; and (b) a session model of one selected pair (coq/Agent/ConsentSessionModel.v: "
         "keepalive tick with the component's StunAgent transaction table and the pair's own keepalive transaction, consent timer, matched / unmatched / "
         "authenticated / credential-less answers incl. 403, local revocation, pair change, restart, send gate), whose 53 modelled statements are checked "
         "verbatim against conncheck.c / component.h / stunagent.c on every run: for EVERY event sequence the pair stays usable while answered; FAILED and a "
         "closed send gate follow within 30 s + one check interval of the last answer; an authenticated 403 acts at once; after local revocation every check is "
         "answered 403; the transaction table stays bounded, so the keepalive timer never stops and the pair is never silent for longer than its period, for "
         "every loss pattern and run length (the pre-fix counter-example of e9d3c51 is kept as a regression theorem). Every in-scope simulator trace is replayed "
         "through the model inside Coq and compared event by event. Composition with nomination, several pairs per component, reliable mode and several "
         "streams is NOT proved: real agents run in the deterministic simulator over blackout start/duration/direction, revocation moment (before selection, "
         "during checks, READY), idle sessions up to 14 min, 45-60 min lossy sessions, ICE restarts, a second stream removed mid-session, with the expiry "
         "interval of the theorems, the 403 rules and the keepalive period as oracles.",
    note="trusted: Coq kernel, the text extractors (lib/tabgen.py::consent_tables, props/c13_session.py::consent_session_shape), the hand-written session "
         "model (tied by verbatim statements + per-trace replay, not by proof), sim.c. Partial: the composition with the rest of the agent is counterexample search.",
    technique="Coq proofs over a timer kernel and a session model of the selected pair (statements regenerated/checked from source, traces replayed in Coq) + deterministic simulation with timing oracles")
FINISH = dict(level="proof", trusted=["lib/tabgen.py::consent_tables (constants + statement shape check)", "props/c13_session.py (53 verbatim statements; trace -> model events)",
                                      "coq/Agent/ConsentSessionModel.v (hand-written, tied by statements and per-trace replay)", "harness/sim.c virtual clock", "python timing oracles"],
              rule="scenarios: loss-free convergence with fixed one-way delay 1..50 ms, then blackout (one or both directions, 8 s .. forever, starting 0..11 s after READY), "
                   "local revocation (before signalling, during checks, 4..21 s after READY), or idle for up to 14 minutes; 1..2 components; consent freshness per agent; probes via the send API",
              assumptions=["answers counted by the oracle: STUN success responses delivered on the selected pair", "keepalive slack 60 ms (Ta pacing across components)"])


def pregen():
    import c13_session
    gi, err = tabgen.consent_tables()
    if gi is None:
        return gi, err
    gi2, err2 = c13_session.consent_session_shape()      # statements the session model depends on + coq/Gen/ConsentSession.v
    if gi2 is None:
        return gi2, err2
    return gi, ""


def prebuild():
    s, o = sc.build_sim()
    return None if s else o


TRACES = []


def oracle(line, evs, meta):
    if len(TRACES) < 1500:
        TRACES.append((evs, meta))      # replayed through the Coq session model afterwards (c13_session.session_tie)
    return sc.oracle_consent(evs, meta) or sc.oracle_states(evs, None)


def run(chk):
    gi, err = pregen()
    if gi is None:
        chk.broken_obligation("translator/table-extractor", err)
    chk.prove(["Props/Properties_C13.v"])
    n = 400 if chk.tier == "quick" else 8000
    cases = [sc.gen_consent(chk.rng, i) for i in range(n)]
    del TRACES[:]
    sc.run_sim(chk, cases, oracle, "sim-C13")
    import c13_session
    c13_session.session_tie(chk, TRACES)
    return chk.finish(**FINISH)


def replay(chk, path):
    import C11
    return C11.replay(chk, path)
