"""C01 — ICE converges: both agents READY on mirrored selected pairs, one controller."""
import vlib, tabgen, sim_common as sc

COQ_TARGETS = ["Props/Properties_C01.vo"]
META = dict(
    text="proof (partial): (a) the check-list kernel of agent/conncheck.c (unfreezing, choice of the next pair to check, READY / FAILED decisions, pruning after "
         "nomination, nomination on USE-CANDIDATE) is modelled statement for statement in Coq and proved for ALL check lists: unfreezing only ever turns "
         "FROZEN into WAITING and thaws exactly the first frozen pair of each foundation; the pair checked next is a WAITING pair of maximal priority; the "
         "scheduler never stalls while a WAITING or FROZEN pair exists; READY is announced iff a valid nominated pair exists and no pair of at least the "
         "selected priority is still in progress or queued; FAILED iff every pair of the component has finished and none is nominated; the two are mutually "
         "exclusive and idempotent; pruning deletes exactly the lower-priority pending pairs of that component, never another component's, keeps the list "
         "sorted; the model is tied to the real static functions on every run (harness/checklist_h.c includes conncheck.c, 5200 fabricated lists, compared "
         "inside Coq). (b) Coq theorems over a transition-system model of ICE role-conflict resolution (tie-breaker comparison of "
         "conncheck_create_reply, 487 handling): for ANY pool of in-flight honest messages delivered in any order, any number of times, stale "
         "ones included, every role change moves the larger tie-breaker towards controlling / the smaller towards controlled; complementary "
         "roles are stable; one completed conflict exchange leaves exactly one controller; the selected pair only moves to strictly higher priority, ends as the best nominated pair and, with distinct priorities, independently of the order nominations arrived in (statement shape of conn_check_update_selected_pair checked in the source on every run). The decision function is tied to the real "
         "stun_usage_ice_conncheck_create_reply by exhaustive-boundary differential execution (evaluated inside Coq). Convergence to READY on "
         "mirrored pairs for every fair schedule is NOT proved: real agents are run in the deterministic simulator (virtual clock/UDP) over "
         "nomination mode x initial roles x tie-breakers x 1..3 addresses x 1..2 components x signalling orders x drop/dup/delay schedules with the "
         "end condition (both READY, mirrored pairs, one ICE-CONTROLLING on the wire), the check-list order and the state machine as oracles.",
    note="trusted: Coq kernel, the role model (tied by sampling), sim.c. Partial: convergence itself is counterexample search. ICE-TCP and reliable mode are not simulated.",
    technique="Coq proofs over executable models of the check-list kernel and of role-conflict resolution (arbitrary lists / message pools) + differential ties to the real functions evaluated inside Coq + deterministic two-agent simulation")
FINISH = dict(level="proof", trusted=["coq/Agent/RoleModel.v tied to stun/usages/ice.c by differential execution evaluated inside Coq (vm_compute)",
                                      "harness/sim.c deterministic simulator over /repo's working tree (ASan+UBSan)", "python trace oracles (props/sim_common.py)"],
              rule="convergence scenarios: nomination regular/aggressive per side, roles (1,0),(0,1),(1,1),(0,0), random or fixed tie-breakers, 1..3 local addresses, "
                   "1..2 components, trickle on/off, signalling in random order, loss (< transmission limit consecutive) / duplication / delay up to 400 ms; "
                   "non-trivial = a component reaches READY",
              assumptions=["UDP host candidates only (ICE-TCP, UPnP off)", "schedules lose fewer consecutive checks per direction than the limit given to the simulator"])


def prebuild():
    s, o = sc.build_sim()
    return None if s else o


def role_tie(chk):
    impl, o = vlib.cc("role_h", ["role_h.c"], vlib.STUN_SRCS)
    if not impl:
        chk.broken_obligation("impl-build-role", o[-2000:]); return
    ties = [0, 1, 2, 2 ** 31, 2 ** 63 - 1, 2 ** 63, 2 ** 64 - 2, 2 ** 64 - 1] + [chk.rng.randrange(2 ** 64) for _ in range(12)]
    cases = []
    for mc in (0, 1):
        for rc in (0, 1, 2):
            for a in ties:
                for b in chk.rng.sample(ties, 6) + [a]:
                    cases.append((mc, a, rc, b))
    txt = "".join("r%d %d %d %d %d\n" % (i, c[0], c[1], c[2], c[3]) for i, c in enumerate(cases))
    rc_, so, se = vlib.run_lines(impl, txt)
    outs = [l.split() for l in so.strip().split("\n")]
    if rc_ != 0 or len(outs) != len(cases):
        chk.broken_obligation("role-harness", se[-1500:]); return
    # evaluate the model inside Coq on the same cases and compare there
    items = []
    for c, o_ in zip(cases, outs):
        if c[2] == 2:
            continue   # no role attribute in the request: no conflict handling, role unchanged (checked by the oracle below)
        items.append("((%s, %d%%Z, %s, %d%%Z), (%s, %s))" % ("true" if c[0] else "false", c[1], "true" if c[2] else "false", c[3],
                                                             "true" if o_[1] == "1" else "false", "true" if o_[2] == "1" else "false"))
    body = "From Coq Require Import ZArith List Bool.\nImport ListNotations.\nDefinition cases := [%s].\n" % ";\n".join(items)
    body += "Definition agree := forallb (fun c => let '((mc, mt, rc, q), (nc, e)) := c in let '(r, e') := on_check mc mt rc q in Bool.eqb r nc && Bool.eqb e e') cases.\nEval vm_compute in agree.\n"
    rcq, out = vlib.coq_eval(["Nice.Agent.RoleModel"], body)
    ok = rcq == 0 and "= true" in out
    for c, o_ in zip(cases, outs):
        chk.count_case("role %r" % (c,), True, "role-decision")
        if c[2] == 2 and (int(o_[1]) != c[0] or o_[2] != "0"):
            chk.violation({"kind": "role", "case": c, "impl": o_}, "role changed / 487 sent for a check without a role attribute: %r -> %r" % (c, o_))
    if not ok:
        chk.broken_obligation("correspondence:role-decision", "RoleModel.on_check and stun_usage_ice_conncheck_create_reply disagree\n" + out[-1500:])
        # search: the RFC rule evaluated in python against the implementation
        for c, o_ in zip(cases, outs):
            if c[2] == 2:
                continue
            conflict = c[0] == c[2]
            if conflict:
                switch = (c[1] < c[3] and c[0]) or (c[1] >= c[3] and not c[0])
                exp = (0 if c[0] else 1, 0) if switch else (c[0], 1)
            else:
                exp = (c[0], 0)
            if (int(o_[1]), int(o_[2])) != exp:
                chk.violation({"kind": "role", "case": c, "impl": o_}, "role-conflict decision: my_ctl=%d my_tie=%d req_ctl=%d peer_tie=%d -> new_ctl=%s 487=%s, RFC 8445 7.3.1.1 says %r" % (c + (o_[1], o_[2], exp)))
                break
    else:
        chk.cov["traces_validated_against_impl"] += len(items)


# schedules (found by the thorough tier) on which libnice ends READY on non-mirrored pairs: known findings (known/C01.json), replayed on every tier
KNOWN_CORPUS = [
    ('convK1 seed,827199137 agent,0,0,0,9,10.0.0.1,10.0.0.2 agent,1,0,1,8,10.0.1.1,10.0.1.2 tie,0,3092567990855250574 tie,1,1968586803361452936 stream,0,1 stream,1,1 net,0,0.3,1,30,3 gather,0,1 gather,1,1 run,100 creds,0,1,1 creds,1,0,1 cands,0,1,1,1,0 run,20 cands,0,1,1,1,1 cands,0,1,1,1,2 run,1 run,60 cands,1,0,1,1,0 run,60 cands,1,0,1,1,2 run,5 cands,1,0,1,1,1 run,1 run,15000 digest run,6000 digest send,0,1,1,1472,191 send,0,1,1,1200,177 send,1,1,1,1472,183 run,3000 state,0,1,1 selected,0,1,1 state,1,1,1 selected,1,1,1', {"kind": "conv", "ncomp": 1, "nat": {}}),
    ('convK2 seed,39001575 agent,0,0,1,8,10.0.0.1,10.0.0.2 agent,1,0,0,8,10.0.1.1 tie,0,1292148162765486170 tie,1,54743817980659764 stream,0,2 stream,1,2 net,0.25,0,1,30,3 gather,0,1 gather,1,1 run,100 cands,1,0,1,2,1 run,60 cands,1,0,1,2,0 run,1 cands,1,0,1,2,2 run,1 cands,0,1,1,1,1 cands,0,1,1,1,0 run,1 cands,0,1,1,1,2 run,20 creds,0,1,1 run,60 cands,1,0,1,1,0 run,60 cands,1,0,1,1,2 run,60 cands,1,0,1,1,1 run,1 creds,1,0,1 cands,0,1,1,2,0 run,60 cands,0,1,1,2,1 run,20 cands,0,1,1,2,2 run,5 run,200 run,8000 digest run,6000 digest send,1,1,1,1472,15 run,3000 state,0,1,1 selected,0,1,1 state,0,1,2 selected,0,1,2 state,1,1,1 selected,1,1,1 state,1,1,2 selected,1,1,2', {"kind": "conv", "ncomp": 2, "nat": {}}),
    ('convK3 seed,394518260 agent,0,0,0,8,10.0.0.1 agent,1,0,1,8,10.0.1.1,10.0.1.2 stream,0,1 stream,1,1 net,0.1,0.1,5,30,3 gather,0,1 gather,1,1 run,100 creds,1,0,1 run,200 creds,0,1,1 run,20 cands,0,1,1,1,2 cands,0,1,1,1,0 cands,0,1,1,1,1 run,1 cands,1,0,1,1,0 run,60 cands,1,0,1,1,1 run,60 cands,1,0,1,1,2 run,60 run,8000 digest run,6000 digest send,0,1,1,1200,103 send,0,1,1,9000,12 run,3000 state,0,1,1 selected,0,1,1 state,1,1,1 selected,1,1,1', {"kind": "conv", "ncomp": 1, "nat": {}}),
]


TRICKLE_WHY = ("trickle ICE: both agents are READY on selected pairs that are not mirror images, and the check list of the agent holding the lower-priority "
               "pair does not contain the pair its peer selected (pruned by its early READY decision / never formed for a candidate trickled later)")


def oracle(line, evs, meta):
    r = sc.oracle_convergence(evs, meta.get("ncomp", 1), nat=meta.get("nat"))
    if r and r.startswith("selected pairs are not mirror images") and trickle_signature(line, evs):
        return TRICKLE_WHY
    return r or sc.oracle_states(evs, None) or sc.oracle_checklist_sorted(evs) or sc.oracle_data(evs)


def trickle_signature(line, evs):
    """the known finding's situation, recognised on the implementation's own trace: a trickle agent, no NAT, and in the final check-list dumps one agent
    lacks the mirror image of the pair the other one has selected"""
    import re
    ags = [w.split(",") for w in line.split() if w.startswith("agent,")]
    if not any(int(a[4]) & sc.OPT_TRICKLE for a in ags) or any(w.startswith("nat,") for w in line.split()):
        return False
    digs = {}
    for e in evs:
        if e.kind == "dig":
            digs[e.f[0]] = " ".join(e.f)
    if len(digs) < 2:
        return False
    for x, y in (("0", "1"), ("1", "0")):
        for m in re.finditer(r"c(\d+)=READY\(([^>]+)>([^)]+)\)", digs[x]):
            comp, l, rem = m.group(1), m.group(2), m.group(3)
            # does y hold the mirrored pair rem>l for that component in its check list?
            if not re.search(r"\b%s:%s>%s:" % (comp, re.escape(rem), re.escape(l)), digs[y]):
                return True
    return False


def pregen():
    return tabgen.select_shape()


def run(chk):
    gi, err = pregen()
    if gi is None:
        chk.broken_obligation("translator/table-extractor", err)
    chk.prove(["Props/Properties_C01.v"])
    role_tie(chk)
    import c01_checklist
    c01_checklist.checklist_tie(chk)
    n = 1200 if chk.tier == "quick" else 60000
    rng = chk.sub_rng("convergence")      # own stream: the ties above must not shift these scenarios
    cases = KNOWN_CORPUS + [sc.gen_convergence(rng, i) for i in range(n)]
    split = chk.sub_rng("split-components")      # two components whose only working paths use different address pairs
    cases += [sc.gen_split_components(split, i) for i in range(max(20, n // 25))]
    sc.run_sim(chk, cases, oracle, "sim-C01")
    return chk.finish(**FINISH)


def replay(chk, path):
    import C11
    return C11.replay(chk, path)
