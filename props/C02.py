"""C02 — Application data arrives intact, whole and in order on every transport."""
import os, re, json
import vlib, sim_common as sc

COQ_TARGETS = ["Props/Properties_C02.vo"]
META = dict(
    text="proof (partial): Coq theorems over a bit-exact Gallina model of the ICE-TCP data path of agent/agent.c. Sender (RFC 4571 framing loop with its "
         "offset / current_offset / offset_in_buffer arithmetic, every read of a caller buffer checked): for ALL sizes and scatter layouts the vectors handed "
         "to the socket layer are exactly the 2-byte-length-prefixed frames of the message cut at 0xF800 bytes and no vector leaves a caller buffer "
         "(unconditional since fix f9b160b; the pre-fix over-read condition is kept as regression lemmas). Receiver (rfc4571_buffer / frame_offset / frame_size / consumed_size state, agent_recv_message_unlocked, "
         "agent_consume_next_rfc4571_chunk, append_buffer_to_input_messages): for ALL byte streams and ALL segmentations of the stream into kernel reads "
         "(induction over the read script) the receive callback is handed, in order and one call per frame, exactly the payloads of the complete frames, "
         "minus the frames the STUN demultiplexer consumed; no read outside the reassembly buffer, no write outside a caller buffer; the result does not "
         "depend on the segmentation; composed with the sender: the delivered pieces are the sent messages cut at 0xF800. nice_agent_recv_messages hands "
         "out a frame that is already cached WITHOUT demultiplexing (ICE control reaches the application: witness in Coq, reproduced: KNOWN-FINDING), and "
         "the reassembly buffer is shared by all TCP connections of a component (bytes of another connection are spliced into a frame: witness, "
         "reproduced: KNOWN-FINDING). The model is tied to /repo's working tree on every run: two real NiceAgents negotiate ICE-TCP over loopback in one "
         "process (virtual clock), the kernel calls of socket/tcp-bsd.c are interposed to force partial writes / short reads, the agent->socket interface "
         "is wrapped to see the vectors; the same inputs go through the model (evaluated inside Coq) and the outputs are compared; an implementation-side "
         "oracle states the property without the model. UDP host pairs and pseudo-TCP over UDP (reliable mode) are NOT proved here: real agents run in the "
         "deterministic simulator (1..65535 bytes over 1..8 buffers, STUN lookalikes, loss; receive callback or pull mode = nice_agent_recv_messages_nonblocking "
         "with scatter layouts of tiny / empty leading buffers) with payload-equality / stream-prefix oracles; pseudo-TCP "
         "itself is C08/C10, the TCP send queue C17.",
    note="trusted: Coq kernel, the hand-written model (tied by sampling), harness/data_h.c (interposed kernel, wrapped socket interface), harness/sim.c, "
         "python oracles. Partial: UDP / pseudo-TCP transports by counterexample search only; bytestream-tcp reassembly modelled and tied, its theorem is "
         "limited (see notes/C02.md). Plain UDP (socket/udp-bsd.c, sendmmsg batches of scatter/gather messages) is exercised over real loopback sockets by harness/udp_h.c with an implementation-side oracle only (one datagram per message, its own buffers, in order).",
    technique="Coq proof over an executable model of the framing/reassembly code + differential tie evaluated inside Coq on real two-agent ICE-TCP runs + "
              "deterministic simulation for UDP and pseudo-TCP")
FINISH = dict(level="proof",
              trusted=["coq/Data/FramingModel.v tied to agent/agent.c by harness/data_h.c (real agents over loopback TCP, interposed g_socket_send_message / "
                       "g_socket_receive_message / g_socket_get_available_bytes, wrapped nice_socket_send_messages(_reliable) and component_io_cb), compared inside Coq",
                       "the STUN/data demultiplexing decision is a parameter of the model (ctl); stun_message_validate_buffer_length_fast etc. belong to C04-C06",
                       "harness/sim.c (virtual UDP, virtual clock) and props/sim_common.py oracles for UDP and pseudo-TCP",
                       "python oracle of props/C02.py (frames on the wire, deliveries)"],
              rule="TCP cases: message sizes at the case-split boundaries (1, 2, 0xF7FF, 0xF800, 0xF801, 65535) and random; 1..8 scatter buffers with cuts at and "
                   "around the 0xF800 split, zero-length buffers, NULL-terminated vectors; STUN-imitating payloads; several messages per call; partial writes, "
                   "EWOULDBLOCK, short reads down to one byte by cap scripts; receive by callback and by nice_agent_recv_messages with several layouts; "
                   "non-reliable, reliable and bytestream-tcp agents; keepalive connchecks injected between messages; a third party connecting to the passive "
                   "candidate. Simulator: sc.gen_data. non-trivial = something was delivered",
              assumptions=["loopback TCP; one component; RFC 5245 compatibility", "receive layouts of at least 65535 bytes in message mode (smaller ones truncate, as for datagrams)",
                           "the demultiplexing decision itself (which payloads are STUN) is covered by C03-C06"])

FM = 0xF800
TIE_MODS = ["Nice.Data.FramingModel"]


# ------------------------------------------------------------------ contents (same generator in harness/data_h.c and in the Coq tie)
def gen_bytes(n, seed, kind):
    d = bytearray(((seed * 131 + k * 13 + (k >> 7) + (k >> 13) * 7) & 0xff) for k in range(n))
    if kind == "u" and n >= 4:
        d[0] = 0x01 if seed & 1 else 0x00
        d[1] = 0x01 if seed & 2 else 0x11
        body = n - 20 if n >= 20 else 0
        d[2] = (body >> 8) & 0xff
        d[3] = body & 0xff
        if n >= 8:
            d[4:8] = b"\x21\x12\xa4\x42"
    return bytes(d)


def hash32(b):
    h = 0
    for x in b:
        h = (h * 31 + x + 1) & 0xffffffff
    return h


class Msg:
    def __init__(self, sizes, nullterm, seed, kind):
        self.sizes, self.nullterm, self.seed, self.kind = list(sizes), nullterm, seed, kind
        self.total = sum(sizes)

    def data(self):
        return gen_bytes(self.total, self.seed, self.kind)

    def spec(self):
        return "%s%s;%s%d" % (".".join(map(str, self.sizes)), "N" if self.nullterm else "", self.kind, self.seed)

    def pieces(self):
        d = self.data()
        return [d[i:i + FM] for i in range(0, len(d), FM)]

    def unsafe(self):
        """the trigger of the sender defect repaired by f9b160b: a frame after the first that is not contained in one caller buffer"""
        if self.total <= FM:
            return False
        off = 0
        k = 1
        while k * FM < self.total:
            lo, hi = k * FM, min((k + 1) * FM, self.total)
            ok = False
            start = 0
            for s in self.sizes:
                if start < lo and hi <= start + s:
                    ok = True
                start += s
            if not ok:
                return True
            k += 1
        return False


def rand_layout(rng, n, want_safe=None):
    """sizes of 1..8 buffers summing to n, with cuts near the 0xF800 split point, zero-length buffers"""
    k = rng.choice([1, 1, 2, 2, 3, 4, 6, 8])
    cuts = set()
    near = [FM - 1, FM, FM + 1, FM - 2, FM + 2, 1, 2, n - 1, n - 2, n // 2]
    while len(cuts) < k - 1 and n > 1:
        c = rng.choice(near) if rng.random() < 0.5 else rng.randrange(1, n)
        if 0 < c < n:
            cuts.add(c)
        if len(cuts) >= n - 1:
            break
    if want_safe is True and n > FM:
        cuts = {c for c in cuts if c < FM}
    pts = [0] + sorted(cuts) + [n]
    sizes = [pts[i + 1] - pts[i] for i in range(len(pts) - 1)]
    # zero-length buffers
    for _ in range(rng.choice([0, 0, 0, 1, 2])):
        if len(sizes) < 8:
            sizes.insert(rng.randrange(len(sizes) + 1), 0)
    return sizes


SIZES = [1, 2, 3, 19, 20, 21, 100, 1200, FM - 1, FM, FM + 1, FM + 100, 65534, 65535]


def rand_msg(rng, seedctr, big=True, safe=None):
    if big and rng.random() < 0.55:
        n = rng.choice(SIZES)
    elif big and rng.random() < 0.3:
        n = rng.randrange(1, 65536)
    else:
        n = rng.choice([1, 2, 5, 20, 100, 576, 1200, 4000])
    sizes = rand_layout(rng, n, want_safe=safe)
    kind = "u" if rng.random() < 0.2 else "g"
    return Msg(sizes, rng.random() < 0.25, seedctr, kind)


def caps_str(rng, what):
    """cap script for writes / reads"""
    r = rng.random()
    if r < 0.35:
        return "-"
    n = rng.randrange(1, 30)
    out = []
    for _ in range(n):
        x = rng.random()
        if what == "W" and x < 0.12:
            out.append("b")
        elif x < 0.4:
            out.append(str(rng.choice([1, 1, 2, 3, 5])))
        elif x < 0.7:
            out.append(str(rng.choice([7, 100, 1000, 1447, 1448])))
        else:
            out.append(str(rng.choice([FM, FM + 1, FM + 2, 20000, 65535, 65536, 65537])))
    return ".".join(out)


BIGLAY = ["65535", "70000", "100.65535", "0.65536", "30000.30000.10000", "1.2.3.65530", "65535N", "40000.30000N", "0.0.66000"]


def gen_case(rng, i, tier):
    """returns (line, kind, meta)"""
    r = rng.random()
    seedctr = [rng.randrange(1, 200)]

    def nxt():
        seedctr[0] += 1
        return seedctr[0]
    ops, meta_ops = [], []

    def add(op, **kw):
        ops.append(op)
        meta_ops.append(dict(op=op, **kw))
    cfg = dict(r=0, b=0, k=0, s=rng.randrange(1, 1 << 20))
    if r < 0.30:
        kind = "tcp-callback"
    elif r < 0.45:
        kind = "tcp-recv-messages"
    elif r < 0.55:
        kind = "tcp-reliable"; cfg["r"] = 1
    elif r < 0.70:
        kind = "tcp-bytestream"; cfg["r"] = 1; cfg["b"] = 1
    elif r < 0.80:
        kind = "tcp-ice-between"; cfg["k"] = 1
    elif r < 0.86:
        kind = "tcp-ice-recv-messages"; cfg["k"] = 1
    elif r < 0.90:
        kind = "tcp-multi-message"
    elif r < 0.95:
        kind = "tcp-raw-frames"
    else:
        kind = "tcp-foreign-connection"
    use_g = kind in ("tcp-recv-messages", "tcp-ice-recv-messages") or (kind == "tcp-bytestream" and rng.random() < 0.4)
    if use_g:
        add("C0;0"); add("C1;0")
    nmsg = rng.randrange(2, 7)
    pending_g = {0: 0, 1: 0}
    for j in range(nmsg):
        a = rng.randrange(2)
        if rng.random() < 0.6:
            add("W%d;%s" % (a, caps_str(rng, "W")))
        if rng.random() < 0.6:
            add("K%d;%s" % (1 - a, caps_str(rng, "K")))
        if kind == "tcp-multi-message":
            ms = [rand_msg(rng, nxt(), big=(rng.random() < 0.3)) for _ in range(rng.randrange(2, 5))]
        else:
            ms = [rand_msg(rng, nxt(), safe=(True if rng.random() < 0.3 else None))]
        add("S%d;%s" % (a, "|".join(m.spec() for m in ms)), send=a, msgs=ms)
        if kind in ("tcp-ice-between", "tcp-ice-recv-messages") and rng.random() < 0.7:
            add("u%d;40000" % a)
            m2 = rand_msg(rng, nxt(), big=False)
            add("S%d;%s" % (a, m2.spec()), send=a, msgs=[m2])
        if kind == "tcp-foreign-connection" and j == 1:
            # a third party writes while a frame is (possibly) half way: partial write first
            pass
        if rng.random() < 0.7:
            add("P")
        if use_g and rng.random() < 0.7:
            add("P")
            for _ in range(rng.randrange(1, 4)):
                lay = rng.choice(BIGLAY)
                nm = rng.choice([1, 1, 2, 3])
                add("G%d;%s" % (1 - a, "|".join([lay] * nm)), recv=1 - a, nm=nm, lay=lay)
    if kind == "tcp-raw-frames":
        # hand-made frames written straight into the connection (at a frame boundary): empty frames, tiny frames, a frame
        # whose header arrives byte by byte; between them ordinary messages
        ops, meta_ops = [], []
        a = rng.randrange(2)
        for j in range(rng.randrange(2, 6)):
            fr = []
            for _ in range(rng.randrange(1, 4)):
                n = rng.choice([0, 0, 1, 2, 3, 300])
                fr.append(n.to_bytes(2, "big") + bytes((rng.randrange(64, 256) if k == 0 else rng.randrange(256)) for k in range(n)))
            raw = b"".join(fr)
            cutp = sorted(set(rng.randrange(1, len(raw)) for _ in range(rng.choice([0, 1, 2])))) if len(raw) > 1 else []
            pts = [0] + cutp + [len(raw)]
            for q in range(len(pts) - 1):
                add("X%d;%s" % (a, raw[pts[q]:pts[q + 1]].hex()), raw=a, data=raw[pts[q]:pts[q + 1]])
                add("P")
            if rng.random() < 0.7:
                m = rand_msg(rng, nxt(), big=False)
                add("S%d;%s" % (a, m.spec()), send=a, msgs=[m]); add("P")
    if kind == "tcp-foreign-connection":
        # the documented trigger: a 10-byte message whose write stops after 7 bytes, a third party connects to the
        # receiver's passive candidate and writes a small frame, then the rest arrives
        ops, meta_ops = [], []
        a = rng.randrange(2)
        m0 = rand_msg(rng, nxt(), big=False)
        add("S%d;%s" % (a, m0.spec()), send=a, msgs=[m0]); add("P")
        n = rng.choice([10, 100, 5000])
        m1 = Msg([n], False, nxt(), "g")
        add("W%d;%d" % (a, rng.randrange(3, n)))
        add("S%d;%s" % (a, m1.spec()), send=a, msgs=[m1])
        add("p%d" % (1 - a))
        if rng.random() < 0.5:
            add("V%d;0003aabbcc" % (1 - a), foreign=True)       # a third party connects to the receiver's passive candidate
        else:
            add("Z%d;0003aabbcc" % a, foreign=True)             # the sender's side of the pair's other connection
        add("p%d" % (1 - a)); add("P")
        m2 = rand_msg(rng, nxt(), big=False)
        add("S%d;%s" % (a, m2.spec()), send=a, msgs=[m2])
    # drain
    add("W0;-"); add("W1;-"); add("K0;-"); add("K1;-"); add("P"); add("T20"); add("P")
    if use_g:
        for a in (0, 1):
            for _ in range(3 * nmsg + 4):
                add("G%d;%s" % (a, "70000"), recv=a, nm=1, lay="70000")
        add("P")
    line = "c%d r%db%dk%ds%d %s" % (i, cfg["r"], cfg["b"], cfg["k"], cfg["s"], " ".join(ops))
    return line, kind, dict(cfg=cfg, ops=meta_ops, kind=kind, use_g=use_g)


def boundary_cases(rng, i0):
    """systematic: every boundary size x a few layouts, callback mode, no caps and 1-byte caps around the headers"""
    out = []
    i = i0
    lays = []
    for n in [1, 2, FM - 1, FM, FM + 1, 65535]:
        lays.append([n])
        if n >= 2:
            lays.append([1, n - 1]); lays.append([n - 1, 1]); lays.append([0, n, 0])
        if n > FM:
            lays.append([FM, n - FM])                 # split exactly at the boundary (over-read before f9b160b)
            lays.append([FM - 1, n - FM + 1])         # second frame inside buffer 2
            lays.append([FM + 1, n - FM - 1] if n - FM - 1 > 0 else [FM - 5, n - FM + 5])   # the rest spills over into the next buffer
            lays.append([10, FM - 11, 1, n - FM])     # cut just before and at the boundary
    sd = 7
    for sizes in lays:
        for nullterm in (False, True):
            sd += 1
            m = Msg(sizes, nullterm, sd, "g")
            ops = ["K1;1x6.%d" % rng.choice([5, 100, 70000])] if rng.random() < 0.5 else []
            meta = [dict(op=o) for o in ops]
            ops += ["S0;" + m.spec(), "P", "K1;-", "P"]
            meta += [dict(op="S0;" + m.spec(), send=0, msgs=[m]), dict(op="P"), dict(op="K1;-"), dict(op="P")]
            out.append(("b%d r0b0k0s%d %s" % (i, 100 + i, " ".join(ops)), "tcp-boundary",
                        dict(cfg=dict(r=0, b=0, k=0, s=100 + i), ops=meta, kind="tcp-boundary", use_g=False)))
            i += 1
    return out


# ------------------------------------------------------------------ parsing the harness output
def parse_out(out):
    toks = out.split(" ")
    return toks[0], toks[1:]


D1_WHY = "sender over-read: a frame after the first is not contained in one scatter buffer (message above 0xF800 bytes over several buffers)"
D2_WHY = "ICE control frame handed to the application by nice_agent_recv_messages from the reassembly cache (no demultiplexing in agent_try_consume_next_rfc4571_chunk)"
D6_WHY = "bytes of another TCP connection of the component were spliced into the RFC 4571 reassembly buffer (one buffer per component, not per socket)"


def oracle(line, out, meta):
    """Implementation-side oracle, independent of the model.  Returns (why | None, trigger | None, info for the tie)."""
    cid, toks = parse_out(out)
    for t in toks:
        if t.startswith("ICEDELIV"):
            return "the receive callback fired before the component was READY: ICE control traffic reached the application (%s)" % t[:80], None, None
    if not toks or toks[0] != "READY":
        # reaching READY is C01's business; without a connection there is nothing to observe here
        return None, "not-ready", None
    cfg = meta["cfg"]
    bs = cfg["b"] == 1
    mops = [m for m in meta["ops"]]
    # walk tokens and ops in lock step: tokens do not carry op boundaries, but s/g tokens end send / recv ops
    sends = [m for m in mops if "send" in m]
    recvs = [m for m in mops if "recv" in m]
    raws = [m for m in mops if "raw" in m]
    xi = 0
    rawbuf = {0: bytearray(), 1: bytearray()}
    si = gi = 0
    accepted = {0: [], 1: []}        # frames accepted by the socket layer in order: ("d", bytes) | ("i", bytes)
    wire = {0: bytearray(), 1: bytearray()}
    deliv = {0: [], 1: []}           # ("d", bytes) callback | ("g", bytes, had_read) per valid message of a G call
    cur_frames = []                  # f tokens of the running send op
    reads_since_g = {0: 0, 1: 0}
    foreign_seen = any(m.get("foreign") for m in mops)
    info = dict(sends=[], reads={0: [], 1: []}, gcalls={0: [], 1: []}, disp={0: [], 1: []})
    overread = None
    for t in toks[1:]:
        if not t:
            continue
        if t.startswith("ICEDELIV"):
            return "the receive callback fired before the component was READY: ICE control traffic reached the application (%s)" % t[:80], None, None
        if t.startswith("OVERREAD"):
            overread = t
            continue
        c = t[0]
        if c == "w":
            a, req, ret, hx = t[1:].split(":")
            if ret != "b" and hx != "-":
                wire[int(a)] += bytes.fromhex(hx)
        elif c == "f":
            a, rel, acc, sizes = t[1:].split(":")
            cur_frames.append((int(a), rel, int(acc), [int(x) for x in sizes.split(".")]))
        elif c == "i":
            a, rel, acc, hx = t[1:].split(":")
            if int(acc) == 1:
                accepted[int(a)].append(("i", bytes.fromhex(hx)))
        elif c == "s":
            if si >= len(sends):
                return "internal: more send results than send ops", None, None
            sm = sends[si]; si += 1
            a = sm["send"]
            ret = t[1:]
            nacc = 0 if ret in ("B", "-1") else int(ret)
            if overread:
                m_bad = [m for m in sm["msgs"] if m.unsafe()]
                if m_bad:
                    return D1_WHY + ": " + overread + " layout " + m_bad[0].spec(), None, None
                return "the socket layer was handed a vector that runs past the end of a caller buffer (%s): %s" % (overread, sm["op"]), None, None
            # frames of the accepted messages must be exactly the RFC 4571 frames
            exp_frames = []
            for m in sm["msgs"][:nacc]:
                for p in m.pieces():
                    exp_frames.append(len(p).to_bytes(2, "big") + p)
            took = [f for f in cur_frames if f[2] == 1]
            refused = [f for f in cur_frames if f[2] != 1]
            if len(took) != len(exp_frames):
                return "send reported %s messages but %d frames were handed to the socket layer (expected %d): %s" % (ret, len(took), len(exp_frames), sm["op"]), None, None
            for f, e in zip(took, exp_frames):
                if sum(f[3]) != len(e) or f[3][0] != 2:
                    return "a frame of %d bytes was handed over as vectors %r: %s" % (len(e), f[3], sm["op"]), None, None
                accepted[a].append(("d", e))
            info["sends"].append(dict(a=a, msgs=sm["msgs"], frames=list(cur_frames), ret=ret))
            cur_frames = []
        elif c == "q":
            a, req, got = t[1:].split(":")
            reads_since_g[int(a)] += 1
            info["reads"][int(a)].append(("q", int(req), int(got)))
        elif c == "e":
            info["reads"][int(t[1])].append(("e",))
        elif c == "D":
            info["reads"][int(t[1])].append(("D",))
        elif c == "d":
            a, hx = t[1:].split(":")
            deliv[int(a)].append(("d", b"" if hx == "-" else bytes.fromhex(hx)))
            info["reads"][int(a)].append(("d", len(deliv[int(a)]) - 1))
        elif c == "g":
            if gi >= len(recvs):
                return "internal: more recv results than recv ops", None, None
            rm = recvs[gi]; gi += 1
            a = rm["recv"]
            body = t[1:]
            if body == "B" or body.startswith("-1"):
                vals = []
                ret = -1
            else:
                ret, _, rest = body.partition(":")
                ret = int(ret)
                if "!SHORT" in rest:
                    return "nice_agent_recv_messages reported more valid bytes than the message's buffers hold: %s" % t[-60:], None, None
                try:
                    vals = [] if not rest else [b"" if h == "-" else bytes.fromhex(h) for h in rest.split(",")]
                except ValueError:
                    return "internal: unparsable recv token %s" % t[:100], None, None
            for v in vals:
                deliv[a].append(("g", v, reads_since_g[a] > 0))
            info["reads"][a].append(("g", rm["lay"], rm["nm"], ret, vals))
            reads_since_g[a] = 0
        elif c == "x":
            if xi < len(raws):
                rawbuf[raws[xi]["raw"]] += raws[xi]["data"]
                a_ = raws[xi]["raw"]; xi += 1
                # complete frames written so far join the stream in order
                while len(rawbuf[a_]) >= 2 and len(rawbuf[a_]) >= 2 + int.from_bytes(rawbuf[a_][:2], "big"):
                    n_ = 2 + int.from_bytes(rawbuf[a_][:2], "big")
                    accepted[a_].append(("x", bytes(rawbuf[a_][:n_])))
                    del rawbuf[a_][:n_]
        elif c in "vz?":
            pass
    # ---- sender side: the kernel got exactly the accepted frames, in order
    for a in (0, 1):
        exp = b"".join(x[1] for x in accepted[a] if x[0] != "x")      # raw injections bypass the interposed write
        if overread is None and bytes(wire[a]) != exp:
            if not exp.startswith(bytes(wire[a])):
                return "agent %d: the bytes written to the TCP socket are not the frames handed to the socket layer (first difference at byte %d)" % (
                    a, next((k for k in range(min(len(exp), len(wire[a]))) if exp[k] != wire[a][k]), min(len(exp), len(wire[a])))), None, None
            return "agent %d: %d bytes of accepted frames never reached the TCP socket although the socket became writable" % (a, len(exp) - len(wire[a])), None, None
    info["accepted"] = accepted
    info["deliv"] = deliv
    info["overread"] = overread
    # ---- receiver side
    for b in (0, 1):
        a = 1 - b
        exp_data = [x[1][2:] for x in accepted[a] if x[0] == "d" or (x[0] == "x" and len(x[1]) > 2)]
        ice = [x[1][2:] for x in accepted[a] if x[0] == "i"]
        got = [x[1] for x in deliv[b]]
        # a frame written into the pair's OTHER (verified) connection is a message of its own; the order between the
        # two connections is not defined
        for m in mops:
            if m.get("foreign") and m["op"][0] == "Z" and int(m["op"][1]) == a and not bs:
                inj = bytes.fromhex(m["op"].split(";")[1])[2:]
                if inj in got and inj not in exp_data:
                    got.remove(inj)
        if bs:
            if b"".join(got) != b"".join(exp_data):
                if foreign_seen:
                    return D6_WHY, "foreign-connection-bytes-spliced", None
                gj, ej = b"".join(got), b"".join(exp_data)
                return "bytestream: agent %d received %d bytes, the peer sent %d; they differ at byte %d" % (
                    b, len(gj), len(ej), next((k for k in range(min(len(gj), len(ej))) if gj[k] != ej[k]), min(len(gj), len(ej)))), None, None
            continue
        if got != exp_data:
            # classify
            if foreign_seen:
                return D6_WHY, "foreign-connection-bytes-spliced", None
            k = next((k for k in range(min(len(got), len(exp_data))) if got[k] != exp_data[k]), min(len(got), len(exp_data)))
            if k < len(got) and got[k] in ice and deliv[b][k][0] == "g" and not deliv[b][k][2]:
                # does the rest match once the leaked control frames are removed?
                rest = [x[1] for x in deliv[b] if not (x[0] == "g" and not x[2] and x[1] in ice)]
                if rest == exp_data:
                    return D2_WHY + ": %d-byte STUN message %s..." % (len(got[k]), got[k][:8].hex()), "ice-control-leak-recv-messages-cache", info
            if k < len(got) and got[k] in ice:
                return "agent %d: an ICE control (STUN) frame of %d bytes was handed to the application" % (b, len(got[k])), None, None
            if k >= len(got):
                return "agent %d: message %d (%d bytes) sent by the peer over ICE-TCP was never delivered (lost); %d of %d arrived" % (b, k, len(exp_data[k]), len(got), len(exp_data)), None, None
            if k >= len(exp_data):
                return "agent %d: received a %d-byte message the peer never sent" % (b, len(got[k])), None, None
            return "agent %d: delivery %d has %d bytes (hash %08x), the peer's frame %d has %d bytes (hash %08x): altered, merged or split" % (
                b, k, len(got[k]), hash32(got[k]), k, len(exp_data[k]), hash32(exp_data[k])), None, None
    return None, None, info


# ------------------------------------------------------------------ the tie: the same inputs through the Gallina model, inside Coq
PREAMBLE = r"""
From Coq Require Import ZArith List Bool.
From Nice Require Import Stream.StreamBase.
Import ListNotations.
Local Open Scope Z_scope.
Fixpoint genb (seed k : Z) (n : nat) : list Z :=
  match n with O => [] | S m => Z.land (seed * 131 + k * 13 + Z.shiftr k 7 + (Z.shiftr k 13) * 7) 255 :: genb seed (k + 1) m end.
Definition patch (l : list Z) (v : list Z) : list Z := v ++ dropZ (lenZ v) l.
Definition msgb (kind seed n : Z) : list Z :=
  let d := genb seed 0 (Z.to_nat n) in
  if (kind =? 1) && (4 <=? n) then
    let body := if 20 <=? n then n - 20 else 0 in
    let h4 := [(if seed mod 2 =? 1 then 1 else 0); (if (seed / 2) mod 2 =? 1 then 1 else 17); (body / 256) mod 256; body mod 256] in
    if 8 <=? n then patch d (h4 ++ [33; 18; 164; 66]) else patch d h4
  else d.
Fixpoint cut (sizes : list Z) (d : list Z) : list (list Z) :=
  match sizes with [] => [] | s :: t => takeZ s d :: cut t (dropZ s d) end.
Definition h32 (l : list Z) : Z := fold_left (fun h b => Z.land (h * 31 + b + 1) 4294967295) l 0.
Definition sres_of (z : Z) : sres := if z =? 1 then SOk else if z =? 0 then SBlock else SErr.
Definition zres (r : sres) : Z := match r with SOk => 1 | SBlock => 0 | SErr => -1 end.
(* what the harness shows of a send op: per frame (reliable, answer, vector sizes), the API's return value; Fault = None *)
Definition send_obs (msgs : list (list (list Z))) (resp : list Z) :=
  match send_api msgs (map sres_of resp) with
  | None => None
  | Some (fss, n) => Some (map (fun f => (f_reliable f, zres (f_res f), map lenZ (f_vec f))) (concat fss), n,
                           h32 (concat (map wire_of fss)))
  end.
Fixpoint leqb {A} (f : A -> A -> bool) (x y : list A) := match x, y with [] , [] => true | a :: x', b :: y' => f a b && leqb f x' y' | _, _ => false end.
Definition zl_eqb := leqb Z.eqb.
Definition fr_eqb (a b : bool * Z * list Z) := Bool.eqb (fst (fst a)) (fst (fst b)) && (snd (fst a) =? snd (fst b)) && zl_eqb (snd a) (snd b).
Definition send_ok (c : list (list (list Z)) * list Z * option (list (bool * Z * list Z) * Z * Z)) : bool :=
  let '(msgs, resp, exp) := c in
  match send_obs msgs resp, exp with
  | None, None => true
  | Some (fs, n, h), Some (efs, en, eh) => leqb fr_eqb fs efs && (n =? en) && (h =? eh)
  | _, _ => false
  end.
Definition dl_eqb (a b : Z * Z) := (fst a =? fst b) && (snd a =? snd b).
Definition summ (ds : list (list Z)) : list (Z * Z) := map (fun d => (lenZ d, h32 d)) ds.
Definition isctl (ice : list (list Z)) (p : list Z) : bool := existsb (fun q => zl_eqb p q) ice.
(* callback session: (bytestream, reliable, stream, script, ice payloads, expected deliveries) *)
Definition kev_of (z : Z) : kev := if z =? 0 then KEmpty else KRead z.
Definition cb_ok (c : bool * bool * list Z * list Z * list (list Z) * list (Z * Z)) : bool :=
  let '(bsm, rel, stream, scr, ice, exp) := c in
  let k := {| pend := stream; script := map kev_of scr |} in
  let n := S (length scr) in
  match (if rel then rel_session bsm (isctl ice) true n rst0 k else cb_session bsm (isctl ice) true n rst0 k) with
  | Some (_, _, ds, false) => leqb dl_eqb (summ ds) exp
  | _ => false
  end.
Definition mk_msg (sizes : list Z) : imsg := {| m_bufs := map (fun n => repZ 0 (Z.to_nat n)) sizes; m_len := 0 |}.
Fixpoint rm_run (ice : list (list Z)) (s : rst) (pd : list Z) (calls : list (list (list Z) * list Z)) : option (list (Z * list (Z * Z))) :=
  match calls with
  | [] => Some []
  | (lays, scr) :: rest =>
    match recv_messages_call false (isctl ice) true s {| pend := pd; script := map kev_of scr |} (map mk_msg lays) with
    | None => None
    | Some (s', k', msgs', r) =>
      let vals := map (fun m => (m_len m, h32 (valid_bytes m))) (firstn (Z.to_nat r) msgs') in
      match rm_run ice s' (pend k') rest with None => None | Some l => Some ((r, vals) :: l) end
    end
  end.
Definition rv_eqb (a b : Z * list (Z * Z)) := (fst a =? fst b) && leqb dl_eqb (snd a) (snd b).
Definition rm_ok (c : list Z * list (list Z) * list (list (list Z) * list Z) * list (Z * list (Z * Z))) : bool :=
  let '(stream, ice, calls, exp) := c in
  match rm_run ice rst0 stream calls with Some l => leqb rv_eqb l exp | None => false end.
"""


def coq_list(xs):
    return "[" + "; ".join(xs) + "]"


def coq_zl(xs):
    return coq_list([str(int(x)) for x in xs])


def coq_bytes_expr(m):
    return "msgb %d %d %d" % (1 if m.kind == "u" else 0, m.seed, m.total)


def tie_items(meta, info):
    """Coq terms for the send ops and (callback-only cases) the two receive sessions of one case"""
    send_items, cb_items = [], []
    for s in info["sends"]:
        if not s["frames"]:
            continue          # refused by the API before any framing (e.g. consent revoked): outside the model
        msgs = coq_list(["cut %s (%s)" % (coq_zl(m.sizes), coq_bytes_expr(m)) for m in s["msgs"]])
        resp = coq_zl([f[2] for f in s["frames"]])
        frs = coq_list(["(%s, %d, %s)" % ("true" if f[1] == "r" else "false", f[2], coq_zl(f[3])) for f in s["frames"]])
        nret = -1 if s["ret"] in ("B", "-1") else int(s["ret"])
        # the bytes the socket layer took
        took = b""
        k = 0
        allp = []
        for m in s["msgs"]:
            allp += [len(p).to_bytes(2, "big") + p for p in m.pieces()]
        for f in s["frames"]:
            if k < len(allp):
                if f[2] == 1:
                    took += allp[k]
                k += 1
        send_items.append("(%s, %s, Some (%s, %d, %d))" % (msgs, resp, frs, nret, hash32(took)))
    return send_items, cb_items


def session_item(meta, info, b):
    """callback-mode receive session of agent b as a Coq term (None if not applicable)"""
    a = 1 - b
    cfg = meta["cfg"]
    if meta["use_g"] or any(m.get("foreign") for m in meta["ops"]):
        return None
    stream, ice = stream_expr(meta, info, a)
    scr = []
    for r in info["reads"][b]:
        if r[0] == "q":
            if r[2] <= 0:
                return None
            scr.append(r[2])
        elif r[0] == "e":
            scr.append(0)
    if len(scr) > 400:
        return None
    exp = coq_list(["(%d, %d)" % (len(x[1]), hash32(x[1])) for x in info["deliv"][b]])
    return "(%s, %s, %s, %s, %s, %s)" % ("true" if cfg["b"] else "false", "true" if cfg["r"] else "false", stream, coq_zl(scr), coq_list(ice), exp)


def stream_expr(meta, info, a):
    """the byte stream agent a put on the wire, as a Coq term, and the ICE control payloads in it"""
    segs, ice = [], []
    dataframes = []
    for s in info["sends"]:
        if s["a"] != a:
            continue
        nret = 0 if s["ret"] in ("B", "-1") else int(s["ret"])
        for m in s["msgs"][:nret]:
            off = 0
            for p in m.pieces():
                dataframes.append((m, off, len(p)))
                off += len(p)
    di = 0
    for kind, byts in info["accepted"][a]:
        if kind == "d":
            m, off, ln = dataframes[di]; di += 1
            segs.append("%s ++ takeZ %d (dropZ %d (%s))" % (coq_zl(ln.to_bytes(2, "big")), ln, off, coq_bytes_expr(m)))
        elif kind == "x":
            segs.append(coq_zl(byts))
        else:
            segs.append(coq_zl(byts))
            ice.append(coq_zl(byts[2:]))
    return (" ++ ".join("(%s)" % x for x in segs) if segs else "[]"), ice


def lay_sizes(lay):
    lay = lay[:-1] if lay.endswith("N") else lay
    return [int(x) for x in lay.split(".")]


def rm_item(meta, info, b):
    """the nice_agent_recv_messages calls of agent b (non-reliable agents) as a Coq term"""
    cfg = meta["cfg"]
    if not meta["use_g"] or cfg["r"] or cfg["b"] or any(m.get("foreign") for m in meta["ops"]):
        return None
    stream, ice = stream_expr(meta, info, 1 - b)
    calls, exp, scr = [], [], []
    for r in info["reads"][b]:
        if r[0] == "q":
            if r[2] <= 0:
                return None
            scr.append(r[2])
        elif r[0] == "e":
            scr.append(0)
        elif r[0] == "d":
            return None
        elif r[0] == "g":
            _, lay, nm, ret, vals = r
            calls.append("(%s, %s)" % (coq_list([coq_zl(lay_sizes(lay))] * nm), coq_zl(scr)))
            exp.append("(%d, %s)" % (ret, coq_list(["(%d, %d)" % (len(v), hash32(v)) for v in vals])))
            scr = []
    if not calls or len(calls) > 60:
        return None
    return "(%s, %s, %s, %s)" % (stream, coq_list(ice), coq_list(calls), coq_list(exp))


def run_tie(chk, send_items, cb_items, label, rm_items=()):
    import concurrent.futures as cf
    jobs = []
    nchunk = 12
    rm_items = list(rm_items)
    for k in range(nchunk):
        si = send_items[k::nchunk]
        ci = cb_items[k::nchunk]
        ri = rm_items[k::nchunk]
        if not si and not ci and not ri:
            continue
        body = PREAMBLE + ("Definition scases : list (list (list (list Z)) * list Z * option (list (bool * Z * list Z) * Z * Z)) := %s.\n"
                           "Definition ccases : list (bool * bool * list Z * list Z * list (list Z) * list (Z * Z)) := %s.\n") % (
            "[\n" + ";\n".join(si) + "]" if si else "[]", "[\n" + ";\n".join(ci) + "]" if ci else "[]")
        body += "Definition rcases : list (list Z * list (list Z) * list (list (list Z) * list Z) * list (Z * list (Z * Z))) := %s.\n" % (
            "[\n" + ";\n".join(ri) + "]" if ri else "[]")
        body += ("Definition sbad := filter (fun c => negb (send_ok c)) scases.\n"
                 "Definition cbad := filter (fun c => negb (cb_ok c)) ccases.\n"
                 "Definition rbad := filter (fun c => negb (rm_ok c)) rcases.\n"
                 "Eval vm_compute in (length rbad, match rbad with c :: _ => Some (let '(stream, ice, calls, exp) := c in (map snd calls, exp, rm_run ice rst0 stream calls)) | [] => None end).\n"
                 "Eval vm_compute in (length sbad, length cbad, match sbad with c :: _ => Some (snd (fst c), send_obs (fst (fst c)) (snd (fst c)), snd c) | [] => None end,\n"
                 "   match cbad with c :: _ => Some (let '(bsm, rel, stream, scr, ice, exp) := c in (scr, exp, match (if rel then rel_session bsm (isctl ice) true (S (length scr)) rst0 {| pend := stream; script := map kev_of scr |} else cb_session bsm (isctl ice) true (S (length scr)) rst0 {| pend := stream; script := map kev_of scr |}) with Some (_, _, ds, e) => Some (summ ds, e) | None => None end)) | [] => None end).\n")
        jobs.append((body, len(si), len(ci) + len(ri)))
    ok_s = ok_c = 0
    with cf.ThreadPoolExecutor(len(jobs) or 1) as ex:
        for (body, ns, nc), (rc, out) in zip(jobs, ex.map(lambda j: vlib.coq_eval(TIE_MODS, j[0], timeout=900), jobs)):
            flat = out.replace("\n", " ")
            flat = re.sub(r"\s+", " ", flat)
            if rc == 0 and "= (0%nat, 0%nat, None, None)" in flat and "= (0%nat, None)" in flat:
                ok_s += ns; ok_c += nc
            else:
                chk.broken_obligation("correspondence:" + label, "FramingModel / RecvModel and agent/agent.c disagree (or the evaluation failed):\n" + out[-2500:])
    chk.cov["traces_validated_against_impl"] += ok_s + ok_c
    chk.cov["correspondence"][label] = {"send_ops": len(send_items), "callback_sessions": len(cb_items), "recv_messages_sessions": len(rm_items), "agree": ok_s + ok_c}


# ------------------------------------------------------------------ builds
def agent_srcs():
    return [s for s in vlib.AGENT_SRCS + vlib.SOCKET_SRCS + vlib.STUN_SRCS + ["agent/agent-enum-types.c"] if s != "stun/rand.c"]


WRAP = ["-Wl,--wrap=component_io_cb", "-Wl,--wrap=nice_socket_send_messages", "-Wl,--wrap=nice_socket_send_messages_reliable", "-ldl"]


def build_impl():
    """the harness over the standard sanitizer objects (ASan + UBSan incl. the alignment check)"""
    objs, l = vlib.repo_objects(agent_srcs())
    if not objs:
        return None, l
    return vlib.link("data_h", ["data_h.c"], objs, extra=WRAP)


def prebuild():
    s, o = sc.build_sim()
    if not s:
        return o
    e, o = build_impl()
    return None if e else o


# ------------------------------------------------------------------ the TCP part
def tcp_part(chk):
    impl, o = build_impl()
    if not impl:
        chk.broken_obligation("impl-build-data_h", o[-3000:]); return
    rng = chk.rng
    n = 170 if chk.tier == "quick" else 6000
    cases = boundary_cases(rng, 0)
    cases += [gen_case(rng, 1000 + i, chk.tier) for i in range(n)]
    lines = [c[0] + "\n" for c in cases]
    outs, errs = vlib.run_sharded(impl, lines, timeout=1500)
    crashed = set()
    nviol = 0
    for idx, rc, se in errs:
        crashed.add(idx)
        nviol += 1
        if nviol <= 3:
            chk.violation({"kind": "impl-crash", "what": "tcp-C02", "case": cases[idx][0], "rc": rc, "stderr": se[-3000:]},
                          "tcp-C02: implementation crashed or sanitizer report (rc=%s) on case: %s\n%s" % (rc, cases[idx][0][:300], se[-1500:]))
    send_items, cb_items, rm_items = [], [], []
    n_notready = 0
    ntie_cases = 0
    tie_budget = 45 if chk.tier == "quick" else 1500
    for k, (line, kind, meta) in enumerate(cases):
        out = outs[k]
        chk.count_case(line, out is not None and (" d" in out or " g1" in out or " g2" in out or " g3" in out), kind)
        if out is None:
            if k not in crashed and not errs:
                chk.broken_obligation("impl-no-output:tcp-C02", line[:300])
            continue
        if k < 2:
            chk.sample({"case": line[:300], "impl": out[:300]})
        why, trigger, info = oracle(line, out, meta)
        if trigger == "not-ready":
            n_notready += 1
            continue
        if why:
            nviol += 1
            if nviol <= 40:
                chk.violation({"kind": "oracle", "what": "tcp-C02", "trigger": trigger or "none", "case": line, "impl": out[:4000], "why": why},
                              "tcp-C02: property oracle failed on the implementation: %s\n case: %s" % (why, line[:400]))
            # the leak of a cached control frame is what the model predicts: tie it
            if trigger == "ice-control-leak-recv-messages-cache" and info is not None:
                for b in (0, 1):
                    it = rm_item(meta, info, b)
                    if it:
                        rm_items.append(it)
            continue
        if info is None:
            continue
        # tie: boundary cases always, random ones within the budget, big scripts skipped
        total_bytes = sum(sum(m.total for m in s["msgs"]) for s in info["sends"])
        if kind != "tcp-boundary":
            if ntie_cases >= tie_budget or total_bytes > 400000:
                continue
            ntie_cases += 1
        si, _ = tie_items(meta, info)
        send_items += si
        for b in (0, 1):
            it = session_item(meta, info, b)
            if it and (info["deliv"][b] or info["reads"][b]):
                cb_items.append(it)
            it = rm_item(meta, info, b)
            if it:
                rm_items.append(it)
    chk.cov["correspondence"]["tcp-C02-not-ready"] = n_notready
    if n_notready * 10 > len(cases):
        chk.broken_obligation("harness:tcp-C02", "%d of %d cases did not reach READY over loopback TCP: the harness cannot observe the data path" % (n_notready, len(cases)))
    run_tie(chk, send_items, cb_items, "tcp-C02", rm_items)


ZERO_CAP_CASES = [
    "z0 r1b1k0s3 C1;0 S0;5;g1 P G1;0.0 G1;9 G1;9 P",                 # zero-length buffers only, one frame pending
    "z4 r1b1k0s3 C1;0 S0;5;g1 S0;5;g2 P G1;5.0 G1;7 G1;7 P",          # a layout ending in a zero-length buffer, two frames pending
    "z5 r1b1k0s4 C1;0 S0;3.4;g7 S0;6;g8 P G1;0 G1;2.0.0 G1;70000 G1;70000 P",
]


def spin_probe(chk):
    """bytestream-tcp: nice_agent_recv_messages whose remaining buffers have zero total size while a frame is pending must
    return (would block / what it has), and the data must still arrive afterwards (regression of fix 163ebb1: it used to spin)"""
    impl, o = build_impl()
    if not impl:
        return
    for line in ZERO_CAP_CASES:
        rc, so, se = vlib.run_lines(impl, line + "\n", timeout=5)
        chk.count_case(line, True, "tcp-zero-capacity")
        if rc == 124:
            chk.violation({"kind": "hang", "what": "tcp-C02", "trigger": "bytestream-zero-capacity-spin", "case": line},
                          "tcp-C02: nice_agent_recv_messages_nonblocking does not return (5 s): bytestream-tcp, remaining receive buffers of zero "
                          "total size, a frame pending\n case: " + line)
        elif rc != 0:
            chk.violation({"kind": "impl-crash", "what": "tcp-C02-zero-capacity", "case": line, "rc": rc, "stderr": se[-3000:]},
                          "tcp-C02 (zero-capacity case): crash or sanitizer report rc=%s\n%s" % (rc, se[-1500:]))
        else:
            why, trigger, _ = oracle(line, so.strip("\n"), meta_from_line(line))
            if why:
                chk.violation({"kind": "oracle", "what": "tcp-C02", "trigger": trigger or "none", "case": line, "impl": so[:2000], "why": why},
                              "tcp-C02: property oracle failed on the implementation: %s\n case: %s" % (why, line))


PTCP_WHY = ("reliable mode (pseudo-TCP over UDP): the received stream is corrupted after data segments overtook the peer's lost connect segment "
            "(pseudotcp.c saves them at offsets that ignore the sequence space of the control segment)")


def ptcp_early_data(evs):
    """signature of the known pseudo-TCP defect in a simulator trace: on some flow a data segment (more than the 31 bytes of a connect
    segment) was delivered before any connect segment of that flow had been, at least one of which was dropped"""
    seen_ctl, dropped_ctl = set(), set()
    for e in evs:
        if e.kind != "pkt" or len(e.f) < 5 or e.f[3] != "data" or not e.f[4].startswith("len="):
            continue
        flow = (e.f[0], e.f[1])
        n = int(e.f[4][4:])
        if n == 31:
            (seen_ctl if e.f[2] == "ok" else dropped_ctl).add(flow)
        elif n > 31 and e.f[2] == "ok" and flow not in seen_ctl and flow in dropped_ctl:
            return True
    return False


# a scenario found by the thorough tier (30 percent loss; the peer's connect segments are lost, its data gets through): run on every tier
PTCP_CORPUS = [('dataK1 seed,907270985 agent,0,0,0,2,10.0.0.1 agent,1,0,1,3,10.0.1.1 stream,0,2 stream,1,2 net,0.3,0,1,5,3 gather,0,1 gather,1,1 cands,0,1,1,2 run,60 cands,1,0,1,1 run,20 cands,1,0,1,2 creds,1,0,1 creds,0,1,1 run,20 cands,0,1,1,1 run,20 run,8000 sendstream,1,1,2,63488,79 run,1 sendstream,0,1,1,63489,62 run,300 sendstream,0,1,1,4096,153 run,1 sendstream,0,1,2,102432,91 run,1 sendstream,0,1,1,1200,0 run,300 sendstream,0,1,2,63487,165 sendstream,1,1,2,100,181 run,300 run,60000 streamhash,0,1,1 streamhash,0,1,2 streamhash,1,1,1 streamhash,1,1,2 state,0,1,1 selected,0,1,1 state,0,1,2 selected,0,1,2 state,1,1,1 selected,1,1,1 state,1,1,2 selected,1,1,2', {"kind": "data-reliable", "ncomp": 2, "drop": 0.3})]


# regression scenario for fix 3f3d63f (a zero-length buffer in the receive layout of a reliable agent closed the pseudo-TCP connection)
PULL_CORPUS = [('dataK2 seed,409004122 agent,0,0,0,2,10.0.0.1 agent,1,0,1,2,10.0.1.1 stream,0,2 stream,1,2 net,0,0,5,5,3 gather,0,1 gather,1,1 cands,1,0,1,2 creds,0,1,1 cands,1,0,1,1 creds,1,0,1 run,60 cands,0,1,1,1 cands,0,1,1,2 run,8000 pull,0,1,2,21.0.8.65536 pull,1,1,1,0.3.19.65537 sendstream,0,1,1,1200,46 sendstream,1,1,2,63489,7 run,300 sendstream,0,1,1,20,208 run,60000 streamhash,0,1,1 streamhash,0,1,2 streamhash,1,1,1 streamhash,1,1,2 state,0,1,1 selected,0,1,1 state,0,1,2 selected,0,1,2 state,1,1,1 selected,1,1,1 state,1,1,2 selected,1,1,2', {"kind": "data-reliable", "ncomp": 2, "drop": 0, "pull": 2})]


def sim_oracle(line, evs, meta):
    r = sc.oracle_data_full(evs, meta)
    if r and r.startswith("reliable mode: the ") and "are not the first" in r and ptcp_early_data(evs):
        return PTCP_WHY
    return r


def udp_gen(n, seed, k, j):
    return bytes(((seed * 131 + k * 31 + j * 7 + i * 13 + (i >> 7)) & 0xff) for i in range(n))


def udp_batch_stage(chk):
    """plain UDP (socket/udp-bsd.c) over real loopback sockets: one nice_socket_send_messages call with 1..6 scatter/gather messages of different buffer
    counts (the sendmmsg path); every message must arrive as ONE datagram holding exactly the concatenation of its own buffers, in order
    (harness/udp_h.c, exactly-sized heap buffers under ASan)."""
    objs, l = vlib.repo_objects(vlib.AGENT_SRCS + vlib.SOCKET_SRCS + vlib.STUN_SRCS + ["agent/agent-enum-types.c"])
    impl, o = vlib.link("udp_h", ["udp_h.c"], objs) if objs else (None, l)
    if not impl:
        chk.broken_obligation("impl-build-udp_h", (o or "")[-2000:]); return
    rng = chk.sub_rng("udp-batch")
    cases = []
    for i in range(300 if chk.tier == "quick" else 6000):
        msgs = []
        for _ in range(rng.choice([1, 2, 2, 3, 4, 6])):
            sizes = [rng.choice([0, 1, 2, 3, 20, 100, 576, 1200]) for _ in range(rng.choice([1, 1, 2, 3, 5]))]
            if sum(sizes) == 0:
                sizes[-1] = 1
            msgs.append(sizes)
        cases.append((rng.randrange(1, 250), msgs))
    txt = "".join("u%d %d %s\n" % (i, sd, "|".join(".".join(map(str, m)) for m in msgs)) for i, (sd, msgs) in enumerate(cases))
    rc, so, se = vlib.run_lines(impl, txt, timeout=600)
    outs = so.strip().split("\n")
    if rc != 0 or len(outs) != len(cases) or "NOSOCKET" in so:
        idx = min(len(outs), len(cases) - 1)
        chk.violation({"kind": "impl-crash", "what": "udp-batch-C02", "case": txt.split("\n")[idx], "rc": rc, "stderr": se[-3000:]},
                      "udp-batch-C02: the UDP socket layer crashed or ASan reported (rc=%s) at case: %s\n%s" % (rc, txt.split("\n")[idx][:200], se[-1200:]))
        return
    nv = 0
    for i, ((sd, msgs), out) in enumerate(zip(cases, outs)):
        f = out.split()
        want = [b"".join(udp_gen(n, sd, k, j) for j, n in enumerate(m)) for k, m in enumerate(msgs)]
        ret = int(f[1][2:]); got = [] if f[2][2:] == "-" else [bytes.fromhex(x) if x != "-" else b"" for x in f[2][2:].split(",")]
        chk.count_case(out[:80], len(msgs) > 1 and len(set(len(m) for m in msgs)) > 1, "udp-batch")
        why = None
        if ret != len(msgs):
            why = "nice_socket_send_messages accepted %d of %d messages on an idle loopback socket" % (ret, len(msgs))
        elif got != want:
            k = next((k for k in range(min(len(got), len(want))) if got[k] != want[k]), min(len(got), len(want)))
            why = ("datagram %d of the batch carries %s, message %d was %d bytes in %d buffers (layouts %s)"
                   % (k, ("%d bytes" % len(got[k])) if k < len(got) else "nothing (never arrived)", k, len(want[k]) if k < len(want) else -1,
                      len(msgs[k]) if k < len(msgs) else -1, msgs))
        if why:
            nv += 1
            if nv <= 3:
                chk.violation({"kind": "oracle", "what": "udp-batch-C02", "case": txt.split("\n")[i], "impl": out[:3000], "why": why},
                              "udp-batch-C02: %s\n case: %s" % (why, txt.split("\n")[i][:300]))
    chk.cov["correspondence"]["udp-batch-C02"] = {"cases": len(cases), "violations": nv}


def run(chk):
    chk.prove(["Props/Properties_C02.v"])
    tcp_part(chk)
    spin_probe(chk)
    udp_batch_stage(chk)
    n = 200 if chk.tier == "quick" else 12000
    cases = [sc.gen_data(chk.rng, i) for i in range(n)] + PTCP_CORPUS + PULL_CORPUS
    sc.run_sim(chk, cases, sim_oracle, "sim-C02", compare=False)
    return chk.finish(**FINISH)


def meta_from_line(line):
    """rebuild the oracle's view of a case from its text"""
    w = line.split()
    m = re.match(r"r(\d)b(\d)k(\d)s(\d+)", w[1])
    cfg = dict(r=int(m.group(1)), b=int(m.group(2)), k=int(m.group(3)), s=int(m.group(4)))
    ops = []
    for op in w[2:]:
        d = dict(op=op)
        arg = op.split(";", 1)[1] if ";" in op else ""
        if op[0] == "S":
            ms = []
            for spec in arg.split("|"):
                lay, g = spec.split(";")
                nt = lay.endswith("N")
                ms.append(Msg([int(x) for x in lay.rstrip("N").split(".")], nt, int(g[1:]), g[0]))
            d.update(send=int(op[1]), msgs=ms)
        elif op[0] == "G":
            lays = arg.split("|")
            d.update(recv=int(op[1]), nm=len(lays), lay=lays[0])
        elif op[0] == "X":
            d.update(raw=int(op[1]), data=bytes.fromhex(arg))
        elif op[0] in "VZ":
            d.update(foreign=True)
        ops.append(d)
    return dict(cfg=cfg, ops=ops, kind="replay", use_g=any(o["op"][0] == "C" and o["op"].endswith(";0") for o in ops))


def replay(chk, path):
    """re-run the recorded case on the current tree"""
    d = json.load(open(path))
    rp = d.get("replay", {})
    case = rp.get("case")
    if not case:
        print("nothing to replay in", path); return 1
    if rp.get("what", "").startswith("sim") or case.startswith("data"):
        import C11
        return C11.replay(chk, path)
    impl, o = build_impl()
    if not impl:
        print(o); return 1
    rc, so, se = vlib.run_lines(impl, case + "\n", timeout=60)
    print(re.sub(r"[0-9a-f]{200,}", lambda m_: m_.group(0)[:40] + "...(%d hex digits)" % len(m_.group(0)), so)[:6000]); print(se[-3000:])
    if rc != 0:
        print("REPLAY: the implementation crashed / sanitizer report / hang (rc=%d)" % rc)
        return 1
    why, trigger, _ = oracle(case, so.strip("\n"), meta_from_line(case))
    print("REPLAY: oracle says:", why or "property holds on this case", "(trigger: %s)" % trigger if trigger else "")
    return 1 if why else 0
