"""C12 — Any sequence of public API calls is memory-safe, leak-free and never spins."""
import vlib, tabgen, sim_common as sc

COQ_TARGETS = ["Props/Properties_C12.vo"]
META = dict(
    text="proof (partial, small): the one arithmetic clause — timers are re-armed with an interval computed from the next due time — is proved for the keepalive "
         "timer over a model whose constants and statements are checked against agent/conncheck.c on every run: a tick that sends comes back after Ta, a tick "
         "with nothing due sleeps without unsigned wrap, never past the earliest pending keepalive, zero interval only within 1 ms of a due keepalive. Memory "
         "safety, leak freedom and socket release are properties of the C runtime that no Gallina model of this code base can carry: they are NOT proved; real "
         "agents execute random API programs (<= 60 calls over add/remove stream, gather, credentials, candidates, SDP generate/parse, relay info, restart, send, "
         "attach/detach, selected pair / remote candidate, consent lost, forget relays, close_async, unref; valid and stale ids; main-loop iterations, peer traffic, "
         "black holes, scripted servers in between) in the deterministic simulator built with ASan+UBSan+LSan; oracles: no abort/assertion, no sanitizer report, no "
         "leak at exit, no socket left open, main loop goes back to sleep (spin detector) and idle dispatch rate within the timers' periods.",
    note="trusted: Coq kernel for the small arithmetic theorem; otherwise sanitizers + simulator. Partial by nature: runtime memory behaviour cannot be modelled.",
    technique="Coq proof of keepalive re-arm arithmetic + sanitizer-instrumented random API programs in the deterministic simulator")
FINISH = dict(level="proof", trusted=["clang ASan/UBSan/LSan", "harness/sim.c", "lib/tabgen.py::consent_tables (statement shape)"],
              rule="API programs per props/sim_common.py::gen_api_program; non-trivial = a component reaches READY at some point",
              assumptions=["single-threaded use of the agent from one main context", "UDP candidates, TURN over UDP"])


def pregen():
    return tabgen.consent_tables()


def prebuild():
    s, o = sc.build_sim()
    return None if s else o


def oracle(line, evs, meta):
    return sc.oracle_api_program(evs, meta, meta.get("_out", ""))


def run(chk):
    gi, err = pregen()
    if gi is None:
        chk.broken_obligation("translator/table-extractor", err)
    chk.prove(["Props/Properties_C12.v"])
    n = 1500 if chk.tier == "quick" else 60000
    cases = [sc.gen_api_program(chk.rng, i) for i in range(n)]
    sc.run_sim(chk, cases, oracle, "sim-C12", leaks=True, compare=False)
    return chk.finish(**FINISH)


def replay(chk, path):
    import C11
    return C11.replay(chk, path)
