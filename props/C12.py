"""C12 — Any sequence of public API calls is memory-safe, leak-free and never spins."""
import vlib, tabgen, sim_common as sc

COQ_TARGETS = ["Props/Properties_C12.vo"]
META = dict(
    text="proof (partial): (a) the reference graph of a component (sockets incl. TURN sockets layered on a base socket, local / remote candidates with their "
         "sockptr, check pairs, triggered queue, selected pair, turn_candidate, incoming checks, socket sources, discovery and refresh items) is modelled in "
         "Coq with the removal functions written statement for statement after the C (conn_check_prune_socket, nice_component_detach_socket, "
         "refresh_prune_candidate, candidate removal, nice_component_remove_socket, conn_check_prune_stream, nice_component_close / tear-down); freeing = "
         "removal from the live set, a use of a freed object / failed assertion is an explicit fault. Proved for ALL states: each removal step keeps every "
         "reference pointing to a live object and removes every reference to what it frees; tear-down empties every container; remove_socket leaves no incoming "
         "check on the socket. NOT proved: well-formedness preservation for the whole of nice_component_remove_socket — four `_refuted` witnesses show it fails "
         "when a TURN socket is layered on the removed socket (reproduced on fabricated component states of the real code under ASan; reachability through the "
         "public API not shown, see DESIGN.md). The model is tied to agent/component.c, conncheck.c, discovery.c on every run by a harness that fabricates "
         "id-tagged objects in a real NiceAgent, calls the real functions and walks every reference (2400 states quick, compared inside Coq). (b) the one arithmetic clause — timers are re-armed with an interval computed from the next due time — is proved for the keepalive "
         "timer over a model whose constants and statements are checked against agent/conncheck.c on every run: a tick that sends comes back after Ta, a tick "
         "with nothing due sleeps without unsigned wrap, never past the earliest pending keepalive, zero interval only within 1 ms of a due keepalive. Memory "
         "safety, leak freedom and socket release are properties of the C runtime that no Gallina model of this code base can carry: they are NOT proved; real "
         "agents execute random API programs (<= 60 calls over add/remove stream, gather, credentials, candidates, SDP generate/parse, relay info, restart, send, "
         "attach/detach, selected pair / remote candidate, consent lost, forget relays, close_async, unref; valid and stale ids; main-loop iterations, peer traffic, "
         "black holes, scripted servers in between) in the deterministic simulator built with ASan+UBSan+LSan; oracles: no abort/assertion, no sanitizer report, no "
         "leak at exit, no socket left open, main loop goes back to sleep (spin detector) and idle dispatch rate within the timers' periods.",
    note="trusted: Coq kernel for the small arithmetic theorem; otherwise sanitizers + simulator. Partial by nature: runtime memory behaviour cannot be modelled.",
    technique="Coq proofs over a reference-graph model of component tear-down (differential tie on fabricated states of the real code) and of the keepalive re-arm arithmetic + sanitizer-instrumented random API programs in the deterministic simulator and ICE-TCP life cycles on real loopback agents")
FINISH = dict(level="proof", trusted=["clang ASan/UBSan/LSan", "harness/sim.c", "lib/tabgen.py::consent_tables (statement shape)"],
              rule="API programs per props/sim_common.py::gen_api_program; non-trivial = a component reaches READY at some point",
              assumptions=["single-threaded use of the agent from one main context", "UDP candidates, TURN over UDP"])


def pregen():
    return tabgen.consent_tables()


def prebuild():
    import C02
    s, o = sc.build_sim()
    if not s:
        return o
    e, o = C02.build_impl()
    return None if e else o


def oracle(line, evs, meta):
    return sc.oracle_api_program(evs, meta, meta.get("_out", ""))


# ------------------------------------------------------------------ ICE-TCP life cycles (real loopback TCP, harness/data_h.c of C02)
def gen_tcp_life(rng, i):
    """two real agents over loopback ICE-TCP (one process per case, ASan+UBSan+LSan): traffic, then one side's connection goes away - its
    stream is removed (D) or the network drops the connection (L) - while the other side keeps using the API: state / selected pair /
    remote candidates / send (Q), scatter sends, receive calls, attach / detach, long idle periods (keepalives on the dead pair)."""
    rel = rng.random() < 0.3
    cfg = "r%db%dk%ds%d" % (rel, 1 if rel and rng.random() < 0.5 else 0, rng.randrange(2), rng.randrange(1, 1000))
    ops, ctr = [], [1]

    def send(a):
        ctr[0] += 1
        return "S%d;%s;g%d" % (a, rng.choice(["5", "100", "1.2.3", "1200", "63488.100", "20000.20000.30000", "0.7.0"]), ctr[0])
    for _ in range(rng.randrange(0, 4)):
        ops.append(send(rng.randrange(2)))
        if rng.random() < 0.6:
            ops.append("P")
    if rng.random() < 0.3:
        ops.append("W%d;%s" % (rng.randrange(2), rng.choice(["7", "1.b", "100.b.b"])))       # a partial write / blocked socket leaves bytes queued
        ops.append(send(rng.randrange(2)))
    victim = rng.randrange(2)
    other = 1 - victim
    attached = [True, True]
    ops.append(rng.choice(["D%d", "L%d", "L%d"]) % victim)
    for _ in range(rng.randrange(2, 12)):
        r = rng.random()
        if r < 0.2: ops.append("P")
        elif r < 0.3: ops.append("p%d" % rng.choice([other, other, victim]))
        elif r < 0.4: ops.append("t%d;%d" % (other, rng.choice([1, 100, 3000, 30000])))
        elif r < 0.6: ops.append("Q%d" % rng.choice([other, other, victim]))
        elif r < 0.72: ops.append(send(rng.choice([other, other, victim])))
        elif r < 0.8:
            # the receive call must not be combined with a receive callback (API documentation): detach first
            if attached[other]:
                ops.append("C%d;0" % other); attached[other] = False
            ops.append("G%d;%s" % (other, rng.choice(["70000", "3.70000", "0.70000"])))
        elif r < 0.88:
            attached[other] = not attached[other]
            ops.append("C%d;%d" % (other, int(attached[other])))
        elif r < 0.94: ops.append("T%d" % rng.choice([50, 6000, 31000]))
        else: ops.append(rng.choice(["D%d", "L%d"]) % rng.randrange(2))
    ops += ["P", "Q0", "Q1", "P"]
    return "tl%d %s %s" % (i, cfg, " ".join(ops)), {"kind": "tcp-life-" + ("reliable" if rel else "plain")}


def tcp_lifecycle(chk):
    import C02
    impl, o = C02.build_impl()
    if not impl:
        chk.broken_obligation("impl-build-data_h", o[-3000:]); return
    n = 64 if chk.tier == "quick" else 3000
    cases = [gen_tcp_life(chk.rng, i) for i in range(n)]
    lines = [c[0] + "\n" for c in cases]
    nviol = notready = 0
    for lo in range(0, len(lines), 256):
        part = lines[lo:lo + 256]
        outs, errs = vlib.run_sharded(impl, part, nshards=len(part), timeout=600, env=dict(LSAN_OPTIONS="max_leaks=4", ASAN_OPTIONS="detect_leaks=1:abort_on_error=0"))      # one process per case
        for idx, rc, se in errs:
            nviol += 1
            if nviol <= 3:
                chk.violation({"kind": "impl-crash", "what": "tcp-life-C12", "case": cases[lo + idx][0], "rc": rc, "stderr": se[-3000:]},
                              "tcp-life-C12: implementation crashed, aborted, leaked or sanitizer report (rc=%s) on case: %s\n%s" % (rc, cases[lo + idx][0][:300], se[-1500:]))
        for k, out in enumerate(outs):
            line, meta = cases[lo + k]
            chk.count_case(line, out is not None and " READY" in out and " q" in out, meta["kind"])
            if out is not None and " NOTREADY" in out:
                notready += 1
            if lo + k < 2 and out is not None:
                chk.sample({"case": line[:300], "impl": out[:300]})
    chk.cov["correspondence"]["tcp-life-C12"] = {"cases": len(cases), "not_ready": notready}
    if notready * 4 > len(cases):
        chk.broken_obligation("harness:tcp-life-C12", "%d of %d cases did not reach READY over loopback TCP" % (notready, len(cases)))


def valid_list_stage(chk):
    """component->valid_candidates (copies kept for the source-address gate) over MORE addresses than the list holds (50 + 1): the evicted copy
    must be released.  Real nice_component_add_valid_candidate through harness/gate_h.c, one process per case, LeakSanitizer at exit."""
    objs, l = vlib.repo_objects(vlib.AGENT_SRCS + vlib.SOCKET_SRCS + vlib.STUN_SRCS + ["agent/agent-enum-types.c"])
    impl, o = vlib.link("gate_h", ["gate_h.c"], objs) if objs else (None, l)
    if not impl:
        chk.broken_obligation("impl-build-gate", (o or "")[-2000:]); return
    rng = chk.sub_rng("valid-list")
    cases = []
    for i in range(24 if chk.tier == "quick" else 400):
        naddr = rng.choice([3, 50, 51, 52, 53, 60, 120, 200, rng.randrange(1, 400)])
        ops = ["A%d:%d" % (rng.choice([0, 0, 0, 1, 2, 3]), k) for k in range(naddr)]
        ops += ["A0:%d" % rng.randrange(naddr) for _ in range(rng.randrange(0, 30))]
        rng.shuffle(ops)
        cases.append("v%d %s\n" % (i, " ".join(ops)))
    outs, errs = vlib.run_sharded(impl, cases, nshards=len(cases), timeout=300, env=dict(LSAN_OPTIONS="max_leaks=4", ASAN_OPTIONS="detect_leaks=1:abort_on_error=0"))
    for n, (idx, rc, se) in enumerate(errs):
        if n < 3:
            chk.violation({"kind": "impl-crash", "what": "valid-list-C12", "case": cases[idx].strip()[:4000], "rc": rc, "stderr": se[-3000:]},
                          "valid-list-C12: leak / sanitizer report (rc=%s) after %d authenticated source addresses on one component:\n%s" % (rc, cases[idx].count(" A"), se[-1500:]))
    for k, out in enumerate(outs):
        chk.count_case(cases[k], cases[k].count(" A") > 51, "valid-list")
    chk.cov["correspondence"]["valid-list-C12"] = {"cases": len(cases), "failed": len(errs)}


# minimised / original triggers of the defects these programs found (they run on every tier): e3eeaf1 (pruning without a selected pair), 0b161c7
# (key leak in the FORBIDDEN branch, OC2007), cbdb5cd (nominated pair without selected pair, WLM2009)
API_CORPUS = [
    ('apiK1 seed,958982350 agent,0,4,1,32,10.0.0.1,10.0.0.2 agent,1,4,0,1,10.0.1.1 net,0,0.1,1,30,3 stream,0,1 stream,1,1 gather,0,1 gather,1,1 run,0 cands,1,0,1,1 run,20 creds,1,0,1 run,200 creds,0,1,1 run,20 cands,0,1,1,1 run,0 send,1,1,3,20000,79 gather,1,1 run,25 gather,1,1 set_selected,0,1,1 send,0,1,9,20000,62 creds,0,1,1 sdpgen,0 sdpbad,1,0,2 forget,0,1,3 hole,10.0.0.1,10.0.1.1,off stream,1,2 gather,0,7 creds,1,0,1 run,25 peerrfx,0,1,2,2 gather,1,2 gather,0,1 recvfail,10.0.0.1,2 run,31000 stream,1,2 detach,0,1,2 sdpgen,0 sdpbad,1,0,4 sendfail,10.0.0.1,off run,1 recvfail,10.0.0.1,0 sdpgen,0 sdpbad,1,0,5 run,10 sdpgen,1 sdpbad,0,1,3 set_selected,0,1,1 restart,0 creds,0,1,1 run,3000 tracetimers,1 run,20000,idle tracetimers,0 unref,0 close,1 run,0 unref,1 run,50', {"kind": "api-program", "ncomp": 1}),
    ('apiK2 seed,752364078 agent,0,4,1,33,10.0.0.1,10.0.0.2 agent,1,4,0,33,10.0.1.1 net,0.2,0,1,1,3 stream,0,1 stream,1,1 gather,0,1 gather,1,1 run,30 creds,1,0,1 cands,0,1,1,1 creds,0,1,1 run,20 cands,1,0,1,1 run,1 run,300 stream,0,1 consent_lost,0,1,1 set_selected,1,1,2 creds,1,0,1 run,10 consent_lost,0,1,1 remove_stream,1,7 run,300 setremote,1,3,2 sendfail,10.0.1.1,off remove_stream,1,1 stream,0,2 sendfail,10.0.0.1,off attach,1,1,2 detach,1,0,1 restart,1 setalien,0,3,2,0 send,0,1,2,1472,137 cands,1,0,2,1 creds,1,0,2 attach,0,1,2 restart,0 set_selected,1,1,2 restart_stream,1,2 run,10 forget,0,1,1 creds,1,0,2 tos,0,1,46 creds,0,1,2 peerrfx,0,1,1,2 remotecands,0,7,1 remove_stream,0,0 localcands,1,7,9 gather,1,1 gather,0,1 remove_stream,0,1 cands,1,0,2,1 attach,0,1,1 creds,1,0,1 creds,1,0,1 cands,1,0,1,2 consent_lost,1,1,2 restart,1 run,0 recvfail,10.0.0.1,0 stream,1,2 recvfail,10.0.1.1,0 stream,0,1 run,3000 tracetimers,1 run,20000,idle tracetimers,0 close,1 run,3000 unref,1 unref,0 run,0', {"kind": "api-program", "ncomp": 1}),
    ('apiK3 seed,991379550 agent,0,3,1,0,10.0.0.1 agent,1,3,0,0,10.0.1.1 stream,0,1 stream,1,1 hole,10.0.1.1,10.0.0.1,on gather,0,1 gather,1,1 run,10 creds,0,1,1 cands,1,0,1,1 creds,1,0,1 run,200 cands,0,1,1,1 run,3000 tracetimers,1 run,20000,idle tracetimers,0 unref,0 unref,1 run,50', {"kind": "api-program", "ncomp": 1}),
]


def run(chk):
    gi, err = pregen()
    if gi is None:
        chk.broken_obligation("translator/table-extractor", err)
    chk.prove(["Props/Properties_C12.v"])
    n = 1500 if chk.tier == "quick" else 60000
    cases = API_CORPUS + [sc.gen_api_program(chk.rng, i) for i in range(n)]
    sc.run_sim(chk, cases, oracle, "sim-C12", leaks=True, compare=False)
    tcp_lifecycle(chk)
    valid_list_stage(chk)
    import c12_own
    c12_own.own_tie(chk)
    return chk.finish(**FINISH)


def replay(chk, path):
    import C11
    return C11.replay(chk, path)
