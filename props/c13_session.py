"""C13, session level: the tie between coq/Agent/ConsentSessionModel.v and the C code.

consent_session_shape()  every C statement the session model depends on (beyond those lib/tabgen.py consent_tables() already
                         checks) must be present verbatim - comments removed, whitespace normalised - inside the function it is
                         modelled from; STUN_AGENT_MAX_SAVED_IDS and the STUN error codes are read from the headers and
                         coq/Gen/ConsentSession.v is regenerated.  Returns (info, "") or (None, "<file> no longer contains ...").
session_tie(chk, traces) trace validation: the events an agent saw in a simulator run (real libnice) are replayed through the model
                         inside Coq (vm_compute); the instants of FAILED, the results of the application's sends, the 200 / 403
                         answers and the consent checks the model predicts are compared with the trace.
"""
import os, re
import vlib

G_IO_ERROR_PERMISSION_DENIED = 14


def _flat(txt):
    return re.sub(r"\s+", " ", re.sub(r"/\*.*?\*/", " ", txt, flags=re.S))


def _func(src, name):
    """text of the definition of C function `name` (the name, possibly after its return type, starts a line; prototypes and calls are skipped), or None"""
    for m in re.finditer(r"^(?:[\w\*]+[ \t]+)*\*?%s\s*\(" % re.escape(name), src, re.M):
        brace = src.find("{", m.end())
        semi = src.find(";", m.end())
        if brace < 0 or (0 <= semi < brace):
            continue                      # a prototype
        end = src.find("\n}", brace)
        if end < 0:
            continue
        return src[m.start():end + 2]
    return None


# (file, function or None = whole file, statement)
SHAPE = [
    # ---- the consent timer
    ("agent/conncheck.c", "priv_conn_remote_consent_tick_agent_locked",
     "if (pair->remote_consent.tick_source) { g_source_destroy (pair->remote_consent.tick_source); g_source_unref (pair->remote_consent.tick_source); } pair->remote_consent.tick_source = NULL;"),
    ("agent/conncheck.c", "priv_conn_remote_consent_tick_agent_locked", "now = g_get_monotonic_time(); if (now - pair->remote_consent.last_received > consent_timeout) {"),
    ("agent/conncheck.c", "priv_conn_remote_consent_tick_agent_locked", "pair->remote_consent.have = FALSE;"),
    ("agent/conncheck.c", "priv_conn_remote_consent_tick_agent_locked",
     "agent_signal_component_state_change (agent, pair->keepalive.stream_id, pair->keepalive.component_id, NICE_COMPONENT_STATE_FAILED); } else { guint64 delay = (consent_timeout - (now - pair->remote_consent.last_received)) / 1000;"),
    ("agent/conncheck.c", "priv_conn_remote_consent_tick_agent_locked",
     "agent_timeout_add_with_context (agent, &pair->remote_consent.tick_source, \"Pair remote consent\", delay, priv_conn_remote_consent_tick_agent_locked, pair); } return FALSE;"),
    # ---- the keepalive tick
    ("agent/conncheck.h", None, "#define NICE_AGENT_DO_KEEPALIVE_CONNCHECKS(obj) \\ ((obj)->consent_freshness || (obj)->keepalive_conncheck || (obj)->compatibility == NICE_COMPATIBILITY_GOOGLE)"),
    ("agent/conncheck.c", "priv_conn_keepalive_tick_unlocked", "now = g_get_monotonic_time ();"),
    ("agent/conncheck.c", "priv_conn_keepalive_tick_unlocked", "if (component->selected_pair.local != NULL) { CandidatePair *p = &component->selected_pair;"),
    ("agent/conncheck.c", "priv_conn_keepalive_tick_unlocked", "if (NICE_AGENT_DO_KEEPALIVE_CONNCHECKS (agent)) uname_len = priv_create_username ("),
    ("agent/conncheck.c", "priv_conn_keepalive_tick_unlocked", "if (uname_len > 0) { uint8_t *password = NULL;"),
    # the previous keepalive transaction of the pair is forgotten before the next check is built, the new one remembered (fix e9d3c51)
    ("agent/component.h", None,
     "struct _CandidatePairKeepalive { guint64 next_tick; guint stream_id; guint component_id; StunTimer timer; gboolean has_transaction; StunTransactionId transaction_id; };"),
    ("agent/component.h", None, "CandidatePairKeepalive keepalive;"),
    ("agent/conncheck.c", "priv_conn_keepalive_tick_unlocked",
     "if (p->keepalive.has_transaction) { stun_agent_forget_transaction (&component->stun_agent, p->keepalive.transaction_id); p->keepalive.has_transaction = FALSE; } buf_len = stun_usage_ice_conncheck_create (&component->stun_agent,"),
    ("agent/conncheck.c", "priv_conn_keepalive_tick_unlocked",
     "if (buf_len > 0) { stun_message_id (&stun_message, p->keepalive.transaction_id); p->keepalive.has_transaction = TRUE; double modifier = g_random_double() * 0.4 + 0.8;"),
    ("stun/stunagent.c", "stun_agent_forget_transaction",
     "for (i = 0; i < STUN_AGENT_MAX_SAVED_IDS; i++) { if (agent->sent_ids[i].valid == TRUE && memcmp (id, agent->sent_ids[i].id, sizeof(StunTransactionId)) == 0) { agent->sent_ids[i].valid = FALSE; return TRUE; } } return FALSE;"),
    ("agent/conncheck.c", "priv_conn_keepalive_tick_unlocked",
     "p->keepalive.next_tick = now + delay; if (p->remote_consent.have) { if (p->remote_consent.last_received == 0) { p->remote_consent.last_received = g_get_monotonic_time(); } priv_conn_remote_consent_tick_agent_locked (agent, p); }"),
    ("agent/conncheck.c", "priv_conn_keepalive_tick_unlocked",
     "agent_socket_send (p->local->sockptr, &p->remote->c.addr, buf_len, (gchar *) stun_buffer); next_timer_tick = now + agent->timer_ta * 1000; goto done; } else { ++errors; }"),
    ("agent/conncheck.c", "priv_conn_keepalive_tick_unlocked",
     "} else { uint8_t stun_buffer[STUN_MAX_MESSAGE_SIZE_IPV6]; StunMessage stun_message; buf_len = stun_usage_bind_keepalive (&component->stun_agent, &stun_message, stun_buffer, sizeof(stun_buffer)); if (buf_len > 0) { agent_socket_send (p->local->sockptr, &p->remote->c.addr, buf_len, (gchar *) stun_buffer); p->keepalive.next_tick = now + 1000 * NICE_AGENT_TIMER_TR_DEFAULT;"),
    ("agent/conncheck.c", "priv_conn_keepalive_tick_unlocked",
     "done: if (errors) { nice_debug (\"Agent %p : %s: stopping keepalive timer\", agent, G_STRFUNC); return FALSE; }"),
    ("agent/conncheck.c", "priv_conn_keepalive_tick_agent_locked",
     "ret = priv_conn_keepalive_tick_unlocked (agent); if (ret == FALSE) { if (agent->keepalive_timer_source) { g_source_destroy (agent->keepalive_timer_source); g_source_unref (agent->keepalive_timer_source); agent->keepalive_timer_source = NULL; } } return ret;"),
    # ---- a new selected pair
    ("agent/conncheck.c", "conn_check_update_selected_pair", "if (pair->priority > component->selected_pair.priority) {"),
    ("agent/conncheck.c", "conn_check_update_selected_pair",
     "cpair.remote_consent.have = TRUE; nice_component_update_selected_pair (agent, component, &cpair); priv_conn_keepalive_tick_unlocked (agent);"),
    ("agent/component.c", "nice_component_clear_selected_pair",
     "if (component->selected_pair.remote_consent.tick_source != NULL) { g_source_destroy (component->selected_pair.remote_consent.tick_source); g_source_unref (component->selected_pair.remote_consent.tick_source); component->selected_pair.remote_consent.tick_source = NULL; } memset (&component->selected_pair, 0, sizeof(CandidatePair));"),
    ("agent/component.c", "nice_component_update_selected_pair",
     "nice_component_clear_selected_pair (component); component->selected_pair.local = pair->local; component->selected_pair.remote = pair->remote; component->selected_pair.priority = pair->priority; component->selected_pair.stun_priority = pair->stun_priority; component->selected_pair.remote_consent.have = pair->remote_consent.have;"),
    ("agent/agent.c", "nice_agent_set_selected_pair",
     "if (component->state < NICE_COMPONENT_STATE_CONNECTING || component->state == NICE_COMPONENT_STATE_FAILED) agent_signal_component_state_change (agent, stream_id, component_id, NICE_COMPONENT_STATE_CONNECTING); if (component->state < NICE_COMPONENT_STATE_CONNECTED) agent_signal_component_state_change (agent, stream_id, component_id, NICE_COMPONENT_STATE_CONNECTED); agent_signal_component_state_change (agent, stream_id, component_id, NICE_COMPONENT_STATE_READY);"),
    ("agent/agent.c", "nice_agent_set_selected_pair", "pair.remote_consent.have = TRUE; nice_component_update_selected_pair (agent, component, &pair);"),
    # ---- answers
    ("agent/conncheck.c", "priv_map_reply_to_keepalive_conncheck", "guint64 now = g_get_monotonic_time();"),
    ("agent/conncheck.c", "priv_map_reply_to_keepalive_conncheck", "component->selected_pair.remote_consent.last_received = now; return TRUE;"),
    ("agent/conncheck.c", "conn_check_handle_inbound_stun", "if (valid == STUN_VALIDATION_UNMATCHED_RESPONSE) continue;"),
    ("agent/conncheck.c", "conn_check_handle_inbound_stun", "if (valid == STUN_VALIDATION_UNAUTHORIZED) {"),
    ("agent/conncheck.c", "conn_check_handle_inbound_stun", "if (valid == STUN_VALIDATION_FORBIDDEN) { CandidatePair *pair = &component->selected_pair;"),
    ("agent/conncheck.c", "conn_check_handle_inbound_stun",
     "if (pair->remote != NULL && nice_address_equal (from, &pair->remote->c.addr)) { pair->remote_consent.have = FALSE;"),
    ("agent/conncheck.c", "conn_check_handle_inbound_stun",
     "if (pair->remote_consent.tick_source) { g_source_destroy (pair->remote_consent.tick_source); g_source_unref (pair->remote_consent.tick_source); pair->remote_consent.tick_source = NULL; } agent_signal_component_state_change (agent, stream->id, component->id, NICE_COMPONENT_STATE_FAILED); } return TRUE; }"),
    ("agent/conncheck.c", "conn_check_handle_inbound_stun", "if (valid == STUN_VALIDATION_UNMATCHED_RESPONSE) { nice_debug (\"Agent %p : Valid STUN response for which we don't have a request, ignoring\", agent); return TRUE; }"),
    ("agent/conncheck.c", "conn_check_handle_inbound_stun", "if (valid != STUN_VALIDATION_SUCCESS) {"),
    ("agent/conncheck.c", "conn_check_handle_inbound_stun", "if (stun_message_get_class (&req) == STUN_REQUEST) {"),
    ("agent/conncheck.c", "conn_check_handle_inbound_stun",
     "if (trans_found != TRUE) trans_found = priv_map_reply_to_keepalive_conncheck (agent, component, &req);"),
    # ---- incoming checks and local revocation
    ("agent/conncheck.c", "conn_check_handle_inbound_stun", "if (!component->have_local_consent) {"),
    ("agent/conncheck.c", "conn_check_handle_inbound_stun",
     "if (stun_agent_init_error (&component->stun_agent, &msg, rbuf, rbuf_len, &req, STUN_ERROR_FORBIDDEN)) { rbuf_len = stun_agent_finish_message (&component->stun_agent, &msg, NULL, 0);"),
    ("agent/agent.c", "nice_agent_consent_lost", "if (!agent->consent_freshness) {"),
    ("agent/agent.c", "nice_agent_consent_lost", "component->stream_id, component->id); component->have_local_consent = FALSE; result = TRUE; }"),
    ("agent/component.c", "nice_component_restart", "cmp->have_local_consent = TRUE;"),
    ("agent/component.c", "nice_component_restart", "nice_agent_init_stun_agent (agent, &cmp->stun_agent);"),
    ("agent/component.c", "nice_component_init", "component->have_local_consent = TRUE;"),
    # ---- the send gate
    ("agent/agent.c", "nice_agent_send_messages_nonblocking_internal",
     "if (component->selected_pair.local != NULL && !component->selected_pair.remote_consent.have) { g_set_error (&child_error, G_IO_ERROR, G_IO_ERROR_PERMISSION_DENIED, \"Consent to send has been revoked by the peer\"); goto done; }"),
    # ---- the STUN agent of the component
    ("agent/agent.c", "nice_agent_init_stun_agent", "if (agent->consent_freshness) stun_usage |= STUN_AGENT_USAGE_CONSENT_FRESHNESS;"),
    ("stun/stunagent.c", "stun_agent_validate", "if (sent_id_idx == STUN_AGENT_MAX_SAVED_IDS) { return STUN_VALIDATION_UNMATCHED_RESPONSE; }"),
    ("stun/stunagent.c", "stun_agent_validate",
     "(error_code == STUN_ERROR_BAD_REQUEST || error_code == STUN_ERROR_UNAUTHORIZED || error_code == STUN_ERROR_STALE_NONCE || error_code == STUN_ERROR_TRY_ALTERNATE)) ||"),
    ("stun/stunagent.c", "stun_agent_validate", "if (ignore_credentials == 0 && key != NULL && key_len > 0) {"),
    ("stun/stunagent.c", "stun_agent_validate", "if (memcmp (sha, hash, sizeof (sha))) { stun_debug (\"STUN auth error: SHA1 fingerprint mismatch!\"); return STUN_VALIDATION_UNAUTHORIZED; }"),
    ("stun/stunagent.c", "stun_agent_validate",
     "if (agent->usage_flags & STUN_AGENT_USAGE_CONSENT_FRESHNESS && stun_message_get_class (msg) == STUN_ERROR) { if (stun_message_find_error (msg, &error_code) == STUN_MESSAGE_RETURN_SUCCESS && error_code == STUN_ERROR_FORBIDDEN) { return STUN_VALIDATION_FORBIDDEN; } } if (sent_id_idx != -1 && sent_id_idx < STUN_AGENT_MAX_SAVED_IDS) { agent->sent_ids[sent_id_idx].valid = FALSE; }"),
    ("stun/stunagent.c", "stun_agent_finish_message", "remember_transaction = (stun_message_get_class (msg) == STUN_REQUEST);"),
    ("stun/stunagent.c", "stun_agent_finish_message",
     "for (saved_id_idx = 0; saved_id_idx < STUN_AGENT_MAX_SAVED_IDS; saved_id_idx++) { if (agent->sent_ids[saved_id_idx].valid == FALSE) { break; } } } if (saved_id_idx == STUN_AGENT_MAX_SAVED_IDS) { stun_debug (\"WARNING: Saved IDs full. STUN message dropped.\"); return 0; }"),
]
ERROR_CODES = {"STUN_ERROR_TRY_ALTERNATE": 300, "STUN_ERROR_BAD_REQUEST": 400, "STUN_ERROR_UNAUTHORIZED": 401, "STUN_ERROR_FORBIDDEN": 403,
               "STUN_ERROR_STALE_NONCE": 438}


def consent_session_shape():
    srcs = {}
    for f, fn, st in SHAPE:
        if f not in srcs:
            try:
                srcs[f] = open(os.path.join(vlib.REPO, f)).read()
            except OSError:
                return None, "%s not found" % f
        if fn is None:
            where = srcs[f]
        else:
            where = _func(srcs[f], fn)
            if where is None:
                return None, "%s no longer contains the function `%s` the session model is written from" % (f, fn)
        if _flat(st) not in _flat(where):
            return None, "%s no longer contains the modelled statement `%s`%s" % (f, st, " (in %s)" % fn if fn else "")
    # the 403 branch comes before the branch of the remaining answers, the local-consent test before the ordinary reply
    h = _flat(_func(srcs["agent/conncheck.c"], "conn_check_handle_inbound_stun"))
    order = ["if (valid == STUN_VALIDATION_FORBIDDEN) {", "if (valid != STUN_VALIDATION_SUCCESS) {", "if (!component->have_local_consent) {",
             "res = stun_usage_ice_conncheck_create_reply (", "trans_found = priv_map_reply_to_keepalive_conncheck ("]
    pos = [h.find(x) for x in order]
    if -1 in pos or pos != sorted(pos):
        return None, "agent/conncheck.c no longer contains the modelled statement `%s` in the modelled order" % " ... ".join(order)
    # keepalive.has_transaction / transaction_id are touched by the keepalive tick only (and by the memset of a pair change)
    import glob
    for f in sorted(glob.glob(os.path.join(vlib.REPO, "agent", "*.c"))):
        txt = _flat(open(f).read())
        n = len(re.findall(r"has_transaction|keepalive\.transaction_id", txt))
        want = 5 if f.endswith("agent/conncheck.c") else 0
        if n != want:
            return None, "agent/%s no longer contains the modelled statement `keepalive.has_transaction / transaction_id used by priv_conn_keepalive_tick_unlocked only` (%d uses, %d modelled)" % (os.path.basename(f), n, want)
    m = re.search(r"#define\s+STUN_AGENT_MAX_SAVED_IDS\s+(\d+)", open(os.path.join(vlib.REPO, "stun/constants.h")).read())
    if not m:
        return None, "STUN_AGENT_MAX_SAVED_IDS not found in stun/constants.h"
    hdr = open(os.path.join(vlib.REPO, "stun/stunmessage.h")).read()
    for k, v in ERROR_CODES.items():
        if not re.search(r"\b%s\s*=\s*%d\s*," % (k, v), hdr):
            return None, "stun/stunmessage.h no longer contains the modelled statement `%s=%d`" % (k, v)
    text = ("(* GENERATED from stun/constants.h (shape of agent/conncheck.c, agent/component.c, agent/agent.c, stun/stunagent.c checked) "
            "by props/c13_session.py - do not edit *)\nFrom Coq Require Import ZArith.\nLocal Open Scope Z_scope.\n"
            "Definition MAX_SAVED_IDS : Z := %d.\n" % int(m.group(1)))
    vlib.write_if_changed(os.path.join(vlib.COQ, "Gen", "ConsentSession.v"), text)
    return {"statements": len(SHAPE), "max_saved_ids": int(m.group(1))}, ""


# ------------------------------------------------------------------------------------------------ trace validation
OPT_RELIABLE, OPT_CONSENT = 2, 32
TOL_MS = 3          # the trace is in ms, delivery instants are sender instant + delay: sub-millisecond order is not observable

COQ_DRIVER = r"""
From Coq Require Import ZArith List Bool.
Import ListNotations.
Local Open Scope Z_scope.
Definition ev (t : Z) (a : action) : event := {| time := t; what := a |}.
(* the consent timer is not visible in a trace: it is fired 1 us after it is due, as often as it is due before the next event *)
Fixpoint fire (fuel : nat) (c : cfg) (s : state) (limit : Z) (acc : list (Z * list output)) : state * list (Z * list output) :=
  match fuel with
  | O => (s, acc)
  | S f => match ct_timer s with
           | Some d => if d + 1 <=? limit then let r := step c s (ev (d + 1) ConsentTick) in fire f c (fst r) limit ((d + 1, snd r) :: acc) else (s, acc)
           | None => (s, acc)
           end
  end.
Fixpoint replay (c : cfg) (s : state) (evs : list event) (acc : list (Z * list output)) : list (Z * list output) :=
  match evs with
  | [] => rev acc
  | e :: r => let '(s1, acc1) := fire 3000 c s (time e) acc in let q := step c s1 e in replay c (fst q) r ((time e, snd q) :: acc1)
  end.
Definition code (o : output) : Z * Z :=
  match o with OState FAILED => (1, 0) | OState _ => (9, 0) | OSend true => (2, 1) | OSend false => (2, 0) | OAnswer k => (3, k)
             | OCheck tid => (4, tid) | OIndication => (5, 0) | ORevoke true => (6, 1) | ORevoke false => (6, 0) end.
Definition show (l : list (Z * list output)) : list (Z * Z * Z) := flat_map (fun p => map (fun o => (fst p, fst (code o), snd (code o))) (snd p)) l.
Definition cF : cfg := {| fresh := true; kcc := false; forget_prev := true |}.
"""


def _tid(e):
    for w in e.f:
        if w.startswith("tid="):
            return w[4:]
    return None


def _err(e):
    for w in e.f:
        if w.startswith("err="):
            return int(w[4:])
    return 0


def trace_to_model(evs, meta, x):
    """model events of agent x (component 1) from its selected-pair signal on, or None when the run is outside the scope of the replay.
    Returns (coq_events, expectations) where expectations lists what the trace shows, in order:
    ('failed', t_ms) / ('send', t_ms, ok) / ('answer', t_ms, code) / ('check', t_ms)."""
    if meta.get("kind") not in ("consent-blackout", "consent-idle", "consent-revoke") or meta.get("ncomp") != 1:
        return None
    opts = meta["opts"]
    if opts[0] & OPT_RELIABLE or not (opts[x] & OPT_CONSENT):
        return None
    delay = meta["delay"]; xs = str(x)
    sel = None; sel_t = None
    for e in evs:
        if e.kind == "sig" and e.f[0] == xs and e.f[1] == "selected-pair":
            if sel is not None:
                return None                       # the pair was replaced: one pair per replay
            sel = (e.f[4], e.f[5]); sel_t = e.t
    if sel is None:
        return None
    mine = [e for e in evs if e.kind == "pkt" and "stun" in e.f and "c0" in e.f and e.f[0] == sel[0] and e.f[1] == sel[1] and e.t >= sel_t]
    if not mine or mine[0].t != sel_t:
        return None                               # the first consent check leaves with the selection (conn_check_update_selected_pair)
    # other addresses in play (several candidates per side): out of scope
    if any(e.kind == "pkt" and "stun" in e.f and e.t >= sel_t and ((e.f[0] == sel[0]) != (e.f[1] == sel[1])) and (sel[0] in (e.f[0], e.f[1])) for e in evs):
        return None
    items = []          # (t_us, order, coq action, expectation or None)
    # which of x's requests on the pair are consent checks: the first one (sent with the selection) and then every request that leaves
    # once the re-arm delay (>= 4 s) of the previous consent check has run out; the others are ordinary checks still in flight, which
    # the model does not see.  The jitter of a consent check is read off the instant of the next one.
    tidmap = {}
    k = 0; i = 0; next_due = None
    while i < len(mine):
        e = mine[i]
        if next_due is not None and e.t < next_due:
            i += 1
            continue
        j = i + 1
        while j < len(mine) and mine[j].t - e.t < 4000:
            j += 1
        gap = (mine[j].t - e.t) if j < len(mine) else 5000
        m = max(800000, min(1199999, gap * 200))
        k += 1
        tidmap[_tid(e)] = k
        items.append((e.t * 1000, 1, ("NewPair ByNomination %d" if k == 1 else "KeepaliveTick %d") % m, ("check", e.t)))
        next_due = e.t + max(5000 * m // 1000000, 4000)
        i += 1
    if k >= 200:
        return None
    # A 403 answering one of the ORDINARY checks of x is matched by the component's StunAgent too (all transactions of the component share
    # the table) and conn_check_handle_inbound_stun compares only its SOURCE with the remote address of the selected pair
    # (nice_address_equal (from, &pair->remote->c.addr)), not the local address it arrives on: with several local addresses, a 403 sent by
    # the selected remote address in answer to a check x made from ANOTHER local address revokes the consent of the selected pair as well
    # (seen with VERIF_SEED=1: revocation 'mid', the 403 to a check from 10.0.1.1 arrives 5 ms after 10.0.1.3 > 10.0.0.2 was selected).
    # The model's table holds the consent checks only, so such runs are outside the replay: any 403 from the selected remote address that
    # reaches x after the selection and does not answer a consent check, whatever local address it is sent to.
    for e in evs:
        if e.kind == "pkt" and "stun" in e.f and "c3" in e.f and _err(e) == 403 and e.f[0] == sel[1] and e.f[2] in ("ok", "dup") \
                and e.t + delay >= sel_t and _tid(e) not in tidmap:
            return None
    stop = None
    failed_seen = False
    for e in evs:
        if e.t < sel_t:
            if e.kind == "api" and e.f[0] == xs and e.f[1] == "consent_lost":
                items.append((max(e.t, 1) * 1000, 3, "RevokeLocal", None))      # revoked before a pair was selected
            continue
        if e.kind == "sig" and e.f[0] == xs and e.f[1] == "state" and e.f[3] == "1":
            if e.f[4] == "FAILED":
                failed_seen = True
                items.append((e.t * 1000, 9, None, ("failed", e.t)))
            elif failed_seen:
                stop = e.t                         # the peer's checks revive the component: the rest of the agent takes over
                break
        elif e.kind == "pkt" and "stun" in e.f and e.f[0] == sel[1] and e.f[1] == sel[0] and e.f[2] in ("ok", "dup"):
            t = (e.t + delay) * 1000
            if "c2" in e.f or "c3" in e.f:
                code = _err(e) if "c3" in e.f else 0
                kind = "KSuccess" if "c2" in e.f else "(KError %d)" % code
                items.append((t, 0, "Answer %d true %s true" % (tidmap.get(_tid(e), 0), kind), None))
            elif "c0" in e.f:
                # the answer x gives to this check
                ans = next((a for a in evs if a.kind == "pkt" and "stun" in a.f and a.f[0] == sel[0] and a.f[1] == sel[1] and _tid(a) == _tid(e)
                            and ("c2" in a.f or "c3" in a.f)), None)
                if ans is not None:
                    items.append((t, 2, "IncomingCheck true", ("answer", e.t + delay, 200 if "c2" in ans.f else _err(ans))))
        elif e.kind == "api" and e.f[0] == xs and e.f[1] == "send" and e.f[3] == "1":
            ok = e.f[-1] != "=-1"
            if not ok and "err=%d" % G_IO_ERROR_PERMISSION_DENIED not in e.f:
                continue
            items.append((e.t * 1000, 3, "Send", ("send", e.t, ok)))
        elif e.kind == "api" and e.f[0] == xs and e.f[1] == "consent_lost":
            items.append((e.t * 1000, 3, "RevokeLocal", None))
    # a check that reaches x in the very millisecond of its own nice_agent_consent_lost() call: the trace does not say which of the two the agent saw
    # first (the simulator runs an API call before the deliveries due at the same instant, the replay orders them the other way round): out of scope
    rev = set(i[0] for i in items if i[2] == "RevokeLocal")
    if any(i[2] == "IncomingCheck true" and i[0] in rev for i in items):
        return None
    if stop is not None:
        items = [i for i in items if i[0] < stop * 1000]
    # an event without effect at the end of the observation, so that a consent timer due before it is fired
    end_t = stop if stop is not None else max(e.t for e in evs if e.kind == "api")
    items.append((end_t * 1000, 8, "SetCreds", None))
    items.sort(key=lambda i: (i[0], i[1]))
    return items


def _compare(items, shown):
    """shown: [(t_us, code, val)] printed by the model.  Returns None or a description of the first disagreement."""
    exp = [i[3] for i in items if i[3] is not None]
    t0 = items[0][0] // 1000
    mf = [t for t, c, v in shown if c == 1]
    tf = [e[1] for e in exp if e[0] == "failed"]
    if bool(mf) != bool(tf):
        return "FAILED: model %s, implementation %s" % (["t=%d us" % t for t in mf] or "never", ["t=%d ms" % t for t in tf] or "never")
    if mf and abs(mf[0] / 1000.0 - tf[0]) > TOL_MS:
        return "FAILED announced at t=%d ms by the implementation, the model predicts %.3f ms" % (tf[0], mf[0] / 1000.0)
    t_failed = tf[0] if tf else None
    ms = [(t, v) for t, c, v in shown if c == 2]
    ts = [e for e in exp if e[0] == "send"]
    if len(ms) != len(ts):
        return "the model produced %d send results for %d sends" % (len(ms), len(ts))
    for (t, v), e in zip(ms, ts):
        if t_failed is not None and abs(e[1] - t_failed) <= TOL_MS:
            continue                               # a send in the millisecond of the expiry: either order is legal
        if bool(v) != e[2]:
            return "send at t=%d ms: implementation %s, model %s" % (e[1], "passes" if e[2] else "permission error", "passes" if v else "permission error")
    ma = [(t, v) for t, c, v in shown if c == 3]
    ta = [e for e in exp if e[0] == "answer"]
    if len(ma) != len(ta):
        return "the model answered %d checks, the trace shows %d" % (len(ma), len(ta))
    for (t, v), e in zip(ma, ta):
        if v != e[2]:
            return "check received at t=%d ms: implementation answers %d, model %d" % (e[1], e[2], v)
    mc = sorted(t // 1000 for t, c, v in shown if c == 4)
    tc = sorted(e[1] for e in exp if e[0] == "check")
    late = [t for t in tc if t not in mc and t > t0 + 3000]
    if late:
        return "consent check sent at t=%d ms by the implementation; the model says the pair was not due (re-arm >= 4 s)" % late[0]
    return None


def session_tie(chk, traces, per_file=300):
    """traces: iterable of (evs, meta) - evs as returned by sim_common.parse_trace (or the raw output line), meta as produced by
    sim_common.gen_consent.  Every agent with consent freshness of every in-scope run is replayed."""
    import sim_common as sc
    jobs = []
    for evs, meta in traces:
        if isinstance(evs, str):
            _id, evs = sc.parse_trace(evs)
        for x in (0, 1):
            try:
                items = trace_to_model(evs, meta, x)
            except (IndexError, ValueError, KeyError):
                items = None
            if items:
                jobs.append((meta.get("kind", "?"), x, items, evs, meta))
    bad = []
    n_ok = 0
    for i in range(0, len(jobs), per_file):
        chunk = jobs[i:i + per_file]
        body = COQ_DRIVER
        for j, (_k, _x, items, _evs, _meta) in enumerate(chunk):
            evl = "; ".join("ev %d (%s)" % (t, a) for t, _o, a, _e in items if a is not None)
            body += "Definition r%d := show (replay cF (init CONNECTING None) [%s] []).\nEval vm_compute in r%d.\n" % (j, evl, j)
        rc, out = vlib.coq_eval(["Nice.Agent.ConsentSessionModel", "Nice.Gen.CompState"], body, timeout=1200)
        if rc != 0:
            chk.broken_obligation("correspondence:consent-session", "the replay of %d traces through ConsentSessionModel did not evaluate:\n%s" % (len(chunk), out[-1500:]))
            return
        blocks = re.split(r"\n\s*: list \(Z \* Z \* Z\)", out)
        if len(blocks) < len(chunk):
            chk.broken_obligation("correspondence:consent-session", "unexpected output of the replay (%d results for %d traces)\n%s" % (len(blocks), len(chunk), out[-800:]))
            return
        for (kind, x, items, evs_, meta_), blk in zip(chunk, blocks):
            shown = [(int(a), int(b), int(c)) for a, b, c in re.findall(r"\(\s*(\d+),\s*(\d+),\s*(-?\d+)\s*\)", blk)]
            why = _compare(items, shown)
            chk.count_case("consent-session %s agent %d" % (kind, x), True, "trace-" + kind)
            if why:
                bad.append("%s, agent %d: %s" % (kind, x, why))
                if os.environ.get("C13_TIE_DUMP"):      # debugging aid: the model events and what the model printed, one disagreement per block
                    with open(os.environ["C13_TIE_DUMP"], "a") as f:
                        f.write("=== %s agent %d: %s\n" % (kind, x, why))
                        for it in items:
                            f.write("   %r\n" % (it,))
                        f.write("   model: %r\n" % (shown,))
                        f.write("   meta: %r\n" % ({k: v for k, v in meta_.items() if k != "_out"},))
                        for e in evs_:
                            if e.kind in ("pkt", "sig", "api"):
                                f.write("      %r\n" % (e,))
            else:
                n_ok += 1
    chk.cov["traces_validated_against_impl"] = chk.cov.get("traces_validated_against_impl", 0) + n_ok
    if bad:
        chk.broken_obligation("correspondence:consent-session",
                              "%d of %d replayed agent traces disagree with ConsentSessionModel; first: %s" % (len(bad), len(jobs), "\n".join(bad[:5])))
    return n_ok, len(jobs)
