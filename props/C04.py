"""C04 — STUN validation accepts exactly RFC-correct integrity, fingerprint and txid."""
import vlib, stun_common as sc

COQ_TARGETS = ["Props/Properties_C04.vo"] + sc.COQ_TARGETS_COMMON
META = dict(
    text='Coq theorems over the executable model of stun_agent_validate/finish (Props/Properties_C04.v): for every message, agent state and validater, SUCCESS of a request under short-term credentials implies USERNAME+MESSAGE-INTEGRITY, a key bound to the USERNAME and MI = HMAC-SHA1(key, RFC prefix) per compatibility mode; any message past the fingerprint stage carries CRC-32 xor 0x5354554e (MS-ICE2 legacy disjunct stated); a response is accepted only with an outstanding request of the same id+method and consumes exactly one; the CRC table regenerated from source equals the polynomial table (complete 256-entry sweep). Model tied to the code on every run by differential execution (authentic/corrupted/replayed messages, 4 compat x flag sets) plus an independent python oracle (hashlib HMAC, zlib CRC).',
    note="trusted: Coq kernel; extraction (ExtrOcamlBasic only); the hand-written STUN models, tied to stun/*.c by sampling (differential execution under ASan/UBSan), not by proof; Gallina SHA-1/HMAC/MD5/CRC-32 specifications; gnutls; the python oracle. Proved for short-term credentials; the long-term (MD5 key) variant and 'whatever finish emits validates' are covered by the correspondence + oracle only (stated in DESIGN.md).",
    technique='Coq proof over executable model of validate/finish + differential correspondence + independent HMAC/CRC oracle')

FINISH = dict(level="proof", trusted=sc.TRUSTED, rule='programs: authentic requests/indications per compat+flags (python encoder) then single/multi-byte corruptions, wrong key, wrong-length MI, missing attributes; request/response/replay orders with forged txids and methods; build->finish->validate round trips; hostile attribute tilings. non-trivial = reaches validate past the length check or finishes a message',
              assumptions=["byte strings shorter than 2^16 (uint16 length arithmetic of stun_message_length wraps beyond)", "bytes are 0..255"])

KINDS = "auth,resp,roundtrip,hostile".split(",")
pregen = sc.pregen
prebuild = sc.prebuild


def extra(chk):
    pass


def run(chk):
    sc.run_stun(chk, "Props/Properties_C04.v", KINDS, ("C04",), 2500, 150000, "stun-C04")
    extra(chk)
    return chk.finish(**FINISH)


def replay(chk, path):
    return sc.replay_stun(chk, path)
