"""Independent STUN encoder (python, hashlib/zlib) + program generators shared by the STUN checks C04-C07."""
import hashlib, hmac, struct, zlib

COOKIE = bytes([0x21, 0x12, 0xa4, 0x42])
A_USERNAME, A_MI, A_ERR, A_REALM, A_NONCE, A_XMAP, A_PRIO, A_USECAND, A_SW, A_FPR, A_CTLD, A_CTLG = \
    0x6, 0x8, 0x9, 0x14, 0x15, 0x20, 0x24, 0x25, 0x8022, 0x8028, 0x8029, 0x802a
KNOWN = [0x0001, 0x0006, 0x0008, 0x0009, 0x000d, 0x0013, 0x0014, 0x0015, 0x0020, 0x0024, 0x0025, 0x0012, 0x0016, 0x000c]
F_SHORT, F_LONG, F_FPR, F_SW, F_IGN, F_NOIND, F_FORCE, F_NOALIGN, F_CONSENT = [1 << i for i in range(9)]


def hx(b):
    return bytes(b).hex() if len(b) else "-"


def msg_type(cls, method):
    return ((cls >> 1) | ((method >> 6) & 0x3e)) << 8 | (((cls << 4) & 0x10) | ((method << 1) & 0xe0) | (method & 0x0f))


def pad4(n):
    return (4 - n % 4) % 4


class Msg:
    def __init__(self, cls, method, txid, compat, flags):
        self.cls, self.method, self.compat, self.flags = cls, method, compat, flags
        t = bytes(txid)
        if compat in (1, 2):
            t = COOKIE + t[4:]
        self.txid = t
        self.body = b""
        self.padbyte = 0       # RFC 5389 15: padding bits are ignored and may be any value

    def has_cookie(self):
        return self.txid[:4] == COOKIE

    def add(self, ty, val, lenfield=None):
        val = bytes(val)
        if self.flags & F_NOALIGN:
            self.body += struct.pack(">HH", ty, len(val) if lenfield is None else lenfield) + val
        else:
            lf = len(val) if self.has_cookie() else len(val) + pad4(len(val))
            self.body += struct.pack(">HH", ty, lf if lenfield is None else lenfield) + val + bytes([self.padbyte]) * pad4(len(val))
        return self

    def raw(self, lenfield=None):
        return struct.pack(">HH", msg_type(self.cls, self.method), len(self.body) if lenfield is None else lenfield) + self.txid + self.body

    def mi(self, key, long_term=None):
        """append MESSAGE-INTEGRITY per compat (key = bytes; long_term=(user, realm) -> md5 key)"""
        if long_term:
            key = hashlib.md5(long_term[0] + b":" + long_term[1] + b":" + key).digest()
        total = len(self.body) + 24
        with_fpr = 8 if (self.compat == 2 and self.flags & F_FPR) else 0
        fakelen = total + (with_fpr if self.compat == 2 else 0)
        m = struct.pack(">HH", msg_type(self.cls, self.method), fakelen) + self.txid + self.body
        if self.compat in (0, 2, 3):
            ln = 20 + total
            if (ln - 24) % 64:
                m += bytes(64 - (ln - 24) % 64)
        self.body += struct.pack(">HH", A_MI, 20) + hmac.new(key, m, hashlib.sha1).digest()
        return self

    def fpr(self, typo=False):
        """FINGERPRINT; typo=True: computed the way WLM 2009 did ([MS-ICE2] 3.1.4.8.2: one table entry mistyped), which only an MSICE2 agent may
        accept, and only from a peer that does not announce its implementation version"""
        total = len(self.body) + 8
        m = struct.pack(">HH", msg_type(self.cls, self.method), total) + self.txid + self.body
        self.body += struct.pack(">HHI", A_FPR, 4, ((crc32_typo(m) if typo else zlib.crc32(m)) ^ 0x5354554e) & 0xffffffff)
        return self


_CRC_TAB = []


def crc32_typo(data):
    """CRC-32 with table entry 0x8bbeb8ea read as 0x08bbe8ea (stun/stuncrc32.c, wlm2009_stupid_crc32_typo)"""
    if not _CRC_TAB:
        for i in range(256):
            c = i
            for _ in range(8):
                c = (c >> 1) ^ 0xedb88320 if c & 1 else c >> 1
            _CRC_TAB.append(c)
    crc = 0xffffffff
    for b in data:
        lkp = _CRC_TAB[(crc ^ b) & 0xff]
        if lkp == 0x8bbeb8ea:
            lkp = 0x08bbe8ea
        crc = lkp ^ (crc >> 8)
    return crc ^ 0xffffffff


def parse(buf, no_align=False):
    """independent parser: returns (cls, method, txid, [(type, value, value_offset)]) or None if not well-formed"""
    if len(buf) < 20 or buf[0] >> 6:
        return None
    t, l = struct.unpack(">HH", buf[:4])
    if 20 + l != len(buf):
        return None
    if not no_align and l % 4:
        return None
    attrs, off = [], 20
    while off < len(buf):
        if off + 4 > len(buf):
            return None
        ty, al = struct.unpack(">HH", buf[off:off + 4])
        step = al if no_align else al + pad4(al)
        if off + 4 + step > len(buf):
            return None
        attrs.append((ty, buf[off + 4:off + 4 + al], off + 4))
        off += 4 + step
    if t == 0x0115:
        t = 0x0017
    cls = ((t & 0x0100) >> 7) | ((t & 0x0010) >> 4)
    method = ((t & 0x3e00) >> 2) | ((t & 0x00e0) >> 1) | (t & 0x000f)
    return cls, method, buf[4:20], attrs


def rand_txid(rng):
    return bytes(rng.randrange(256) for _ in range(16))


def rand_attr(rng):
    """(type, value) mostly typed sensibly"""
    r = rng.random()
    if r < 0.15:
        return A_PRIO, struct.pack(">I", rng.randrange(1 << 32))
    if r < 0.25:
        return rng.choice([A_CTLG, A_CTLD]), struct.pack(">Q", rng.randrange(1 << 64))
    if r < 0.32:
        return A_USECAND, b""
    if r < 0.45:
        fam = rng.choice([1, 1, 2])
        return rng.choice([1, A_XMAP, 0x12, 0x16]), bytes([0, fam]) + struct.pack(">H", rng.randrange(65536)) + bytes(rng.randrange(256) for _ in range(4 if fam == 1 else 16))
    if r < 0.55:
        code = rng.choice([300, 400, 401, 403, 420, 438, 487, 500, 699, 250, 700])
        return A_ERR, bytes([0, 0, (code // 100) | rng.choice([0, 0, 0, 0x08, 0xf8, rng.randrange(32) << 3]), code % 100]) + rng.choice([b"", b"err", b"Bad request"])
    if r < 0.65:
        return rng.choice([A_REALM, A_NONCE, A_SW]), bytes(rng.choice(b'abc"\x00 xyz') for _ in range(rng.randrange(0, 12)))
    if r < 0.75:
        return rng.choice([0x0d, 0x13, 0x8070, 0x8022]), bytes(rng.randrange(256) for _ in range(rng.choice([0, 1, 3, 4, 5, 8])))
    return rng.choice([rng.randrange(1, 0x30), rng.randrange(0x8000, 0x8080), 0xc001, rng.randrange(65536)]), \
        bytes(rng.randrange(256) for _ in range(rng.choice([0, 1, 2, 3, 4, 7, 8, 20, 21, 33])))
