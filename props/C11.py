"""C11 — Component states follow the documented machine and agree with other signals."""
import vlib, tabgen, sim_common as sc

COQ_TARGETS = ["Props/Properties_C11.vo"]

META = dict(
    text="proof (partial): Coq theorems over the whitelist and the states.gv edges REGENERATED from agent/agent.c and docs/reference/libnice/states.gv "
         "on every run: the sequence announced through the single choke point never repeats a state, only uses whitelisted transitions and ends in the "
         "state the getter returns, for every request sequence; documented edges are accepted and every accepted transition is documented (states.gv or the "
         "whitelist's own comments); each call site's request program is legal from every state its guard admits; the inventory of the 28 call sites is "
         "pinned. The cross-signal clauses (selected pair announced before CONNECTED/READY returns, gathering-done once per run, no signal after "
         "remove_stream, getter agreement) are validated on traces of real agents in the deterministic simulator (virtual clock + virtual UDP), which also "
         "searches for histories that trip the whitelist assertion.",
    note="trusted: Coq kernel, the text extractors (lib/tabgen.py), the simulator harness (sim.c replaces udp-bsd.c and clock_gettime), GLib. The site "
         "'nominated success response' is legal only under an agent invariant that is explored, not proved.",
    technique="Coq proof over regenerated whitelist/doc tables + call-site programs; trace validation on a deterministic two-agent simulator")
FINISH = dict(level="proof", trusted=["lib/tabgen.py extractors for the whitelist, states.gv and the call-site inventory", "harness/sim.c deterministic simulator over /repo's "
              "working tree (ASan+UBSan+LSan)", "python trace oracles in props/sim_common.py"],
              rule="lifecycle scenarios (gather, credentials/candidates in any order, restart, remove/re-add stream, forced selection, consent loss, black holes, sends) "
                   "and convergence scenarios; non-trivial = a component reaches READY",
              assumptions=["ICE-TCP and UPnP disabled in the simulator (UDP host / reflexive / relayed candidates only)"])


def pregen():
    return tabgen.component_state_tables()


def prebuild():
    s, o = sc.build_sim()
    return None if s else o


def oracle(line, evs, meta):
    return sc.oracle_states(evs, WL) or sc.oracle_checklist_sorted(evs)


WL = None


def run(chk):
    global WL
    info, err = pregen()
    if info is None:
        chk.broken_obligation("table-extractor", err)
    else:
        names = sc.STATES
        WL = set(info["pairs"]) | {(o, n) for o in names for n in info["any"]}
    chk.prove(["Props/Properties_C11.v"])
    n = 500 if chk.tier == "quick" else 20000
    cases = [sc.gen_lifecycle(chk.rng, i) for i in range(n)] + [sc.gen_convergence(chk.rng, i, "conv") for i in range(n // 3)]
    late = chk.sub_rng("latepeer")
    cases += [sc.gen_latepeer(late, i) for i in range(n // 4)]
    sc.run_sim(chk, cases, oracle, "sim-C11")
    return chk.finish(**FINISH)


def replay(chk, path):
    import json
    r = json.load(open(path))["replay"]
    sim, o = sc.build_sim()
    rc, so, se = vlib.run_lines(sim, r.get("case", "") + "\n")
    print(so.replace(" | ", "\n")[:6000]); print(se[-2000:])
    return 0
